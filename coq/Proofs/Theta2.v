(* Theta-2, rung 1: clause-order soundness of one SELECT (filters/sorts around one aggregate, then takes)
   and composition of take ranges.  Abstract rows; see DESIGN.md Appendix B. *)
From Coq Require Import List Arith Lia Bool Permutation Sorting.Sorted.
Import ListNotations.

Local Arguments Nat.ltb : simpl never.
Local Arguments Nat.sub : simpl never.
Local Arguments Nat.min : simpl never.
Section Atomic.
Variable row : Type.
Definition rel := list row.

(* ---------- take ranges (1-based inclusive, optional bounds) ---------- *)
Inductive range := Rg (s e : option nat).

Definition off_of (s : option nat) := match s with Some s => s - 1 | None => 0 end.

Definition take_range (r : range) (l : rel) : rel :=
  match r with
  | Rg s e =>
      let l' := skipn (off_of s) l in
      match e with Some e => firstn (e - off_of s) l' | None => l' end
  end.

(* mirror of range_of_ranges for two ranges (on nat, no overflow here) *)
Definition or_map (a b : option nat) (f : nat -> nat -> nat) :=
  match a, b with Some x, Some y => Some (f x y) | Some x, None => Some x | None, y => y end.

Definition compose (cur nxt : range) : range :=
  match cur, nxt with
  | Rg cs ce, Rg ns ne =>
      let s := or_map ns cs (fun a b => a + b - 1) in
      let e := match ne with Some b => Some (match cs with Some c => c | None => 1 end + b - 1) | None => None end in
      let e := or_map ce e Nat.min in
      Rg s e
  end.

Definition valid (r : range) :=
  match r with Rg s e =>
    (match s with Some s => 1 <= s | None => True end) /\
    (match e with Some e => 1 <= e | None => True end) end.

Lemma nth_error_ext (A : Type) (l1 l2 : list A) :
  (forall i, nth_error l1 i = nth_error l2 i) -> l1 = l2.
Proof.
  revert l2; induction l1 as [|a t IH]; intros [|b u] H; auto.
  - specialize (H 0); discriminate.
  - specialize (H 0); discriminate.
  - f_equal. + specialize (H 0); cbn in H; congruence.
    + apply IH; intros i; exact (H (S i)).
Qed.

Lemma nth_error_skipn (A : Type) n (l : list A) i : nth_error (skipn n l) i = nth_error l (n + i).
Proof. revert l; induction n; intros [|a t]; cbn; auto. now destruct i. Qed.

Lemma nth_error_firstn_lt (A : Type) n (l : list A) i : i < n -> nth_error (firstn n l) i = nth_error l i.
Proof.
  revert l i; induction n as [|n IH]; intros l i H; [lia|].
  destruct l as [|a t]; [reflexivity|]. destruct i as [|i]; [reflexivity|].
  rewrite firstn_cons. cbn [nth_error]. apply IH. lia.
Qed.

Lemma nth_error_firstn (A : Type) n (l : list A) i :
  nth_error (firstn n l) i = if i <? n then nth_error l i else None.
Proof.
  destruct (Nat.ltb_spec i n) as [H|H].
  - apply nth_error_firstn_lt; exact H.
  - apply nth_error_None. rewrite firstn_length. lia.
Qed.

Definition in_win (r : range) (i : nat) : bool :=
  match r with Rg s (Some e) => i <? e - off_of s | Rg s None => true end.
Definition start_of (r : range) := match r with Rg s _ => off_of s end.

Lemma nth_take r l i :
  nth_error (take_range r l) i = if in_win r i then nth_error l (start_of r + i) else None.
Proof.
  destruct r as [s [e|]]; cbn.
  - rewrite nth_error_firstn, nth_error_skipn. reflexivity.
  - apply nth_error_skipn.
Qed.

Theorem compose_sound r1 r2 l : valid r1 -> valid r2 ->
  take_range (compose r1 r2) l = take_range r2 (take_range r1 l).
Proof.
  intros V1 V2. apply nth_error_ext; intros i.
  rewrite !nth_take.
  destruct r1 as [[s1|] [e1|]], r2 as [[s2|] [e2|]]; cbn in *;
    destruct V1 as [V1 V1'], V2 as [V2 V2'];
    repeat match goal with
    | |- context [?a <? ?b] => destruct (Nat.ltb_spec a b)
    end; try reflexivity; try (f_equal; lia); try lia;
    try (symmetry; apply nth_error_None; lia).
Qed.


(* ---------- sorting (insertion sort) under a total, transitive, antisymmetric order ---------- *)
Definition cmp := row -> row -> bool.
Record good (c : cmp) : Prop := {
  g_total : forall x y, c x y = true \/ c y x = true;
  g_trans : forall x y z, c x y = true -> c y z = true -> c x z = true;
  g_antisym : forall x y, c x y = true -> c y x = true -> x = y }.

Fixpoint insert (c : cmp) (x : row) (l : rel) : rel :=
  match l with [] => [x] | y :: t => if c x y then x :: l else y :: insert c x t end.
Fixpoint isort (c : cmp) (l : rel) : rel :=
  match l with [] => [] | x :: t => insert c x (isort c t) end.

Definition le (c : cmp) x y := c x y = true.

Lemma insert_perm c x l : Permutation (insert c x l) (x :: l).
Proof.
  induction l as [|y t IH]; cbn; auto. destruct (c x y); auto.
  rewrite IH. apply perm_swap.
Qed.
Lemma isort_perm c l : Permutation (isort c l) l.
Proof. induction l; cbn; auto. rewrite insert_perm. auto. Qed.

Lemma insert_sorted c (G : good c) x l : StronglySorted (le c) l -> StronglySorted (le c) (insert c x l).
Proof.
  induction 1 as [|y t Ht IH Hy]; cbn; [repeat constructor|].
  destruct (c x y) eqn:E.
  - constructor; [constructor; auto|]. constructor; [exact E|].
    rewrite Forall_forall in *. intros z Hz. eapply g_trans; eauto. apply Hy; auto.
  - constructor; auto. rewrite Forall_forall in *. intros z Hz.
    apply (Permutation_in _ (insert_perm c x t)) in Hz. destruct Hz as [<-|Hz]; [|auto].
    destruct (g_total c G x y) as [H|H]; [congruence|exact H].
Qed.
Lemma isort_sorted c (G : good c) l : StronglySorted (le c) (isort c l).
Proof. induction l; cbn; [constructor|]. apply insert_sorted; auto. Qed.

Lemma sorted_perm_unique c (G : good c) l1 : forall l2,
  StronglySorted (le c) l1 -> StronglySorted (le c) l2 -> Permutation l1 l2 -> l1 = l2.
Proof.
  induction l1 as [|a t IH]; intros l2 S1 S2 P.
  - apply Permutation_nil in P; auto.
  - destruct l2 as [|b u]; [apply Permutation_sym, Permutation_nil in P; discriminate|].
    inversion S1 as [|? ? S1t Ha]; inversion S2 as [|? ? S2u Hb]; subst.
    rewrite Forall_forall in Ha, Hb.
    assert (a = b).
    { assert (In a (b :: u)) by (eapply Permutation_in; [exact P|left; auto]).
      assert (In b (a :: t)) by (eapply Permutation_in; [apply Permutation_sym; exact P|left; auto]).
      destruct H as [->|H]; auto. destruct H0 as [<-|H0]; auto.
      apply (g_antisym c G); [apply Ha|apply Hb]; auto. }
    subst. f_equal. apply IH; auto. eapply Permutation_cons_inv; eauto.
Qed.

Lemma filter_sorted c p l : StronglySorted (le c) l -> StronglySorted (le c) (filter p l).
Proof.
  induction 1 as [|y t Ht IH Hy]; cbn; [constructor|]. destruct (p y); auto.
  constructor; auto. rewrite Forall_forall in *. intros z Hz. apply filter_In in Hz. apply Hy, Hz.
Qed.

Lemma filter_perm p (l l' : rel) : Permutation l l' -> Permutation (filter p l) (filter p l').
Proof.
  induction 1; cbn; auto.
  - destruct (p x); auto.
  - destruct (p x), (p y); auto. apply perm_swap.
  - etransitivity; eauto.
Qed.

Lemma filter_isort c (G : good c) p l : filter p (isort c l) = isort c (filter p l).
Proof.
  apply (sorted_perm_unique c G).
  - apply filter_sorted, isort_sorted; auto.
  - apply isort_sorted; auto.
  - transitivity (filter p l); [apply filter_perm, isort_perm|apply Permutation_sym, isort_perm].
Qed.

Lemma isort_perm_eq c (G : good c) l l' : Permutation l l' -> isort c l = isort c l'.
Proof.
  intros P. apply (sorted_perm_unique c G); try apply isort_sorted; auto.
  transitivity l; [apply isort_perm|]. transitivity l'; [exact P|apply Permutation_sym, isort_perm].
Qed.

(* ---------- segments ---------- *)
Inductive fs := F (p : row -> bool) | S (c : cmp).
Definition agg := rel -> rel.

Definition apply_fs (x : fs) (l : rel) : rel :=
  match x with F p => filter p l | S c => isort c l end.
Definition run_fs (xs : list fs) (l : rel) : rel := fold_left (fun l x => apply_fs x l) xs l.

Definition preds (xs : list fs) : row -> bool :=
  fun r => forallb (fun x => match x with F p => p r | S _ => true end) xs.
Fixpoint last_sort (xs : list fs) : option cmp :=
  match xs with [] => None | S c :: t => (match last_sort t with Some c' => Some c' | None => Some c end)
              | F _ :: t => last_sort t end.
Definition sort_opt (o : option cmp) (l : rel) := match o with Some c => isort c l | None => l end.
Definition good_fs x := match x with F _ => True | S c => good c end.

Lemma filter_and (p q : row -> bool) (l : rel) : filter q (filter p l) = filter (fun r => p r && q r) l.
Proof. induction l as [|a t IH]; cbn; auto. destruct (p a); cbn; [destruct (q a)|]; rewrite ?IH; auto. Qed.

Lemma filter_ext' (p q : row -> bool) (l : rel) : (forall r, p r = q r) -> filter p l = filter q l.
Proof. intros H; induction l; cbn; auto. rewrite H, IHl; auto. Qed.

(* filters and sorts in any interleaving = WHERE (conjunction) then ORDER BY (last sort) *)
Lemma preds_snoc xs q r : preds (xs ++ [q]) r = preds xs r && preds [q] r.
Proof. unfold preds. now rewrite forallb_app. Qed.

Lemma last_sort_snoc_F xs p : last_sort (xs ++ [F p]) = last_sort xs.
Proof. induction xs as [|[q|c] t IH]; cbn; auto. now rewrite IH. Qed.
Lemma last_sort_snoc_S xs c : last_sort (xs ++ [S c]) = Some c.
Proof. induction xs as [|[q|c'] t IH]; cbn; auto. now rewrite IH. Qed.

Lemma sort_opt_perm o l : Permutation (sort_opt o l) l.
Proof. destruct o; cbn; [apply isort_perm|reflexivity]. Qed.

Lemma run_fs_normal xs : Forall good_fs xs -> forall l,
  run_fs xs l = sort_opt (last_sort xs) (filter (preds xs) l).
Proof.
  induction xs as [|x xs IH] using rev_ind; intros G l.
  - cbn. induction l; cbn; auto. f_equal; auto.
  - apply Forall_app in G as [G Gx]. inversion Gx as [|? ? Gx' _]; subst.
    unfold run_fs. rewrite fold_left_app. cbn [fold_left]. fold (run_fs xs l).
    rewrite (IH G l).
    destruct x as [p|c]; cbn [apply_fs].
    + rewrite last_sort_snoc_F.
      assert (E : filter (preds (xs ++ [F p])) l = filter p (filter (preds xs) l)).
      { rewrite filter_and. apply filter_ext'. intros r. rewrite preds_snoc. cbn. now rewrite andb_true_r. }
      rewrite E. destruct (last_sort xs) as [c|] eqn:L; cbn [sort_opt]; auto.
      apply filter_isort.
      clear - G L. induction xs as [|[q|c'] t IHt]; cbn in L; try discriminate.
      * inversion G; auto.
      * inversion G; subst. destruct (last_sort t) eqn:L'; [inversion L; subst; auto|inversion L; subst; auto].
    + rewrite last_sort_snoc_S. cbn [sort_opt].
      assert (E : filter (preds (xs ++ [S c])) l = filter (preds xs) l).
      { apply filter_ext'. intros r. rewrite preds_snoc. cbn. now rewrite andb_true_r. }
      rewrite E. apply isort_perm_eq; auto. apply sort_opt_perm.
Qed.

(* one SELECT: WHERE, [GROUP BY + HAVING], ORDER BY, LIMIT/OFFSET *)
Record select := { pre : list fs; aggr : option (agg * list fs); takes : list range }.

Definition compose_all (rs : list range) : range := fold_left compose rs (Rg None None).

Definition sem_select (q : select) (base : rel) : rel :=
  let r1 := filter (preds (pre q)) base in
  let '(r2, ord) :=
    match aggr q with
    | Some (g, post) => (filter (preds post) (g r1), last_sort post)
    | None => (r1, last_sort (pre q))
    end in
  take_range (compose_all (takes q)) (sort_opt ord r2).

Definition sem_pipeline (q : select) (base : rel) : rel :=
  let r1 := run_fs (pre q) base in
  let r2 := match aggr q with Some (g, post) => run_fs post (g r1) | None => r1 end in
  fold_left (fun l r => take_range r l) (takes q) r2.

Definition agg_ok (g : agg) := forall l l', Permutation l l' -> g l = g l'.

Lemma takes_compose rs : Forall valid rs -> forall r0 l, valid r0 ->
  fold_left (fun l r => take_range r l) rs (take_range r0 l) = take_range (fold_left compose rs r0) l.
Proof.
  induction 1 as [|r rs Hr Hrs IH]; intros r0 l V0; cbn; auto.
  rewrite <- compose_sound; auto. apply IH.
  destruct r0 as [[s0|] [e0|]], r as [[s|] [e|]]; cbn in *; intuition lia.
Qed.

Theorem atomic_sound q base :
  Forall good_fs (pre q) ->
  (match aggr q with Some (g, post) => agg_ok g /\ Forall good_fs post | None => True end) ->
  Forall valid (takes q) ->
  sem_select q base = sem_pipeline q base.
Proof.
  intros Gpre Gagg Vt. unfold sem_select, sem_pipeline.
  rewrite (run_fs_normal _ Gpre).
  destruct (aggr q) as [[g post]|].
  - destruct Gagg as [Gg Gpost]. rewrite (run_fs_normal _ Gpost).
    rewrite (Gg _ _ (sort_opt_perm (last_sort (pre q)) _)).
    unfold compose_all. rewrite <- takes_compose; cbn; auto.
  - unfold compose_all. rewrite <- takes_compose; cbn; auto.
Qed.

End Atomic.

(* C07 -- lemmas about the dialect construct tables of Model/DialectFeat.v. *)
From Coq Require Import List NArith Bool.
From PV Require Import Lib.ListX Model.SqlAst Model.DialectFeat.
Import ListNotations.
Local Open Scope N_scope.

Lemma in_bools b : In b bools.
Proof. destruct b; cbn; auto. Qed.

(* the finite table decides every take range: ranges enter only through "has an offset" / "has a limit" *)
Theorem take_table_sound {F} (uf bare : F -> bool) fs allow :
  take_table uf bare fs allow = true ->
  forall d f, In (d, f) fs -> forall ordered s e,
    (allow && take_known_b (uf f) ordered (has_off s) (has_lim e)) = false ->
    forallb (supported d) (take_uses (uf f) (bare f) ordered s e) = true.
Proof.
  unfold take_table. intros H d f Hin ordered s e Hk.
  rewrite forallb_forall in H. specialize (H _ Hin). cbn [fst snd] in H.
  rewrite forallb_forall in H. specialize (H ordered (in_bools _)).
  rewrite forallb_forall in H. specialize (H (has_off s) (in_bools _)).
  rewrite forallb_forall in H. specialize (H (has_lim e) (in_bools _)).
  rewrite Hk in H. rewrite orb_false_r in H. exact H.
Qed.

(* the same, stated on the two presence bits (what the value-level model of Model/SelectClauses.v refines to) *)
Theorem take_table_sound_b {F} (uf bare : F -> bool) fs allow :
  take_table uf bare fs allow = true ->
  forall d f, In (d, f) fs -> forall ordered ho hl,
    (allow && take_known_b (uf f) ordered ho hl) = false ->
    forallb (supported d) (take_uses_b (uf f) (bare f) ordered ho hl) = true.
Proof.
  unfold take_table. intros H d f Hin ordered ho hl Hk.
  rewrite forallb_forall in H. specialize (H _ Hin). cbn [fst snd] in H.
  rewrite forallb_forall in H. specialize (H ordered (in_bools _)).
  rewrite forallb_forall in H. specialize (H ho (in_bools _)).
  rewrite forallb_forall in H. specialize (H hl (in_bools _)).
  rewrite Hk in H. rewrite orb_false_r in H. exact H.
Qed.

(* an operator without a usable implementation -- `null` body or none at all -- is a compile error of the model *)
Theorem unsupported_is_error ops natives d op :
  existsb (leqb op) natives = false -> resolve_op ops d op <> Some false -> op_outcome ops natives d op = CompileError.
Proof.
  intros Hn Hr. unfold op_outcome. rewrite Hn.
  destruct (resolve_op ops d op) as [[|]|]; try reflexivity. congruence.
Qed.

(* a boolean table fact in either state: what it gives when the repair is in the source and when it is not *)
Lemma forallb_state {A} (f : A -> bool) (l : list A) (b : bool) : forallb f l = b ->
  (b = true -> forall x, In x l -> f x = true) /\ (b = false -> exists x, In x l /\ f x = false).
Proof.
  intros H. split; intros Hb; rewrite Hb in H.
  - intros x Hx. rewrite forallb_forall in H. now apply H.
  - clear Hb. induction l as [|a l IH]; cbn in H; [discriminate|].
    destruct (f a) eqn:E.
    + destruct (IH H) as (x & Hx & Fx). exists x. split; [now right | exact Fx].
    + exists a. split; [now left | exact E].
Qed.

(* C18: a compiler whose reads of option / header / chosen dialect all happen at inventoried sites, with an inventory
   satisfying [reads_table_ok], IS an instance of Model/Select.v's [compile_with] -- so every selection theorem transfers. *)
From Coq Require Import List NArith Bool Lia.
From PV Require Import Lib.ListX Model.Select Model.SelectReads Proofs.SelectProofs.
Import ListNotations.
Local Open Scope N_scope.

Lemma nth_error_in_T {A} (l : list A) n x : nth_error l n = Some x -> In x l.
Proof. apply nth_error_In. Qed.

Section Reads.
  Variable T : list site.
  Hypothesis TOK : reads_table_ok T = true.

  Lemma sites_ok e : In e T -> site_ok e = true.
  Proof.
    unfold reads_table_ok in TOK. repeat (apply andb_true_iff in TOK as [TOK _]).
    rewrite forallb_forall in TOK. apply TOK.
  Qed.

  (* outside the command line the only free reads are reads of the chosen dialect, and they are in the back end *)
  Lemma free_is_chosen st k i : st <> st_cli -> site_free T st k i = true -> k = k_chosen /\ st = st_back.
  Proof.
    intros NC H. unfold site_free in H. destruct (nth_error T (N.to_nat i)) as [e|] eqn:E; [|discriminate].
    apply andb_true_iff in H as [H F]. apply andb_true_iff in H as [K S].
    apply N.eqb_eq in K. apply N.eqb_eq in S.
    pose proof (sites_ok e (nth_error_in_T _ _ _ E)) as OK. unfold site_ok in OK.
    destruct (s_stage e =? st_cli) eqn:C; [apply N.eqb_eq in C; congruence|].
    apply andb_true_iff in OK as [OK R]. apply andb_true_iff in OK as [N9 N8].
    unfold free_class in F. rewrite K in R.
    destruct (k =? k_chosen) eqn:KC.
    - apply N.eqb_eq in KC. split; [exact KC|]. apply N.eqb_eq in R. congruence.
    - rewrite F in N9. discriminate.
  Qed.

  Lemma rk_chosen k : rk_code k = k_chosen -> k = RChosen.
  Proof. destruct k; cbn; intro H; try reflexivity; discriminate. Qed.

  (* the back end's result depends on the environment only through the chosen dialect *)
  Lemma run_back A (p : rd A) : reads_within T st_back p ->
    forall e e', e_chosen e = e_chosen e' -> run e p = run e' p.
  Proof.
    induction 1 as [a|k i c F _ IH]; intros e e' EQ; [reflexivity|].
    cbn [run]. apply free_is_chosen in F as [KC _]; [|discriminate]. apply rk_chosen in KC. subst k.
    cbn [answer]. rewrite EQ. apply IH. exact EQ.
  Qed.

  (* the front end's result does not depend on the environment at all: it has no site to read at *)
  Lemma run_front A (p : rd A) : reads_within T st_front p -> forall e e', run e p = run e' p.
  Proof.
    induction 1 as [a|k i c F _ IH]; intros e e'; [reflexivity|].
    apply free_is_chosen in F as [_ SB]; discriminate.
  Qed.

  Section Pipeline.
    Variable names : list str.
    Variable default : nat.
    Variable prefix any : str.
    Hypothesis Hok : table_ok names default any = true.
    Variable src rq sql : Type.
    Variable fe : src -> rd rq.
    Variable bk : rq -> rd sql.
    Hypothesis FE : forall s, reads_within T st_front (fe s).
    Hypothesis BK : forall q, reads_within T st_back (bk q).

    Notation crd := (compile_rd names default prefix any src rq sql fe bk).
    Notation gen := (gen_of default src rq sql fe bk).
    Notation cw := (compile_with names default prefix any src sql gen).
    Notation tname := (target_name names prefix).

    (* the refinement: the read-site pipeline is Model/Select.v's compile_with over the induced back end *)
    Lemma compile_rd_factor opt hdr s : crd opt hdr s = cw opt hdr s.
    Proof.
      unfold compile_rd, compile_with, gen_of.
      rewrite (run_front _ _ (FE s) {| e_opt := opt; e_hdr := hdr; e_chosen := default |}
                 {| e_opt := None; e_hdr := None; e_chosen := default |}).
      destruct (run {| e_opt := None; e_hdr := None; e_chosen := default |} (fe s)) as [q|].
      - destruct (select_dialect names default prefix any opt hdr) as [d|]; [|reflexivity].
        apply run_back; [apply BK|reflexivity].
      - destruct (select_dialect names default prefix any opt hdr); reflexivity.
    Qed.

    Lemma rd_option_eq_header d s : (d < length names)%nat -> crd (Some d) None s = crd None (Some (tname d)) s.
    Proof. intro Hd. rewrite !compile_rd_factor. apply (option_eq_header_sql names default prefix any Hok). exact Hd. Qed.

    Lemma rd_option_overrides_header d h h' s : crd (Some d) h s = crd (Some d) h' s.
    Proof. rewrite !compile_rd_factor. rewrite !(option_overrides_header_sql names default prefix any). reflexivity. Qed.

    Lemma rd_neither_is_default s : crd None None s = crd (Some default) None s.
    Proof.
      rewrite !compile_rd_factor. rewrite (neither_is_default_sql names default prefix any).
      rewrite (option_overrides_header_sql names default prefix any). reflexivity.
    Qed.

    Lemma rd_unknown_target_is_error h s :
      (forall d, (d < length names)%nat -> h <> tname d) -> h <> prefix ++ any -> crd None (Some h) s = Err.
    Proof. intros H1 H2. rewrite compile_rd_factor. apply (unknown_target_is_error_sql names default prefix any Hok); assumption. Qed.

    (* the resolver's verdict (and its output) is the same whatever the option and the header *)
    Lemma rd_resolver_ignores_target o h o' h' s :
      resolve_rd default src rq fe o h s = resolve_rd default src rq fe o' h' s.
    Proof. unfold resolve_rd. apply run_front. apply FE. Qed.
  End Pipeline.
End Reads.

(* Lemmas about Model/FloatFmt.v: the text emitted for a float literal denotes exactly the decimal value of the
   literal's spelling. *)
From Coq Require Import List NArith ZArith Bool Lia.
From PV Require Import Lib.ListX Model.SqlLex Model.Literal Model.FloatFmt Proofs.EscapeProofs Proofs.LiteralProofs.
Import ListNotations.
Local Open Scope N_scope.
Local Arguments N.eqb : simpl never.
Local Arguments N.leb : simpl never.
Local Arguments N.ltb : simpl never.
Local Arguments N.div : simpl never.
Local Arguments N.modulo : simpl never.
Local Arguments N.mul : simpl never.
Local Arguments N.add : simpl never.
Local Arguments N.sub : simpl never.
Local Arguments N.pow : simpl never.
Local Arguments N.log2 : simpl never.
Local Arguments Z.add : simpl never.
Local Arguments Z.sub : simpl never.
Local Arguments Z.of_nat : simpl never.

(* ------------------------------------------------------------------ normal forms *)

Lemma pow10_succ k : 10 ^ N.of_nat (S k) = 10 * 10 ^ N.of_nat k.
Proof. rewrite Nat2N.inj_succ. apply N.pow_succ_r'. Qed.

Lemma pow10_pos k : 10 ^ N.of_nat k <> 0.
Proof. apply N.pow_nonzero. discriminate. Qed.

Lemma strip10_scale : forall k fuel m e, m <> 0 -> m mod 10 <> 0 -> (k < fuel)%nat ->
  strip10 fuel (m * 10 ^ N.of_nat k) (e - Z.of_nat k)%Z = (m, e).
Proof.
  induction k as [|k IH]; intros fuel m e Hm Hd Hf; (destruct fuel as [|f]; [lia|]); cbn [strip10].
  - change (N.of_nat 0) with 0. rewrite N.pow_0_r, N.mul_1_r.
    apply N.eqb_neq in Hm. rewrite Hm. apply N.eqb_neq in Hd. rewrite Hd. f_equal. change (Z.of_nat 0) with 0%Z. lia.
  - rewrite pow10_succ.
    assert (m * (10 * 10 ^ N.of_nat k) = (m * 10 ^ N.of_nat k) * 10) as -> by lia.
    pose proof (pow10_pos k) as P.
    assert ((m * 10 ^ N.of_nat k) * 10 <> 0) as NZ by lia.
    apply N.eqb_neq in NZ. rewrite NZ.
    rewrite N.mod_mul by discriminate. replace (0 =? 0) with true by reflexivity.
    rewrite N.div_mul by discriminate.
    replace (e - Z.of_nat (S k) + 1)%Z with (e - Z.of_nat k)%Z by lia.
    apply IH; [assumption | assumption | lia].
Qed.

Lemma log2_scale m k : m <> 0 -> (k <= N.to_nat (N.log2 (m * 10 ^ N.of_nat k)))%nat.
Proof.
  intro Hm.
  assert (2 ^ N.of_nat k <= m * 10 ^ N.of_nat k) as H.
  { transitivity (10 ^ N.of_nat k).
    - apply N.pow_le_mono_l. lia.
    - pose proof (pow10_pos k). nia. }
  apply N.log2_le_mono in H. rewrite N.log2_pow2 in H by lia. lia.
Qed.

Lemma norm_dec_scale m e k : m <> 0 -> m mod 10 <> 0 -> norm_dec (m * 10 ^ N.of_nat k) (e - Z.of_nat k)%Z = (m, e).
Proof.
  intros Hm Hd. unfold norm_dec. apply strip10_scale; [assumption | assumption|].
  pose proof (log2_scale m k Hm). lia.
Qed.

Lemma norm_dec_normal m e : m <> 0 -> m mod 10 <> 0 -> norm_dec m e = (m, e).
Proof.
  intros Hm Hd. pose proof (norm_dec_scale m e 0 Hm Hd) as H.
  change (N.of_nat 0) with 0 in H. rewrite N.pow_0_r, N.mul_1_r in H.
  replace (e - Z.of_nat 0)%Z with e in H by (change (Z.of_nat 0) with 0%Z; lia). exact H.
Qed.

Lemma norm_dec_zero e : norm_dec 0 e = (0, 0%Z).
Proof. reflexivity. Qed.

(* every non-zero number is a multiple-of-ten-free part times a power of ten *)
Lemma decompose10 : forall m, m <> 0 -> exists m' k, m = m' * 10 ^ N.of_nat k /\ m' <> 0 /\ m' mod 10 <> 0.
Proof.
  intro m. induction m as [m IH] using (well_founded_induction N.lt_wf_0). intro Hm.
  destruct (N.eq_dec (m mod 10) 0) as [Z|NZ].
  - assert (m = 10 * (m / 10)) as E by (pose proof (N.div_mod' m 10); lia).
    assert (m / 10 <> 0) as Hq by lia.
    assert (m / 10 < m) as Hlt by (apply N.div_lt; lia).
    destruct (IH (m / 10) Hlt Hq) as (m' & k & E' & A & B).
    exists m', (S k). rewrite pow10_succ. split; [|split; assumption]. rewrite E at 1. rewrite E'. lia.
  - exists m, 0%nat. change (N.of_nat 0) with 0. rewrite N.pow_0_r, N.mul_1_r. auto.
Qed.

Lemma norm_dec_spec m e : m <> 0 ->
  exists m' k, norm_dec m e = (m', (e + Z.of_nat k)%Z) /\ m = m' * 10 ^ N.of_nat k /\ m' <> 0 /\ m' mod 10 <> 0.
Proof.
  intro Hm. destruct (decompose10 m Hm) as (m' & k & E & A & B). exists m', k. split; [|auto].
  rewrite E. replace e with ((e + Z.of_nat k) - Z.of_nat k)%Z at 1 by lia. apply norm_dec_scale; assumption.
Qed.

(* ------------------------------------------------------------------ digit strings *)

Lemma base_value_zeros : forall k a, base_value_acc 10 a (zeros k) = a * 10 ^ N.of_nat k.
Proof.
  induction k as [|k IH]; intro a.
  - cbn [zeros repeat base_value_acc]. change (N.of_nat 0) with 0. rewrite N.pow_0_r. lia.
  - unfold zeros. cbn [repeat base_value_acc]. fold (zeros k). rewrite IH, pow10_succ.
    replace (hex_val 48) with 0 by reflexivity. lia.
Qed.

Lemma zeros_digits k : forallb is_digit (zeros k) = true.
Proof. induction k; [reflexivity|]. unfold zeros. cbn [repeat forallb]. fold (zeros k). rewrite IHk. reflexivity. Qed.

Lemma zeros_length k : length (zeros k) = k.
Proof. apply repeat_length. Qed.

Lemma base_value_leading_zeros : forall k w, base_value_acc 10 0 (zeros k ++ w) = base_value_acc 10 0 w.
Proof.
  induction k as [|k IH]; intro w; [reflexivity|].
  unfold zeros. cbn [repeat app base_value_acc]. fold (zeros k). replace (0 * 10 + hex_val 48) with 0 by reflexivity. apply IH.
Qed.

Lemma span_digits w rest : forallb is_digit w = true -> match rest with c :: _ => is_digit c = false | [] => True end ->
  span_p is_digit (w ++ rest) = (w, rest).
Proof. apply span_p_app. Qed.

(* ------------------------------------------------------------------ the exponent *)

Lemma sql_exp_pos c w : is_digit c = true -> forallb is_digit w = true ->
  sql_exp (101 :: c :: w) = (Some (Z.of_N (base_value 10 (c :: w))), []).
Proof.
  intros Hc Hw. unfold sql_exp. replace ((101 =? 101) || (101 =? 69)) with true by reflexivity.
  apply is_digit_spec in Hc as R.
  replace (c =? 45) with false by (symmetry; apply N.eqb_neq; lia).
  replace (c =? 43) with false by (symmetry; apply N.eqb_neq; lia).
  assert (forallb is_digit (c :: w) = true) as A by (cbn [forallb]; rewrite Hc, Hw; reflexivity).
  pose proof (span_digits (c :: w) [] A I) as S. rewrite app_nil_r in S. rewrite S. reflexivity.
Qed.

Lemma sql_exp_neg c w : is_digit c = true -> forallb is_digit w = true ->
  sql_exp (101 :: 45 :: c :: w) = (Some (- Z.of_N (base_value 10 (c :: w)))%Z, []).
Proof.
  intros Hc Hw. unfold sql_exp. replace ((101 =? 101) || (101 =? 69)) with true by reflexivity.
  replace (45 =? 45) with true by reflexivity.
  assert (forallb is_digit (c :: w) = true) as A by (cbn [forallb]; rewrite Hc, Hw; reflexivity).
  pose proof (span_digits (c :: w) [] A I) as S. rewrite app_nil_r in S. rewrite S. reflexivity.
Qed.

Lemma sql_exp_emit_int x : sql_exp (101 :: emit_int x) = (Some x, []).
Proof.
  destruct x as [|p|p]; cbn [emit_int].
  - reflexivity.
  - destruct (digits_of_cons (Npos p)) as (c & w & E & Hc & Hw). pose proof (digits_of_value (Npos p)) as V.
    rewrite E in *. rewrite (sql_exp_pos c w Hc Hw), V. reflexivity.
  - destruct (digits_of_cons (Npos p)) as (c & w & E & Hc & Hw). pose proof (digits_of_value (Npos p)) as V.
    rewrite E in *. rewrite (sql_exp_neg c w Hc Hw), V. reflexivity.
Qed.

Lemma sql_exp_nil : sql_exp [] = (None, []).
Proof. reflexivity. Qed.

(* ------------------------------------------------------------------ reading back what was written *)

Lemma sql_frac_dot w rest : forallb is_digit w = true ->
  match rest with c :: _ => is_digit c = false | [] => True end -> sql_frac (46 :: w ++ rest) = (w, rest).
Proof. intros Hw Hr. unfold sql_frac. replace (46 =? 46) with true by reflexivity. apply span_digits; assumption. Qed.

Lemma forallb_firstn {A} (p : A -> bool) : forall n l, forallb p l = true -> forallb p (firstn n l) = true.
Proof.
  induction n as [|n IH]; intros [|a l] H; try reflexivity.
  cbn [forallb firstn] in *. apply andb_true_iff in H as [H1 H2]. rewrite H1, (IH l H2). reflexivity.
Qed.
Lemma forallb_skipn {A} (p : A -> bool) : forall n l, forallb p l = true -> forallb p (skipn n l) = true.
Proof.
  induction n as [|n IH]; intros [|a l] H; try reflexivity; [exact H|].
  cbn [forallb skipn] in *. apply andb_true_iff in H as [_ H2]. exact (IH l H2).
Qed.

Lemma zeros_app a b : zeros a ++ zeros b = zeros (a + b).
Proof. unfold zeros. symmetry. apply repeat_app. Qed.

Theorem emit_float_norm_value m e : m <> 0 -> m mod 10 <> 0 -> sql_number_value (emit_float_norm m e) = Some (m, e).
Proof.
  intros Hm Hd. unfold emit_float_norm.
  destruct (digits_of_cons m) as (c & w & E & Hc & Hw).
  pose proof (digits_of_value m) as V. pose proof (digits_of_all_digit m) as A. unfold base_value in V.
  rewrite E in *. clear E. cbn [length].
  set (n := S (length w)).
  destruct ((e + Z.of_nat n - 1 <? -4)%Z || (16 <=? e + Z.of_nat n - 1)%Z).
  - (* d.ddde<x> *)
    destruct w as [|c2 w2].
    + cbn [app]. unfold sql_number_value.
      change (c :: 101 :: emit_int (e + Z.of_nat n - 1)) with ([c] ++ 101 :: emit_int (e + Z.of_nat n - 1)).
      rewrite (span_digits [c] (101 :: emit_int (e + Z.of_nat n - 1)) A eq_refl).
      unfold sql_frac. replace (101 =? 46) with false by reflexivity.
      rewrite sql_exp_emit_int. cbn [app length]. unfold base_value. rewrite V.
      replace (e + Z.of_nat n - 1 - Z.of_nat 0)%Z with e by (subst n; cbn [length]; lia).
      rewrite norm_dec_normal by assumption. reflexivity.
    + cbn [app]. unfold sql_number_value.
      assert (forallb is_digit [c] = true) as A1 by (cbn [forallb]; rewrite Hc; reflexivity).
      change (c :: 46 :: c2 :: w2 ++ 101 :: emit_int (e + Z.of_nat n - 1))
        with ([c] ++ 46 :: (c2 :: w2) ++ 101 :: emit_int (e + Z.of_nat n - 1)).
      rewrite (span_digits [c] (46 :: (c2 :: w2) ++ 101 :: emit_int (e + Z.of_nat n - 1)) A1 eq_refl).
      rewrite (sql_frac_dot (c2 :: w2) (101 :: emit_int (e + Z.of_nat n - 1)) Hw eq_refl).
      rewrite sql_exp_emit_int. cbn [app]. unfold base_value. rewrite V.
      replace (e + Z.of_nat n - 1 - Z.of_nat (length (c2 :: w2)))%Z with e by (subst n; lia).
      rewrite norm_dec_normal by assumption. reflexivity.
  - destruct (0 <=? e)%Z eqn:Ee.
    + (* ddd000.0 *)
      apply Z.leb_le in Ee. set (k := Z.to_nat e).
      unfold sql_number_value. rewrite app_assoc.
      assert (forallb is_digit ((c :: w) ++ zeros k) = true) as A2 by (rewrite forallb_app, A, zeros_digits; reflexivity).
      rewrite (span_digits _ [46; 48] A2 eq_refl). cbn [app].
      assert (sql_frac [46; 48] = ([48], @nil N)) as -> by reflexivity. rewrite sql_exp_nil.
      change (c :: w ++ zeros k) with ((c :: w) ++ zeros k). rewrite <- app_assoc.
      change [48] with (zeros 1). rewrite zeros_app.
      change (c :: w ++ zeros (k + 1)) with ((c :: w) ++ zeros (k + 1)).
      unfold base_value. rewrite base_value_acc_app, V, base_value_zeros.
      replace (0 - Z.of_nat (length (zeros 1)))%Z with (e - Z.of_nat (k + 1))%Z by (rewrite zeros_length; subst k; lia).
      rewrite norm_dec_scale by assumption. reflexivity.
    + apply Z.leb_gt in Ee. set (k := Z.to_nat (- e)).
      destruct (k <? n)%nat eqn:Ek.
      * (* dd.ddd *)
        apply Nat.ltb_lt in Ek.
        assert (exists j, (n - k)%nat = S j) as [j Ej] by (exists (n - k - 1)%nat; lia). rewrite Ej.
        unfold sql_number_value.
        assert (forallb is_digit (firstn (S j) (c :: w)) = true) as A3 by (apply forallb_firstn, A).
        rewrite (span_digits _ (46 :: skipn (S j) (c :: w)) A3 eq_refl).
        cbn [firstn]. 
        assert (forallb is_digit (skipn (S j) (c :: w)) = true) as A4 by (apply forallb_skipn, A).
        rewrite <- (app_nil_r (skipn (S j) (c :: w))) at 1.
        rewrite (sql_frac_dot _ [] A4 I). rewrite sql_exp_nil.
        change (c :: firstn j w) with (firstn (S j) (c :: w)). rewrite firstn_skipn.
        unfold base_value. rewrite V.
        replace (0 - Z.of_nat (length (skipn (S j) (c :: w))))%Z with e.
        { rewrite norm_dec_normal by assumption. reflexivity. }
        rewrite skipn_length. change (length (c :: w)) with n. subst k. lia.
      * (* 0.000ddd *)
        apply Nat.ltb_ge in Ek. unfold sql_number_value.
        rewrite <- (app_nil_r (zeros (k - n) ++ c :: w)) at 1.
        change (48 :: 46 :: (zeros (k - n) ++ c :: w) ++ []) with ([48] ++ 46 :: (zeros (k - n) ++ c :: w) ++ []).
        rewrite (span_digits [48] (46 :: (zeros (k - n) ++ c :: w) ++ []) eq_refl eq_refl).
        assert (forallb is_digit (zeros (k - n) ++ c :: w) = true) as A5 by (rewrite forallb_app, zeros_digits, A; reflexivity).
        rewrite (sql_frac_dot _ [] A5 I). rewrite sql_exp_nil.
        change ([48] ++ zeros (k - n) ++ c :: w) with (zeros (S (k - n)) ++ c :: w).
        unfold base_value. rewrite base_value_leading_zeros, V.
        replace (0 - Z.of_nat (length (zeros (k - n) ++ c :: w)))%Z with e.
        { rewrite norm_dec_normal by assumption. reflexivity. }
        rewrite app_length, zeros_length. change (length (c :: w)) with n. subst k. lia.
Qed.

(* the text emitted for the decimal value m * 10^e reads back as exactly that value (normal form), for ALL m, e *)
Theorem emit_float_value m e : sql_number_value (emit_float m e) = Some (norm_dec m e).
Proof.
  unfold emit_float. destruct (m =? 0) eqn:Z.
  - apply N.eqb_eq in Z. subst m. reflexivity.
  - apply N.eqb_neq in Z. destruct (norm_dec_spec m e Z) as (m' & k & E & _ & A & B). rewrite E.
    apply emit_float_norm_value; assumption.
Qed.

Theorem emit_float_rust_value m e t : emit_float_rust m e = Some t -> sql_number_value t = Some (norm_dec m e).
Proof. unfold emit_float_rust. destruct (overflows m e); [discriminate|]. intro H. injection H as <-. apply emit_float_value. Qed.

(* ------------------------------------------------------------------ the emitted text is ONE number token *)

(* every character continues the number after the one before it (SqlLex.num_continues) *)
Fixpoint num_ok (prev : N) (w : str) : bool :=
  match w with
  | [] => true
  | c :: r => (is_wordc c || (c =? 46) || (((c =? 43) || (c =? 45)) && ((prev =? 101) || (prev =? 69)))) && num_ok c r
  end.

Lemma lex_num_ok d : forall w p acc suf, num_ok p w = true ->
  run d (LNum (p :: acc)) (w ++ suf) = run d (LNum (rev w ++ p :: acc)) suf.
Proof.
  induction w as [|c r IH]; intros p acc suf H; [reflexivity|].
  cbn [num_ok] in H. apply andb_true_iff in H as [Hc Hr].
  cbn [app run step]. unfold num_continues. rewrite Hc. cbn [app].
  rewrite (IH c (p :: acc) suf Hr). cbn [rev]. rewrite <- app_assoc. reflexivity.
Qed.

Lemma step0_digit c : is_digit c = true -> step0 c = (LNum [c], []).
Proof.
  intro Hc. unfold step0. pose proof Hc as Hc'. apply is_digit_spec in Hc'.
  assert (is_space c = false) as E1.
  { unfold is_space. repeat (apply orb_false_iff; split); apply N.eqb_neq; lia. }
  rewrite E1.
  replace (c =? 39) with false by (symmetry; apply N.eqb_neq; lia).
  replace (c =? 34) with false by (symmetry; apply N.eqb_neq; lia).
  replace (c =? 96) with false by (symmetry; apply N.eqb_neq; lia).
  cbn [orb]. rewrite Hc. reflexivity.
Qed.

Lemma numeric_text_one_token d c w : is_digit c = true -> num_ok c w = true -> sql_lex d (c :: w) = [TNumber (c :: w)].
Proof.
  intros Hc Hw. unfold sql_lex. cbn [run]. change (step d L0 c) with (step0 c). rewrite (step0_digit c Hc). cbn [app].
  rewrite <- (app_nil_r w). rewrite (lex_num_ok d w c [] [] Hw). cbn [run finish].
  rewrite rev_app_distr. cbn [rev app]. rewrite rev_involutive, app_nil_r. reflexivity.
Qed.

Definition simple_char (c : N) : bool := is_digit c || (c =? 46).

Lemma num_ok_simple_then : forall a p b, forallb simple_char a = true -> (forall q, num_ok q b = true) -> num_ok p (a ++ b) = true.
Proof.
  induction a as [|c r IH]; intros p b Ha Hb; [apply Hb|].
  cbn [forallb] in Ha. apply andb_true_iff in Ha as [Hc Hr]. cbn [app num_ok]. rewrite (IH c b Hr Hb), andb_true_r.
  unfold simple_char in Hc. apply orb_true_iff in Hc as [Hc|Hc].
  - rewrite (digit_wordc c Hc). reflexivity.
  - rewrite Hc. rewrite orb_true_r. reflexivity.
Qed.

Lemma num_ok_simple a p : forallb simple_char a = true -> num_ok p a = true.
Proof. intro H. rewrite <- (app_nil_r a). apply num_ok_simple_then; [exact H | reflexivity]. Qed.

Lemma digits_simple w : forallb is_digit w = true -> forallb simple_char w = true.
Proof.
  intro H. rewrite forallb_forall in *. intros x Hx. unfold simple_char. rewrite (H x Hx). reflexivity.
Qed.

Lemma num_ok_exponent x q : num_ok q (101 :: emit_int x) = true.
Proof.
  cbn [num_ok]. replace (is_wordc 101) with true by reflexivity. cbn [orb andb].
  destruct x as [|p|p]; cbn [emit_int].
  - reflexivity.
  - apply num_ok_simple, digits_simple, digits_of_all_digit.
  - cbn [num_ok].
    assert (is_wordc 45 || (45 =? 46) || ((45 =? 43) || (45 =? 45)) && ((101 =? 101) || (101 =? 69)) = true) as -> by reflexivity.
    cbn [andb]. apply num_ok_simple, digits_simple, digits_of_all_digit.
Qed.

Theorem emit_float_norm_one_token d m e : sql_lex d (emit_float_norm m e) = [TNumber (emit_float_norm m e)].
Proof.
  unfold emit_float_norm.
  destruct (digits_of_cons m) as (c & w & E & Hc & Hw). pose proof (digits_of_all_digit m) as A.
  rewrite E in *. clear E. cbn [length]. set (n := S (length w)).
  pose proof (digits_simple w Hw) as Sw.
  destruct ((e + Z.of_nat n - 1 <? -4)%Z || (16 <=? e + Z.of_nat n - 1)%Z).
  - apply numeric_text_one_token; [exact Hc|].
    destruct w as [|c2 w2].
    + cbn [app]. apply num_ok_exponent.
    + cbv iota.
      apply (num_ok_simple_then (46 :: c2 :: w2)); [|intro q; apply num_ok_exponent].
      change (forallb simple_char (46 :: c2 :: w2)) with (simple_char 46 && forallb simple_char (c2 :: w2)).
      rewrite Sw. reflexivity.
  - destruct (0 <=? e)%Z.
    + cbn [app]. apply numeric_text_one_token; [exact Hc|]. apply num_ok_simple.
      rewrite !forallb_app, Sw, (digits_simple _ (zeros_digits _)). reflexivity.
    + destruct (Z.to_nat (- e) <? n)%nat eqn:Ek.
      * apply Nat.ltb_lt in Ek.
        assert (exists j, (n - Z.to_nat (- e))%nat = S j) as [j Ej] by (exists (n - Z.to_nat (- e) - 1)%nat; lia). rewrite Ej.
        cbn [firstn app]. apply numeric_text_one_token; [exact Hc|]. apply num_ok_simple.
        rewrite forallb_app. cbn [forallb].
        rewrite (digits_simple _ (forallb_firstn is_digit j w Hw)).
        rewrite (digits_simple _ (forallb_skipn is_digit (S j) (c :: w) A)). reflexivity.
      * apply numeric_text_one_token; [reflexivity|]. apply num_ok_simple.
        cbn [forallb]. rewrite forallb_app, (digits_simple _ (zeros_digits _)). cbn [forallb].
        unfold simple_char at 2. rewrite Hc, Sw. reflexivity.
Qed.

Theorem emit_float_one_token d m e : sql_lex d (emit_float m e) = [TNumber (emit_float m e)].
Proof.
  unfold emit_float. destruct (m =? 0); [reflexivity|]. destruct (norm_dec m e) as [m' e']. apply emit_float_norm_one_token.
Qed.

Theorem emit_float_rust_one_token d m e t : emit_float_rust m e = Some t -> sql_lex d t = [TNumber t].
Proof. unfold emit_float_rust. destruct (overflows m e); [discriminate|]. intro H. injection H as <-. apply emit_float_one_token. Qed.

(* ------------------------------------------------------------------ negative floats: {:?} prints a minus sign in front *)

Lemma emit_float_norm_head m e : exists c w, emit_float_norm m e = c :: w /\ is_digit c = true.
Proof.
  unfold emit_float_norm. destruct (digits_of_cons m) as (c & w & E & Hc & Hw). rewrite E. cbn [length].
  destruct ((e + Z.of_nat (S (length w)) - 1 <? -4)%Z || (16 <=? e + Z.of_nat (S (length w)) - 1)%Z).
  - eexists _, _. split; [reflexivity | exact Hc].
  - destruct (0 <=? e)%Z.
    + eexists _, _. split; [reflexivity | exact Hc].
    + destruct (Z.to_nat (- e) <? S (length w))%nat eqn:Ek.
      * apply Nat.ltb_lt in Ek.
        assert (exists j, (S (length w) - Z.to_nat (- e))%nat = S j) as [j Ej] by (exists (S (length w) - Z.to_nat (- e) - 1)%nat; lia).
        rewrite Ej. cbn [firstn app]. eexists _, _. split; [reflexivity | exact Hc].
      * eexists _, _. split; [reflexivity | reflexivity].
Qed.

Lemma emit_float_head m e : exists c w, emit_float m e = c :: w /\ is_digit c = true.
Proof.
  unfold emit_float. destruct (m =? 0); [exists 48, [46; 48]; split; reflexivity|].
  destruct (norm_dec m e) as [m' e']. apply emit_float_norm_head.
Qed.

(* the literal a folded negation hands to translate_literal: minus sign, then the number -- two tokens, never a comment *)
Theorem emit_float_neg_tokens d m e : sql_lex d (45 :: emit_float m e) = [TPunct 45; TNumber (emit_float m e)].
Proof.
  destruct (emit_float_head m e) as (c & w & E & Hc). pose proof (emit_float_one_token d m e) as T.
  rewrite E in *. unfold sql_lex in *. rewrite (run_minus_digit d c w Hc). rewrite T. reflexivity.
Qed.

(* every float literal the lexer lets through is one translate_literal emits: its out-of-range error is reachable only
   through values computed by the compiler (constant folding), never from a literal of the source *)
Theorem lexed_float_emitted units tbl rows s m e r :
  lex_literal_checked units tbl rows s = Some (LFloat m e, r) -> exists t, emit_float_rust m e = Some t.
Proof.
  unfold lex_literal_checked. destruct (lex_literal_u units tbl rows s) as [[l r0]|]; [|discriminate].
  destruct l; try (intro H; injection H as H _; discriminate).
  destruct (overflows mant e10) eqn:O; [discriminate|]. intro H. injection H as <- <- <-.
  unfold emit_float_rust. rewrite O. eexists. reflexivity.
Qed.

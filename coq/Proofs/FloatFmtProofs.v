(* Lemmas about Model/FloatFmt.v: the text emitted for a float literal denotes exactly the decimal value of the
   literal's spelling. *)
From Coq Require Import List NArith ZArith Bool Lia.
From PV Require Import Lib.ListX Model.SqlLex Model.Literal Model.FloatFmt Proofs.EscapeProofs Proofs.LiteralProofs.
Import ListNotations.
Local Open Scope N_scope.
Local Arguments N.eqb : simpl never.
Local Arguments N.leb : simpl never.
Local Arguments N.ltb : simpl never.
Local Arguments N.div : simpl never.
Local Arguments N.modulo : simpl never.
Local Arguments N.mul : simpl never.
Local Arguments N.add : simpl never.
Local Arguments N.sub : simpl never.
Local Arguments N.pow : simpl never.
Local Arguments N.log2 : simpl never.
Local Arguments Z.add : simpl never.
Local Arguments Z.sub : simpl never.
Local Arguments Z.of_nat : simpl never.

(* ------------------------------------------------------------------ normal forms *)

Lemma pow10_succ k : 10 ^ N.of_nat (S k) = 10 * 10 ^ N.of_nat k.
Proof. rewrite Nat2N.inj_succ. apply N.pow_succ_r'. Qed.

Lemma pow10_pos k : 10 ^ N.of_nat k <> 0.
Proof. apply N.pow_nonzero. discriminate. Qed.

Lemma strip10_scale : forall k fuel m e, m <> 0 -> m mod 10 <> 0 -> (k < fuel)%nat ->
  strip10 fuel (m * 10 ^ N.of_nat k) (e - Z.of_nat k)%Z = (m, e).
Proof.
  induction k as [|k IH]; intros fuel m e Hm Hd Hf; (destruct fuel as [|f]; [lia|]); cbn [strip10].
  - change (N.of_nat 0) with 0. rewrite N.pow_0_r, N.mul_1_r.
    apply N.eqb_neq in Hm. rewrite Hm. apply N.eqb_neq in Hd. rewrite Hd. f_equal. change (Z.of_nat 0) with 0%Z. lia.
  - rewrite pow10_succ.
    assert (m * (10 * 10 ^ N.of_nat k) = (m * 10 ^ N.of_nat k) * 10) as -> by lia.
    pose proof (pow10_pos k) as P.
    assert ((m * 10 ^ N.of_nat k) * 10 <> 0) as NZ by lia.
    apply N.eqb_neq in NZ. rewrite NZ.
    rewrite N.mod_mul by discriminate. replace (0 =? 0) with true by reflexivity.
    rewrite N.div_mul by discriminate.
    replace (e - Z.of_nat (S k) + 1)%Z with (e - Z.of_nat k)%Z by lia.
    apply IH; [assumption | assumption | lia].
Qed.

Lemma log2_scale m k : m <> 0 -> (k <= N.to_nat (N.log2 (m * 10 ^ N.of_nat k)))%nat.
Proof.
  intro Hm.
  assert (2 ^ N.of_nat k <= m * 10 ^ N.of_nat k) as H.
  { transitivity (10 ^ N.of_nat k).
    - apply N.pow_le_mono_l. lia.
    - pose proof (pow10_pos k). nia. }
  apply N.log2_le_mono in H. rewrite N.log2_pow2 in H by lia. lia.
Qed.

Lemma norm_dec_scale m e k : m <> 0 -> m mod 10 <> 0 -> norm_dec (m * 10 ^ N.of_nat k) (e - Z.of_nat k)%Z = (m, e).
Proof.
  intros Hm Hd. unfold norm_dec. apply strip10_scale; [assumption | assumption|].
  pose proof (log2_scale m k Hm). lia.
Qed.

Lemma norm_dec_normal m e : m <> 0 -> m mod 10 <> 0 -> norm_dec m e = (m, e).
Proof.
  intros Hm Hd. pose proof (norm_dec_scale m e 0 Hm Hd) as H.
  change (N.of_nat 0) with 0 in H. rewrite N.pow_0_r, N.mul_1_r in H.
  replace (e - Z.of_nat 0)%Z with e in H by (change (Z.of_nat 0) with 0%Z; lia). exact H.
Qed.

Lemma norm_dec_zero e : norm_dec 0 e = (0, 0%Z).
Proof. reflexivity. Qed.

(* every non-zero number is a multiple-of-ten-free part times a power of ten *)
Lemma decompose10 : forall m, m <> 0 -> exists m' k, m = m' * 10 ^ N.of_nat k /\ m' <> 0 /\ m' mod 10 <> 0.
Proof.
  intro m. induction m as [m IH] using (well_founded_induction N.lt_wf_0). intro Hm.
  destruct (N.eq_dec (m mod 10) 0) as [Z|NZ].
  - assert (m = 10 * (m / 10)) as E by (pose proof (N.div_mod' m 10); lia).
    assert (m / 10 <> 0) as Hq by lia.
    assert (m / 10 < m) as Hlt by (apply N.div_lt; lia).
    destruct (IH (m / 10) Hlt Hq) as (m' & k & E' & A & B).
    exists m', (S k). rewrite pow10_succ. split; [|split; assumption]. rewrite E at 1. rewrite E'. lia.
  - exists m, 0%nat. change (N.of_nat 0) with 0. rewrite N.pow_0_r, N.mul_1_r. auto.
Qed.

Lemma norm_dec_spec m e : m <> 0 ->
  exists m' k, norm_dec m e = (m', (e + Z.of_nat k)%Z) /\ m = m' * 10 ^ N.of_nat k /\ m' <> 0 /\ m' mod 10 <> 0.
Proof.
  intro Hm. destruct (decompose10 m Hm) as (m' & k & E & A & B). exists m', k. split; [|auto].
  rewrite E. replace e with ((e + Z.of_nat k) - Z.of_nat k)%Z at 1 by lia. apply norm_dec_scale; assumption.
Qed.

(* ------------------------------------------------------------------ digit strings *)

Lemma base_value_zeros : forall k a, base_value_acc 10 a (zeros k) = a * 10 ^ N.of_nat k.
Proof.
  induction k as [|k IH]; intro a.
  - cbn [zeros repeat base_value_acc]. change (N.of_nat 0) with 0. rewrite N.pow_0_r. lia.
  - unfold zeros. cbn [repeat base_value_acc]. fold (zeros k). rewrite IH, pow10_succ.
    replace (hex_val 48) with 0 by reflexivity. lia.
Qed.

Lemma zeros_digits k : forallb is_digit (zeros k) = true.
Proof. induction k; [reflexivity|]. unfold zeros. cbn [repeat forallb]. fold (zeros k). rewrite IHk. reflexivity. Qed.

Lemma zeros_length k : length (zeros k) = k.
Proof. apply repeat_length. Qed.

Lemma base_value_leading_zeros : forall k w, base_value_acc 10 0 (zeros k ++ w) = base_value_acc 10 0 w.
Proof.
  induction k as [|k IH]; intro w; [reflexivity|].
  unfold zeros. cbn [repeat app base_value_acc]. fold (zeros k). replace (0 * 10 + hex_val 48) with 0 by reflexivity. apply IH.
Qed.

Lemma span_digits w rest : forallb is_digit w = true -> match rest with c :: _ => is_digit c = false | [] => True end ->
  span_p is_digit (w ++ rest) = (w, rest).
Proof. apply span_p_app. Qed.

(* ------------------------------------------------------------------ the exponent *)

Lemma sql_exp_emit_int x : sql_exp (101 :: emit_int x) = (Some x, []).
Proof.
  unfold sql_exp. replace ((101 =? 101) || (101 =? 69)) with true by reflexivity.
  destruct x as [|p|p]; cbn [emit_int].
  - reflexivity.
  - destruct (digits_of_cons (Npos p)) as (c & w & E & Hc & Hw). rewrite E.
    apply is_digit_spec in Hc as R.
    replace (c =? 45) with false by (symmetry; apply N.eqb_neq; lia).
    replace (c =? 43) with false by (symmetry; apply N.eqb_neq; lia).
    rewrite <- E. pose proof (span_digits (digits_of (Npos p)) [] (digits_of_all_digit _) I) as S.
    rewrite app_nil_r in S. rewrite S. rewrite E at 1.
    pose proof (digits_of_value (Npos p)) as V. unfold base_value in *. rewrite V. reflexivity.
  - replace (45 =? 45) with true by reflexivity.
    pose proof (span_digits (digits_of (Npos p)) [] (digits_of_all_digit _) I) as S.
    rewrite app_nil_r in S. rewrite S.
    destruct (digits_of_cons (Npos p)) as (c & w & E & Hc & Hw). rewrite E at 1. rewrite <- E.
    pose proof (digits_of_value (Npos p)) as V. unfold base_value in *. rewrite V. reflexivity.
Qed.

Lemma sql_exp_nil : sql_exp [] = (None, []).
Proof. reflexivity. Qed.

(* Theta-1, instance 2: the tree built by the SQL emitter model (Model/SqlPrint.v translate) respects the
   engine grammar -- for expressions of ANY depth -- whenever none of its (parent, hole, child) triples
   is structurally bad; hence its text re-parses (in the engine's grammar) to the normalised tree. *)
From Coq Require Import List Arith Lia Bool NArith.
From PV Require Import Lib.ListX Model.Pratt Model.SqlGrammar Model.SqlTree Model.PrqlExpr Model.StaticEval Proofs.SqlLaws
                       Model.SqlPrint Model.SqlCompat Model.SqlSem Proofs.PrattProofs Proofs.PrattNorm
                       Gen.GenSqlStrength Gen.GenStdSql.
Import ListNotations.

Notation dokb := (Pratt.dok_both sop suop satom sfn eprec erassoc euprec EINF).
Notation dstr := (Pratt.dstrength sop suop satom sfn eprec euprec EINF).
Notation sdexpr_ind2 := (PrattProofs.dexpr_ind2 sop suop satom sfn).

Definition is_hole (c : sdexpr) : bool := match c with DAtom (AHole _ _ _ _) => true | _ => false end.

(* ---- engine table facts ---- *)
Lemma e_assoc_consistent : forall a b, eprec a = eprec b -> erassoc a = erassoc b.
Proof. intros a b; destruct a, b; cbn; intros H; try reflexivity; discriminate. Qed.
Lemma e_prec_lt_INF : forall o, S (eprec o) < EINF.
Proof. intros o; destruct o; cbv [eprec EINF]; lia. Qed.
Lemma e_uprec_distinct : forall u o, euprec u <> eprec o.
Proof. intros u o; destruct u, o; cbv [eprec euprec]; lia. Qed.
Lemma erreq_ge o : eprec o <= erreq o.
Proof. unfold Pratt.rreq. destruct (erassoc o); lia. Qed.

Section Subst.
Variable sigma : nat -> nat -> bool -> assoc3 -> nat * sdexpr.
Notation dsub := (dsubst sigma).

Lemma dstr_dsubst c : is_hole c = false -> dstr (dsub c) = dstr c.
Proof. destruct c as [[s|i q il a]|o wl l wr r|u w x|f args]; cbn; intros H; try reflexivity; discriminate. Qed.

Definition site_cond (s : site) : Prop :=
  let kx := sigma (s_idx s) (s_req s) (s_left s) (s_assoc s) in
  dokb (snd kx) = true /\
  (s_w s + fst kx = 0 -> match s_rot s with Some o => eprec o <= dstr (snd kx) | None => s_ereq s <= dstr (snd kx) end).

(* one edge: [need] is what dok_both asks at this position, [ereq] what the site records *)
Lemma edge_ok (c : sdexpr) (w ereq need : nat) (rot : option sop) :
  (is_hole c = false -> skel_ok c = true -> (forall s, In s (sites c) -> site_cond s) -> dokb (dsub c) = true) ->
  skel_edge skel_ok w c ereq = true ->
  (forall s, In s (edge_sites w c ereq rot sites) -> site_cond s) ->
  need <= ereq -> (match rot with Some o => need = eprec o | None => need = ereq end \/ rot = None) ->
  dokb (snd (sub_edge sigma dsub w c)) = true /\
  (fst (sub_edge sigma dsub w c) = 0 -> need <= dstr (snd (sub_edge sigma dsub w c))).
Proof.
  intros IH SK ST Hne Hrot.
  destruct (is_hole c) eqn:Hh.
  - destruct c as [[s|i q il a]|o wl l wr r|u w' x|f args]; try discriminate.
    cbn [edge_sites] in ST.
    specialize (ST _ (or_introl eq_refl)). unfold site_cond in ST. cbn [s_idx s_req s_left s_assoc s_w s_ereq s_rot] in ST.
    cbn [sub_edge]. destruct (sigma i q il a) as [k x]. cbn [fst snd] in *.
    destruct ST as [D E]. split; [exact D|]. intros Z. specialize (E Z).
    destruct rot as [o|].
    + destruct Hrot as [Hr|Hr]; [subst need; exact E|discriminate].
    + lia.
  - assert (SE : sub_edge sigma dsub w c = (w, dsub c)).
    { destruct c as [[s|i q il a]|o wl l wr r|u w' x|f args]; try reflexivity; discriminate. }
    rewrite SE. cbn [fst snd].
    assert (ES : edge_sites w c ereq rot sites = sites c).
    { destruct c as [[s|i q il a]|o wl l wr r|u w' x|f args]; try reflexivity; discriminate. }
    rewrite ES in ST.
    assert (SKc : skel_ok c = true /\ (negb (Nat.eqb w 0) || (ereq <=? dstr c)) = true).
    { destruct c as [[s|i q il a]|o wl l wr r|u w' x|f args]; try discriminate;
        cbn [skel_edge] in SK; apply andb_true_iff in SK; exact SK. }
    destruct SKc as [S1 S2]. split; [apply IH; auto|].
    intros Z. subst w. cbn in S2. apply Nat.leb_le in S2. rewrite dstr_dsubst by exact Hh. lia.
Qed.

Lemma dsubst_dok sk : skel_ok sk = true -> (forall s, In s (sites sk) -> site_cond s) -> dokb (dsub sk) = true.
Proof.
  induction sk as [a|o wl l wr r IHl IHr|u w x IHx|f args IH] using sdexpr_ind2; intros SK ST.
  - reflexivity.
  - cbn [skel_ok] in SK. apply andb_true_iff in SK as [SKl SKr].
    cbn [sites] in ST.
    destruct (edge_ok l wl (elreq o) (elreq o) None (fun _ => IHl) SKl) as [Dl El];
      [intros s Hs; apply ST; apply in_or_app; left; exact Hs|lia|left; reflexivity|].
    destruct (edge_ok r wr (erreq o) (eprec o) (if erassoc o then None else Some o) (fun _ => IHr) SKr) as [Dr Er];
      [intros s Hs; apply ST; apply in_or_app; right; exact Hs|apply erreq_ge| |].
    { unfold Pratt.rreq. destruct (erassoc o); [right; reflexivity|left; reflexivity]. }
    cbn [dsubst Pratt.dok_both]. rewrite Dl, Dr. cbn [andb].
    apply andb_true_iff; split.
    + destruct (fst (sub_edge sigma dsub wl l)) eqn:Z; [|reflexivity]. cbn. apply Nat.leb_le. apply El. reflexivity.
    + destruct (fst (sub_edge sigma dsub wr r)) eqn:Z; [|reflexivity]. cbn. apply Nat.leb_le. apply Er. reflexivity.
  - cbn [skel_ok] in SK. cbn [sites] in ST.
    destruct (edge_ok x w (euprec u) (euprec u) None (fun _ => IHx) SK) as [Dx Ex];
      [exact ST|lia|left; reflexivity|].
    cbn [dsubst Pratt.dok_both]. rewrite Dx. cbn [andb].
    destruct (fst (sub_edge sigma dsub w x)) eqn:Z; [|reflexivity]. cbn. apply Nat.leb_le. apply Ex. reflexivity.
  - cbn [skel_ok] in SK. cbn [sites] in ST. cbn [dsubst Pratt.dok_both].
    rewrite forallb_forall in *. intros p Hp. apply in_map_iff in Hp as [q [<- Hq]].
    rewrite Forall_forall in IH.
    destruct (edge_ok (snd q) (fst q) 0 0 None (fun _ => IH q Hq) (SK q Hq)) as [Dq _];
      [intros s Hs; apply ST; apply in_flat_map; exists q; auto|lia|left; reflexivity|exact Dq].
Qed.
End Subst.

Lemma site_ereq_le_INF sk s : In s (sites sk) -> s_ereq s <= EINF.
Proof.
  induction sk as [a0|o0 wl l wr r0 IHl IHr|u w0 x IHx|fn args IHa] using sdexpr_ind2; cbn [sites]; intros Hs.
  - contradiction.
  - apply in_app_or in Hs as [Hs|Hs].
    + destruct l as [[?|? ? ? ?]|? ? ? ? ?|? ? ?|? ?]; cbn [edge_sites] in Hs; auto.
      destruct Hs as [<-|[]]. cbn [s_ereq]. pose proof (e_prec_lt_INF o0). unfold Pratt.lreq. destruct (erassoc o0); lia.
    + destruct r0 as [[?|? ? ? ?]|? ? ? ? ?|? ? ?|? ?]; cbn [edge_sites] in Hs; auto.
      destruct Hs as [<-|[]]. cbn [s_ereq]. pose proof (e_prec_lt_INF o0). unfold Pratt.rreq. destruct (erassoc o0); lia.
  - destruct x as [[?|? ? ? ?]|? ? ? ? ?|? ? ?|? ?]; cbn [edge_sites] in Hs; auto.
    destruct Hs as [<-|[]]. cbn [s_ereq]. destruct u; cbv [euprec EINF]; lia.
  - apply in_flat_map in Hs as [p [Hp Hs]]. rewrite Forall_forall in IHa.
    destruct p as [w1 c0]. cbn [fst snd] in Hs. specialize (IHa _ Hp). cbn [snd] in IHa.
    destruct c0 as [[?|? ? ? ?]|? ? ? ? ?|? ? ?|? ?]; cbn [edge_sites] in Hs; auto.
    destruct Hs as [<-|[]]. cbn [s_ereq]. lia.
Qed.
Lemma site_rot_prec sk s o : In s (sites sk) -> s_rot s = Some o -> eprec o <= s_ereq s.
Proof.
  induction sk as [a0|o0 wl l wr r0 IHl IHr|u w0 x IHx|fn args IHa] using sdexpr_ind2; cbn [sites]; intros Hs R.
  - contradiction.
  - apply in_app_or in Hs as [Hs|Hs].
    + destruct l as [[?|? ? ? ?]|? ? ? ? ?|? ? ?|? ?]; cbn [edge_sites] in Hs; auto.
      destruct Hs as [<-|[]]. cbn in R. discriminate.
    + destruct r0 as [[?|? ? ? ?]|? ? ? ? ?|? ? ?|? ?]; cbn [edge_sites] in Hs; auto.
      destruct Hs as [<-|[]]. cbn [s_rot s_ereq] in R |- *. destruct (erassoc o0); [discriminate|]. inversion R; subst. apply erreq_ge.
  - destruct x as [[?|? ? ? ?]|? ? ? ? ?|? ? ?|? ?]; cbn [edge_sites] in Hs; auto.
    destruct Hs as [<-|[]]. cbn in R. discriminate.
  - apply in_flat_map in Hs as [p [Hp Hs]]. rewrite Forall_forall in IHa.
    destruct p as [w1 c0]. cbn [fst snd] in Hs. specialize (IHa _ Hp). cbn [snd] in IHa.
    destruct c0 as [[?|? ? ? ?]|? ? ? ? ?|? ? ?|? ?]; cbn [edge_sites] in Hs; auto.
    destruct Hs as [<-|[]]. cbn in R. discriminate.
Qed.

(* ---- constructs ---- *)
Definition struct_ok (v : verdict) : bool := match v with VBad => false | _ => true end.

(* what a translated node exposes to its parent is what its construct says *)
Definition exposes (n : node) (c : construct) : Prop :=
  fst (fst n) = c_top c /\ snd n = c_declared c /\ dstr (snd (fst n)) = dstr (c_sk c).

Definition construct_of (dialect : str) (a : rexpr) : option construct :=
  match a with
  | RCol _ | RLit _ => Some (atom_construct a)
  | _ => option_map fst (select dialect a)
  end.

Lemma case_holes_ok n i : forallb (fun p => skel_edge skel_ok (fst p) (snd p) 0) (case_holes n i) = true.
Proof. revert i; induction n; intros i; cbn; auto. Qed.

(* process_concat: the `||` chain and the CONCAT( ) call are skeletons of the engine grammar, whatever the arity *)
Lemma concat_chain_top acc i n : top_is_hole acc = false -> top_is_hole (concat_chain acc i n) = false.
Proof. revert acc i; induction n as [|k IH]; intros acc i H; cbn [concat_chain]; [exact H|]. apply IH. reflexivity. Qed.
Lemma concat_chain_skel n : forall acc i,
  (is_hole acc = true \/ (skel_ok acc = true /\ elreq SConcat <= estrength acc)) ->
  skel_ok (concat_chain acc i n) = true.
Proof.
  induction n as [|k IH]; intros acc i H; cbn [concat_chain].
  - destruct H as [H|[H _]]; [|exact H]. destruct acc as [[?|? ? ? ?]|? ? ? ? ?|? ? ?|? ?]; try discriminate; reflexivity.
  - apply IH. right. split; [|cbn; lia].
    assert (E : skel_edge skel_ok 0 acc (elreq SConcat) = true).
    { unfold skel_edge. destruct H as [H|[H1 H2]].
      - destruct acc as [[?|? ? ? ?]|? ? ? ? ?|? ? ?|? ?]; try discriminate; reflexivity.
      - apply Nat.leb_le in H2. destruct acc as [[?|? ? ? ?]|? ? ? ? ?|? ? ?|? ?]; try reflexivity; rewrite H1, H2; reflexivity. }
    change (skel_edge skel_ok 0 acc (elreq SConcat) && skel_edge skel_ok 0 (hole i 0 false A_Both) (erreq SConcat) = true).
    rewrite E. reflexivity.
Qed.
Lemma c_concat_ok has_fn n : 2 <= n ->
  skel_ok (c_sk (c_concat has_fn n)) = true /\ top_is_hole (c_sk (c_concat has_fn n)) = false.
Proof.
  intros Hn. unfold c_concat. destruct has_fn; cbn [c_sk].
  - split; [|reflexivity]. cbn [skel_ok]. apply case_holes_ok.
  - destruct n as [|[|k]]; try lia. cbn [pred concat_chain]. split.
    + apply concat_chain_skel. right. split; [reflexivity|cbn; lia].
    + apply concat_chain_top. reflexivity.
Qed.

Lemma find_some_in {A} (f : A -> bool) l x : find f l = Some x -> In x l.
Proof. intros H. apply find_some in H. tauto. Qed.

Section Translate.
Variable dialect : str.
(* finite obligations on the generated tables (discharged by vm_compute in Props/C02.v) *)
Hypothesis templates_ok : forallb (fun t => match c_template t with
                                           | Some c => skel_ok (c_sk c) && negb (top_is_hole (c_sk c))
                                           | None => true end) templates = true.
Hypothesis builtins_ok :
  forallb (fun o => match c_binary o with Some c => skel_ok (c_sk c) && negb (top_is_hole (c_sk c)) | None => true end) sqlbin_all
  && match c_between with Some c => skel_ok (c_sk c) && negb (top_is_hole (c_sk c)) | None => true end = true.

Lemma select_ok r c args : select dialect r = Some (c, args) ->
  skel_ok (c_sk c) = true /\ top_is_hole (c_sk c) = false.
Proof.
  assert (TM : forall t c0, In t templates -> c_template t = Some c0 -> skel_ok (c_sk c0) = true /\ top_is_hole (c_sk c0) = false).
  { intros t c0 Ht Hc. pose proof templates_ok as TO. rewrite forallb_forall in TO. specialize (TO t Ht). rewrite Hc in TO.
    apply andb_true_iff in TO as [A B]. apply negb_true_iff in B. auto. }
  pose proof builtins_ok as BB0. apply andb_true_iff in BB0 as [BO BB]. rewrite forallb_forall in BO.
  assert (BI : forall o c0, c_binary o = Some c0 -> skel_ok (c_sk c0) = true /\ top_is_hole (c_sk c0) = false).
  { intros o c0 Hc. assert (Io : In o sqlbin_all) by (destruct o; vm_compute; tauto).
    specialize (BO o Io). rewrite Hc in BO. apply andb_true_iff in BO as [A B]. apply negb_true_iff in B. auto. }
  assert (GEN : forall (name : str) (args0 : list rexpr) (c0 : construct) (a0 : list rexpr),
    match lookup_binop name, args0 with
    | Some o, [a; b] => option_map (fun c => (c, [a; b])) (c_binary o)
    | _, _ => match find_template dialect name with
              | Some t => option_map (fun c => (c, args0)) (c_template t)
              | None => None end
    end = Some (c0, a0) -> skel_ok (c_sk c0) = true /\ top_is_hole (c_sk c0) = false).
  { intros name args0 c0 a0 H.
    assert (TT : match find_template dialect name with
                 | Some t => option_map (fun c => (c, args0)) (c_template t) | None => None end = Some (c0, a0) ->
                 skel_ok (c_sk c0) = true /\ top_is_hole (c_sk c0) = false).
    { unfold find_template. destruct (strip_prefix n_std_prefix name) as [s|]; [|intros E0; discriminate E0].
      remember (find (fun t => leqb (t_module t) dialect && leqb (t_name t) s) templates) as f1 eqn:F1.
      remember (find (fun t => leqb (t_module t) [] && leqb (t_name t) s) templates) as f2 eqn:F2.
      symmetry in F1, F2.
      destruct f1 as [t|].
      - destruct (c_template t) eqn:Ct; cbn [option_map]; [|intros E0; discriminate E0].
        intros E; inversion E; subst. eapply TM; eauto. eapply find_some_in; eauto.
      - destruct f2 as [t|]; [|intros E0; discriminate E0].
        destruct (c_template t) eqn:Ct; cbn [option_map]; [|intros E0; discriminate E0].
        intros E; inversion E; subst. eapply TM; eauto. eapply find_some_in; eauto. }
    destruct (lookup_binop name) as [o|]; [|apply TT; exact H].
    destruct args0 as [|a [|b [|x t]]]; try (apply TT; exact H).
    destruct (c_binary o) eqn:Cb; [|discriminate]. cbn in H. inversion H; subst. eapply BI; eauto. }
  destruct r as [i|l|name rargs|cs]; cbn [select]; try discriminate.
  - destruct (leqb name n_concat).
    { destruct (Nat.leb_spec 2 (length (concat_args (ROp name rargs)))) as [L|L]; [|discriminate].
      intros E; inversion E; subst. apply c_concat_ok. exact L. }
    destruct (date_args dialect name rargs) as [dargs|]; [|discriminate]. clear rargs. rename dargs into rargs.
    destruct (leqb name n_eq || leqb name n_ne).
    + destruct rargs as [|a [|b [|x t]]];
        try (intros E; exact (GEN name _ _ _ E)).
      destruct (is_null a || is_null b); [|intros E; exact (GEN name [a; b] _ _ E)].
      intros E; inversion E; subst. destruct (leqb name n_ne); cbn; auto.
    + destruct (leqb name n_and_in); [|intros E; exact (GEN name rargs _ _ E)].
      destruct rargs as [|[| |g [|al [|ar [|? ?]]]|] [|[| |l [|bl [|br [|? ?]]]|] [|? ?]]]; try discriminate.
      destruct (leqb g n_gte && leqb l n_lte); [|discriminate].
      destruct c_between as [cb|] eqn:CB; [|discriminate]. cbn. intros E; inversion E; subst.
      apply andb_true_iff in BB as [A B]. apply negb_true_iff in B. auto.
  - destruct (rev cs) as [|[c0 v] rest].
    + intros E; inversion E; subst. cbn. auto.
    + destruct (is_true c0); intros E; inversion E; subst; cbn [c_case c_sk skel_ok top_is_hole]; split; auto;
        rewrite forallb_app, case_holes_ok; reflexivity.
Qed.

(* a translated node exposes its construct *)
Lemma translate_exposes f a n : translate dialect f a = Some n ->
  exists c, construct_of dialect a = Some c /\ exposes n c.
Proof.
  destruct f as [|f]; [discriminate|]. cbn [translate].
  destruct a as [i|l|name args|cs].
  - intros E; inversion E; subst. exists c_atom. split; [reflexivity|]. repeat split.
  - destruct (is_temporal_lit l); [discriminate|].
    intros E; inversion E; subst. exists (atom_construct (RLit l)). split; [reflexivity|].
    unfold atom_construct, lit_strength. destruct (lit_is_negative l); repeat split.
  - cbn [construct_of]. destruct (select dialect (ROp name args)) as [[c ar]|] eqn:S; [|discriminate].
    destruct (map_opt _ ar); [|discriminate]. intros E; inversion E; subst. exists c. split; [reflexivity|].
    repeat split. cbn [fst snd]. apply dstr_dsubst.
    destruct (select_ok _ _ _ S) as [_ H]. destruct (c_sk c) as [[s|i q il a]|? ? ? ? ?|? ? ?|? ?]; auto; discriminate.
  - cbn [construct_of]. destruct (select dialect (RCase cs)) as [[c ar]|] eqn:S; [|discriminate].
    destruct (map_opt _ ar); [|discriminate]. intros E; inversion E; subst. exists c. split; [reflexivity|].
    repeat split. cbn [fst snd]. apply dstr_dsubst.
    destruct (select_ok _ _ _ S) as [_ H]. destruct (c_sk c) as [[s|i q il a]|? ? ? ? ?|? ? ?|? ?]; auto; discriminate.
Qed.

Lemma map_opt_nth {A B} (f : A -> option B) l l' i x : map_opt f l = Some l' -> nth_error l' i = Some x ->
  exists a, nth_error l i = Some a /\ f a = Some x.
Proof.
  revert l' i; induction l as [|a t IH]; intros l' i; cbn [map_opt].
  - intros E; inversion E; subst. destruct i; discriminate.
  - destruct (f a) eqn:Fa; [|discriminate]. destruct (map_opt f t) eqn:Mt; [|discriminate].
    intros E; inversion E; subst. destruct i; cbn.
    + intros E2; inversion E2; subst. exists a; auto.
    + intros E2. eapply IH; eauto.
Qed.
Lemma map_opt_nth_none {A B} (f : A -> option B) l l' i : map_opt f l = Some l' -> nth_error l' i = None -> nth_error l i = None.
Proof.
  revert l' i; induction l as [|a t IH]; intros l' i; cbn [map_opt].
  - destruct i; reflexivity.
  - destruct (f a) eqn:Fa; [|discriminate]. destruct (map_opt f t) eqn:Mt; [|discriminate].
    intros E; inversion E; subst. destruct i; cbn; [discriminate|]. eapply IH; eauto.
Qed.

Lemma in_number {A} (l : list A) n x : In x l -> exists k, In (k, x) (number n l).
Proof.
  revert n; induction l as [|y t IH]; intros n H; [contradiction|]. destruct H as [->|H].
  - exists n. left. reflexivity.
  - destruct (IH (S n) H) as [k Hk]. exists k. right. exact Hk.
Qed.

(* THE inductive step: no structurally bad triple anywhere in the tree => the tree respects the engine grammar *)
Theorem translate_respects_grammar : forall f r n,
  translate dialect f r = Some n ->
  (forall tv, In tv (tree_triples dialect f r) -> struct_ok (snd tv) = true) ->
  dokb (snd (fst n)) = true.
Proof.
  induction f as [|f IH]; intros r n T OK; [discriminate|].
  cbn [translate] in T.
  assert (NODE : forall c args, select dialect r = Some (c, args) ->
            match map_opt (translate dialect f) args with
            | Some kids => Some (c_top c, dsubst (place kids) (c_sk c), c_declared c)
            | None => None end = Some n -> dokb (snd (fst n)) = true).
  { intros c args S T2. destruct (map_opt (translate dialect f) args) as [kids|] eqn:MK; [|discriminate].
    inversion T2; subst. cbn [fst snd].
    destruct (select_ok _ _ _ S) as [SK _].
    apply dsubst_dok; [exact SK|]. intros s Hs. unfold site_cond, place.
    destruct (nth_error kids (s_idx s)) as [[[top d] st]|] eqn:NK; cbn [fst snd].
    - destruct (map_opt_nth _ _ _ _ _ MK NK) as [a [Na Ta]].
      destruct (translate_exposes _ _ _ Ta) as [c' [Cc [E1 [E2 E3]]]]. cbn [fst snd] in E1, E2, E3.
      split.
      + apply (IH a (top, d, st) Ta). intros tv Htv. apply OK. cbn [tree_triples]. rewrite S.
        apply in_or_app. right. apply in_flat_map. exists a. split; [eapply nth_error_In; eauto|exact Htv].
      + destruct (in_number _ 0 _ Hs) as [k Hk].
        assert (V : struct_ok (site_verdict s c') = true).
        { apply (OK ((kind_name dialect r, k, kind_name dialect a), site_verdict s c')).
          cbn [tree_triples]. rewrite S. apply in_or_app. left. apply in_flat_map. exists (k, s). split; [exact Hk|].
          cbn [snd fst]. rewrite Na.
          change (In (kind_name dialect r, k, kind_name dialect a, site_verdict s c')
                     (match construct_of dialect a with
                      | Some c'0 => [((kind_name dialect r, k, kind_name dialect a), site_verdict s c'0)]
                      | None => [] end)).
          rewrite Cc. left; reflexivity. }
        intros Z. unfold site_verdict in V. subst st top. rewrite E3.
        destruct (needs_parens (c_declared c') (s_req s) (s_left s) (s_assoc s)); [cbn in Z; lia|].
        destruct (s_w s) as [|w]; [|cbn in Z; lia]. destruct (c_top c') as [|tp] eqn:CT; [|cbn in Z; lia].
        unfold child_top in V. rewrite CT in V.
        destruct (Nat.leb_spec (s_ereq s) (dstr (c_sk c'))) as [LE|GT].
        * destruct (s_rot s) as [o|] eqn:R; [|exact LE].
          pose proof (site_rot_prec _ _ _ Hs R) as Q.
          lia.
        * destruct (s_rot s) as [o|] eqn:R; [|discriminate].
          unfold child_head in V. rewrite CT in V.
          destruct (c_sk c') as [?|o2 ? ? ? ?|? ? ?|? ?] eqn:SKc; try discriminate.
          destruct (Nat.eqb_spec (eprec o2) (eprec o)) as [EQ|NE]; [|discriminate]. cbn. lia.
    - (* a hole with no argument: the placeholder atom *)
      cbn. split; [reflexivity|]. intros _. pose proof (site_ereq_le_INF _ _ Hs) as Q.
      destruct (s_rot s) as [o|] eqn:R; [pose proof (site_rot_prec _ _ _ Hs R)|]; lia. }
  destruct r as [i|l|name args|cs].
  - inversion T; subst. reflexivity.
  - destruct (is_temporal_lit l); [discriminate|]. inversion T; subst. reflexivity.
  - destruct (select dialect (ROp name args)) as [[c ar]|] eqn:S; [|discriminate]. eapply NODE; eauto.
  - destruct (select dialect (RCase cs)) as [[c ar]|] eqn:S; [|discriminate]. eapply NODE; eauto.
Qed.

End Translate.

(* ---- Theta-1, instance 2 ---- *)
Definition tables_ok : bool :=
  forallb (fun t => match c_template t with
                    | Some c => skel_ok (c_sk c) && negb (top_is_hole (c_sk c))
                    | None => true end) templates &&
  (forallb (fun o => match c_binary o with Some c => skel_ok (c_sk c) && negb (top_is_hole (c_sk c)) | None => true end) sqlbin_all
   && match c_between with Some c => skel_ok (c_sk c) && negb (top_is_hole (c_sk c)) | None => true end).

Definition rq_of (e : pexpr) : rexpr := normalize (resolve e).

(* syntax: if no (parent, hole, child) triple of the expression is structurally bad, the emitted tokens are
   read by the engine grammar as the emitter's tree, up to the rotations of [dnorm] *)
Theorem sql_roundtrip (dialect : str) (e : pexpr) (p : nat * sdexpr) :
  tables_ok = true ->
  sql_tree dialect e = Some p ->
  (forall tv, In tv (tree_triples dialect (rsize (rq_of e)) (rq_of e)) -> struct_ok (snd tv) = true) ->
  exists fuel, eparse fuel 0 (tokens_of p)
               = Some (erase (Pratt.dnorm sop suop satom sfn eprec erassoc euprec EINF (snd p)), []).
Proof.
  intros TB ST OK. apply andb_true_iff in TB as [T1 T2].
  unfold sql_tree in ST. fold (rq_of e) in ST.
  destruct (translate dialect (rsize (rq_of e)) (rq_of e)) as [n|] eqn:TR; [|discriminate].
  cbn in ST. inversion ST; subst. cbn [fst snd tokens_of].
  apply (both_roundtrip_wrapped sop suop satom sfn eprec erassoc euprec EINF e_assoc_consistent e_prec_lt_INF e_uprec_distinct).
  exact (translate_respects_grammar dialect T1 T2 _ _ _ TR OK).
Qed.

(* values: the rotated reading has the value of the emitter's tree when every rotated pair is licensed *)
Theorem sql_reading_value (d : sdexpr) (env : list Value.val) :
  (forall q, In q (Pratt.rot_pairs sop suop satom sfn eprec erassoc euprec EINF d) -> pair_in q reassoc_ok = true) ->
  eval_sv env (erase (Pratt.dnorm sop suop satom sfn eprec erassoc euprec EINF d)) = eval_sv env (erase d).
Proof.
  intros H. unfold eval_sv. apply eval_dnorm. intros q Hq. apply SqlLaws.reassoc_ok_sound. apply H. exact Hq.
Qed.

(* both together: what SQLite computes from the emitted text is what the emitter's tree means *)
Theorem sql_engine_reads_intended (dialect : str) (e : pexpr) (p : nat * sdexpr) :
  tables_ok = true ->
  sql_tree dialect e = Some p ->
  (forall tv, In tv (tree_triples dialect (rsize (rq_of e)) (rq_of e)) -> verdict_ok (snd tv) = true) ->
  (forall q, In q (Pratt.rot_pairs sop suop satom sfn eprec erassoc euprec EINF (snd p)) -> pair_in q reassoc_ok = true) ->
  exists fuel r, eparse fuel 0 (tokens_of p) = Some (r, []) /\
                 forall env, eval_sv env r = eval_sv env (erase (snd p)).
Proof.
  intros TB ST OK RP.
  destruct (sql_roundtrip dialect e p TB ST) as [g Hg].
  { intros tv Htv. specialize (OK tv Htv). destruct (snd tv); cbn in *; auto. }
  exists g, (erase (Pratt.dnorm sop suop satom sfn eprec erassoc euprec EINF (snd p))). split; [exact Hg|].
  intros env. apply sql_reading_value. exact RP.
Qed.

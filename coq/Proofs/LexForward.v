(* C17, forward lexing: "this text lexes to this token".
   The tiling / re-lex theorems go from a lexed source to its tokens; a printer needs the other direction: a token list,
   rendered with ONE space between consecutive tokens, lexes back to exactly that token list.

   (1) generic composition: if every text x_i "lexes as" kind k_i whenever it is followed by the end of input or by a space
       ([lexes_as]), then  lex (x_1 ++ " " ++ x_2 ++ " " ... x_n) = Start :: tokens of kinds k_1 .. k_n, with the spans of the x_i;
   (2) [lexes_as] for the token classes a printer emits: plain identifiers that are not reserved words, keywords, true / false /
       null, non-negative integer literals (digit text without leading zero, value within i64), control characters,
       multi-character operators, parameters, double-quoted strings whose content has no quote and no backslash.
   Table facts needed beyond relex_tables_ok are the decidable [forward_tables_ok] (space terminates an expression, no operator's
   second character is a space, no keyword is a proper prefix of another keyword or of true/false/null and vice versa). *)
From Coq Require Import List NArith Bool Lia Arith.
From PV Require Import Lib.ListX Model.Lexer Proofs.LexProofs Proofs.LexTile Proofs.LexTrunc Proofs.LexRelexDefs Proofs.LexHeads Proofs.LexRelex.
Import ListNotations.
Local Open Scope N_scope.

(* what may follow a rendered token: nothing, or the separating space *)
Definition sepd (rest : str) : Prop := match rest with [] => True | c :: _ => c = 32 end.

(* rendering: the texts joined by single spaces *)
Fixpoint join_sp (xs : list str) : str :=
  match xs with
  | [] => []
  | [x] => x
  | x :: r => x ++ 32 :: join_sp r
  end.

Definition kind_finite (k : kind) : bool :=
  match k with KLiteral (LFloat txt) => negb (float_nonfinite txt) | _ => true end.

Definition no_proper_prefix (ws : list str) (k : str) : bool :=
  forallb (fun w => leqb w k || negb (is_some (strip_prefix w k))) ws.
Definition forward_tables_ok (T : tables) : bool :=
  c_in 32 (t_end_chars T) &&
  forallb (fun o => match fst o with [a; b] => negb (N.eqb b 32) && negb (is_iws a) && negb (N.eqb a 46) | _ => false end) (t_ops T) &&
  forallb (fun c => negb (is_iws c)) (t_controls T) &&
  forallb (no_proper_prefix (t_keywords T ++ words T)) (t_keywords T ++ words T).

Section Forward.
  Variable is_alpha is_alnum : chr -> bool.
  Variable T : tables.
  Hypothesis WF : tables_wf T = true.
  Hypothesis CK : class_ok is_alpha is_alnum.
  Hypothesis TK : relex_tables_ok T = true.
  Hypothesis FK : forward_tables_ok T = true.

  Notation end_expr := (end_expr T).
  Notation p_token := (p_token is_alpha is_alnum T).
  Notation p_lex_token := (p_lex_token is_alpha is_alnum T).
  Notation lex_loop := (lex_loop is_alpha is_alnum T).
  Notation lex := (lex is_alpha is_alnum T).
  Notation P0 := p_line_wrap. Notation P1 := p_newline_tok. Notation P2 := (p_multi T). Notation P3 := (p_interp T).
  Notation P4 := (p_param is_alnum). Notation P5 := (p_date_token T). Notation P6 := p_annotate. Notation P7 := (p_control T).
  Notation P8 := (p_literal T). Notation P9 := (p_keyword T). Notation P10 := (p_ident is_alpha is_alnum). Notation P11 := p_comment.

  (* the text x is the token k whenever it is followed by the end of input or by a space *)
  Definition lexes_as (x : str) (k : kind) : Prop :=
    x <> [] /\ hdnws x /\
    forall rest, sepd rest -> eat2 46 46 (x ++ rest) = None /\ p_token (x ++ rest) = Some (k, rest).

  (* ---- facts from forward_tables_ok ---- *)
  Lemma fk_space_ends : c_in 32 (t_end_chars T) = true.
  Proof. unfold forward_tables_ok in FK. repeat (apply andb_true_iff in FK as [FK _]). exact FK. Qed.
  Lemma fk_controls (c : N) : c_in c (t_controls T) = true -> is_iws c = false.
  Proof.
    unfold forward_tables_ok in FK. apply andb_true_iff in FK as [H _]. apply andb_true_iff in H as [_ H].
    intros C. apply negb_true_iff. eapply (c_in_forallb (fun c => negb (is_iws c))); eauto.
  Qed.
  Lemma fk_ops o : In o (t_ops T) -> exists a b, fst o = [a; b] /\ b <> 32 /\ is_iws a = false /\ a <> 46.
  Proof.
    unfold forward_tables_ok in FK. apply andb_true_iff in FK as [H _]. apply andb_true_iff in H as [H _]. apply andb_true_iff in H as [_ H].
    rewrite forallb_forall in H. intros I. specialize (H o I). destruct o as [txt [name ne]]. cbn [fst] in *.
    destruct txt as [|a [|b [|c l]]]; try discriminate H.
    apply andb_true_iff in H as [H H3]. apply andb_true_iff in H as [H1 H2].
    exists a, b. split; [reflexivity|]. apply negb_true_iff in H1, H2, H3. apply N.eqb_neq in H1, H3. auto.
  Qed.
  Lemma fk_prefix w k : In w (t_keywords T ++ words T) -> In k (t_keywords T ++ words T) -> forall y, k = w ++ y -> y = [].
  Proof.
    unfold forward_tables_ok in FK. apply andb_true_iff in FK as [_ H]. rewrite forallb_forall in H.
    intros Iw Ik y E. specialize (H k Ik). unfold no_proper_prefix in H. rewrite forallb_forall in H. specialize (H w Iw).
    apply orb_true_iff in H as [H|H].
    - apply leqb_spec in H. subst w. rewrite <- (app_nil_r k) in E at 1. now apply app_inv_head in E.
    - assert (strip_prefix w k = Some y) as X by (apply strip_prefix_spec; exact E). rewrite X in H. discriminate.
  Qed.

  Lemma end_expr_sepd rest : sepd rest -> end_expr rest = true.
  Proof. destruct rest as [|c t]; [reflexivity|]. cbn. intros ->. unfold Lexer.end_expr. now rewrite fk_space_ends. Qed.

  Lemma space_facts : is_iws 32 = true /\ lower 32 = false /\ is_digit 32 = false /\ is_quote 32 = false /\ sym 32 = true /\ is_nl 32 = false.
  Proof. repeat split; reflexivity. Qed.
  Lemma space_not_cont : is_ident_cont is_alnum 32 = false.
  Proof.
    destruct (is_ident_cont is_alnum 32) eqn:E; [|reflexivity]. apply (cont_facts _ _ CK) in E as (_ & EC & _). discriminate.
  Qed.

  (* a lower-case word that is a prefix of x ++ rest (rest = end or space) is a prefix of x *)
  Lemma prefix_in_text w : forallb lower w = true -> forall x rest r, sepd rest -> strip_prefix w (x ++ rest) = Some r ->
    exists y, x = w ++ y /\ r = y ++ rest.
  Proof.
    induction w as [|c w IH]; intros L x rest r S H.
    - cbn in H. inversion H; subst. exists x. auto.
    - cbn [forallb] in L. apply andb_true_iff in L as [Lc Lw]. destruct x as [|d x].
      + cbn [app] in H. destruct rest as [|e rest]; [discriminate|]. cbn in S. subst e. cbn [strip_prefix] in H.
        destruct (N.eqb c 32) eqn:Q; [apply N.eqb_eq in Q; subst c; discriminate|discriminate].
      + cbn [app strip_prefix] in H. destruct (N.eqb c d) eqn:Q; [|discriminate]. apply N.eqb_eq in Q. subst d.
        destruct (IH Lw x rest r S H) as (y & -> & ->). exists y. auto.
  Qed.

  (* ============================================================ (1) composition *)
  Lemma skip_ws_one x rest : hdnws x -> x <> [] -> skip_ws (32 :: x ++ rest) = x ++ rest.
  Proof.
    intros H NE. rewrite skip_ws_cons_ws by reflexivity. destruct x as [|c x]; [congruence|]. cbn [app]. apply skip_ws_cons_nws. exact H.
  Qed.

  (* one step: a token text at the front (after at most the one separating space) *)
  Lemma p_lex_token_fwd pos (lead : str) x k rest : (lead = [] \/ lead = [32]) -> lexes_as x k -> sepd rest ->
    p_lex_token pos (lead ++ x ++ rest) =
      Some ({| tkind := k; tstart := pos + blen lead; tend := pos + blen lead + blen x |}, rest).
  Proof.
    intros Hl (NE & HW & LX) S. destruct (LX rest S) as [E2 PT].
    unfold Lexer.p_lex_token.
    assert (skip_ws (lead ++ x ++ rest) = x ++ rest) as ->.
    { destruct Hl as [-> | ->]; cbn [app]; [|now apply skip_ws_one].
      destruct x as [|c x]; [congruence|]. cbn [app]. apply skip_ws_cons_nws. exact HW. }
    rewrite E2. fold p_token. rewrite PT. f_equal. f_equal. f_equal; rewrite !blen_app; lia.
  Qed.

  Fixpoint spans_from (pos : N) (xs : list str) (ks : list kind) : list token :=
    match xs, ks with
    | x :: xr, k :: kr =>
        {| tkind := k; tstart := pos; tend := pos + blen x |} :: spans_from (pos + blen x + 1) xr kr
    | _, _ => []
    end.

  Lemma join_cons x y r : join_sp (x :: y :: r) = x ++ 32 :: join_sp (y :: r).
  Proof. reflexivity. Qed.

  Lemma join_shape x xs : exists rest, join_sp (x :: xs) = x ++ rest /\ sepd rest /\
    ((xs = [] /\ rest = []) \/ (xs <> [] /\ rest = [32] ++ join_sp xs)).
  Proof.
    destruct xs as [|y r].
    - exists []. cbn [join_sp]. rewrite app_nil_r. repeat split; auto.
    - exists (32 :: join_sp (y :: r)). repeat split; auto. right. split; [discriminate|reflexivity].
  Qed.

  Lemma lex_loop_ws_only f pos : lex_loop (S f) pos [32] = Some [].
  Proof. cbn [Lexer.lex_loop]. unfold Lexer.p_lex_token. cbn. fold p_token. now rewrite p_token_nil by assumption. Qed.

  Lemma lex_loop_join : forall xs ks, Forall2 lexes_as xs ks -> forall f pos lead, (lead = [] \/ lead = [32]) ->
    (List.length (lead ++ join_sp xs) < f)%nat ->
    lex_loop f pos (lead ++ join_sp xs) = Some (spans_from (pos + blen lead) xs ks).
  Proof.
    intros xs ks F. induction F as [|x k xs ks L F IH]; intros f pos lead Hl Hf.
    - destruct f; [lia|]. cbn [join_sp spans_from]. rewrite app_nil_r.
      destruct Hl as [-> | ->]; [apply lex_loop_nil; assumption|apply lex_loop_ws_only].
    - destruct f as [|f]; [lia|]. cbn [Lexer.lex_loop].
      destruct (join_shape x xs) as (rest & J & S & C). rewrite J in *.
      rewrite (p_lex_token_fwd pos lead x k rest Hl L S). cbn [tend spans_from].
      assert (LEN : (List.length rest < f)%nat).
      { destruct L as (NE & _). rewrite !app_length in Hf. destruct x; [congruence|]. cbn [List.length] in Hf. lia. }
      destruct C as [[-> ->] | [NEx ->]].
      + inversion F; subst. destruct f; [lia|]. rewrite lex_loop_nil by assumption. reflexivity.
      + rewrite (IH f (pos + blen lead + blen x) [32] (or_intror eq_refl) LEN). cbn [blen]. unfold utf8_len. cbn.
        repeat f_equal; lia.
  Qed.

  Lemma spans_kinds pos : forall xs ks, List.length xs = List.length ks -> map tkind (spans_from pos xs ks) = ks.
  Proof.
    intros xs; revert pos; induction xs as [|x xs IH]; intros pos [|k ks] E; try discriminate; [reflexivity|].
    cbn [spans_from map tkind]. f_equal. apply IH. now injection E.
  Qed.
  Lemma spans_finite pos : forall xs ks, forallb kind_finite ks = true -> forallb (tok_finite) (spans_from pos xs ks) = true.
  Proof.
    intros xs; revert pos; induction xs as [|x xs IH]; intros pos [|k ks] E; try reflexivity.
    cbn [forallb] in E. apply andb_true_iff in E as [E1 E2]. cbn [spans_from forallb]. rewrite (IH _ _ E2), andb_true_r. exact E1.
  Qed.

  (* rendering a list of token texts with single spaces and lexing it gives back exactly those tokens, with their spans *)
  Theorem render_lex xs ks : Forall2 lexes_as xs ks -> forallb kind_finite ks = true ->
    lex (join_sp xs) = Some (start_token :: spans_from 0 xs ks).
  Proof.
    intros F FIN. unfold Lexer.lex.
    pose proof (lex_loop_join xs ks F (S (List.length (join_sp xs))) 0 [] (or_introl eq_refl)) as H. cbn [app blen] in H.
    rewrite H by lia. rewrite N.add_0_l. now rewrite spans_finite.
  Qed.

  (* ============================================================ (2) the token classes *)
  Lemma sepd_hd_cases rest : sepd rest -> rest = [] \/ exists t, rest = 32 :: t.
  Proof. destruct rest as [|c t]; [now left|]. cbn. intros ->. right. eauto. Qed.
  Lemma eat2_dots_none c (t : str) : c <> 46 -> eat2 46 46 (c :: t) = None.
  Proof. intros H. unfold eat2, eat. destruct (N.eqb c 46) eqn:E; [apply N.eqb_eq in E; congruence|reflexivity]. Qed.

  (* ---- control characters ---- *)
  Lemma control_lexes (c : N) : c_in c (t_controls T) = true -> lexes_as [c] (KControl c).
  Proof.
    intros C. pose proof (tk_controls T TK c C) as S. pose proof (fk_controls c C) as W.
    destruct (sym_facts c S) as (NL & Q & D & L & N36 & N64 & N35 & N96 & N95).
    split; [discriminate|]. split; [exact W|]. intros rest R. cbn [app]. split.
    - destruct (sepd_hd_cases rest R) as [-> | [t ->]]; unfold eat2, eat; destruct (N.eqb c 46); reflexivity.
    - rewrite (p_token_chain is_alpha is_alnum T TK). unfold tok_chain.
      destruct (nl_none c rest NL) as [-> ->].
      assert (p_multi T (c :: rest) = None) as ->.
      { destruct (p_multi T (c :: rest)) as [v|] eqn:E; [|reflexivity]. unfold p_multi in E.
        apply (hd_ops T TK) in E; [|auto]. destruct E as (a & b & t & name & ne & X & _ & I & _).
        destruct (fk_ops _ I) as (a' & b' & F & NB & _). cbn [fst] in F. inversion F; subst a' b'. inversion X; subst.
        destruct R. congruence. }
      rewrite (interp_none T TK c rest (or_introl L)).
      rewrite (param_none is_alnum c rest N36), (date_none T c rest N64), (annot_none c rest N64).
      unfold p_control. rewrite C. reflexivity.
  Qed.

  (* ---- multi-character operators ---- *)
  Lemma p_ops_fwd ops a b name ne rest :
    (forall o, In o ops -> In o (t_ops T)) -> NoDup (map fst ops) -> In ([a; b], (name, ne)) ops -> end_expr rest = true ->
    p_ops T ops (a :: b :: rest) = Some (KOp name, rest).
  Proof.
    induction ops as [|[txt [n' e']] ops IH]; intros Sub ND I EE; [destruct I|]. cbn [p_ops].
    destruct (tk_ops T TK (txt, (n', e')) (Sub _ (or_introl eq_refl))) as (a' & b' & E & _). cbn [fst] in E. subst txt.
    cbn [map fst] in ND. inversion ND as [|? ? NI ND']; subst.
    destruct (strip_prefix [a'; b'] (a :: b :: rest)) as [r0|] eqn:S.
    - apply strip_prefix_spec in S. cbn [app] in S. inversion S; subst.
      destruct I as [I|I].
      + inversion I; subst. rewrite EE. destruct ne; reflexivity.
      + exfalso. apply NI. change [a'; b'] with (fst ([a'; b'], (name, ne))). now apply in_map.
    - destruct I as [I|I].
      + inversion I; subst. assert (strip_prefix [a; b] (a :: b :: rest) = Some rest) by (now apply strip_prefix_spec). congruence.
      + apply IH; auto. intros o Io. apply Sub. now right.
  Qed.
  Lemma op_lexes (a b : N) name ne : In ([a; b], (name, ne)) (t_ops T) -> lexes_as [a; b] (KOp name).
  Proof.
    intros I. destruct (tk_ops T TK _ I) as (a' & b' & F & S). cbn [fst] in F. inversion F; subst a' b'.
    destruct (fk_ops _ I) as (a' & b' & F' & NB & W & N46). cbn [fst] in F'. inversion F'; subst a' b'.
    destruct (sym_facts a S) as (NL & _).
    split; [discriminate|]. split; [exact W|]. intros rest R. cbn [app]. split; [now apply eat2_dots_none|].
    rewrite (p_token_chain is_alpha is_alnum T TK). unfold tok_chain.
    destruct (nl_none a (b :: rest) NL) as [-> ->].
    unfold p_multi. rewrite (p_ops_fwd (t_ops T) a b name ne rest); auto using (tk_ops_nodup T TK), end_expr_sepd.
  Qed.

  (* ---- reserved words ---- *)
  Lemma first_prefix_inv l y k r : first_prefix l y = Some (k, r) -> In k l /\ y = k ++ r.
  Proof.
    induction l as [|a l IH]; cbn [first_prefix]; [discriminate|]. destruct (strip_prefix a y) eqn:S.
    - intros X; inversion X; subst. apply strip_prefix_spec in S. split; [now left|exact S].
    - intros X. destruct (IH X). split; [now right|assumption].
  Qed.
  Lemma first_prefix_none_inv l y : first_prefix l y = None -> forall k, In k l -> strip_prefix k y = None.
  Proof.
    induction l as [|a l IH]; cbn [first_prefix]; intros H k I; [destruct I|]. destruct (strip_prefix a y) eqn:S; [discriminate|].
    destruct I as [<-|I]; auto.
  Qed.
  Lemma reserved_lower w : In w (t_keywords T ++ words T) -> exists c t, w = c :: t /\ lower c = true /\ forallb lower t = true.
  Proof.
    intros I. apply in_app_or in I as [I|I]; apply lower_word_shape; [now apply (tk_keywords T TK)|now apply (tk_words T TK)].
  Qed.
  (* a reserved word that is a prefix of (reserved word w ++ rest) is w itself *)
  Lemma reserved_prefix w' w rest r : In w' (t_keywords T ++ words T) -> In w (t_keywords T ++ words T) -> sepd rest ->
    strip_prefix w' (w ++ rest) = Some r -> w' = w /\ r = rest.
  Proof.
    intros I' I R S. destruct (reserved_lower w' I') as (c & t & E & Lc & Lt).
    assert (LW : forallb lower w' = true) by (subst w'; cbn [forallb]; now rewrite Lc, Lt).
    destruct (prefix_in_text w' LW w rest r R S) as (y & X & ->). pose proof (fk_prefix w' w I' I y X) as ->.
    rewrite app_nil_r in X. auto.
  Qed.

  (* everything before literal() fails on a reserved word followed by end / space *)
  Lemma reserved_pre (c : N) (t rest : list N) : lower c = true -> forallb lower t = true -> sepd rest ->
    P0 (c :: t ++ rest) = None /\ P1 (c :: t ++ rest) = None /\ P2 (c :: t ++ rest) = None /\ P3 (c :: t ++ rest) = None /\
    P4 (c :: t ++ rest) = None /\ P5 (c :: t ++ rest) = None /\ P6 (c :: t ++ rest) = None /\ P7 (c :: t ++ rest) = None /\ snq (t ++ rest).
  Proof.
    intros Lc Lt R. destruct (lower_facts c Lc) as ((S & NL & Q & N36 & N64 & N35 & N46) & D & EC & N96 & N95 & AN).
    destruct (block_A is_alnum T TK c (t ++ rest) NL S N36 N64) as (A0 & A1 & A2 & A4 & A5 & A6 & A7).
    assert (SN : snq (t ++ rest)).
    { destruct t as [|q t]; cbn [app]; [destruct rest as [|e rest]; cbn; [trivial|cbn in R; subst e; reflexivity]|].
      cbn [forallb] in Lt. apply andb_true_iff in Lt as [Lq _]. cbn. now destruct (lower_facts q Lq) as ((_ & _ & Qq & _) & _). }
    repeat split; auto. apply (interp_none T TK). right. right. exact SN.
  Qed.

  Lemma keyword_lexes k : In k (t_keywords T) -> lexes_as k (KKeyword k).
  Proof.
    intros I. assert (IR : In k (t_keywords T ++ words T)) by (apply in_or_app; now left).
    destruct (reserved_lower k IR) as (c & t & -> & Lc & Lt).
    destruct (lower_facts c Lc) as ((S & NL & Q & N36 & N64 & N35 & N46) & D & EC & N96 & N95 & AN).
    split; [discriminate|]. split; [cbn; chr_solve|]. intros rest R. cbn [app]. split; [now apply eat2_dots_none|].
    rewrite (p_token_chain is_alpha is_alnum T TK). unfold tok_chain.
    destruct (reserved_pre c t rest Lc Lt R) as (-> & -> & -> & -> & -> & -> & -> & -> & SN).
    assert (P8 (c :: t ++ rest) = None) as ->.
    { apply (literal_none T TK); auto.
      intros w Iw. unfold p_word_end. destruct (strip_prefix w (c :: t ++ rest)) as [r|] eqn:E; [|reflexivity]. exfalso.
      assert (IW : In w (t_keywords T ++ words T)) by (apply in_or_app; now right).
      destruct (reserved_prefix w (c :: t) rest r IW IR R E) as [X _]. subst w.
      pose proof (tk_kw_no_word T TK (c :: t) (c :: t) I Iw) as NP.
      assert (strip_prefix (c :: t) (c :: t) = Some []) by (apply strip_prefix_spec; now rewrite app_nil_r). congruence. }
    unfold p_keyword. change (c :: t ++ rest) with ((c :: t) ++ rest).
    destruct (first_prefix (t_keywords T) ((c :: t) ++ rest)) as [[k' r]|] eqn:FP.
    - destruct (first_prefix_inv _ _ _ _ FP) as [Ik' Y].
      assert (SP : strip_prefix k' ((c :: t) ++ rest) = Some r) by (now apply strip_prefix_spec).
      destruct (reserved_prefix k' (c :: t) rest r (in_or_app _ _ _ (or_introl Ik')) IR R SP) as [-> ->].
      now rewrite (end_expr_sepd rest R).
    - pose proof (first_prefix_none_inv _ _ FP _ I) as X.
      assert (strip_prefix (c :: t) ((c :: t) ++ rest) = Some rest) by (now apply strip_prefix_spec). congruence.
  Qed.

  (* ---- true / false / null ---- *)
  Definition word_lit (w : str) : lit :=
    if leqb w (t_true T) then LBool true else if leqb w (t_false T) then LBool false else LNull.

  Lemma word_end_self w rest : sepd rest -> p_word_end T w (w ++ rest) = Some rest.
  Proof.
    intros R. unfold p_word_end. assert (strip_prefix w (w ++ rest) = Some rest) as -> by (now apply strip_prefix_spec).
    now rewrite (end_expr_sepd rest R).
  Qed.
  Lemma word_end_other w' w rest : In w' (words T) -> In w (words T) -> w' <> w -> sepd rest -> p_word_end T w' (w ++ rest) = None.
  Proof.
    intros I' I NE R. unfold p_word_end. destruct (strip_prefix w' (w ++ rest)) as [r|] eqn:E; [|reflexivity]. exfalso.
    destruct (reserved_prefix w' w rest r (in_or_app _ _ _ (or_intror I')) (in_or_app _ _ _ (or_intror I)) R E) as [X _]. congruence.
  Qed.
  Lemma words_distinct : t_true T <> t_false T /\ t_true T <> t_null T /\ t_false T <> t_null T.
  Proof.
    destruct (tk_words_distinct T TK) as (A & B & C).
    assert (G : forall a b : str, strip_prefix a b = None -> a <> b).
    { intros a b H ->. assert (strip_prefix b b = Some []) by (apply strip_prefix_spec; now rewrite app_nil_r). congruence. }
    auto.
  Qed.

  Lemma word_lexes w : In w (words T) -> lexes_as w (KLiteral (word_lit w)).
  Proof.
    intros I. assert (IR : In w (t_keywords T ++ words T)) by (apply in_or_app; now right).
    destruct (reserved_lower w IR) as (c & t & E & Lc & Lt).
    destruct (lower_facts c Lc) as ((S & NL & Q & N36 & N64 & N35 & N46) & D & EC & N96 & N95 & AN).
    split; [subst w; discriminate|]. split; [subst w; cbn; chr_solve|]. intros rest R. split; [subst w; cbn [app]; now apply eat2_dots_none|].
    rewrite (p_token_chain is_alpha is_alnum T TK). unfold tok_chain.
    assert (SH : w ++ rest = c :: t ++ rest) by (subst w; reflexivity).
    destruct (reserved_pre c t rest Lc Lt R) as (A0 & A1 & A2 & A3 & A4 & A5 & A6 & A7 & SN).
    rewrite SH, A0, A1, A2, A3, A4, A5, A6, A7. rewrite <- SH.
    unfold p_literal. rewrite (first_lit_chain T TK). unfold lit_chain. rewrite SH.
    assert (c <> 48) by (intros ->; discriminate).
    rewrite !(based_none_by_head T TK) by assumption. rewrite str_none_by_head by assumption.
    rewrite raw_none_by_head by (right; exact SN). rewrite vu_none_by_head, num_none_by_head by assumption.
    rewrite <- SH. unfold p_boolean, p_null, word_lit.
    destruct words_distinct as (D1 & D2 & D3).
    destruct I as [<- | [<- | [<- | []]]].
    - rewrite word_end_self by exact R. now rewrite leqb_refl.
    - rewrite (word_end_other (t_true T) (t_false T)); auto using in_words_true, in_words_false.
      rewrite word_end_self by exact R.
      destruct (leqb (t_false T) (t_true T)) eqn:X; [apply leqb_spec in X; congruence|]. now rewrite leqb_refl.
    - rewrite (word_end_other (t_true T) (t_null T)); auto using in_words_true, in_words_null.
      rewrite (word_end_other (t_false T) (t_null T)); auto using in_words_false, in_words_null.
      rewrite word_end_self by exact R.
      destruct (leqb (t_null T) (t_true T)) eqn:X; [apply leqb_spec in X; congruence|].
      destruct (leqb (t_null T) (t_false T)) eqn:Y; [apply leqb_spec in Y; congruence|]. reflexivity.
  Qed.

  (* ---- plain identifiers that are not reserved words ---- *)
  Definition plain_ident (w : str) : Prop :=
    match w with c :: a => is_ident_start is_alpha c = true /\ forallb (is_ident_cont is_alnum) a = true | [] => False end.

  Lemma span_cont_stop (a rest : list N) : forallb (is_ident_cont is_alnum) a = true -> sepd rest ->
    span_while (is_ident_cont is_alnum) (a ++ rest) = (a, rest).
  Proof.
    intros F R. induction a as [|x a IH]; cbn [app].
    - destruct rest as [|e rest]; [reflexivity|]. cbn in R. subst e. cbn [span_while]. now rewrite space_not_cont.
    - cbn [forallb] in F. apply andb_true_iff in F as [Fx Fa]. cbn [span_while]. rewrite Fx, (IH Fa). reflexivity.
  Qed.

  (* after a proper, non-empty prefix of an identifier followed by end / space, an expression does not end *)
  Lemma ident_rest_not_end (a y rest : list N) : forallb (is_ident_cont is_alnum) a = true -> forall p, a = p ++ y -> y <> [] ->
    end_expr (y ++ rest) = false.
  Proof.
    intros F p E NE. destruct y as [|q y]; [congruence|]. cbn [app].
    pose proof (forallb_suffix_head _ _ _ _ _ F E) as Cq.
    destruct (cont_facts _ _ CK q Cq) as ((_ & NL & _ & _ & _ & _ & N46) & EC & _).
    now apply (end_expr_cons_false T TK).
  Qed.

  Lemma ident_lexes w : plain_ident w -> ~ kwlike T w -> lexes_as w (KIdent w).
  Proof.
    intros PI NK. destruct w as [|c a]; [destruct PI|]. destruct PI as [Sc Fa].
    destruct (start_facts _ _ CK c Sc) as ((S & NL & Q & N36 & N64 & N35 & N46) & D & N96).
    assert (W : is_iws c = false).
    { destruct (is_iws c) eqn:X; [|reflexivity]. exfalso. unfold is_iws in X. apply orb_true_iff in X as [X|X]; apply N.eqb_eq in X; subst c.
      - pose proof space_facts as (_ & _ & _ & _ & S32 & _). congruence.
      - cbv in S. discriminate. }
    split; [discriminate|]. split; [exact W|]. intros rest R. cbn [app]. split; [now apply eat2_dots_none|].
    rewrite (p_token_chain is_alpha is_alnum T TK). unfold tok_chain.
    destruct (block_A is_alnum T TK c (a ++ rest) NL S N36 N64) as (-> & -> & -> & A4 & A5 & A6 & A7).
    (* the character after the first one is not a quote *)
    assert (SN : snq (a ++ rest)).
    { destruct a as [|q a]; cbn [app]; [destruct rest as [|e rest]; cbn; [trivial|cbn in R; subst e; reflexivity]|].
      cbn [forallb] in Fa. apply andb_true_iff in Fa as [Fq _]. cbn. now destruct (cont_facts _ _ CK q Fq) as ((_ & _ & Qq & _) & _). }
    rewrite (interp_none T TK c (a ++ rest)) by (right; right; exact SN). rewrite A4, A5, A6, A7.
    (* a reserved word that is a prefix of the text is followed by an identifier character *)
    assert (RES : forall w' r, In w' (t_keywords T ++ words T) -> strip_prefix w' (c :: a ++ rest) = Some r -> end_expr r = false).
    { intros w' r I' SP. destruct (reserved_lower w' I') as (c' & t' & E' & Lc' & Lt').
      assert (LW : forallb lower w' = true) by (subst w'; cbn [forallb]; now rewrite Lc', Lt').
      destruct (prefix_in_text w' LW (c :: a) rest r R SP) as (y & X & ->).
      destruct y as [|q y].
      - exfalso. apply NK. rewrite app_nil_r in X. rewrite X. unfold kwlike. apply in_app_or in I'. exact I'.
      - subst w'. cbn [app] in X. injection X as _ X. apply (ident_rest_not_end a (q :: y) rest Fa t' X). discriminate. }
    assert (P8 (c :: a ++ rest) = None) as ->.
    { apply (literal_none T TK); auto.
      intros w' Iw. unfold p_word_end. destruct (strip_prefix w' (c :: a ++ rest)) as [r|] eqn:E; [|reflexivity].
      now rewrite (RES w' r (in_or_app _ _ _ (or_intror Iw)) E). }
    assert (P9 (c :: a ++ rest) = None) as ->.
    { unfold p_keyword. destruct (first_prefix (t_keywords T) (c :: a ++ rest)) as [[k' r]|] eqn:FP; [|reflexivity].
      destruct (first_prefix_inv _ _ _ _ FP) as [Ik' Y].
      assert (SP : strip_prefix k' (c :: a ++ rest) = Some r) by (now apply strip_prefix_spec).
      now rewrite (RES k' r (in_or_app _ _ _ (or_introl Ik')) SP). }
    unfold p_ident, p_ident_part, orelse, p_ident_plain. rewrite Sc. now rewrite (span_cont_stop a rest Fa R).
  Qed.

  (* ---- non-negative integer literals ---- *)
  Definition int_text (ds : str) : Prop :=
    match ds with
    | d :: a => is_digit d = true /\ forallb is_digit a = true /\ (d = 48 -> a = []) /\ dec_val ds <= i64_max
    | [] => False
    end.

  Lemma span_digits_stop (a rest : list N) : forallb is_digit a = true -> sepd rest -> span_while is_digit_us (a ++ rest) = (a, rest).
  Proof.
    intros F R. induction a as [|x a IH]; cbn [app].
    - destruct rest as [|e rest]; [reflexivity|]. cbn in R. subst e. reflexivity.
    - cbn [forallb] in F. apply andb_true_iff in F as [Fx Fa]. cbn [span_while]. unfold is_digit_us at 1. rewrite Fx. cbn [orb]. now rewrite (IH Fa).
  Qed.
  Lemma no_us_digits (a : list N) : forallb is_digit a = true -> no_us a = a.
  Proof.
    induction a as [|x a IH]; intros F; [reflexivity|]. cbn [forallb] in F. apply andb_true_iff in F as [Fx Fa].
    cbn [no_us filter]. assert (N.eqb x 95 = false) as -> by chr_solve. cbn [negb]. f_equal. now apply IH.
  Qed.
  Lemma first_prefix_sepd_none l (rest : list N) : (forall u, In u l -> lower_word u = true) -> sepd rest -> first_prefix l rest = None.
  Proof.
    intros L R. induction l as [|u l IH]; [reflexivity|]. cbn [first_prefix].
    destruct (lower_word_shape u (L u (or_introl eq_refl))) as (h & u' & -> & LH & _).
    assert (strip_prefix (h :: u') rest = None) as ->.
    { destruct rest as [|e rest]; [reflexivity|]. cbn in R. subst e. cbn [strip_prefix].
      destruct (N.eqb h 32) eqn:X; [apply N.eqb_eq in X; subst h; discriminate|reflexivity]. }
    apply IH. intros u0 I0. apply L. now right.
  Qed.

  Lemma int_lexes ds : int_text ds -> lexes_as ds (KLiteral (LInt (dec_val ds))).
  Proof.
    intros IT. destruct ds as [|d a]; [destruct IT|]. destruct IT as (Dd & Da & Z & FIT).
    destruct (digit_facts d Dd) as ((S & NL & Q & N36 & N64 & N35 & N46) & L & EC & N96 & N95).
    split; [discriminate|]. split; [cbn; chr_solve|]. intros rest R. cbn [app]. split; [now apply eat2_dots_none|].
    rewrite (p_token_chain is_alpha is_alnum T TK). unfold tok_chain.
    destruct (block_A is_alnum T TK d (a ++ rest) NL S N36 N64) as (-> & -> & -> & -> & -> & -> & ->).
    rewrite (interp_none T TK d (a ++ rest) (or_introl L)).
    unfold p_literal. rewrite (first_lit_chain T TK). unfold lit_chain.
    (* 0b / 0x / 0o need a lower-case letter after the 0 *)
    assert (BN : forall i, p_based_nth T i (d :: a ++ rest) = None).
    { intros i. destruct (p_based_nth T i (d :: a ++ rest)) as [v|] eqn:E; [|reflexivity]. exfalso.
      apply (hd_based T TK) in E as (b & t' & X & Lb). injection X as -> X. rewrite (Z eq_refl) in X. cbn [app] in X.
      destruct rest as [|e rest]; [discriminate|]. cbn in R. subst e. injection X as <- _. discriminate. }
    rewrite !BN. rewrite str_none_by_head by assumption.
    rewrite raw_none_by_head by (left; intros ->; discriminate).
    (* parse_integer takes exactly the digits *)
    assert (PI : p_integer (d :: a ++ rest) = Some (d :: a, rest)).
    { unfold p_integer. rewrite Dd. cbn [andb]. destruct (N.eqb d 48) eqn:E48.
      - apply N.eqb_eq in E48. rewrite (Z E48). subst d. reflexivity.
      - cbn [negb]. now rewrite (span_digits_stop a rest Da R). }
    unfold p_value_unit. rewrite PI.
    rewrite (first_prefix_sepd_none (t_units T) rest) by (try exact R; intros u Iu; now apply (tk_units T TK)).
    unfold p_number. rewrite PI.
    assert (p_frac rest = ([], rest)) as ->.
    { unfold p_frac. destruct rest as [|e rest]; [reflexivity|]. cbn in R. subst e. reflexivity. }
    assert (p_exp rest = ([], rest)) as ->.
    { unfold p_exp. destruct rest as [|e rest]; [reflexivity|]. cbn in R. subst e. reflexivity. }
    rewrite !app_nil_r. rewrite no_us_digits by (cbn [forallb]; now rewrite Dd, Da).
    apply N.leb_le in FIT. now rewrite FIT.
  Qed.

  (* ---- double-quoted strings without quotes and backslashes ---- *)
  Definition plain_body (body : str) : Prop := forallb (fun c => negb (N.eqb c 34) && negb (N.eqb c 92)) body = true.

  Lemma mq_body_plain (body rest : list N) : plain_body body -> forall f, (List.length body < f)%nat ->
    mq_body T f 34 1 (body ++ 34 :: rest) = Some (body, rest).
  Proof.
    unfold plain_body. induction body as [|x body IH]; intros PB f Hf.
    - destruct f; [lia|]. cbn [app mq_body take_quotes]. reflexivity.
    - destruct f; [lia|]. cbn [forallb] in PB. apply andb_true_iff in PB as [Px Pb]. apply andb_true_iff in Px as [X34 X92].
      apply negb_true_iff in X34, X92. cbn [app mq_body take_quotes]. rewrite X34, X92.
      rewrite (IH Pb f) by (cbn [List.length] in Hf; lia). reflexivity.
  Qed.

  Lemma string_lexes body : plain_body body -> lexes_as (34 :: body ++ [34]) (KLiteral (LString body)).
  Proof.
    intros PB. split; [discriminate|]. split; [reflexivity|]. intros rest R.
    replace ((34 :: body ++ [34]) ++ rest) with (34 :: body ++ 34 :: rest) by (cbn [app]; now rewrite <- app_assoc).
    split; [apply eat2_dots_none; discriminate|].
    rewrite (p_token_chain is_alpha is_alnum T TK). unfold tok_chain.
    destruct (block_A is_alnum T TK 34 (body ++ 34 :: rest)) as (-> & -> & -> & -> & -> & -> & ->); try reflexivity; try discriminate.
    rewrite (interp_none T TK 34 (body ++ 34 :: rest) (or_introl eq_refl)).
    unfold p_literal. rewrite (first_lit_chain T TK). unfold lit_chain.
    rewrite !(based_none_by_head T TK) by discriminate.
    assert (p_string T (34 :: body ++ 34 :: rest) = Some (LString body, rest)) as ->; [|reflexivity].
    unfold p_string, p_quoted, orelse, p_multi_quoted.
    destruct body as [|b bs].
    - cbn [app count_prefix]. rewrite !N.eqb_refl.
      assert (count_prefix 34 rest = (O, rest)) as ->.
      { destruct rest as [|e rest]; [reflexivity|]. cbn in R. subst e. reflexivity. }
      reflexivity.
    - pose proof PB as PB'. unfold plain_body in PB'. cbn [forallb] in PB'. apply andb_true_iff in PB' as [Pb _].
      apply andb_true_iff in Pb as [B34 _]. apply negb_true_iff in B34.
      cbn [app count_prefix]. rewrite N.eqb_refl, B34. cbn [Nat.even].
      change (b :: bs ++ 34 :: rest) with ((b :: bs) ++ 34 :: rest).
      rewrite (mq_body_plain (b :: bs) rest PB) by (rewrite app_length; cbn [List.length]; lia). reflexivity.
  Qed.

  (* ---- parameters ---- *)
  Lemma space_not_param : is_param_char is_alnum 32 = false.
  Proof.
    unfold is_param_char. destruct (is_alnum 32) eqn:E; [|reflexivity]. apply (proj2 CK) in E; [discriminate|reflexivity].
  Qed.
  Lemma span_param_stop (a rest : list N) : forallb (is_param_char is_alnum) a = true -> sepd rest ->
    span_while (is_param_char is_alnum) (a ++ rest) = (a, rest).
  Proof.
    intros F R. induction a as [|x a IH]; cbn [app].
    - destruct rest as [|e rest]; [reflexivity|]. cbn in R. subst e. cbn [span_while]. now rewrite space_not_param.
    - cbn [forallb] in F. apply andb_true_iff in F as [Fx Fa]. cbn [span_while]. rewrite Fx, (IH Fa). reflexivity.
  Qed.
  Lemma param_lexes (s : list N) : forallb (is_param_char is_alnum) s = true -> lexes_as (36 :: s) (KParam s).
  Proof.
    intros F. split; [discriminate|]. split; [reflexivity|]. intros rest R. cbn [app]. split; [apply eat2_dots_none; discriminate|].
    rewrite (p_token_chain is_alpha is_alnum T TK). unfold tok_chain.
    destruct (nl_none 36 (s ++ rest) eq_refl) as [-> ->].
    rewrite (multi_none T TK 36 (s ++ rest) eq_refl). rewrite (interp_none T TK 36 (s ++ rest) (or_introl eq_refl)).
    unfold p_param. cbn [eat]. rewrite N.eqb_refl. now rewrite (span_param_stop s rest F R).
  Qed.

  (* ============================================================ (3) the renderer over token kinds *)
  (* the text of a token kind, for the classes above (None: the kind has no canonical text here) *)
  Fixpoint op_text (ops : list (str * (str * bool))) (name : str) : option str :=
    match ops with
    | [] => None
    | (txt, (n, _)) :: r => if leqb n name then Some txt else op_text r name
    end.
  Definition kind_text (k : kind) : option str :=
    match k with
    | KIdent w => Some w
    | KKeyword w => Some w
    | KLiteral (LBool true) => Some (t_true T)
    | KLiteral (LBool false) => Some (t_false T)
    | KLiteral LNull => Some (t_null T)
    | KLiteral (LString b) => Some (34 :: b ++ [34])
    | KControl c => Some [c]
    | KOp name => op_text (t_ops T) name
    | KParam s => Some (36 :: s)
    | _ => None
    end.
  (* side conditions under which [kind_text k] lexes back to k (integer literals go through [int_lexes]: their text is not a
     function of the value) *)
  Definition renderable (k : kind) : Prop :=
    match k with
    | KIdent w => plain_ident w /\ ~ kwlike T w
    | KKeyword w => In w (t_keywords T)
    | KLiteral (LBool _) | KLiteral LNull => True
    | KLiteral (LString b) => plain_body b
    | KControl c => c_in c (t_controls T) = true
    | KOp name => exists txt ne, In (txt, (name, ne)) (t_ops T) /\ op_text (t_ops T) name = Some txt
    | KParam s => forallb (is_param_char is_alnum) s = true
    | _ => False
    end.

  Lemma renderable_lexes k : renderable k -> exists x, kind_text k = Some x /\ lexes_as x k.
  Proof.
    destruct k as [ |w|w|l|s|bl br|c s|c|name| |s|s|cs| ]; cbn [renderable kind_text]; try (intros []; fail).
    - intros [P NK]. exists w. split; [reflexivity|now apply ident_lexes].
    - intros I. exists w. split; [reflexivity|now apply keyword_lexes].
    - destruct l as [ |n|t|b|s|s|s|s|s|n u]; try (intros []; fail).
      + intros _. exists (t_null T). split; [reflexivity|].
        replace LNull with (word_lit (t_null T)); [apply word_lexes, in_words_null|].
        unfold word_lit. destruct words_distinct as (D1 & D2 & D3).
        destruct (leqb (t_null T) (t_true T)) eqn:X; [apply leqb_spec in X; congruence|].
        destruct (leqb (t_null T) (t_false T)) eqn:Y; [apply leqb_spec in Y; congruence|]. reflexivity.
      + intros _. destruct b.
        * exists (t_true T). split; [reflexivity|]. replace (LBool true) with (word_lit (t_true T)); [apply word_lexes, in_words_true|].
          unfold word_lit. now rewrite leqb_refl.
        * exists (t_false T). split; [reflexivity|]. replace (LBool false) with (word_lit (t_false T)); [apply word_lexes, in_words_false|].
          unfold word_lit. destruct words_distinct as (D1 & D2 & D3).
          destruct (leqb (t_false T) (t_true T)) eqn:X; [apply leqb_spec in X; congruence|]. now rewrite leqb_refl.
      + intros P. exists (34 :: s ++ [34]). split; [reflexivity|now apply string_lexes].
    - intros F. exists (36 :: s). split; [reflexivity|now apply param_lexes].
    - intros C. exists [c]. split; [reflexivity|now apply control_lexes].
    - intros (txt & ne & I & E). exists txt. split; [exact E|].
      destruct (tk_ops T TK _ I) as (a & b & F & _). cbn [fst] in F. subst txt. eapply op_lexes; eauto.
  Qed.

  Lemma renderable_finite k : renderable k -> kind_finite k = true.
  Proof. destruct k as [ |w|w|l|s|bl br|c s|c|name| |s|s|cs| ]; try reflexivity. destruct l; try reflexivity. intros []. Qed.

  (* a list of renderable token kinds, written with one space between consecutive tokens, lexes back to exactly that list *)
  Theorem render_kinds ks : Forall renderable ks ->
    exists xs, Forall2 (fun k x => kind_text k = Some x) ks xs /\
      lex (join_sp xs) = Some (start_token :: spans_from 0 xs ks) /\ map tkind (spans_from 0 xs ks) = ks.
  Proof.
    intros F.
    assert (G : exists xs, Forall2 (fun k x => kind_text k = Some x) ks xs /\ Forall2 lexes_as xs ks /\ forallb kind_finite ks = true).
    { induction F as [|k ks R F IH]; [exists []; repeat split; constructor|].
      destruct IH as (xs & A & B & C). destruct (renderable_lexes k R) as (x & E & L).
      exists (x :: xs). repeat split; [now constructor|now constructor|]. cbn [forallb]. now rewrite (renderable_finite k R), C. }
    destruct G as (xs & A & B & C). exists xs. split; [exact A|]. split; [now apply render_lex|].
    apply spans_kinds. clear - B. induction B; cbn; congruence.
  Qed.
End Forward.

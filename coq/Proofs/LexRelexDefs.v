(* C17, re-lexing: hypotheses on the character classes and on the tables, and their consequences in usable form. *)
From Coq Require Import List NArith Bool Lia Arith.
From PV Require Import Lib.ListX Model.Lexer Proofs.LexProofs.
Import ListNotations.
Local Open Scope nat_scope.

(* ============================================================ (A) hypotheses *)
Definition lower (c : chr) : bool := (97 <=? c)%N && (c <=? 122)%N.
Definition ascii_alpha (c : chr) : bool := ((65 <=? c)%N && (c <=? 90)%N) || lower c.
Definition ascii_alnum (c : chr) : bool := ascii_alpha c || is_digit c.
(* ASCII punctuation that may start an operator / be a control character: not a letter, digit, '_', '`', '#', '$',
   '@', quote, newline *)
Definition sym (c : chr) : bool :=
  (c <? 128)%N && negb (ascii_alnum c) && negb (c_in c [95; 96; 35; 36; 64; 34; 39; 10; 13]%N).
(* characters that may terminate an expression: ASCII, not a letter, digit or '_' *)
Definition endc (c : chr) : bool := (c <? 128)%N && negb (ascii_alnum c) && negb (N.eqb c 95%N).

(* What the re-lex theorem assumes about Rust's char::is_alphabetic / is_alphanumeric: on ASCII they are
   [A-Za-z] and [A-Za-z0-9] (only the direction "nothing else" is needed). *)
Definition class_ok (is_alpha is_alnum : chr -> bool) : Prop :=
  (forall c, is_alpha c = true -> (c < 128)%N -> ascii_alpha c = true) /\
  (forall c, is_alnum c = true -> (c < 128)%N -> ascii_alnum c = true).

Definition words (T : tables) : list str := [t_true T; t_false T; t_null T].
Definition lower_word (w : str) : bool := nonempty w && forallb lower w.
Definition op_ok (o : str * (str * bool)) : bool :=
  match fst o with [a; b] => sym a | _ => false end.
Definition no_prefix_of (ws : list str) (k : str) : bool := forallb (fun w => negb (is_some (strip_prefix w k))) ws.
Definition based_ok (e : str * (N * (nat * N))) : bool :=
  match fst e with [a; b] => N.eqb a 48%N && lower b | _ => false end.

(* decidable conditions on the tables, re-judged by vm_compute on every run (Props/C17.v) *)
Definition relex_tables_ok (T : tables) : bool :=
  (* the order of the alternatives the case analysis below was written for *)
  leqb (t_token_order T) [0; 1; 2; 3; 4; 5; 6; 7; 8; 9; 10; 11]%N &&
  leqb (t_literal_order T) [0; 1; 2; 3; 4; 5; 6; 7; 8]%N &&
  (* keywords, true/false/null, units, interpolation prefixes are lower-case ASCII words *)
  forallb lower_word (t_keywords T) && forallb lower_word (words T) && forallb lower_word (t_units T) &&
  forallb lower (t_interp T) && negb (c_in 114%N (t_interp T)) &&
  (* operators: two characters, the first one punctuation, pairwise distinct; controls: punctuation *)
  forallb op_ok (t_ops T) && nodupb (map fst (t_ops T)) && forallb sym (t_controls T) &&
  (* end_expr characters are not identifier characters *)
  forallb endc (t_end_chars T) &&
  (* no keyword starts with true/false/null; true/false/null do not start with one another *)
  forallb (no_prefix_of (words T)) (t_keywords T) &&
  negb (is_some (strip_prefix (t_true T) (t_false T))) && negb (is_some (strip_prefix (t_true T) (t_null T))) &&
  negb (is_some (strip_prefix (t_false T) (t_null T))) &&
  (* 0b / 0x / 0o: '0' and a lower-case letter, pairwise distinct; no unit starts with 'e' *)
  forallb based_ok (t_based T) && nodupb (map fst (t_based T)) && Nat.eqb (List.length (t_based T)) 3 &&
  forallb (fun u => match u with c :: _ => negb (N.eqb c 101%N) | [] => false end) (t_units T) &&
  (* digit counts of dates and times *)
  leqb (map N.of_nat (t_date_digits T)) [4; 2; 2]%N && leqb (map N.of_nat (t_time_digits T)) [2; 2; 2]%N &&
  leqb (map N.of_nat (t_tz_digits T)) [2; 2]%N && Nat.leb 1 (t_ms_max T).


Section TableFacts.
  Variable T : tables.
  Hypothesis TK : relex_tables_ok T = true.

  (* ---- facts extracted from relex_tables_ok ---- *)
  Ltac split_tk :=
    let H := fresh "TKH" in pose proof TK as H; unfold relex_tables_ok in H;
    repeat (let X := fresh "K" in apply andb_true_iff in H as [H X]).

  Lemma c_in_forallb P c l : forallb P l = true -> c_in c l = true -> P c = true.
  Proof.
    intros F H. unfold c_in in H. apply existsb_exists in H as [x [I E]]. apply N.eqb_eq in E. subst x.
    rewrite forallb_forall in F. auto.
  Qed.

  Lemma tk_token_order : t_token_order T = [0; 1; 2; 3; 4; 5; 6; 7; 8; 9; 10; 11]%N.
  Proof. split_tk. now apply leqb_spec. Qed.
  Lemma tk_literal_order : t_literal_order T = [0; 1; 2; 3; 4; 5; 6; 7; 8]%N.
  Proof. split_tk. now apply leqb_spec. Qed.
  Lemma tk_keywords k : In k (t_keywords T) -> lower_word k = true.
  Proof. split_tk. match goal with K : forallb lower_word (t_keywords T) = true |- _ => rewrite forallb_forall in K; auto end. Qed.
  Lemma tk_words w : In w (words T) -> lower_word w = true.
  Proof. split_tk. match goal with K : forallb lower_word (words T) = true |- _ => rewrite forallb_forall in K; auto end. Qed.
  Lemma tk_units u : In u (t_units T) -> lower_word u = true /\ (match u with c :: _ => negb (N.eqb c 101%N) | [] => false end) = true.
  Proof.
    split_tk. intros I. split.
    - match goal with K : forallb lower_word (t_units T) = true |- _ => rewrite forallb_forall in K; auto end.
    - match goal with K : forallb (fun u => match u with _ :: _ => _ | [] => false end) (t_units T) = true |- _ =>
        rewrite forallb_forall in K; exact (K u I) end.
  Qed.
  Lemma tk_interp c : c_in c (t_interp T) = true -> lower c = true /\ c <> 114%N.
  Proof.
    split_tk. intros H. split.
    - eapply c_in_forallb; eauto.
    - intros ->. match goal with K : negb (c_in 114%N (t_interp T)) = true |- _ => rewrite H in K; discriminate end.
  Qed.
  Lemma tk_ops o : In o (t_ops T) -> exists a b, fst o = [a; b] /\ sym a = true.
  Proof.
    split_tk. intros I. match goal with K : forallb op_ok (t_ops T) = true |- _ => pose proof (proj1 (forallb_forall _ _) K o I) as P end.
    unfold op_ok in P. destruct (fst o) as [|a [|b [|? ?]]]; try discriminate. eauto.
  Qed.
  Lemma tk_ops_nodup : NoDup (map fst (t_ops T)).
  Proof. split_tk. now apply nodupb_spec. Qed.
  Lemma tk_controls c : c_in c (t_controls T) = true -> sym c = true.
  Proof. split_tk. eapply c_in_forallb; eauto. Qed.
  Lemma tk_end_chars c : c_in c (t_end_chars T) = true -> endc c = true.
  Proof. split_tk. eapply c_in_forallb; eauto. Qed.
  Lemma tk_kw_no_word k w : In k (t_keywords T) -> In w (words T) -> strip_prefix w k = None.
  Proof.
    split_tk. intros I J. match goal with K : forallb (no_prefix_of (words T)) (t_keywords T) = true |- _ =>
      pose proof (proj1 (forallb_forall _ _) K k I) as P end.
    unfold no_prefix_of in P. pose proof (proj1 (forallb_forall _ _) P w J) as Q. cbn beta in Q.
    destruct (strip_prefix w k); [discriminate|reflexivity].
  Qed.
  Lemma tk_words_distinct : strip_prefix (t_true T) (t_false T) = None /\ strip_prefix (t_true T) (t_null T) = None /\
    strip_prefix (t_false T) (t_null T) = None.
  Proof.
    split_tk. repeat split;
    match goal with |- strip_prefix ?a ?b = None => destruct (strip_prefix a b) eqn:E; [|reflexivity] end;
    match goal with K : negb (is_some (Some _)) = true |- _ => cbn in K; discriminate K end.
  Qed.
  Lemma tk_based e : In e (t_based T) -> exists b, fst e = [48%N; b] /\ lower b = true.
  Proof.
    split_tk. intros I. match goal with K : forallb based_ok (t_based T) = true |- _ => pose proof (proj1 (forallb_forall _ _) K e I) as P end.
    unfold based_ok in P. destruct (fst e) as [|a [|b [|? ?]]]; try discriminate.
    apply andb_true_iff in P as [A B]. apply N.eqb_eq in A. subst. eauto.
  Qed.
  Lemma tk_based_nodup : NoDup (map fst (t_based T)).
  Proof. split_tk. now apply nodupb_spec. Qed.
  Lemma tk_digits : t_date_digits T = [4; 2; 2] /\ t_time_digits T = [2; 2; 2] /\ t_tz_digits T = [2; 2] /\ 1 <= t_ms_max T.
  Proof.
    split_tk.
    assert (G : forall l m, leqb (map N.of_nat l) (map N.of_nat m) = true -> l = m).
    { intros l m E. apply leqb_spec in E. revert m E; induction l as [|a l IH]; intros [|b m] E; try discriminate; [reflexivity|].
      cbn in E. inversion E. apply Nat2N.inj in H0. f_equal; auto. }
    repeat split.
    - apply G. assumption.
    - apply G. assumption.
    - apply G. assumption.
    - now apply Nat.leb_le.
  Qed.

End TableFacts.

(* ---- character facts ---- *)
Ltac b2p :=
  repeat (progress (rewrite ?andb_true_iff, ?orb_true_iff, ?negb_true_iff, ?andb_false_iff, ?orb_false_iff, ?negb_false_iff,
                     ?N.eqb_eq, ?N.eqb_neq, ?N.leb_le, ?N.leb_gt, ?N.ltb_lt, ?N.ltb_ge in *)).
Ltac chr_unfold := unfold sym, endc, ascii_alnum, ascii_alpha, lower, is_digit, is_nl, is_quote, is_iws, is_hex, c_in, existsb in *.
Ltac chr_solve := chr_unfold; b2p; lia.

Local Open Scope N_scope.
(* ---- facts about ASCII characters are decided by running the boolean statement on all 128 of them (vm_compute) instead of by
   case analysis in lia (which took a minute): [ascii_all P = true] gives P c for every c < 128 ---- *)
Fixpoint n_upto (n : nat) : list N := match n with O => [] | S k => N.of_nat k :: n_upto k end.
Lemma n_upto_in n c : c < N.of_nat n -> In c (n_upto n).
Proof.
  induction n as [|k IH]; intros H; [cbn in H; lia|]. cbn [n_upto].
  destruct (N.eq_dec c (N.of_nat k)) as [->|D]; [left; reflexivity|right; apply IH; rewrite Nat2N.inj_succ in H; lia].
Qed.
Definition ascii_all (P : N -> bool) : bool := forallb P (n_upto 128).
Lemma ascii_all_spec P : ascii_all P = true -> forall c, c < 128 -> P c = true.
Proof. unfold ascii_all. intros F c H. rewrite forallb_forall in F. apply F, n_upto_in. exact H. Qed.
(* what a character that is none of the "special" ones cannot be *)
Definition plain_char (c : chr) : Prop :=
  sym c = false /\ is_nl c = false /\ is_quote c = false /\ c <> 36 /\ c <> 64 /\ c <> 35 /\ c <> 46.
Definition plain_char_b (c : chr) : bool :=
  negb (sym c) && negb (is_nl c) && negb (is_quote c) && negb (c =? 36) && negb (c =? 64) && negb (c =? 35) && negb (c =? 46).

(* H : the boolean premise about c, L : c < 128, P : fun c => implb premise (conjunction of boolean conclusions) *)
Ltac table_facts H L P :=
  let X := fresh "X" in
  pose proof (ascii_all_spec P ltac:(vm_compute; reflexivity) _ L) as X; cbv beta delta [plain_char_b] in X; rewrite H in X; cbn [implb] in X;
  b2p; tauto.

Lemma lower_facts c : lower c = true -> plain_char c /\ is_digit c = false /\ endc c = false /\ c <> 96 /\ c <> 95 /\ ascii_alnum c = true.
Proof.
  intros H. assert (L : c < 128) by (unfold lower in H; b2p; lia). unfold plain_char.
  table_facts H L (fun c => implb (lower c) (plain_char_b c && negb (is_digit c) && negb (endc c) && negb (c =? 96) && negb (c =? 95) && ascii_alnum c)).
Qed.
Lemma digit_facts c : is_digit c = true -> plain_char c /\ lower c = false /\ endc c = false /\ c <> 96 /\ c <> 95.
Proof.
  intros H. assert (L : c < 128) by (unfold is_digit in H; b2p; lia). unfold plain_char.
  table_facts H L (fun c => implb (is_digit c) (plain_char_b c && negb (lower c) && negb (endc c) && negb (c =? 96) && negb (c =? 95))).
Qed.
Lemma quote_facts c : is_quote c = true -> sym c = false /\ is_nl c = false /\ is_digit c = false /\ lower c = false /\ c <> 36 /\ c <> 64 /\ c <> 35 /\ c <> 96.
Proof.
  intros H. assert (L : c < 128) by (unfold is_quote in H; b2p; lia).
  table_facts H L (fun c => implb (is_quote c) (negb (sym c) && negb (is_nl c) && negb (is_digit c) && negb (lower c) && negb (c =? 36) && negb (c =? 64) && negb (c =? 35) && negb (c =? 96))).
Qed.
Lemma sym_facts c : sym c = true -> is_nl c = false /\ is_quote c = false /\ is_digit c = false /\ lower c = false /\ c <> 36 /\ c <> 64 /\ c <> 35 /\ c <> 96 /\ c <> 95.
Proof.
  intros H. assert (L : c < 128) by (unfold sym in H; apply andb_true_iff in H as [H _]; apply andb_true_iff in H as [H _]; now apply N.ltb_lt).
  table_facts H L (fun c => implb (sym c) (negb (is_nl c) && negb (is_quote c) && negb (is_digit c) && negb (lower c) && negb (c =? 36) && negb (c =? 64) && negb (c =? 35) && negb (c =? 96) && negb (c =? 95))).
Qed.
Lemma nl_facts c : is_nl c = true -> sym c = false /\ endc c = true.
Proof.
  intros H. assert (L : c < 128) by (unfold is_nl in H; b2p; lia).
  table_facts H L (fun c => implb (is_nl c) (negb (sym c) && endc c)).
Qed.
(* a character outside ASCII is none of the characters the lexer tests for *)
Lemma big_facts c : 128 <= c -> plain_char c /\ is_digit c = false /\ endc c = false /\ c <> 96 /\ c <> 95.
Proof.
  intros H. assert (B : (c <? 128) = false) by now apply N.ltb_ge.
  unfold plain_char, sym, endc. rewrite B. cbn [andb].
  repeat split; try reflexivity; try (intros ->; now vm_compute in H); unfold is_nl, is_quote, is_digit; b2p; lia.
Qed.

Section ClassFacts.
  Variable is_alpha is_alnum : chr -> bool.
  Hypothesis CK : class_ok is_alpha is_alnum.

  Lemma start_cases c : is_ident_start is_alpha c = true -> (128 <= c) \/ ascii_alpha c = true \/ c = 95.
  Proof.
    intros H. unfold is_ident_start in H. apply orb_true_iff in H.
    destruct H as [H|H]; [|right; right; now apply N.eqb_eq].
    destruct (N.lt_ge_cases c 128) as [L|L]; [right; left; now apply (proj1 CK)|left; exact L].
  Qed.
  Lemma cont_cases c : is_ident_cont is_alnum c = true -> (128 <= c) \/ ascii_alnum c = true \/ c = 95.
  Proof.
    intros H. unfold is_ident_cont in H. apply orb_true_iff in H.
    destruct H as [H|H]; [|right; right; now apply N.eqb_eq].
    destruct (N.lt_ge_cases c 128) as [L|L]; [right; left; now apply (proj2 CK)|left; exact L].
  Qed.
  Lemma start_facts c : is_ident_start is_alpha c = true -> plain_char c /\ is_digit c = false /\ c <> 96.
  Proof.
    intros H. apply start_cases in H. destruct H as [H|[H| ->]].
    - apply big_facts in H. tauto.
    - assert (L : c < 128) by (unfold ascii_alpha, lower in H; b2p; lia). unfold plain_char.
      table_facts H L (fun c => implb (ascii_alpha c) (plain_char_b c && negb (is_digit c) && negb (c =? 96))).
    - unfold plain_char. repeat split; try reflexivity; discriminate.
  Qed.
  Lemma cont_facts c : is_ident_cont is_alnum c = true -> plain_char c /\ endc c = false /\ c <> 96.
  Proof.
    intros H. apply cont_cases in H. destruct H as [H|[H| ->]].
    - apply big_facts in H. tauto.
    - assert (L : c < 128) by (unfold ascii_alnum, ascii_alpha, lower, is_digit in H; b2p; lia). unfold plain_char.
      table_facts H L (fun c => implb (ascii_alnum c) (plain_char_b c && negb (endc c) && negb (c =? 96))).
    - unfold plain_char. repeat split; try reflexivity; discriminate.
  Qed.
  Lemma alpha_not_35 : is_ident_start is_alpha 35 = false.
  Proof. destruct (is_ident_start is_alpha 35) eqn:E; [|reflexivity]. apply start_facts in E. unfold plain_char in E. intuition congruence. Qed.
End ClassFacts.

(* C17: what the tiling (Proofs/LexProofs.lex_tiles) says about the spans, one clause at a time. *)
From Coq Require Import List NArith Bool Lia Arith.
From PV Require Import Lib.ListX Model.Lexer Proofs.LexProofs.
Import ListNotations.
Local Open Scope N_scope.

Local Arguments N.add : simpl never.
Local Arguments N.sub : simpl never.

(* ---- bslice ---- *)
Lemma bdrop_0 s : bdrop s 0 = s.
Proof. destruct s; reflexivity. Qed.
Lemma btake_0 s : btake s 0 = [].
Proof. destruct s; reflexivity. Qed.
Lemma bdrop_app p y : bdrop (p ++ y) (blen p) = y.
Proof.
  induction p as [|c p IH]; cbn [app blen bdrop]; [apply bdrop_0|].
  pose proof (utf8_len_pos c). destruct (utf8_len c + blen p =? 0) eqn:E; [apply N.eqb_eq in E; lia|].
  replace (utf8_len c + blen p - utf8_len c) with (blen p) by lia. exact IH.
Qed.
Lemma btake_app x r : btake (x ++ r) (blen x) = x.
Proof.
  induction x as [|c x IH]; cbn [app blen btake]; [apply btake_0|].
  pose proof (utf8_len_pos c). destruct (utf8_len c + blen x =? 0) eqn:E; [apply N.eqb_eq in E; lia|].
  replace (utf8_len c + blen x - utf8_len c) with (blen x) by lia. now rewrite IH.
Qed.
Lemma bslice_app p x r a b : a = blen p -> b = blen p + blen x -> bslice (p ++ x ++ r) a b = x.
Proof. intros -> ->. unfold bslice. rewrite bdrop_app. replace (blen p + blen x - blen p) with (blen x) by lia. apply btake_app. Qed.

Section Tile.
  Variable is_alpha is_alnum : chr -> bool.
  Variable T : tables.
  Hypothesis WF : tables_wf T = true.
  Notation lex := (lex is_alpha is_alnum T).

  Lemma tiles_in pos s ts : tiles pos s ts -> forall pre, blen pre = pos -> forall t, In t ts ->
    exists p x r, pre ++ s = p ++ x ++ r /\ tstart t = blen p /\ tend t = blen p + blen x /\ x <> [].
  Proof.
    induction 1 as [|pos gap text r t0 ts G NE S1 S2 Tl IH]; intros pre Hp t Hin; [destruct Hin|].
    destruct Hin as [->|Hin].
    - exists (pre ++ gap), text, r. rewrite <- app_assoc. split; [reflexivity|]. rewrite blen_app.
      split; [lia|]. split; [lia|exact NE].
    - destruct (IH (pre ++ gap ++ text)) with (t := t) as (p & x & r' & E & A & B & C); auto.
      { rewrite !blen_app. lia. }
      exists p, x, r'. rewrite <- E. rewrite <- !app_assoc. auto.
  Qed.

  Lemma tiles_lower pos s ts t : tiles pos s ts -> In t ts -> pos <= tstart t.
  Proof.
    induction 1 as [|pos gap text r t0 ts G NE S1 S2 Tl IH]; intros Hin; [destruct Hin|].
    destruct Hin as [->|Hin]; [lia|]. specialize (IH Hin). lia.
  Qed.

  Lemma tiles_sorted pos s l1 t1 l2 t2 l3 : tiles pos s (l1 ++ t1 :: l2 ++ t2 :: l3) -> tend t1 <= tstart t2.
  Proof.
    revert pos s; induction l1 as [|a l1 IH]; intros pos s H; cbn [app] in H.
    - inversion H; subst. eapply tiles_lower; [eassumption|]. apply in_or_app. right. left. reflexivity.
    - inversion H; subst. eapply IH; eassumption.
  Qed.

  Lemma tiles_adj pos s ts : tiles pos s ts -> forall pre, blen pre = pos -> forall l1 t1 t2 l2, ts = l1 ++ t1 :: t2 :: l2 ->
    exists p g r, pre ++ s = p ++ g ++ r /\ tend t1 = blen p /\ tstart t2 = blen p + blen g /\ forallb is_iws g = true.
  Proof.
    induction 1 as [|pos gap text r t0 ts G NE S1 S2 Tl IH]; intros pre Hp l1 t1 t2 l2 E; [destruct l1; discriminate|].
    destruct l1 as [|a l1]; cbn [app] in E; inversion E; subst.
    - inversion Tl as [|? gap2 text2 r2 ? ? G2 NE2 S3 S4 Tl2]; subst.
      exists (pre ++ gap ++ text), gap2, (text2 ++ r2). rewrite <- !app_assoc. split; [reflexivity|].
      rewrite !blen_app. split; [lia|]. split; [lia|exact G2].
    - destruct (IH (pre ++ gap ++ text)) with (l1 := l1) (t1 := t1) (t2 := t2) (l2 := l2) as (p & g & r' & E' & A & B & C); auto.
      { rewrite !blen_app. lia. }
      exists p, g, r'. rewrite <- E', <- !app_assoc. auto.
  Qed.

  Lemma tiles_first pos s t ts : tiles pos s (t :: ts) ->
    exists g r, s = g ++ r /\ tstart t = pos + blen g /\ forallb is_iws g = true.
  Proof. intros H. inversion H; subst. eexists _, _. split; [reflexivity|]. auto. Qed.

  Lemma tiles_last pos s ts : tiles pos s ts -> forall pre, blen pre = pos -> forall l1 t, ts = l1 ++ [t] ->
    exists p g, pre ++ s = p ++ g /\ tend t = blen p /\ forallb is_iws g = true.
  Proof.
    induction 1 as [|pos gap text r t0 ts G NE S1 S2 Tl IH]; intros pre Hp l1 t E; [destruct l1; discriminate|].
    destruct l1 as [|a l1]; cbn [app] in E; inversion E; subst.
    - inversion Tl; subst. exists (pre ++ gap ++ text), r. rewrite <- !app_assoc. split; [reflexivity|].
      rewrite !blen_app. split; [lia|assumption].
    - destruct (IH (pre ++ gap ++ text)) with (l1 := l1) (t := t) as (p & g & E' & A & B); auto.
      { rewrite !blen_app. lia. }
      exists p, g. rewrite <- E', <- !app_assoc. auto.
  Qed.

  (* ================= the clauses, for the token list returned by lex (Start token included) ================= *)

  Theorem first_is_start s ts : lex s = Some ts -> exists ts', ts = start_token :: ts'.
  Proof. intros H. apply (lex_tiles _ _ _ WF) in H as (ts' & -> & _). eauto. Qed.

  (* every token but Start covers at least one byte; located exactly on a piece x of the source *)
  Theorem token_located s ts' t : lex s = Some (start_token :: ts') -> In t ts' ->
    exists p x r, s = p ++ x ++ r /\ tstart t = blen p /\ tend t = blen p + blen x /\ x <> [].
  Proof.
    intros H Hin. apply (lex_tiles _ _ _ WF) in H as (ts'' & E & Tl). inversion E; subst.
    exact (tiles_in _ _ _ Tl [] eq_refl t Hin).
  Qed.

  Theorem spans_in_bounds s ts t : lex s = Some ts -> In t ts -> tstart t <= tend t /\ tend t <= blen s.
  Proof.
    intros H Hin. destruct (first_is_start _ _ H) as [ts' ->]. destruct Hin as [<-|Hin].
    - cbn. lia.
    - destruct (token_located _ _ _ H Hin) as (p & x & r & -> & A & B & _). rewrite !blen_app. lia.
  Qed.

  Theorem tokens_nonempty s ts' t : lex s = Some (start_token :: ts') -> In t ts' -> tstart t < tend t.
  Proof.
    intros H Hin. destruct (token_located _ _ _ H Hin) as (p & x & r & _ & A & B & NE).
    pose proof (blen_pos x NE). lia.
  Qed.

  Theorem spans_on_boundaries s ts t : lex s = Some ts -> In t ts -> boundary s (tstart t) /\ boundary s (tend t).
  Proof.
    intros H Hin. destruct (first_is_start _ _ H) as [ts' ->]. destruct Hin as [<-|Hin].
    - split; exists [], s; auto.
    - destruct (token_located _ _ _ H Hin) as (p & x & r & -> & A & B & _). split.
      + exists p, (x ++ r). auto.
      + exists (p ++ x), r. rewrite <- app_assoc, blen_app. auto.
  Qed.

  Theorem spans_ordered_disjoint s l1 t1 l2 t2 l3 : lex s = Some (l1 ++ t1 :: l2 ++ t2 :: l3) -> tend t1 <= tstart t2.
  Proof.
    intros H. destruct (lex_tiles _ _ _ WF _ _ H) as (ts' & E & Tl).
    destruct l1 as [|a l1]; cbn [app] in E; inversion E; subst.
    - cbn. lia.
    - eapply tiles_sorted; eassumption.
  Qed.

  Theorem gaps_inline_ws s l1 t1 t2 l2 : lex s = Some (l1 ++ t1 :: t2 :: l2) ->
    forallb is_iws (bslice s (tend t1) (tstart t2)) = true.
  Proof.
    intros H. destruct (lex_tiles _ _ _ WF _ _ H) as (ts' & E & Tl).
    destruct l1 as [|a l1]; cbn [app] in E; inversion E; subst.
    - destruct (tiles_first _ _ _ _ Tl) as (g & r & -> & A & B). cbn [tend start_token].
      rewrite (bslice_app [] g r); [assumption| |]; cbn [blen]; lia.
    - destruct (tiles_adj _ _ _ Tl [] eq_refl l1 t1 t2 l2 eq_refl) as (p & g & r & E' & A & B & C).
      cbn [app] in E'. subst s. rewrite (bslice_app p g r); auto.
  Qed.

  Theorem tail_gap_inline_ws s l1 t : lex s = Some (l1 ++ [t]) -> forallb is_iws (bslice s (tend t) (blen s)) = true.
  Proof.
    intros H. destruct (lex_tiles _ _ _ WF _ _ H) as (ts' & E & Tl).
    destruct l1 as [|a l1]; cbn [app] in E; inversion E; subst.
    - inversion Tl; subst. cbn [tend start_token]. unfold bslice. rewrite bdrop_0, N.sub_0_r.
      rewrite <- (app_nil_r s) at 1. rewrite btake_app. assumption.
    - destruct (tiles_last _ _ _ Tl [] eq_refl l1 t eq_refl) as (p & g & E' & A & B). cbn [app] in E'. subst s.
      replace (p ++ g) with (p ++ g ++ []) by (now rewrite app_nil_r).
      rewrite (bslice_app p g []); [assumption|assumption|]. rewrite app_nil_r, blen_app. reflexivity.
  Qed.
End Tile.

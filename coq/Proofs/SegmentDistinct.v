(* Theta-2 widened: segments that also contain DISTINCT (SqlTransform::Distinct, produced by
   preprocess from `group {all columns} (take 1)`) and joins in front.

   A segment of filters / sorts / one aggregation / DISTINCTs / takes whose kinds are clause-ordered
   (SplitBase.clause_ordered: SQL's logical clause order, which SplitProofs shows for every segment
   cut off under a decision function passing the table check) assembles into

       SELECT DISTINCT .. FROM base JOIN .. WHERE .. GROUP BY .. HAVING .. ORDER BY .. LIMIT/OFFSET

   and that SELECT returns exactly what the segment returns transform by transform.

   DISTINCT keeps the first of equal rows (like Model/Rel.v's dedup); SQL leaves the order of a
   DISTINCT without ORDER BY unspecified, so the policy matters only up to permutation, and with a
   (total, antisymmetric) sort afterwards not at all.  Rows are abstract, with a decidable equality. *)
From Coq Require Import List Bool Arith Lia Permutation Sorting.Sorted.
From PV Require Import Model.SplitBase Proofs.Theta2 Proofs.SegmentSound.
Import ListNotations.

Section SegD.
  Variable row : Type.
  Variable eqb : row -> row -> bool.
  Hypothesis eqb_spec : forall x y, eqb x y = true <-> x = y.

  Notation rel := (Theta2.rel row).
  Notation cmp := (Theta2.cmp row).
  Notation isort := (Theta2.isort row).
  Notation sort_opt := (Theta2.sort_opt row).
  Notation good := (Theta2.good row).
  Notation le := (Theta2.le row).
  Notation tr := (SegmentSound.tr row).
  Notation TF := (SegmentSound.TF row).
  Notation TS := (SegmentSound.TS row).
  Notation TA := (SegmentSound.TA row).
  Notation TT := (SegmentSound.TT row).
  Notation assemble := (SegmentSound.assemble row).
  Notation kind_of := (SegmentSound.kind_of row).
  Notation pre := (Theta2.pre row).
  Notation aggr := (Theta2.aggr row).
  Notation takes := (Theta2.takes row).
  Notation take_range := (Theta2.take_range row).
  Notation SS := (Theta2.S row).

  (* ---------- keep-first duplicate elimination ---------- *)
  Fixpoint dd (l : rel) : rel :=
    match l with [] => [] | x :: t => x :: filter (fun y => negb (eqb y x)) (dd t) end.

  Lemma eqb_refl x : eqb x x = true.
  Proof. apply eqb_spec. reflexivity. Qed.

  Lemma dd_In x l : In x (dd l) <-> In x l.
  Proof.
    induction l as [|a t IH]; cbn [dd]; [reflexivity|]. split.
    - intros [->|H]; [left; reflexivity|]. apply filter_In in H as [H _]. right. apply IH, H.
    - intros [->|H]; [left; reflexivity|]. destruct (eqb x a) eqn:E.
      + left. symmetry. apply eqb_spec, E.
      + right. apply filter_In. split; [apply IH, H|]. rewrite E. reflexivity.
  Qed.

  Lemma dd_NoDup l : NoDup (dd l).
  Proof.
    induction l as [|a t IH]; cbn [dd]; constructor.
    - intro H. apply filter_In in H as [_ H]. rewrite eqb_refl in H. discriminate.
    - apply NoDup_filter, IH.
  Qed.

  Lemma filter_all (f : row -> bool) (l : rel) : (forall y, In y l -> f y = true) -> filter f l = l.
  Proof.
    induction l as [|a t IH]; intro H; cbn [filter]; [reflexivity|].
    rewrite (H a (or_introl eq_refl)). f_equal. apply IH. intros y Hy. apply H. right; exact Hy.
  Qed.

  Lemma dd_fixed l : NoDup l -> dd l = l.
  Proof.
    induction 1 as [|a t Ha Ht IH]; cbn [dd]; [reflexivity|]. rewrite IH. f_equal.
    apply filter_all. intros y Hy. destruct (eqb y a) eqn:E; [|reflexivity].
    apply eqb_spec in E. subst y. contradiction.
  Qed.

  Lemma dd_idem l : dd (dd l) = dd l.
  Proof. apply dd_fixed, dd_NoDup. Qed.

  Lemma dd_sorted c l : StronglySorted (le c) l -> StronglySorted (le c) (dd l).
  Proof.
    induction 1 as [|a t Ht IH Ha]; cbn [dd]; constructor.
    - apply Theta2.filter_sorted, IH.
    - rewrite Forall_forall in *. intros z Hz. apply filter_In in Hz as [Hz _]. apply Ha, dd_In, Hz.
  Qed.

  Lemma dd_perm l l' : Permutation l l' -> Permutation (dd l) (dd l').
  Proof.
    intro P. apply NoDup_Permutation; try apply dd_NoDup.
    intro x. rewrite !dd_In. split; intro H; [eapply Permutation_in; [exact P|exact H]|].
    eapply Permutation_in; [apply Permutation_sym; exact P|exact H].
  Qed.

  (* DISTINCT commutes with ORDER BY *)
  Lemma dd_isort c (G : good c) l : dd (isort c l) = isort c (dd l).
  Proof.
    apply (Theta2.sorted_perm_unique row c G).
    - apply dd_sorted, Theta2.isort_sorted, G.
    - apply Theta2.isort_sorted, G.
    - transitivity (dd l); [apply dd_perm, Theta2.isort_perm|apply Permutation_sym, Theta2.isort_perm].
  Qed.

  Definition good_opt (o : option cmp) : Prop := match o with Some c => good c | None => True end.

  Lemma dd_sort_opt o l : good_opt o -> dd (sort_opt o l) = sort_opt o (dd l).
  Proof. destruct o as [c|]; cbn; intro G; [apply dd_isort, G|reflexivity]. Qed.

  Lemma last_sort_good xs : Forall (Theta2.good_fs row) xs -> good_opt (Theta2.last_sort row xs).
  Proof.
    induction 1 as [|x t Hx Ht IH]; cbn; [exact I|].
    destruct x as [p|c]; cbn [Theta2.last_sort]; [exact IH|].
    destruct (Theta2.last_sort row t); [exact IH|exact Hx].
  Qed.

  (* ---------- segments with DISTINCT ---------- *)
  Inductive trd := Old (t : tr) | TD.
  Definition kind_d (t : trd) : kind := match t with Old t => kind_of t | TD => KDistinct end.
  Definition apply_d (t : trd) (l : rel) : rel :=
    match t with Old t => SegmentSound.apply_tr row t l | TD => dd l end.
  Definition run_d (p : list trd) (l : rel) : rel := fold_left (fun l t => apply_d t l) p l.
  Fixpoint strip (p : list trd) : list tr :=
    match p with [] => [] | Old t :: r => t :: strip r | TD :: r => strip r end.
  Definition has_d (p : list trd) : bool := existsb (fun t => match t with TD => true | Old _ => false end) p.
  Definition good_d (t : trd) : Prop := match t with Old t => SegmentSound.good_tr row t | TD => True end.

  (* one SELECT [DISTINCT]: WHERE, [GROUP BY + HAVING], DISTINCT, ORDER BY, LIMIT/OFFSET *)
  Definition sem_select_d (q : Theta2.select row) (d : bool) (base : rel) : rel :=
    let r1 := filter (Theta2.preds row (pre q)) base in
    let '(r2, ord) :=
      match aggr q with
      | Some (g, post) => (filter (Theta2.preds row post) (g r1), Theta2.last_sort row post)
      | None => (r1, Theta2.last_sort row (pre q))
      end in
    take_range (Theta2.compose_all (takes q)) (sort_opt ord (if d then dd r2 else r2)).

  Lemma sem_select_d_false q base : sem_select_d q false base = Theta2.sem_select row q base.
  Proof. unfold sem_select_d, Theta2.sem_select. destruct (aggr q) as [[g post]|]; reflexivity. Qed.

  (* --- clause order over appended lists --- *)
  Definition cross_ok (x y : kind) : bool :=
    may_precede x (as_name y) || match y with KComputeAgg => true | _ => false end.

  Lemma co_app a b : clause_ordered (a ++ b) = true ->
    clause_ordered a = true /\ clause_ordered b = true /\ (forall x y, In x a -> In y b -> cross_ok x y = true).
  Proof.
    induction a as [|k a IH]; cbn [app clause_ordered]; intro H.
    - repeat split; [exact H|]. intros x y [].
    - apply andb_true_iff in H as [H1 H2]. rewrite forallb_app in H1. apply andb_true_iff in H1 as [H1a H1b].
      destruct (IH H2) as (Ia & Ib & Ic). repeat split.
      + rewrite H1a, Ia. reflexivity.
      + exact Ib.
      + intros x y [<-|Hx] Hy; [|apply Ic; assumption].
        rewrite forallb_forall in H1b. apply H1b, Hy.
  Qed.

  Lemma co_head k r : clause_ordered (k :: r) = true -> forall y, In y r -> cross_ok k y = true.
  Proof.
    cbn [clause_ordered]. intro H. apply andb_true_iff in H as [H _]. rewrite forallb_forall in H. exact H.
  Qed.

  (* --- no DISTINCT: the old theorem --- *)
  Lemma no_d_map p : has_d p = false -> p = map Old (strip p).
  Proof.
    induction p as [|t r IH]; [reflexivity|]. destruct t; cbn [has_d existsb strip map].
    - intro H. f_equal. apply IH, H.
    - discriminate.
  Qed.

  Lemma run_d_old q l : run_d (map Old q) l = SegmentSound.run_flat row q l.
  Proof.
    revert l. induction q as [|t r IH]; intro l; [reflexivity|].
    unfold run_d, SegmentSound.run_flat in *. cbn [map fold_left apply_d]. apply IH.
  Qed.

  Lemma kind_d_old q : map kind_d (map Old q) = map kind_of q.
  Proof. rewrite map_map. reflexivity. Qed.

  Lemma good_d_old q : Forall good_d (map Old q) -> Forall (SegmentSound.good_tr row) q.
  Proof. rewrite Forall_map. intro H. exact H. Qed.

  (* --- with a DISTINCT: p = p1 ++ TD :: p2, p1 without DISTINCT --- *)
  Lemma split_first_d p : has_d p = true -> exists p1 p2, p = map Old p1 ++ TD :: p2.
  Proof.
    induction p as [|t r IH]; [discriminate|]. destruct t as [t|]; cbn [has_d existsb orb].
    - intro H. destruct (IH H) as (p1 & p2 & ->). exists (t :: p1), p2. reflexivity.
    - intros _. exists [], r. reflexivity.
  Qed.

  Definition is_st (t : tr) : Prop := (exists c, t = TS c) \/ (exists r, t = TT r).
  Definition is_sdt (t : trd) : Prop := t = TD \/ exists t', t = Old t' /\ is_st t'.
  Fixpoint sorts_of (q : list tr) : list cmp :=
    match q with [] => [] | SegmentSound.TS _ c :: r => c :: sorts_of r | _ :: r => sorts_of r end.
  Fixpoint ranges_of (q : list tr) : list Theta2.range :=
    match q with [] => [] | SegmentSound.TT _ rg :: r => rg :: ranges_of r | _ :: r => ranges_of r end.
  Fixpoint lso (o : option cmp) (ss : list cmp) : option cmp :=
    match ss with [] => o | c :: t => lso (Some c) t end.

  Lemma last_sort_app_sorts xs ss :
    Theta2.last_sort row (xs ++ map SS ss) = lso (Theta2.last_sort row xs) ss.
  Proof.
    revert xs. induction ss as [|c t IH]; intro xs; cbn [map lso]; [rewrite app_nil_r; reflexivity|].
    change (xs ++ SS c :: map SS t) with (xs ++ [SS c] ++ map SS t). rewrite app_assoc, IH.
    rewrite Theta2.last_sort_snoc_S. reflexivity.
  Qed.

  Lemma preds_app_sorts xs ss r : Theta2.preds row (xs ++ map SS ss) r = Theta2.preds row xs r.
  Proof.
    unfold Theta2.preds. rewrite forallb_app.
    replace (forallb _ (map SS ss)) with true; [apply andb_true_r|].
    symmetry. apply forallb_forall. intros x Hx. apply in_map_iff in Hx as (c & <- & _). reflexivity.
  Qed.

  Lemma good_app_sorts xs ss : Forall (Theta2.good_fs row) xs -> Forall good ss ->
    Forall (Theta2.good_fs row) (xs ++ map SS ss).
  Proof. intros H1 H2. apply Forall_app. split; [exact H1|]. rewrite Forall_map. exact H2. Qed.

  Lemma assemble_st q : (forall t, In t q -> is_st t) ->
    pre (assemble q) = map SS (sorts_of q) /\ aggr (assemble q) = None /\ takes (assemble q) = ranges_of q.
  Proof.
    induction q as [|t r IH]; intro H; [repeat split; reflexivity|].
    destruct IH as (I1 & I2 & I3); [intros x Hx; apply H; right; exact Hx|].
    destruct (H t (or_introl eq_refl)) as [[c ->]|[rg ->]];
      cbn [SegmentSound.assemble Theta2.pre Theta2.aggr Theta2.takes sorts_of ranges_of map];
      rewrite ?I1, ?I2, ?I3; repeat split; reflexivity.
  Qed.

  Lemma assemble_app p1 q2 : clause_ordered (map kind_of p1) = true -> (forall t, In t q2 -> is_st t) ->
    takes (assemble (p1 ++ q2)) = takes (assemble p1) ++ ranges_of q2 /\
    match aggr (assemble p1) with
    | None => pre (assemble (p1 ++ q2)) = pre (assemble p1) ++ map SS (sorts_of q2)
              /\ aggr (assemble (p1 ++ q2)) = None
    | Some (g, post) => pre (assemble (p1 ++ q2)) = pre (assemble p1)
              /\ aggr (assemble (p1 ++ q2)) = Some (g, post ++ map SS (sorts_of q2))
    end.
  Proof.
    intros Hco Hst. induction p1 as [|t r IH].
    - destruct (assemble_st q2 Hst) as (I1 & I2 & I3). cbn [app]. rewrite I1, I2, I3.
      cbn [SegmentSound.assemble Theta2.pre Theta2.aggr Theta2.takes app]. repeat split; reflexivity.
    - specialize (IH (SegmentSound.co_tail row t r Hco)). destruct IH as [It Ipa].
      destruct t as [f|c|g|rg]; cbn [app SegmentSound.assemble Theta2.pre Theta2.aggr Theta2.takes].
      + split; [exact It|]. destruct (aggr (assemble r)) as [[g post]|]; destruct Ipa as [Ip Ia]; rewrite Ip, Ia; split; reflexivity.
      + split; [exact It|]. destruct (aggr (assemble r)) as [[g post]|]; destruct Ipa as [Ip Ia]; rewrite Ip, Ia; split; reflexivity.
      + split; [exact It|].
        rewrite (SegmentSound.assemble_no_agg row r (SegmentSound.co_agg_rest row g r Hco)) in Ipa.
        destruct Ipa as [Ip _]. rewrite Ip. split; reflexivity.
      + split; [rewrite It; reflexivity|].
        destruct (aggr (assemble r)) as [[g post]|]; destruct Ipa as [Ip Ia]; rewrite Ip, Ia; split; reflexivity.
  Qed.

  Lemma assemble_no_take p : (forall t, In t p -> forall rg, t <> TT rg) -> takes (assemble p) = [].
  Proof.
    induction p as [|t r IH]; intro H; [reflexivity|].
    assert (Hr : forall x, In x r -> forall rg, x <> TT rg) by (intros x Hx; apply H; right; exact Hx).
    destruct t; cbn [SegmentSound.assemble Theta2.takes]; try (apply IH, Hr).
    exfalso. eapply H; [left; reflexivity|reflexivity].
  Qed.

  Lemma strip_app a b : strip (a ++ b) = strip a ++ strip b.
  Proof. induction a as [|t r IH]; [reflexivity|]. destruct t; cbn [app strip]; rewrite IH; reflexivity. Qed.
  Lemma strip_old q : strip (map Old q) = q.
  Proof. induction q as [|t r IH]; [reflexivity|]. cbn [map strip]. rewrite IH. reflexivity. Qed.
  Lemma has_d_app a b : has_d (a ++ b) = has_d a || has_d b.
  Proof. apply existsb_app. Qed.

  Lemma strip_st p2 : (forall u, In u p2 -> is_sdt u) -> forall t, In t (strip p2) -> is_st t.
  Proof.
    induction p2 as [|u r IH]; intros H t Ht; [destruct Ht|].
    assert (Hr : forall x, In x r -> is_sdt x) by (intros x Hx; apply H; right; exact Hx).
    destruct (H u (or_introl eq_refl)) as [->|(t' & -> & Hst)]; cbn [strip] in Ht.
    - apply IH; assumption.
    - destruct Ht as [<-|Ht]; [exact Hst|apply IH; assumption].
  Qed.

  (* after a DISTINCT only sorts, DISTINCTs and takes may follow inside the same SELECT *)
  Lemma after_d p2 : clause_ordered (map kind_d (TD :: p2)) = true -> forall u, In u p2 -> is_sdt u.
  Proof.
    intros H u Hu. pose proof (co_head _ _ H (kind_d u) (in_map kind_d p2 u Hu)) as C.
    destruct u as [[f|c|g|rg]|]; cbn in C; try discriminate.
    - right. eexists; split; [reflexivity|left; eexists; reflexivity].
    - right. eexists; split; [reflexivity|right; eexists; reflexivity].
    - left; reflexivity.
  Qed.

  (* after a take only takes *)
  Lemma after_t rg r : clause_ordered (map kind_d (Old (TT rg) :: r)) = true -> forall u, In u r -> exists rg', u = Old (TT rg').
  Proof.
    intros H u Hu. pose proof (co_head _ _ H (kind_d u) (in_map kind_d r u Hu)) as C.
    destruct u as [[f|c|g|rg']|]; cbn in C; try discriminate. eexists; reflexivity.
  Qed.

  (* before a DISTINCT no take *)
  Lemma before_d p1 p2 : clause_ordered (map kind_d (map Old p1 ++ TD :: p2)) = true ->
    forall t, In t p1 -> forall rg, t <> TT rg.
  Proof.
    intros H t Ht rg E. subst t. rewrite map_app in H. destruct (co_app _ _ H) as (_ & _ & Hc).
    specialize (Hc KTake KDistinct). cbn in Hc. assert (false = true); [|discriminate].
    apply Hc; [|left; reflexivity].
    rewrite kind_d_old. change KTake with (kind_of (TT rg)). apply in_map, Ht.
  Qed.

  Lemma only_takes_run r : (forall u, In u r -> exists rg, u = Old (TT rg)) -> forall Y,
    run_d r Y = fold_left (fun l rg => take_range rg l) (ranges_of (strip r)) Y /\ sorts_of (strip r) = [].
  Proof.
    induction r as [|u r IH]; intros H Y; [split; reflexivity|].
    destruct (H u (or_introl eq_refl)) as [rg ->].
    assert (Hr : forall x, In x r -> exists rg, x = Old (TT rg)) by (intros x Hx; apply H; right; exact Hx).
    unfold run_d. cbn [fold_left apply_d SegmentSound.apply_tr strip ranges_of sorts_of].
    fold (run_d r (take_range rg Y)). apply IH, Hr.
  Qed.

  Lemma isort_sort_opt c (G : good c) o X : isort c (sort_opt o X) = isort c X.
  Proof. apply Theta2.isort_perm_eq; [exact G|apply Theta2.sort_opt_perm]. Qed.

  Lemma tail_run p2 : (forall u, In u p2 -> is_sdt u) -> clause_ordered (map kind_d p2) = true -> Forall good_d p2 ->
    forall o X, good_opt o -> NoDup X ->
    run_d p2 (sort_opt o X) =
    fold_left (fun l rg => take_range rg l) (ranges_of (strip p2)) (sort_opt (lso o (sorts_of (strip p2))) X).
  Proof.
    induction p2 as [|u r IH]; intros Hst Hco Hg o X Go ND; [reflexivity|].
    assert (Hr : forall x, In x r -> is_sdt x) by (intros x Hx; apply Hst; right; exact Hx).
    assert (Hcr : clause_ordered (map kind_d r) = true).
    { cbn [map clause_ordered] in Hco. apply andb_true_iff in Hco as [_ Hco]. exact Hco. }
    inversion Hg as [|? ? Gu Gr]; subst.
    destruct (Hst u (or_introl eq_refl)) as [->|(t' & -> & [[c ->]|[rg ->]])].
    - (* DISTINCT on a duplicate-free relation *)
      unfold run_d. cbn [fold_left apply_d strip]. fold (run_d r (dd (sort_opt o X))).
      rewrite dd_fixed; [apply IH; assumption|].
      eapply Permutation_NoDup; [apply Permutation_sym, Theta2.sort_opt_perm|exact ND].
    - (* sort: the last one wins *)
      unfold run_d. cbn [fold_left apply_d SegmentSound.apply_tr strip sorts_of ranges_of lso].
      fold (run_d r (isort c (sort_opt o X))). cbn in Gu. rewrite (isort_sort_opt c Gu).
      apply (IH Hr Hcr Gr (Some c) X Gu ND).
    - (* take: only takes follow *)
      destruct (only_takes_run r (after_t rg r Hco) (take_range rg (sort_opt o X))) as [E1 E2].
      unfold run_d. cbn [fold_left apply_d SegmentSound.apply_tr strip sorts_of ranges_of].
      fold (run_d r (take_range rg (sort_opt o X))). rewrite E1, E2. reflexivity.
  Qed.

  Lemma take_all (l : rel) : take_range (Theta2.Rg None None) l = l.
  Proof. reflexivity. Qed.

  Lemma forall_good_sorts q : Forall (SegmentSound.good_tr row) q -> Forall good (sorts_of q).
  Proof.
    induction 1 as [|t r Ht Hr IH]; [constructor|]. destruct t; cbn [sorts_of]; try exact IH.
    constructor; [exact Ht|exact IH].
  Qed.
  Lemma forall_valid_ranges q : Forall (SegmentSound.good_tr row) q -> Forall Theta2.valid (ranges_of q).
  Proof.
    induction 1 as [|t r Ht Hr IH]; [constructor|]. destruct t; cbn [ranges_of]; try exact IH.
    constructor; [exact Ht|exact IH].
  Qed.
  Lemma good_strip p : Forall good_d p -> Forall (SegmentSound.good_tr row) (strip p).
  Proof.
    induction 1 as [|t r Ht Hr IH]; [constructor|]. destruct t; cbn [strip]; [constructor; assumption|exact IH].
  Qed.

  Lemma lso_good o ss : good_opt o -> Forall good ss -> good_opt (lso o ss).
  Proof. intros Go H. revert o Go. induction H as [|c t Hc Ht IH]; intros o Go; cbn [lso]; [exact Go|]. apply IH. exact Hc. Qed.

  (* the SELECT [DISTINCT] assembled from a clause-ordered segment returns what the segment means *)
  Theorem segment_d_sound p : Forall good_d p -> clause_ordered (map kind_d p) = true ->
    forall base, sem_select_d (assemble (strip p)) (has_d p) base = run_d p base.
  Proof.
    intros G Hco base. destruct (has_d p) eqn:Hd.
    2:{ rewrite sem_select_d_false. rewrite (no_d_map p Hd) in G, Hco |- * at 2.
        rewrite run_d_old. rewrite kind_d_old in Hco.
        apply SegmentSound.clause_ordered_segment_sound; [apply good_d_old, G|exact Hco]. }
    destruct (split_first_d p Hd) as (p1 & p2 & ->).
    pose proof (before_d p1 p2 Hco) as Hnt.
    rewrite map_app in Hco. destruct (co_app _ _ Hco) as (Hco1 & Hco2 & _).
    rewrite kind_d_old in Hco1. change (map kind_d (TD :: p2)) with (map kind_d (TD :: p2)) in Hco2.
    pose proof (after_d p2 Hco2) as Hsdt.
    assert (Hco2' : clause_ordered (map kind_d p2) = true).
    { cbn [map clause_ordered] in Hco2. apply andb_true_iff in Hco2 as [_ H]. exact H. }
    apply Forall_app in G as [G1 G2]. inversion G2 as [|? ? _ G2']; subst.
    pose proof (good_d_old p1 G1) as G1'.
    pose proof (strip_st p2 Hsdt) as Hst.
    rewrite strip_app, strip_old. cbn [strip].
    destruct (assemble_app p1 (strip p2) Hco1 Hst) as [Et Epa].
    destruct (SegmentSound.assemble_good row p1 G1') as (Gp & Ga & _).
    pose proof (forall_good_sorts _ (good_strip p2 G2')) as Gss.
    pose proof (forall_valid_ranges _ (good_strip p2 G2')) as Grs.
    (* the segment, transform by transform *)
    unfold run_d. rewrite fold_left_app. cbn [fold_left apply_d].
    fold (run_d (map Old p1) base). rewrite run_d_old.
    rewrite <- (SegmentSound.clause_ordered_segment_sound row p1 G1' Hco1 base).
    match goal with |- _ = fold_left _ p2 ?Y => change (fold_left (fun l t => apply_d t l) p2 Y) with (run_d p2 Y) end.
    unfold sem_select_d, Theta2.sem_select. rewrite Et, (assemble_no_take p1 Hnt). cbn [app].
    destruct (aggr (assemble p1)) as [[g post]|]; destruct Epa as [Ep Ea]; rewrite Ep, Ea;
      unfold Theta2.compose_all at 2; cbn [fold_left]; rewrite take_all.
    - destruct Ga as [Gg Gpost].
      rewrite last_sort_app_sorts.
      rewrite (Theta2.filter_ext' row (Theta2.preds row (post ++ map SS (sorts_of (strip p2)))) (Theta2.preds row post));
        [|intro r; apply preds_app_sorts].
      rewrite dd_sort_opt; [|apply last_sort_good, Gpost].
      rewrite (tail_run p2 Hsdt Hco2' G2' _ _ (last_sort_good _ Gpost) (dd_NoDup _)).
      unfold Theta2.compose_all. rewrite <- (Theta2.takes_compose row _ Grs); [reflexivity|cbn; auto].
    - rewrite last_sort_app_sorts.
      rewrite (Theta2.filter_ext' row (Theta2.preds row (pre (assemble p1) ++ map SS (sorts_of (strip p2)))) (Theta2.preds row (pre (assemble p1))));
        [|intro r; apply preds_app_sorts].
      rewrite dd_sort_opt; [|apply last_sort_good, Gp].
      rewrite (tail_run p2 Hsdt Hco2' G2' _ _ (last_sort_good _ Gp) (dd_NoDup _)).
      unfold Theta2.compose_all. rewrite <- (Theta2.takes_compose row _ Grs); [reflexivity|cbn; auto].
  Qed.

  (* ---------- joins: FROM base JOIN t1 .. JOIN tn ---------- *)
  (* a join against a fixed right-hand relation is a function of the left input.  Clause order lets
     nothing but sorts (which are hoisted) in front of a join; with the joins in front, the SELECT's
     FROM clause evaluates them, in order, before everything else. *)
  Inductive trj := J (j : rel -> rel) | NJ (t : trd).
  Definition kind_j (t : trj) : kind := match t with J _ => KJoin | NJ t => kind_d t end.
  Definition apply_j (t : trj) (l : rel) : rel := match t with J j => j l | NJ t => apply_d t l end.
  Definition run_j (p : list trj) (l : rel) : rel := fold_left (fun l t => apply_j t l) p l.
  Definition run_joins (js : list (rel -> rel)) (base : rel) : rel := fold_left (fun l j => j l) js base.

  Lemma only_sorts_before_join a t b j : clause_ordered (map kind_j (a ++ NJ t :: b)) = true -> In (J j) b ->
    exists c, t = Old (TS c).
  Proof.
    intros H Hj. rewrite map_app in H. destruct (co_app _ _ H) as (_ & H2 & _).
    pose proof (co_head _ _ H2 KJoin (in_map kind_j b (J j) Hj)) as C.
    destruct t as [[f|c|g|rg]|]; cbn in C; try discriminate. eexists; reflexivity.
  Qed.

  Lemma run_j_joins js l : run_j (map J js) l = run_joins js l.
  Proof. revert l. induction js as [|j r IH]; intro l; [reflexivity|]. unfold run_j, run_joins in *. cbn. apply IH. Qed.
  Lemma run_j_nj q l : run_j (map NJ q) l = run_d q l.
  Proof. revert l. induction q as [|t r IH]; intro l; [reflexivity|]. unfold run_j, run_d in *. cbn. apply IH. Qed.

  Theorem segment_join_d_sound js q : Forall good_d q ->
    clause_ordered (map kind_j (map J js ++ map NJ q)) = true ->
    forall base,
      sem_select_d (assemble (strip q)) (has_d q) (run_joins js base) = run_j (map J js ++ map NJ q) base.
  Proof.
    intros G H base. rewrite map_app in H. destruct (co_app _ _ H) as (_ & H2 & _).
    rewrite map_map in H2. change (map (fun x => kind_j (NJ x)) q) with (map kind_d q) in H2.
    unfold run_j. rewrite fold_left_app. fold (run_j (map J js) base). rewrite run_j_joins.
    fold (run_j (map NJ q) (run_joins js base)). rewrite run_j_nj.
    apply segment_d_sound; assumption.
  Qed.
End SegD.

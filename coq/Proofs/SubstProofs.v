(* Proofs about Model/Subst.v: the fuel-free evaluator agrees with Rel.eval below the fuel; substitution of
   parameters = evaluation in the row extended by the parameters (beta_sound); shapes of calls. *)
From Coq Require Import List ZArith QArith NArith Bool Lia Arith.
From PV Require Import Model.Rel Model.Subst.
Import ListNotations.
Local Open Scope nat_scope.

(* ---------- induction principle for the nested expression type ---------- *)
Lemma expr_ind2 (P : expr -> Prop) :
  (forall q n, P (ECol q n)) -> (forall v, P (ELit v)) ->
  (forall o a b, P a -> P b -> P (EBin o a b)) ->
  (forall a, P a -> P (ENeg a)) -> (forall a, P a -> P (ENot a)) ->
  (forall a neg, P a -> P (EIsNull a neg)) ->
  (forall cs, Forall (fun cv : expr * expr => P (fst cv) /\ P (snd cv)) cs -> P (ECase cs)) ->
  forall e, P e.
Proof.
  intros HC HL HB HN HNo HI HCs. fix IH 1. intros [q n|v|o a b|a|a|a neg|cs].
  - apply HC. - apply HL. - apply HB; apply IH. - apply HN; apply IH. - apply HNo; apply IH. - apply HI; apply IH.
  - apply HCs. induction cs as [|[c v] t IHt]; constructor; [split; apply IH | exact IHt].
Qed.

(* names for the anonymous inner fixpoints *)
Definition depth_cs := fix go (cs : list (expr * expr)) : nat :=
  match cs with [] => O | (c, v) :: t => Nat.max (Nat.max (depth c) (depth v)) (go t) end.
Definition evalT_cs (r : row) := fix go (cs : list (expr * expr)) : val :=
  match cs with [] => VNull | (c, v) :: t => match truth (evalT r c) with Some true => evalT r v | _ => go t end end.
Definition eval_cs (f : nat) (r : row) := fix go (cs : list (expr * expr)) : val :=
  match cs with [] => VNull | (c, v) :: t => match truth (eval f r c) with Some true => eval f r v | _ => go t end end.
Definition subst_cs (s : binding) := fix go (cs : list (expr * expr)) : list (expr * expr) :=
  match cs with [] => [] | (c, v) :: t => (subst s c, subst s v) :: go t end.
Definition occurs_cs (n : name) := fix go (cs : list (expr * expr)) : bool :=
  match cs with [] => false | (c, v) :: t => occurs n c || occurs n v || go t end.

Lemma depth_case cs : depth (ECase cs) = S (depth_cs cs). Proof. reflexivity. Qed.
Lemma evalT_case r cs : evalT r (ECase cs) = evalT_cs r cs. Proof. reflexivity. Qed.
Lemma eval_case f r cs : eval (S f) r (ECase cs) = eval_cs f r cs. Proof. reflexivity. Qed.
Lemma subst_case s cs : subst s (ECase cs) = ECase (subst_cs s cs). Proof. reflexivity. Qed.
Lemma occurs_case n cs : occurs n (ECase cs) = occurs_cs n cs. Proof. reflexivity. Qed.

Lemma depth_pos e : 1 <= depth e.
Proof. destruct e; cbn [depth]; lia. Qed.

(* ---------- fuel: Rel.eval with enough fuel is the structural evaluator ---------- *)
Lemma eval_evalT : forall f e r, depth e <= f -> eval f r e = evalT r e.
Proof.
  induction f as [|f IH]; intros e r H.
  - pose proof (depth_pos e). lia.
  - destruct e as [q n|v|o a b|a|a|a neg|cs].
    + reflexivity.
    + reflexivity.
    + cbn [depth] in H. cbn [eval evalT]. rewrite !IH by lia. reflexivity.
    + cbn [depth] in H. cbn [eval evalT]. rewrite !IH by lia. reflexivity.
    + cbn [depth] in H. cbn [eval evalT]. rewrite !IH by lia. reflexivity.
    + cbn [depth] in H. cbn [eval evalT]. rewrite !IH by lia. reflexivity.
    + rewrite depth_case in H. rewrite eval_case, evalT_case.
      assert (H0 : depth_cs cs <= f) by lia. clear H.
      induction cs as [|[c v] t IHt]; [reflexivity|].
      cbn [depth_cs] in H0. cbn [eval_cs evalT_cs]. rewrite !IH by lia.
      destruct (truth (evalT r c)) as [[|]|]; try reflexivity; apply IHt; lia.
Qed.

Lemma ev_evalT e r : depth e <= 50 -> ev r e = evalT r e.
Proof. apply eval_evalT. Qed.

Lemma eval_fuel_irrelevant f1 f2 e r : depth e <= f1 -> depth e <= f2 -> eval f1 r e = eval f2 r e.
Proof. intros H1 H2. rewrite (eval_evalT f1), (eval_evalT f2); auto. Qed.

(* ---------- lookup in a row extended by parameter columns ---------- *)
Definition hit (q : option name) (n : name) : col -> bool :=
  fun c : col =>
    match c with
    | (cq, Some cn, _) => N.eqb cn n && (match q with None => true | Some q => match cq with Some cq => N.eqb cq q | None => false end end)
    | _ => false
    end.
Lemma lookup_def r q n :
  lookup r q n = match rev (filter (hit q n) r) with (_, _, v) :: _ => v | [] => VStr [63%N] end.
Proof. reflexivity. Qed.

Lemma lookup_app r1 r2 q n :
  lookup (r1 ++ r2) q n = match rev (filter (hit q n) r2) with (_, _, v) :: _ => v | [] => lookup r1 q n end.
Proof.
  rewrite !lookup_def, filter_app, rev_app_distr.
  destruct (rev (filter (hit q n) r2)) as [|[[? ?] ?] ?]; reflexivity.
Qed.

Definition pc (vs : list (name * val)) : row := map (fun b : name * val => (None, Some (fst b), snd b)) vs.

Lemma filter_pc_some q n vs : filter (hit (Some q) n) (pc vs) = [].
Proof. unfold pc. induction vs as [|[k v] t IH]; [reflexivity|]. cbn [map filter hit fst snd]. rewrite Bool.andb_false_r. exact IH. Qed.

Lemma filter_pc_none n vs : filter (hit None n) (pc vs) = pc (filter (fun b : name * val => N.eqb (fst b) n) vs).
Proof.
  unfold pc. induction vs as [|[k v] t IH]; [reflexivity|]. cbn [map filter hit fst snd]. rewrite Bool.andb_true_r.
  destruct (N.eqb k n); cbn [map fst snd]; rewrite IH; reflexivity.
Qed.

Lemma rev_filter {A} (p : A -> bool) (l : list A) : rev (filter p l) = filter p (rev l).
Proof.
  induction l as [|x t IH]; [reflexivity|]. cbn [filter rev]. rewrite filter_app. cbn [filter].
  destruct (p x); cbn [rev]; rewrite IH; [reflexivity | rewrite app_nil_r; reflexivity].
Qed.

Lemma find_filter_hd {A} (p : A -> bool) (l : list A) : find p l = hd_error (filter p l).
Proof. induction l as [|x t IH]; [reflexivity|]. cbn. destruct (p x); [reflexivity | exact IH]. Qed.

Lemma lookup_bind_none r vs n :
  lookup (bind r vs) None n = match assoc_last n vs with Some v => v | None => lookup r None n end.
Proof.
  unfold bind. fold (pc vs). rewrite lookup_app, filter_pc_none. unfold pc. rewrite <- map_rev, rev_filter.
  unfold assoc_last. rewrite find_filter_hd.
  destruct (filter (fun b : name * val => N.eqb (fst b) n) (rev vs)) as [|[k v] t]; reflexivity.
Qed.

Lemma lookup_bind_some r vs q n : lookup (bind r vs) (Some q) n = lookup r (Some q) n.
Proof. unfold bind. fold (pc vs). rewrite lookup_app, filter_pc_some. reflexivity. Qed.

Lemma find_map_snd {A B} (g : A -> B) n (l : list (name * A)) :
  find (fun b : name * B => N.eqb (fst b) n) (map (fun b : name * A => (fst b, g (snd b))) l)
  = option_map (fun b : name * A => (fst b, g (snd b))) (find (fun b : name * A => N.eqb (fst b) n) l).
Proof. induction l as [|[k v] t IH]; [reflexivity|]. cbn. destruct (N.eqb k n); [reflexivity | exact IH]. Qed.

Lemma assoc_last_eval_binding r s n :
  assoc_last n (eval_binding r s) = option_map (evalT r) (assoc_last n s).
Proof.
  unfold assoc_last, eval_binding. rewrite <- map_rev, find_map_snd.
  destruct (find _ (rev s)) as [[k a]|]; reflexivity.
Qed.

(* ---------- substitution is evaluation in the extended row ---------- *)
Theorem subst_sound : forall s e r, evalT r (subst s e) = evalT (bind r (eval_binding r s)) e.
Proof.
  intros s e r. induction e as [q n|v|o a b IHa IHb|a IHa|a IHa|a neg IHa|cs IHcs] using expr_ind2.
  - destruct q as [q|].
    + cbn [subst evalT]. rewrite lookup_bind_some. reflexivity.
    + cbn [subst]. change (evalT (bind r (eval_binding r s)) (ECol None n)) with (lookup (bind r (eval_binding r s)) None n).
      rewrite lookup_bind_none, assoc_last_eval_binding.
      destruct (assoc_last n s); reflexivity.
  - reflexivity.
  - cbn [subst evalT]. rewrite IHa, IHb. reflexivity.
  - cbn [subst evalT]. rewrite IHa. reflexivity.
  - cbn [subst evalT]. rewrite IHa. reflexivity.
  - cbn [subst evalT]. rewrite IHa. reflexivity.
  - rewrite subst_case, !evalT_case.
    induction IHcs as [|[c v] t [Hc Hv] _ IHt]; [reflexivity|].
    cbn [subst_cs evalT_cs fst snd] in *. rewrite Hc, Hv.
    destruct (truth _) as [[|]|]; try reflexivity; exact IHt.
Qed.

Theorem beta_sound : forall f c s r, bindings f c = Some s ->
  beta f c = Some (subst s (f_body f)) /\
  evalT r (subst s (f_body f)) = evalT (bind r (eval_binding r s)) (f_body f).
Proof. intros f c s r H. split; [unfold beta; rewrite H; reflexivity | apply subst_sound]. Qed.

(* parameters that do not occur leave the expression alone (why the engine generates fresh names) *)
Lemma assoc_last_in {A} n (s : list (name * A)) a : assoc_last n s = Some a -> In n (map fst s).
Proof.
  unfold assoc_last. destruct (find _ (rev s)) as [b|] eqn:E; [|discriminate]. intros _.
  apply find_some in E. destruct E as [Hin Hn]. apply in_rev in Hin. apply N.eqb_eq in Hn. subst n.
  apply in_map. exact Hin.
Qed.

Theorem subst_fresh : forall s e, (forall p, In p (map fst s) -> occurs p e = false) -> subst s e = e.
Proof.
  intros s e. induction e as [q n|v|o a b IHa IHb|a IHa|a IHa|a neg IHa|cs IHcs] using expr_ind2; intro H.
  - destruct q as [q|]; [reflexivity|]. cbn [subst]. destruct (assoc_last n s) as [a|] eqn:E; [|reflexivity].
    apply assoc_last_in in E. specialize (H n E). cbn [occurs] in H. rewrite N.eqb_refl in H. discriminate.
  - reflexivity.
  - cbn [subst]. rewrite IHa, IHb; [reflexivity| |]; intros p Hp; specialize (H p Hp); cbn [occurs] in H; apply Bool.orb_false_iff in H; tauto.
  - cbn [subst]. rewrite IHa; [reflexivity|]. exact H.
  - cbn [subst]. rewrite IHa; [reflexivity|]. exact H.
  - cbn [subst]. rewrite IHa; [reflexivity|]. exact H.
  - rewrite subst_case. f_equal.
    assert (H' : forall p, In p (map fst s) -> occurs_cs p cs = false) by (intros p Hp; rewrite <- occurs_case; apply H; exact Hp).
    clear H. induction IHcs as [|[c v] t [Hc Hv] _ IHt]; [reflexivity|].
    cbn [subst_cs fst snd] in *.
    assert (Hc' : forall p, In p (map fst s) -> occurs p c = false).
    { intros p Hp. specialize (H' p Hp). cbn [occurs_cs] in H'. apply Bool.orb_false_iff in H'. destruct H' as [H1 _].
      apply Bool.orb_false_iff in H1. tauto. }
    assert (Hv' : forall p, In p (map fst s) -> occurs p v = false).
    { intros p Hp. specialize (H' p Hp). cbn [occurs_cs] in H'. apply Bool.orb_false_iff in H'. destruct H' as [H1 _].
      apply Bool.orb_false_iff in H1. tauto. }
    assert (Ht' : forall p, In p (map fst s) -> occurs_cs p t = false).
    { intros p Hp. specialize (H' p Hp). cbn [occurs_cs] in H'. apply Bool.orb_false_iff in H'. tauto. }
    rewrite (Hc Hc'), (Hv Hv'), (IHt Ht'). reflexivity.
Qed.

(* ---------- the three call shapes ---------- *)
Definition pos_params (ps : list name) : list (name * option expr) := map (fun p => (p, None)) ps.

Lemma positional_flat ps :
  flat_map (fun p : name * option expr => match snd p with None => [fst p] | Some _ => [] end) (pos_params ps) = ps.
Proof. unfold pos_params. induction ps as [|p t IH]; [reflexivity|]. cbn [map flat_map snd fst app]. rewrite IH. reflexivity. Qed.
Lemma named_flat ps :
  flat_map (fun p : name * option expr => match snd p with Some d => [(fst p, d)] | None => [] end) (pos_params ps) = [].
Proof. unfold pos_params. induction ps as [|p t IH]; [reflexivity|]. cbn [map flat_map snd fst app]. exact IH. Qed.
Lemma positional_pos ps b : positional {| f_params := pos_params ps; f_body := b |} = ps.
Proof. unfold positional. cbn [f_params]. apply positional_flat. Qed.
Lemma named_pos ps b : named {| f_params := pos_params ps; f_body := b |} = [].
Proof. unfold named. cbn [f_params]. apply named_flat. Qed.

Lemma eval_binding_combine r ps args :
  eval_binding r (combine ps args) = combine ps (map (evalT r) args).
Proof. unfold eval_binding. revert args. induction ps as [|p t IH]; intros [|a args]; try reflexivity. cbn [combine map fst snd]. rewrite IH. reflexivity. Qed.

(* positional: f a1 .. an with f = p1 .. pn -> body *)
Theorem beta_positional : forall ps body args r, length args = length ps ->
  exists e', beta {| f_params := pos_params ps; f_body := body |} {| c_named := []; c_pos := args |} = Some e' /\
             evalT r e' = evalT (bind r (combine ps (map (evalT r) args))) body.
Proof.
  intros ps body args r Hl. exists (subst (combine ps args) body). split.
  - unfold beta, bindings. cbn [c_pos c_named forallb].
    rewrite positional_pos, named_pos, Hl, Nat.eqb_refl. reflexivity.
  - rewrite subst_sound, eval_binding_combine. reflexivity.
Qed.

(* named parameter with default, declared first (`nd:d p1 .. pn -> body`), argument omitted / passed by name *)
Definition named_first (nd : name) (d : expr) (ps : list name) : list (name * option expr) := (nd, Some d) :: pos_params ps.

Lemma positional_named_first nd d ps b : positional {| f_params := named_first nd d ps; f_body := b |} = ps.
Proof. unfold positional, named_first. cbn [f_params flat_map snd app]. apply positional_flat. Qed.
Lemma named_named_first nd d ps b : named {| f_params := named_first nd d ps; f_body := b |} = [(nd, d)].
Proof. unfold named, named_first. cbn [f_params flat_map snd fst app]. rewrite named_flat. reflexivity. Qed.

Theorem beta_default_omitted : forall nd d ps body args r, length args = length ps ->
  exists e', beta {| f_params := named_first nd d ps; f_body := body |} {| c_named := []; c_pos := args |} = Some e' /\
             evalT r e' = evalT (bind r ((nd, evalT r d) :: combine ps (map (evalT r) args))) body.
Proof.
  intros nd d ps body args r Hl. exists (subst ((nd, d) :: combine ps args) body). split.
  - unfold beta, bindings. cbn [c_pos c_named forallb].
    rewrite positional_named_first, named_named_first, Hl, Nat.eqb_refl. reflexivity.
  - rewrite subst_sound. cbn [eval_binding map fst snd]. fold (eval_binding r (combine ps args)). rewrite eval_binding_combine. reflexivity.
Qed.

Theorem beta_named_passed : forall nd d x ps body args r, length args = length ps ->
  exists e', beta {| f_params := named_first nd d ps; f_body := body |} {| c_named := [(nd, x)]; c_pos := args |} = Some e' /\
             evalT r e' = evalT (bind r ((nd, evalT r x) :: combine ps (map (evalT r) args))) body.
Proof.
  intros nd d x ps body args r Hl. exists (subst ((nd, x) :: combine ps args) body). split.
  - unfold beta, bindings. cbn [c_pos c_named].
    rewrite positional_named_first, named_named_first, Hl, Nat.eqb_refl.
    cbn [forallb map fst existsb]. rewrite N.eqb_refl. cbn [orb andb map fst snd].
    unfold assoc_last. cbn [rev app find fst snd]. rewrite N.eqb_refl. reflexivity.
  - rewrite subst_sound. cbn [eval_binding map fst snd]. fold (eval_binding r (combine ps args)). rewrite eval_binding_combine. reflexivity.
Qed.

Lemma combine_app' {A B} (l1 l2 : list A) (m1 m2 : list B) : length l1 = length m1 ->
  combine (l1 ++ l2) (m1 ++ m2) = combine l1 m1 ++ combine l2 m2.
Proof.
  revert m1. induction l1 as [|x t IH]; intros [|y m1] H; try discriminate; [reflexivity|].
  cbn [app combine]. rewrite IH by (cbn in H; congruence). reflexivity.
Qed.

(* piped argument: `x | f a..` is `f a.. x` *)
Theorem pipe_is_last_argument : forall f c x,
  beta f (pipe x c) = beta f {| c_named := c_named c; c_pos := c_pos c ++ [x] |}.
Proof. reflexivity. Qed.

Theorem beta_piped : forall ps p body args x r, length args = length ps ->
  exists e', beta {| f_params := pos_params (ps ++ [p]); f_body := body |} (pipe x {| c_named := []; c_pos := args |}) = Some e' /\
             evalT r e' = evalT (bind r (combine ps (map (evalT r) args) ++ [(p, evalT r x)])) body.
Proof.
  intros ps p body args x r Hl.
  destruct (beta_positional (ps ++ [p]) body (args ++ [x]) r) as [e' [H1 H2]].
  { rewrite !app_length, Hl. reflexivity. }
  exists e'. split; [exact H1|]. rewrite H2. rewrite map_app. cbn [map].
  rewrite combine_app' by (rewrite map_length; symmetry; exact Hl). reflexivity.
Qed.

(* the same statement for Rel.ev (fuel 50) under the depth bound *)
Theorem beta_sound_ev : forall s body r,
  depth (subst s body) <= 50 -> depth body <= 50 -> Forall (fun b : name * expr => depth (snd b) <= 50) s ->
  ev r (subst s body) = ev (bind r (map (fun b : name * expr => (fst b, ev r (snd b))) s)) body.
Proof.
  intros s body r H1 H2 H3. rewrite !ev_evalT by assumption. rewrite subst_sound. f_equal. f_equal.
  unfold eval_binding. apply map_ext_in. intros [k a] Hin. rewrite Forall_forall in H3. specialize (H3 _ Hin). cbn [fst snd] in *.
  rewrite ev_evalT by assumption. reflexivity.
Qed.

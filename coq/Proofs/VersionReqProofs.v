(* semver::VersionReq: Display then from_str is the identity on the values from_str can return, and from_str returns
   only such values; hence the text serde writes is read back as the same text (the codec's round trip), and whatever
   text is accepted is held as a normal (Display) form. *)
From Coq Require Import List NArith Bool Lia PeanoNat.
From PV Require Import Lib.ListX Model.Json Model.VersionReq Proofs.SerdeCodecProofs.
Import ListNotations.
Local Open Scope N_scope.
Local Arguments N.add : simpl never.
Local Arguments N.sub : simpl never.
Local Arguments N.mul : simpl never.
Local Arguments N.div : simpl never.
Local Arguments N.modulo : simpl never.
Local Arguments N.ltb : simpl never.
Local Arguments N.leb : simpl never.
Local Arguments N.eqb : simpl never.

(* ---------- digits ---------- *)
Definition nodigit_head (s : str) : Prop := match s with c :: _ => is_digit c = false | [] => True end.

Lemma digit_range c : is_digit c = true -> 48 <= c /\ c <= 57.
Proof. unfold is_digit. intro H. apply andb_true_iff in H as [H1 H2]. apply N.leb_le in H1, H2. split; assumption. Qed.

Lemma digit_neq c k : is_digit c = true -> (k < 48 \/ 57 < k) -> (c =? k) = false.
Proof. intros H Hk. apply digit_range in H. apply N.eqb_neq. lia. Qed.

Lemma span_digits_app ds rest :
  Forall (fun c => is_digit c = true) ds -> nodigit_head rest -> span_digits (ds ++ rest) = (ds, rest).
Proof.
  intros Hd Hr. induction Hd as [|c ds Hc _ IH]; cbn [app span_digits].
  - destruct rest as [|c r]; cbn [span_digits]; [reflexivity|]. cbn [nodigit_head] in Hr. rewrite Hr. reflexivity.
  - rewrite Hc, IH. reflexivity.
Qed.

Lemma lsd_last_zero : forall f n, n < 2 ^ N.of_nat f -> (0 < f)%nat -> last (lsd f n) 0 = 48 -> lsd f n = [48].
Proof.
  induction f as [|f IH]; intros n Hn Hf Hl; [lia|].
  cbn [lsd] in *. destruct (n <? 10) eqn:E.
  - apply N.ltb_lt in E. cbn [last] in Hl. assert (n = 0) by lia. subst. reflexivity.
  - apply N.ltb_ge in E. exfalso.
    assert (0 < f)%nat as Hf'.
    { destruct f; [|lia]. cbn in Hn. lia. }
    assert (n / 10 < 2 ^ N.of_nat f) as Hq.
    { rewrite Nat2N.inj_succ, N.pow_succ_r' in Hn. apply N.div_lt_upper_bound; [lia|].
      assert (2 ^ N.of_nat f > 0) by (apply N.lt_gt, N.neq_0_lt_0, N.pow_nonzero; lia). lia. }
    pose proof (lsd_nonempty f (n / 10) Hf') as Hne.
    assert (last (lsd f (n / 10)) 0 = 48) as Hl'.
    { destruct (lsd f (n / 10)) as [|y l] eqn:El; [congruence|]. exact Hl. }
    pose proof (IH (n / 10) Hq Hf' Hl') as H1.
    pose proof (lsd_val f (n / 10) Hq Hf') as H2. rewrite H1 in H2. cbn in H2.
    assert (n / 10 = 0) as H0 by (injection H2; lia).
    apply N.div_small_iff in H0; lia.
Qed.

(* the decimal text of a number has no leading zero, except `0` itself *)
Lemma print_dec_lead n t : print_dec n = 48 :: t -> t = [].
Proof.
  unfold print_dec. intro H.
  apply (f_equal (@rev N)) in H. rewrite rev_involutive in H. cbn [rev] in H.
  assert (last (lsd (S (N.size_nat n)) n) 0 = 48) as Hl by (rewrite H; apply last_last).
  pose proof (lsd_last_zero _ n (size_nat_bound n) ltac:(lia) Hl) as H1. rewrite H1 in H.
  destruct (rev t) as [|y l] eqn:Er.
  - apply (f_equal (@rev N)) in Er. rewrite rev_involutive in Er. exact Er.
  - destruct l; discriminate H.
Qed.

Lemma val_print n : val_lsd (rev (print_dec n)) = Some n.
Proof. unfold print_dec. rewrite rev_involutive. apply lsd_val; [apply size_nat_bound | lia]. Qed.

Lemma num_ident_print n rest :
  n < u64_bound -> nodigit_head rest -> num_ident (print_dec n ++ rest) = Some (n, rest).
Proof.
  intros Hb Hr. unfold num_ident. rewrite (span_digits_app _ _ (print_dec_digits n) Hr). cbn [fst snd].
  pose proof (print_dec_nonempty n) as Hne. destruct (print_dec n) as [|d ds] eqn:Ep; [congruence|].
  assert ((d =? c_zero) && negb (match ds with [] => true | _ :: _ => false end) = false) as ->.
  { destruct (d =? c_zero) eqn:Ed; [|reflexivity]. apply N.eqb_eq in Ed. subst d.
    rewrite (print_dec_lead n ds Ep). reflexivity. }
  rewrite <- Ep, val_print. apply N.ltb_lt in Hb. rewrite Hb. reflexivity.
Qed.

Lemma print_dec_head n : exists d t, print_dec n = d :: t /\ is_digit d = true.
Proof.
  pose proof (print_dec_nonempty n) as Hne. pose proof (print_dec_digits n) as Hd.
  destruct (print_dec n) as [|d t]; [congruence|]. inversion Hd; subst. exists d, t. split; [reflexivity | assumption].
Qed.

(* ---------- identifiers (pre-release / build) ---------- *)
Lemma span_by_app p ds rest :
  forallb p ds = true -> (match rest with c :: _ => p c = false | [] => True end) -> span_by p (ds ++ rest) = (ds, rest).
Proof.
  intros Hd Hr. induction ds as [|c ds IH]; cbn [app span_by].
  - destruct rest as [|c r]; cbn [span_by]; [reflexivity|]. rewrite Hr. reflexivity.
  - cbn [forallb] in Hd. apply andb_true_iff in Hd as [Hc Hd]. rewrite Hc, (IH Hd). reflexivity.
Qed.

Lemma span_by_fst p s : forallb p (fst (span_by p s)) = true.
Proof.
  induction s as [|c s IH]; cbn [span_by]; [reflexivity|].
  destruct (p c) eqn:E; cbn [fst forallb]; [rewrite E, IH; reflexivity | reflexivity].
Qed.

Definition noident_head (rest : str) : Prop := match rest with c :: _ => is_ident_or_dot c = false | [] => True end.

Lemma identifier_print pre body rest :
  ident_valid pre body = true -> noident_head rest -> identifier pre (body ++ rest) = Some (body, rest).
Proof.
  unfold ident_valid, identifier. intros H Hr. apply andb_true_iff in H as [H1 H2].
  rewrite (span_by_app _ _ _ H1 Hr). cbn [fst snd]. rewrite H2. reflexivity.
Qed.

Lemma identifier_valid pre s b r : identifier pre s = Some (b, r) -> ident_valid pre b = true.
Proof.
  unfold identifier, ident_valid.
  destruct (forallb (seg_ok pre) (split_on c_dot (fst (span_by is_ident_or_dot s)))) eqn:E; [|discriminate].
  intro H. injection H as <- _. rewrite span_by_fst, E. reflexivity.
Qed.

Lemma parse_pre_false t : parse_pre false t = Some ([], t).
Proof. destruct t; reflexivity. Qed.

Lemma parse_build_false t : parse_build false t = Some t.
Proof. destruct t; reflexivity. Qed.

(* ---------- one comparator: from_str (Display c ++ rest) ---------- *)
Definition good_rest (rest : str) : Prop := rest = [] \/ exists r, rest = c_comma :: r.

Lemma good_rest_nodigit rest : good_rest rest -> nodigit_head rest.
Proof. intros [->|[r ->]]; cbn; reflexivity. Qed.

Lemma good_rest_nodot rest : good_rest rest -> strip c_dot rest = None.
Proof. intros [->|[r ->]]; reflexivity. Qed.

Lemma good_rest_pre b rest : good_rest rest -> parse_pre b rest = Some ([], rest).
Proof. intros [->|[r ->]]; destruct b; reflexivity. Qed.

Lemma good_rest_build b rest : good_rest rest -> parse_build b rest = Some rest.
Proof. intros [->|[r ->]]; destruct b; reflexivity. Qed.

Lemma good_rest_noident rest : good_rest rest -> noident_head rest.
Proof. intros [->|[r ->]]; cbn; reflexivity. Qed.

Lemma trim_digit d r : is_digit d = true -> trim (d :: r) = d :: r.
Proof. intro H. cbn [trim]. rewrite (digit_neq d c_sp H) by (unfold c_sp; lia). reflexivity. Qed.

Lemma wildcard_digit d r : is_digit d = true -> wildcard (d :: r) = None.
Proof.
  intro H. cbn [wildcard].
  rewrite (digit_neq d c_star H) by (unfold c_star; lia).
  rewrite (digit_neq d c_x H) by (unfold c_x; lia).
  rewrite (digit_neq d c_X H) by (unfold c_X; lia). reflexivity.
Qed.

Lemma parse_op_print op d r :
  is_digit d = true ->
  parse_op (print_op op ++ d :: r) = (if is_wild op then OpCaret else op, d :: r, is_wild op).
Proof.
  intro H.
  assert ((d =? c_eq) = false) as E1 by (apply digit_neq; [exact H | unfold c_eq; lia]).
  assert ((d =? c_gt) = false) as E2 by (apply digit_neq; [exact H | unfold c_gt; lia]).
  assert ((d =? c_lt) = false) as E3 by (apply digit_neq; [exact H | unfold c_lt; lia]).
  assert ((d =? c_tilde) = false) as E4 by (apply digit_neq; [exact H | unfold c_tilde; lia]).
  assert ((d =? c_caret) = false) as E5 by (apply digit_neq; [exact H | unfold c_caret; lia]).
  destruct op; cbn [print_op app parse_op is_wild];
    repeat match goal with
           | |- context [?a =? ?b] =>
               first [ rewrite E1 | rewrite E2 | rewrite E3 | rewrite E4 | rewrite E5
                     | progress (change (a =? b) with true) | progress (change (a =? b) with false) ]
           end; reflexivity.
Qed.

Lemma nodigit_dot t : nodigit_head (c_dot :: t).
Proof. reflexivity. Qed.

Lemma parse_cmp_print c rest :
  cmp_wf c = true -> good_rest rest -> parse_cmp (print_cmp c ++ rest) = Some (c, trim rest).
Proof.
  destruct c as [op maj mi pa pre]. unfold cmp_wf. cbn [cop cmaj cmin cpat cpre]. intros Hwf Hr.
  apply andb_true_iff in Hwf as [Hwf Hpre]. apply andb_true_iff in Hwf as [Hwf Hshape].
  apply andb_true_iff in Hwf as [Hwf Hpa]. apply andb_true_iff in Hwf as [Hmaj Hmi]. apply N.ltb_lt in Hmaj.
  pose proof (good_rest_nodigit _ Hr) as Hnd. pose proof (good_rest_nodot _ Hr) as Hdot.
  unfold print_cmp, parse_cmp. cbn [cop cmaj cmin cpat cpre].
  destruct (print_dec_head maj) as [d [t [Ep Hd]]].
  rewrite <- !app_assoc. rewrite Ep at 1. cbn [app]. rewrite (parse_op_print op d _ Hd).
  rewrite (trim_digit d _ Hd).
  change (d :: t ++ ?x) with ((d :: t) ++ x). rewrite <- Ep.
  destruct mi as [m|]; destruct pa as [p|]; cbn [is_some opt_lt] in *.
  - (* major.minor.patch[-pre] *)
    apply andb_true_iff in Hshape as [_ Hw]. apply negb_true_iff in Hw. rewrite Hw.
    apply N.ltb_lt in Hmi. apply N.ltb_lt in Hpa.
    cbn [app]. rewrite (num_ident_print maj _ Hmaj (nodigit_dot _)).
    unfold parse_minor. cbn [strip]. rewrite N.eqb_refl.
    destruct (print_dec_head m) as [dm [tm [Em Hdm]]].
    rewrite <- !app_assoc. rewrite Em at 1. cbn [app]. rewrite (wildcard_digit dm _ Hdm).
    cbn [app]. rewrite (num_ident_print m _ Hmi (nodigit_dot _)).
    unfold parse_patch. cbn [strip]. rewrite N.eqb_refl.
    destruct (print_dec_head p) as [dp [tp [Epp Hdp]]].
    rewrite <- !app_assoc. rewrite Epp at 1. cbn [app]. rewrite (wildcard_digit dp _ Hdp).
    destruct pre as [|pc pr].
    + cbn [app]. rewrite (num_ident_print p _ Hpa Hnd). cbn [is_some].
      rewrite (good_rest_pre true rest Hr), (good_rest_build true rest Hr). reflexivity.
    + cbn [andb] in Hpre. cbn [app].
      rewrite (num_ident_print p (c_dash :: pc :: pr ++ rest) Hpa eq_refl). cbn [is_some parse_pre andb].
      rewrite N.eqb_refl.
      change (pc :: pr ++ rest) with ((pc :: pr) ++ rest).
      rewrite (identifier_print true (pc :: pr) rest Hpre (good_rest_noident _ Hr)).
      rewrite (good_rest_build true rest Hr). reflexivity.
  - (* major.minor / major.minor.* *)
    destruct pre as [|pc pr]; [|discriminate Hpre].
    apply N.ltb_lt in Hmi.
    cbn [app]. rewrite (num_ident_print maj _ Hmaj (nodigit_dot _)).
    unfold parse_minor. cbn [strip]. rewrite N.eqb_refl.
    destruct (print_dec_head m) as [dm [tm [Em Hdm]]].
    rewrite <- !app_assoc. rewrite Em at 1. cbn [app]. rewrite (wildcard_digit dm _ Hdm).
    unfold wild_suffix. destruct (is_wild op) eqn:Ew.
    + cbn [app]. rewrite (num_ident_print m _ Hmi (nodigit_dot _)).
      unfold parse_patch. cbn [strip]. rewrite N.eqb_refl. cbn [wildcard]. rewrite N.eqb_refl. cbn [orb is_some].
      rewrite parse_pre_false, parse_build_false.
      destruct op; try discriminate Ew. reflexivity.
    + cbn [app]. rewrite (num_ident_print m _ Hmi Hnd).
      unfold parse_patch. rewrite Hdot. cbn [is_some]. rewrite parse_pre_false, parse_build_false. reflexivity.
  - (* patch without minor: not well formed *)
    discriminate Hshape.
  - (* major / major.* *)
    destruct pre as [|pc pr]; [|discriminate Hpre].
    unfold wild_suffix. destruct (is_wild op) eqn:Ew.
    + cbn [app]. rewrite (num_ident_print maj _ Hmaj (nodigit_dot _)).
      unfold parse_minor. cbn [strip]. rewrite N.eqb_refl. cbn [wildcard]. rewrite N.eqb_refl. cbn [orb].
      unfold parse_patch. rewrite Hdot. cbn [is_some]. rewrite parse_pre_false, parse_build_false.
      destruct op; try discriminate Ew. reflexivity.
    + cbn [app]. rewrite (num_ident_print maj _ Hmaj Hnd).
      unfold parse_minor. rewrite Hdot. unfold parse_patch. rewrite Hdot. cbn [is_some].
      rewrite parse_pre_false, parse_build_false. reflexivity.
Qed.

(* ---------- the list of comparators ---------- *)
Lemma print_cmp_head c : exists h t, print_cmp c = h :: t /\ (h =? c_sp) = false /\ wildcard (h :: t) = None.
Proof.
  destruct c as [op maj mi pa pre]. unfold print_cmp. cbn [cop cmaj cmin cpat cpre].
  destruct (print_dec_head maj) as [d [t [Ep Hd]]]. rewrite Ep.
  destruct op; cbn [print_op app];
    try (eexists; eexists; split; [reflexivity | split; reflexivity]).
  exists d. eexists. split; [reflexivity|]. split.
  - apply digit_neq; [exact Hd | unfold c_sp; lia].
  - apply wildcard_digit. exact Hd.
Qed.

Lemma print_cmps_head l : l <> [] -> exists h t, print_cmps l = h :: t /\ (h =? c_sp) = false /\ wildcard (h :: t) = None.
Proof.
  destruct l as [|c l]; [congruence|]. intros _. cbn [print_cmps].
  destruct (print_cmp_head c) as [h [t [E [H1 H2]]]].
  destruct l as [|c2 l].
  - exists h, t. repeat split; assumption.
  - rewrite E. cbn [app]. exists h. eexists. split; [reflexivity|]. split; [exact H1|].
    cbn [wildcard] in *. destruct ((h =? c_star) || (h =? c_x) || (h =? c_X)); [discriminate H2 | reflexivity].
Qed.

Lemma trim_nosp h t : (h =? c_sp) = false -> trim (h :: t) = h :: t.
Proof. intro H. cbn [trim]. rewrite H. reflexivity. Qed.

Lemma parse_req_print : forall l fuel, l <> [] -> forallb cmp_wf l = true -> (length l <= fuel)%nat ->
  parse_req fuel (print_cmps l) = Some l.
Proof.
  induction l as [|c l IH]; intros fuel Hne Hwf Hlen; [congruence|].
  cbn [forallb] in Hwf. apply andb_true_iff in Hwf as [Hc Hl].
  destruct fuel as [|f]; [cbn [length] in Hlen; lia|]. cbn [parse_req print_cmps].
  destruct l as [|c2 l].
  - rewrite <- (app_nil_r (print_cmp c)). rewrite (parse_cmp_print c [] Hc (or_introl eq_refl)). reflexivity.
  - rewrite (parse_cmp_print c _ Hc (or_intror (ex_intro _ _ eq_refl))).
    rewrite (trim_nosp c_comma _ eq_refl). rewrite N.eqb_refl.
    cbn [trim]. rewrite N.eqb_refl.
    destruct (print_cmps_head (c2 :: l) ltac:(discriminate)) as [h [t [E [H1 _]]]].
    rewrite E, (trim_nosp h t H1), <- E.
    rewrite (IH f ltac:(discriminate) Hl); [reflexivity|]. cbn [length] in *. lia.
Qed.

(* Display then from_str is the identity on what from_str can return *)
Theorem vreq_parse_print l : vreq_wf l = true -> vreq_parse (vreq_print l) = Some l.
Proof.
  unfold vreq_wf. intro H. apply andb_true_iff in H as [Hwf Hlen]. apply Nat.leb_le in Hlen.
  destruct l as [|c l]; [reflexivity|].
  unfold vreq_parse, vreq_print.
  destruct (print_cmps_head (c :: l) ltac:(discriminate)) as [h [t [E [H1 H2]]]].
  rewrite E, (trim_nosp h t H1), H2, <- E.
  apply parse_req_print; [discriminate | exact Hwf | exact Hlen].
Qed.

(* ---------- from_str returns only well-formed values ---------- *)
Lemma num_ident_lt s v r : num_ident s = Some (v, r) -> v < u64_bound.
Proof.
  unfold num_ident. destruct (fst (span_digits s)) as [|d ds]; [discriminate|].
  destruct ((d =? c_zero) && _); [discriminate|].
  destruct (val_lsd _) as [v'|]; [|discriminate].
  destruct (v' <? u64_bound) eqn:E; [|discriminate]. intro H. injection H as <- _. apply N.ltb_lt. exact E.
Qed.

Lemma parse_op_notwild s : is_wild (fst (fst (parse_op s))) = false.
Proof.
  unfold parse_op.
  repeat match goal with
         | |- context [match ?x with _ => _ end] => destruct x
         end; reflexivity.
Qed.

Lemma parse_minor_spec dflt op t mi t2 hasw op2 :
  parse_minor dflt op t = Some (mi, t2, hasw, op2) ->
  opt_lt mi = true /\ (hasw = false -> op2 = op /\ (mi = None -> strip c_dot t2 = None)).
Proof.
  unfold parse_minor. destruct (strip c_dot t) as [t'|] eqn:Es.
  - destruct (wildcard t') as [t''|].
    + intro H. injection H as <- <- <- <-. split; [reflexivity | discriminate].
    + destruct (num_ident t') as [[m t'']|] eqn:En; [|discriminate].
      intro H. injection H as <- <- <- <-. split.
      * cbn [opt_lt]. apply N.ltb_lt. eapply num_ident_lt. exact En.
      * intros _. split; [reflexivity | discriminate].
  - intro H. injection H as <- <- <- <-. split; [reflexivity|]. intros _. split; [reflexivity | intros _; exact Es].
Qed.

Lemma parse_pre_spec hp t pre t' :
  parse_pre hp t = Some (pre, t') -> match pre with [] => true | _ :: _ => hp && ident_valid true pre end = true.
Proof.
  unfold parse_pre. destruct t as [|c r].
  - intro H. injection H as <- _. reflexivity.
  - destruct (hp && (c =? c_dash)) eqn:E.
    + intro H. pose proof (identifier_valid _ _ _ _ H) as Hv. apply andb_true_iff in E as [-> _].
      destruct pre; [reflexivity | exact Hv].
    + intro H. injection H as <- _. reflexivity.
Qed.

Lemma parse_cmp_wf s c t : parse_cmp s = Some (c, t) -> cmp_wf c = true.
Proof.
  unfold parse_cmp. pose proof (parse_op_notwild s) as Hop.
  destruct (parse_op s) as [[op t0] dflt]. cbn [fst] in Hop.
  destruct (num_ident (trim t0)) as [[maj t1]|] eqn:Emaj; [|discriminate].
  destruct (parse_minor dflt op t1) as [[[[mi t2] hasw] op2]|] eqn:Emi; [|discriminate].
  destruct (parse_minor_spec _ _ _ _ _ _ _ Emi) as [Hmi Hspec].
  apply num_ident_lt in Emaj. apply N.ltb_lt in Emaj.
  destruct (parse_patch dflt hasw op2 t2) as [[[pa t3] op3]|] eqn:Epa; [|discriminate].
  destruct (parse_pre (is_some pa) t3) as [[pre t4]|] eqn:Epre; [|discriminate].
  destruct (parse_build (is_some pa) t4) as [t5|]; [|discriminate].
  intro H. injection H as <- _.
  pose proof (parse_pre_spec _ _ _ _ Epre) as Hpre.
  unfold cmp_wf. cbn [cop cmaj cmin cpat cpre]. rewrite Emaj, Hmi. cbn [andb].
  unfold parse_patch in Epa. destruct (strip c_dot t2) as [t'|] eqn:Es.
  - destruct (wildcard t') as [t''|].
    + injection Epa as <- _ _. cbn [opt_lt is_some andb] in *.
      destruct pre; [reflexivity | discriminate Hpre].
    + destruct hasw; [discriminate|].
      destruct (num_ident t') as [[p t'']|] eqn:Ep; [|discriminate].
      injection Epa as <- _ <-.
      destruct (Hspec eq_refl) as [-> Hnone].
      apply num_ident_lt in Ep. apply N.ltb_lt in Ep. cbn [opt_lt is_some] in *. rewrite Ep, Hop.
      destruct mi as [m|]; [| pose proof (Hnone eq_refl) as Hn; congruence].
      cbn [is_some andb negb]. destruct pre; [reflexivity | exact Hpre].
  - injection Epa as <- _ _. cbn [opt_lt is_some andb] in *.
    destruct pre; [reflexivity | discriminate Hpre].
Qed.

Lemma parse_req_wf : forall fuel s l, parse_req fuel s = Some l -> forallb cmp_wf l = true /\ (length l <= fuel)%nat.
Proof.
  induction fuel as [|f IH]; intros s l H; [discriminate|]. cbn [parse_req] in H.
  destruct (parse_cmp s) as [[c t]|] eqn:Ec; [|discriminate].
  pose proof (parse_cmp_wf _ _ _ Ec) as Hc.
  destruct t as [|ch t'].
  - injection H as <-. cbn [forallb length]. rewrite Hc. split; [reflexivity | lia].
  - destruct (ch =? c_comma); [|discriminate].
    destruct (parse_req f (trim t')) as [r|] eqn:Er; [|discriminate]. injection H as <-.
    destruct (IH _ _ Er) as [H1 H2]. cbn [forallb length]. rewrite Hc, H1. split; [reflexivity | lia].
Qed.

Theorem vreq_parse_wf t l : vreq_parse t = Some l -> vreq_wf l = true.
Proof.
  unfold vreq_parse, vreq_wf. destruct (wildcard (trim t)) as [r|].
  - destruct (trim r); [|discriminate]. intro H. injection H as <-. reflexivity.
  - intro H. destruct (parse_req_wf _ _ _ H) as [H1 H2]. rewrite H1. apply Nat.leb_le. exact H2.
Qed.

(* ---------- what the serde model needs ---------- *)
(* the text serde writes is read back as the same text *)
Theorem vreq_normal_roundtrip s : vreq_normal s = true -> vreq_normalise s = Some s.
Proof.
  unfold vreq_normal, vreq_normalise. destruct (vreq_parse s) as [r|]; [|discriminate].
  intro H. apply leqb_spec in H. rewrite H. reflexivity.
Qed.

(* whatever text is accepted is held as a normal form *)
Theorem vreq_normalise_normal t s : vreq_normalise t = Some s -> vreq_normal s = true.
Proof.
  unfold vreq_normalise, vreq_normal. destruct (vreq_parse t) as [r|] eqn:Ep; [|discriminate].
  intro H. injection H as <-. rewrite (vreq_parse_print r (vreq_parse_wf t r Ep)). apply leqb_refl.
Qed.

(* de . ser . de = de on texts: normalising twice is normalising once *)
Corollary vreq_normalise_idem t s : vreq_normalise t = Some s -> vreq_normalise s = Some s.
Proof. intro H. apply vreq_normal_roundtrip. eapply vreq_normalise_normal. exact H. Qed.

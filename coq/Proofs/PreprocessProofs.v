(* What a positive decision of the recognisers (Model/Preprocess.v) guarantees -- the facts under which Proofs/SetRewrites.v
   says what the emitted set operation means. *)
From Coq Require Import List Bool Arith.
From PV Require Import Model.Preprocess.
Import ListNotations.

Lemma intersect_yes top bottom output used cond db da ia w d :
  intersect_decision top bottom output used cond db da ia w = Yes d ->
  is_exact_pairing top bottom cond = true /\
  existsb (fun c => memn c output) bottom = false /\ existsb (fun c => memn c used) bottom = false /\
  d = (db || da) /\ (d = false -> ia = true).
Proof.
  unfold intersect_decision. destruct (collect_equals cond) as [ls rs].
  destruct (all_in top ls && all_in bottom rs); cbn [negb]; [|discriminate].
  destruct (is_exact_pairing top bottom cond); cbn [negb]; [|discriminate].
  destruct (existsb (fun c => memn c output) bottom); [discriminate|].
  destruct (existsb (fun c => memn c used) bottom); [discriminate|].
  destruct (forallb (fun c => negb (memn c output)) top); [discriminate|].
  destruct (db || da) eqn:E; cbn [negb andb].
  - intro H. injection H as <-. repeat split; discriminate.
  - destruct ia; cbn [negb]; [|destruct w; discriminate]. intro H. injection H as <-. repeat split.
Qed.

Lemma except_yes top bottom output used cond filter db ea w d :
  except_decision top bottom output used cond filter db ea w = Yes d ->
  is_exact_pairing top bottom cond = true /\ only_equals filter = true /\ all_null (snd (collect_equals filter)) = true /\
  existsb (fun c => memn c output) bottom = false /\ existsb (fun c => memn c used) bottom = false /\
  d = db /\ (d = false -> ea = true).
Proof.
  unfold except_decision. destruct (collect_equals cond) as [jl jr].
  destruct (negb (all_in top jl) || negb (all_in bottom jr)); [discriminate|].
  destruct (is_exact_pairing top bottom cond); cbn [negb]; [|discriminate].
  destruct (collect_equals filter) as [fl fr]. cbn [snd].
  destruct (all_in bottom fl && all_null fr) eqn:E1; cbn [negb]; [|discriminate].
  apply andb_true_iff in E1 as [_ En].
  destruct (only_equals filter); cbn [negb orb]; [|discriminate].
  destruct (negb (Nat.eqb (length (col_refs fl)) (length fl)) || negb (forallb (fun c => memn c bottom) (col_refs fl))); [discriminate|].
  destruct (existsb (fun c => memn c output) bottom); [discriminate|].
  destruct (existsb (fun c => memn c used) bottom); [discriminate|].
  destruct db; cbn [negb andb].
  - intro H. injection H as <-. repeat split; try assumption; discriminate.
  - destruct ea; cbn [negb]; [|destruct w; discriminate]. intro H. injection H as <-. repeat split; assumption.
Qed.

Lemma distinct_yes f se cif part ub db don :
  distinct_decision f se cif part ub db don = DDistinct ->
  f = true /\ se = true /\ same_elements cif part = true /\ only_these_used ub db part = true.
Proof.
  unfold distinct_decision.
  destruct f, se; cbn [andb]; try (destruct (don && _); discriminate); try (destruct don; discriminate).
  destruct (same_elements cif part && only_these_used ub db part) eqn:E.
  - intros _. apply andb_true_iff in E as [E1 E2]. repeat split; assumption.
  - cbn [andb]. destruct don; discriminate.
Qed.

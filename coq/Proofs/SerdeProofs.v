(* The round-trip theorem of the generic serde model: de (ser v) = Some v for well-typed values without
   non-finite floats, under the decidable schema condition `schema_ok`. *)
From Coq Require Import List NArith ZArith Bool Lia.
From PV Require Import Lib.ListX Model.Json Model.VersionReq Model.Serde Proofs.SerdeCodecProofs Proofs.VersionReqProofs.
Import ListNotations.

(* ---------- sizes ---------- *)
Fixpoint vsize (v : value) : nat :=
  match v with
  | VSome v' => S (vsize v')
  | VList l | VTuple l | VStruct l | VEnum _ l =>
      S ((fix sum (l : list value) : nat := match l with [] => O | x :: l' => vsize x + sum l' end) l)
  | VMap l =>
      S ((fix sum (l : list (str * value)) : nat := match l with [] => O | kv :: l' => vsize (snd kv) + sum l' end) l)
  | _ => 1
  end.

Definition vsum (l : list value) : nat := list_sum (map vsize l).
Definition vmsum (l : list (str * value)) : nat := list_sum (map (fun kv => vsize (snd kv)) l).
Definition jsum (l : list json) : nat := list_sum (map jw l).
Definition jwsum (l : list (str * json)) : nat := list_sum (map (fun kv => jw (snd kv)) l).

Lemma vsize_list l :
  vsize (VList l) = S (vsum l) /\ vsize (VTuple l) = S (vsum l) /\ vsize (VStruct l) = S (vsum l)
  /\ forall t, vsize (VEnum t l) = S (vsum l).
Proof.
  assert ((fix sum (l : list value) : nat := match l with [] => O | x :: l' => vsize x + sum l' end) l = vsum l) as H.
  { induction l as [|x l IH]; [reflexivity|]. unfold vsum in *. simpl. rewrite IH. reflexivity. }
  cbn [vsize]. rewrite H. repeat split; reflexivity.
Qed.

Lemma vsize_map l : vsize (VMap l) = S (vmsum l).
Proof.
  cbn [vsize]. f_equal. induction l as [|x l IH]; [reflexivity|].
  unfold vmsum in *. simpl. rewrite IH. reflexivity.
Qed.

Lemma jw_arr l : jw (JArr l) = S (jsum l).
Proof.
  cbn [jw]. f_equal. induction l as [|x l IH]; [reflexivity|].
  unfold jsum in *. simpl. rewrite IH. reflexivity.
Qed.

Lemma jw_obj l : jw (JObj l) = S (jwsum l).
Proof.
  cbn [jw]. f_equal. induction l as [|[k x] l IH]; [reflexivity|].
  unfold jwsum in *. simpl. rewrite IH. reflexivity.
Qed.

Lemma jw_pos j : 1 <= jw j.
Proof. destruct j; cbn [jw]; lia. Qed.

Lemma in_vsum x l : In x l -> vsize x <= vsum l.
Proof.
  unfold vsum. induction l as [|y l IH]; intro H; [destruct H|]. simpl.
  destruct H as [H|H]; [subst; lia | apply IH in H; lia].
Qed.

Lemma in_vmsum kv l : In kv l -> vsize (snd kv) <= vmsum l.
Proof.
  unfold vmsum. induction l as [|y l IH]; intro H; [destruct H|]. simpl.
  destruct H as [H|H]; [subst; lia | apply IH in H; lia].
Qed.

Lemma jwsum_app a b : jwsum (a ++ b) = jwsum a + jwsum b.
Proof. unfold jwsum. rewrite map_app, list_sum_app. reflexivity. Qed.

Lemma nodupb_complete l : NoDup l -> nodupb l = true.
Proof.
  induction 1 as [|x l Hn _ IH]; cbn [nodupb]; [reflexivity|]. rewrite IH, andb_true_r. apply negb_true_iff.
  destruct (existsb (leqb x) l) eqn:Ee; [|reflexivity].
  apply existsb_exists in Ee as [y [Hy He]]. apply leqb_spec in He. subst. contradiction.
Qed.

Lemma insert_kv_fresh {A} k (v : A) l : ~ In k (keys l) -> insert_kv k v l = l ++ [(k, v)].
Proof.
  induction l as [|[k' v'] l IH]; cbn [insert_kv keys map fst app]; intro H; [reflexivity|].
  destruct (leqb k k') eqn:Ek.
  - apply leqb_spec in Ek. subst. exfalso. apply H. left. reflexivity.
  - unfold keys in IH. rewrite IH; [reflexivity|]. intro Hi. apply H. right. exact Hi.
Qed.

Lemma dedup_last_acc {A} : forall (l acc : list (str * A)), NoDup (keys (acc ++ l)) ->
  fold_left (fun a kv => insert_kv (fst kv) (snd kv) a) l acc = acc ++ l.
Proof.
  induction l as [|[k v] l IH]; intros acc H; cbn [fold_left]; [rewrite app_nil_r; reflexivity|].
  cbn [fst snd].
  assert ((acc ++ [(k, v)]) ++ l = acc ++ (k, v) :: l) as Heq by (rewrite <- app_assoc; reflexivity).
  rewrite insert_kv_fresh.
  - rewrite IH; [exact Heq | rewrite Heq; exact H].
  - unfold keys in *. rewrite map_app in H. cbn [map fst] in H. apply NoDup_remove_2 in H.
    intro Hi. apply H. apply in_or_app. left. exact Hi.
Qed.

(* a map without repeated keys is read back as it is *)
Lemma dedup_last_id {A} (l : list (str * A)) : NoDup (keys l) -> dedup_last l = l.
Proof. intro H. unfold dedup_last. apply (dedup_last_acc l []). exact H. Qed.

Lemma filter_none {A} (P : A -> bool) l : (forall x, In x l -> P x = false) -> filter P l = [].
Proof.
  induction l as [|x l IH]; intro H; [reflexivity|]. cbn [filter]. rewrite (H x (or_introl eq_refl)).
  apply IH. intros y Hy. apply H. right. exact Hy.
Qed.

Section Proofs.
  Variable E : env.
  Notation ser := (ser E).
  Notation ser_tuple := (ser_tuple E).
  Notation ser_field := (ser_field E).
  Notation ser_fields := (ser_fields E).
  Notation de_fuel := (de_fuel E).
  Notation wt := (wt E).

  (* ---------- unfolding equations of ser ---------- *)
  Lemma ser_VTuple d l : ser d (VTuple l) = JArr (ser_tuple (tuple_descs d) l).
  Proof. reflexivity. Qed.

  Lemma ser_VStruct d l :
    ser d (VStruct l) =
    match struct_def E d with
    | Some (DefStruct fs) => JObj (ser_fields fs l)
    | Some (DefNewtype d') => match l with [x] => ser d' x | _ => JNull end
    | _ => JNull
    end.
  Proof. reflexivity. Qed.

  Lemma ser_VEnum d tag p :
    ser d (VEnum tag p) =
    match enum_shape E d tag with
    | Some SUnit => JStr tag
    | Some (SNewtype d') => match p with [x] => JObj [(tag, ser d' x)] | _ => JNull end
    | Some (STuple ds) => JObj [(tag, JArr (ser_tuple ds p))]
    | Some (SStruct fs) => JObj [(tag, JObj (ser_fields fs p))]
    | None => JNull
    end.
  Proof. reflexivity. Qed.

  Lemma ser_VList d l : ser d (VList l) = JArr (map (ser (vec_inner d)) l).
  Proof. reflexivity. Qed.

  Lemma ser_VMap d l : ser d (VMap l) = JObj (map (fun kv => (fst kv, ser (vec_inner d) (snd kv))) l).
  Proof. reflexivity. Qed.

  Lemma ser_VSome d v : ser d (VSome v) = ser (opt_inner d) v.
  Proof. reflexivity. Qed.

  Lemma ser_box d v : ser (DBox d) v = ser d v.
  Proof. destruct v; reflexivity. Qed.

  Lemma ser_unbox d v : ser d v = ser (unbox d) v.
  Proof. induction d; try reflexivity. cbn [unbox]. rewrite ser_box. exact IHd. Qed.

  Lemma de_fuel_S f d j : de_fuel (S f) d j = de_body E (de_fuel f) d j.
  Proof. reflexivity. Qed.

  (* ---------- association lists ---------- *)
  Lemma assoc_app {A} k (a b : list (str * A)) :
    assoc k (a ++ b) = match assoc k a with Some x => Some x | None => assoc k b end.
  Proof.
    induction a as [|[k' x] a IH]; cbn [app assoc]; [reflexivity|].
    destruct (leqb k k'); [reflexivity | exact IH].
  Qed.

  Lemma assoc_none {A} k (a : list (str * A)) : ~ In k (keys a) -> assoc k a = None.
  Proof.
    induction a as [|[k' x] a IH]; cbn [assoc keys map fst]; intro H; [reflexivity|].
    destruct (leqb k k') eqn:Ek.
    - apply leqb_spec in Ek. subst. exfalso. apply H. left. reflexivity.
    - apply IH. intro Hi. apply H. right. exact Hi.
  Qed.

  Lemma assoc_in {A} k (a : list (str * A)) x : assoc k a = Some x -> In (k, x) a.
  Proof.
    induction a as [|[k' y] a IH]; cbn [assoc]; intro H; [discriminate|].
    destruct (leqb k k') eqn:Ek.
    - apply leqb_spec in Ek. injection H as ->. subst. left. reflexivity.
    - right. apply IH. exact H.
  Qed.

  Lemma mem_spec k l : mem k l = true <-> In k l.
  Proof.
    unfold mem. rewrite existsb_exists. split.
    - intros [x [Hi He]]. apply leqb_spec in He. subst. exact Hi.
    - intro H. exists k. split; [exact H | apply leqb_refl].
  Qed.

  Lemma mem_false k l : mem k l = false <-> ~ In k l.
  Proof.
    split.
    - intros H Hi. apply mem_spec in Hi. congruence.
    - intro H. destruct (mem k l) eqn:Em; [apply mem_spec in Em; contradiction | reflexivity].
  Qed.

  (* ---------- what schema_ok gives ---------- *)
  Hypothesis Hschema : schema_ok E = true.

  Lemma lookup_def_ok n df : lookup E n = Some df -> def_ok E df = true.
  Proof.
    intro H. unfold lookup in H. apply assoc_in in H.
    unfold schema_ok in Hschema. apply andb_true_iff in Hschema as [_ Hall].
    rewrite forallb_forall in Hall. apply (Hall (n, df) H).
  Qed.

  Record fields_facts (fs : list field) : Prop := {
    ff_nodup : NoDup (map fname fs);
    ff_one : length (filter fflatten fs) <= 1;
    ff_desc : forall f, In f fs -> desc_ok E (fdesc f) = true;
    ff_skip : forall f, In f fs -> skip_ok f = true;
    ff_default : forall f, In f fs -> default_ok f = true;
    ff_flat : forall f, In f fs -> flatten_ok E (own_names fs) f = true }.

  Lemma fields_ok_facts fs : fields_ok E fs = true -> fields_facts fs.
  Proof.
    unfold fields_ok. intro H.
    apply andb_true_iff in H as [H H3]. apply andb_true_iff in H as [H1 H2].
    rewrite forallb_forall in H3.
    split.
    - apply nodupb_spec. exact H1.
    - apply Nat.leb_le. exact H2.
    - intros f Hf. specialize (H3 f Hf). repeat (apply andb_true_iff in H3 as [H3 ?]). exact H3.
    - intros f Hf. specialize (H3 f Hf). repeat (apply andb_true_iff in H3 as [H3 ?]). assumption.
    - intros f Hf. specialize (H3 f Hf). repeat (apply andb_true_iff in H3 as [H3 ?]). assumption.
    - intros f Hf. specialize (H3 f Hf). repeat (apply andb_true_iff in H3 as [H3 ?]). assumption.
  Qed.

  (* ---------- keys contributed by one field ---------- *)
  Lemma ser_fields_cons f fs v l : ser_fields (f :: fs) (v :: l) = ser_field f v ++ ser_fields fs l.
  Proof. reflexivity. Qed.

  Lemma ser_field_nonflat_keys f v k :
    fflatten f = false -> In k (keys (ser_field f v)) -> k = fname f.
  Proof.
    intros Hf. unfold Serde.ser_field. rewrite Hf. destruct (skipped (fskip f) v); cbn [keys map fst In]; intuition.
  Qed.

  Lemma flatten_ok_inv own f :
    fflatten f = true -> flatten_ok E own f = true ->
    exists vs, struct_def E (fdesc f) = Some (DefEnum vs) /\ fskip f = SkipNever /\
      forall k sh, assoc k vs = Some sh -> mem k own = false /\ shape_flat_ok sh = true.
  Proof.
    intros Hf H. unfold flatten_ok in H. rewrite Hf in H.
    destruct (fskip f); try discriminate.
    destruct (struct_def E (fdesc f)) as [[fs|vs|d']|]; try discriminate.
    exists vs. split; [reflexivity|]. split; [reflexivity|].
    intros k sh Hk. apply assoc_in in Hk. rewrite forallb_forall in H. specialize (H _ Hk).
    cbn [fst snd] in H. apply andb_true_iff in H as [H1 H2]. apply negb_true_iff in H1. split; assumption.
  Qed.

  Lemma ser_field_flat_keys own f v k :
    fflatten f = true -> flatten_ok E own f = true -> In k (keys (ser_field f v)) -> mem k own = false.
  Proof.
    intros Hf Hok Hk. destruct (flatten_ok_inv own f Hf Hok) as [vs [Hsd [_ Hvs]]].
    unfold Serde.ser_field in Hk. rewrite Hf in Hk.
    destruct v; try (destruct Hk; fail).
    unfold enum_shape in Hk. rewrite Hsd in Hk.
    destruct (assoc tag vs) as [sh|] eqn:Ea; [|destruct Hk].
    assert (In k [tag]) as Hin.
    { destruct sh; [ exact Hk | destruct l as [|x [|y l]]; [destruct Hk | exact Hk | destruct Hk] | exact Hk | destruct Hk ]. }
    destruct Hin as [<-|[]]. apply (Hvs _ _ Ea).
  Qed.

  Lemma nokey_fields k fs l :
    (forall f v, In (f, v) (combine fs l) -> ~ In k (keys (ser_field f v))) -> assoc k (ser_fields fs l) = None.
  Proof.
    revert l; induction fs as [|f fs IH]; intros [|v l] H; try reflexivity.
    rewrite ser_fields_cons, assoc_app.
    rewrite (assoc_none k (ser_field f v)) by (apply H; left; reflexivity).
    apply IH. intros f1 v1 Hi. apply H. right. exact Hi.
  Qed.

  Section OneStruct.
    Variable own : list str.

    (* Lemma A: a named field's key finds that field's entry (or nothing, if it was skipped) *)
    Lemma assoc_ser_fields : forall fs l,
      NoDup (map fname fs) ->
      (forall f, In f fs -> fflatten f = true -> flatten_ok E own f = true) ->
      forall f0 v0, In (f0, v0) (combine fs l) -> fflatten f0 = false -> In (fname f0) own ->
      assoc (fname f0) (ser_fields fs l) = assoc (fname f0) (ser_field f0 v0).
    Proof.
      induction fs as [|f fs IH]; intros [|v l] Hnd Hflat f0 v0 Hin Hf0 Hown; try (destruct Hin; fail).
      cbn [map] in Hnd. inversion Hnd as [|? ? Hnotin Hnd']; subst.
      assert (forall f1 v1, In f1 fs -> fname f1 <> fname f0 -> ~ In (fname f0) (keys (ser_field f1 v1))) as Hother.
      { intros f1 v1 Hf1 Hne Hk. destruct (fflatten f1) eqn:Ef1.
        - apply (ser_field_flat_keys own) in Hk; [| exact Ef1 | apply Hflat; [right; exact Hf1 | exact Ef1]].
          apply mem_false in Hk. contradiction.
        - apply ser_field_nonflat_keys in Hk; [|exact Ef1]. congruence. }
      rewrite ser_fields_cons, assoc_app. destruct Hin as [Heq|Hin].
      - injection Heq as -> ->.
        destruct (assoc (fname f0) (ser_field f0 v0)); [reflexivity|].
        apply nokey_fields. intros f1 v1 Hi. apply in_combine_l in Hi. apply Hother; [exact Hi|].
        intro Hn. apply Hnotin. rewrite <- Hn. apply in_map. exact Hi.
      - assert (In f0 fs) as Hf0in by (apply in_combine_l in Hin; exact Hin).
        rewrite (assoc_none (fname f0) (ser_field f v)).
        + apply IH; try assumption. intros f1 Hf1. apply Hflat. right. exact Hf1.
        + intro Hk. destruct (fflatten f) eqn:Ef.
          * apply (ser_field_flat_keys own) in Hk; [| exact Ef | apply Hflat; [left; reflexivity | exact Ef]].
            apply mem_false in Hk. contradiction.
          * apply ser_field_nonflat_keys in Hk; [|exact Ef].
            apply Hnotin. rewrite <- Hk. apply in_map. exact Hf0in.
    Qed.

    Lemma find_variant_skip vs a b :
      (forall k, In k (keys a) -> mem k own = true) ->
      find_variant vs own (a ++ b) = find_variant vs own b.
    Proof.
      induction a as [|[k j] a IH]; intro H; [reflexivity|].
      cbn [app find_variant]. rewrite (H k) by (left; reflexivity).
      apply IH. intros k' Hk'. apply H. right. exact Hk'.
    Qed.

    (* Lemma B: the flattened enum's entry is the first one no named field claims *)
    Lemma find_variant_ser_fields : forall fs l,
      length (filter fflatten fs) <= 1 ->
      (forall f, In f fs -> fflatten f = false -> In (fname f) own) ->
      forall f0 v0, In (f0, v0) (combine fs l) -> fflatten f0 = true ->
      forall vs tag sh pj, ser_field f0 v0 = [(tag, pj)] -> mem tag own = false -> assoc tag vs = Some sh ->
      find_variant vs own (ser_fields fs l) = Some (tag, sh, pj).
    Proof.
      induction fs as [|f fs IH]; intros [|v l] Hone Hown f0 v0 Hin Hf0 vs tag sh pj Hser Hmem Hassoc;
        try (destruct Hin; fail).
      rewrite ser_fields_cons. destruct Hin as [Heq|Hin].
      - injection Heq as -> ->. rewrite Hser. cbn [app find_variant]. rewrite Hmem, Hassoc. reflexivity.
      - assert (In f0 fs) as Hf0in by (apply in_combine_l in Hin; exact Hin).
        destruct (fflatten f) eqn:Ef.
        + exfalso. cbn [filter] in Hone. rewrite Ef in Hone. cbn [length] in Hone.
          assert (In f0 (filter fflatten fs)) as Hi by (apply filter_In; split; assumption).
          destruct (filter fflatten fs); [destruct Hi | cbn [length] in Hone; lia].
        + rewrite find_variant_skip.
          * apply (IH l) with (f0 := f0) (v0 := v0); try assumption.
            -- cbn [filter] in Hone. rewrite Ef in Hone. exact Hone.
            -- intros f1 Hf1. apply Hown. right. exact Hf1.
          * intros k Hk. apply ser_field_nonflat_keys in Hk; [|exact Ef]. subst k.
            apply mem_spec. apply Hown; [left; reflexivity | exact Ef].
    Qed.
  End OneStruct.

  (* the entries that carry a field's own name are pairwise distinct in what `ser` writes: no `duplicate field` *)
  Lemma own_keys_nodup own : forall fs l,
    NoDup (map fname fs) ->
    (forall f, In f fs -> fflatten f = true -> flatten_ok E own f = true) ->
    NoDup (own_keys own (ser_fields fs l)) /\ (forall k, In k (own_keys own (ser_fields fs l)) -> In k (map fname fs)).
  Proof.
    unfold own_keys, keys.
    induction fs as [|f fs IH]; intros [|v l] Hnd Hflat; try (split; [constructor | intros k []]).
    cbn [map] in Hnd. inversion Hnd as [|? ? Hnotin Hnd']; subst.
    destruct (IH l Hnd' (fun f1 H1 => Hflat f1 (or_intror H1))) as [IH1 IH2].
    rewrite ser_fields_cons, map_app, filter_app.
    assert (filter (fun k => mem k own) (map fst (ser_field f v)) = []
            \/ filter (fun k => mem k own) (map fst (ser_field f v)) = [fname f]) as Hhead.
    { destruct (fflatten f) eqn:Ef.
      - left. apply filter_none. intros k Hk.
        apply (ser_field_flat_keys own f v k Ef (Hflat f (or_introl eq_refl) Ef)). exact Hk.
      - unfold Serde.ser_field. rewrite Ef. destruct (skipped (fskip f) v); cbn [map fst filter]; [left; reflexivity|].
        destruct (mem (fname f) own); [right | left]; reflexivity. }
    destruct Hhead as [-> | ->]; cbn [app].
    - split; [exact IH1 | intros k Hk; right; apply IH2; exact Hk].
    - split.
      + constructor; [intro Hi; apply Hnotin; apply IH2; exact Hi | exact IH1].
      + intros k [<-|Hk]; [left; reflexivity | right; apply IH2; exact Hk].
  Qed.

  Lemma jwsum_ser_field_le : forall fs l f0 v0,
    In (f0, v0) (combine fs l) -> jwsum (ser_field f0 v0) <= jwsum (ser_fields fs l).
  Proof.
    induction fs as [|f fs IH]; intros [|v l] f0 v0 Hin; try (destruct Hin; fail).
    rewrite ser_fields_cons, jwsum_app. destruct Hin as [Heq|Hin].
    - injection Heq as -> ->. lia.
    - specialize (IH l f0 v0 Hin). lia.
  Qed.

  Lemma own_names_in fs f : In f fs -> fflatten f = false -> In (fname f) (own_names fs).
  Proof.
    intros Hi Hf. unfold own_names. apply in_map. apply filter_In. split; [exact Hi|]. rewrite Hf. reflexivity.
  Qed.

  (* ---------- inversion of typing ---------- *)
  Lemma wt_unbox d v : wt d v -> wt (unbox d) v.
  Proof.
    induction d; intro H; try exact H. cbn [unbox]. apply IHd. inversion H; subst; assumption.
  Qed.

  Definition wt_payload (sh : shape) (p : list value) : Prop :=
    match sh with
    | SUnit => p = []
    | SNewtype d => exists x, p = [x] /\ wt d x
    | STuple ds => Forall2 wt ds p
    | SStruct fs => Forall2 (fun f v => wt (fdesc f) v) fs p
    end.

  Definition ser_payload (sh : shape) (p : list value) : json :=
    match sh with
    | SUnit => JNull
    | SNewtype d => match p with [x] => ser d x | _ => JNull end
    | STuple ds => JArr (ser_tuple ds p)
    | SStruct fs => JObj (ser_fields fs p)
    end.

  Lemma wt_enum_inv d v vs :
    wt d v -> struct_def E d = Some (DefEnum vs) ->
    exists tag p sh, v = VEnum tag p /\ assoc tag vs = Some sh /\ wt_payload sh p.
  Proof.
    intros H Hs. apply wt_unbox in H. unfold struct_def in Hs.
    destruct (unbox d); try discriminate.
    inversion H; subst;
      match goal with H1 : lookup E _ = Some _ |- _ => rewrite Hs in H1; inversion H1; subst end.
    - exists tag, [], SUnit. repeat split; assumption.
    - exists tag, [v0], (SNewtype d0). repeat split; try assumption. exists v0. split; [reflexivity | assumption].
    - exists tag, l, (STuple ds). repeat split; assumption.
    - exists tag, l, (SStruct fs). repeat split; assumption.
  Qed.

  Lemma ser_enum_payload d tag p sh :
    enum_shape E d tag = Some sh -> wt_payload sh p ->
    ser d (VEnum tag p) = match sh with SUnit => JStr tag | _ => JObj [(tag, ser_payload sh p)] end.
  Proof.
    intros He Hp. rewrite ser_VEnum, He. destruct sh; cbn [wt_payload ser_payload] in *; try reflexivity.
    destruct Hp as [x [-> _]]. reflexivity.
  Qed.

  Lemma ser_field_flat f tag p sh :
    fflatten f = true -> enum_shape E (fdesc f) tag = Some sh -> shape_flat_ok sh = true -> wt_payload sh p ->
    ser_field f (VEnum tag p) = [(tag, ser_payload sh p)].
  Proof.
    intros Hf He Hok Hp. unfold Serde.ser_field. rewrite Hf, He.
    destruct sh; cbn [wt_payload ser_payload] in *; try reflexivity; try discriminate.
    destruct Hp as [x [-> _]]. reflexivity.
  Qed.

  (* ---------- the round trip ---------- *)
  Definition RT (v : value) : Prop :=
    forall d, desc_ok E d = true -> wt d v -> json_ok v = true ->
    forall f, jw (ser d v) <= f -> de_fuel f d (ser d v) = Some v.

  Lemma rt_list d' : forall l,
    (forall x, In x l -> RT x) -> desc_ok E d' = true -> Forall (wt d') l -> forallb json_ok l = true ->
    forall f, jsum (map (ser d') l) <= f -> mapM (de_fuel f d') (map (ser d') l) = Some l.
  Proof.
    induction l as [|x l IH]; intros Hrt Hd Hwt Hj f Hf; [reflexivity|].
    inversion Hwt as [|? ? Hx Hl]; subst. cbn [forallb] in Hj. apply andb_true_iff in Hj as [Hjx Hjl].
    unfold jsum in *. cbn [map list_sum] in Hf. simpl in Hf.
    cbn [map mapM].
    rewrite (Hrt x (or_introl eq_refl) d' Hd Hx Hjx f) by lia.
    rewrite IH; try assumption; [reflexivity | | lia].
    intros y Hy. apply Hrt. right. exact Hy.
  Qed.

  Lemma rt_map d' : forall l,
    (forall kv, In kv l -> RT (snd kv)) -> desc_ok E d' = true -> Forall (fun kv => wt d' (snd kv)) l ->
    forallb (fun kv => json_ok (snd kv)) l = true ->
    forall f, jwsum (map (fun kv => (fst kv, ser d' (snd kv))) l) <= f ->
    mapM (fun kv => option_map (pair (fst kv)) (de_fuel f d' (snd kv))) (map (fun kv => (fst kv, ser d' (snd kv))) l) = Some l.
  Proof.
    induction l as [|[k x] l IH]; intros Hrt Hd Hwt Hj f Hf; [reflexivity|].
    inversion Hwt as [|? ? Hx Hl]; subst. cbn [forallb snd] in Hj. apply andb_true_iff in Hj as [Hjx Hjl].
    unfold jwsum in *. simpl in Hf. cbn [map mapM fst snd].
    pose proof (Hrt (k, x) (or_introl eq_refl) d' Hd Hx Hjx f) as Hx'. cbn [snd] in Hx'.
    rewrite Hx' by lia. cbn [option_map].
    rewrite IH; try assumption; [reflexivity | | lia].
    intros y Hy. apply Hrt. right. exact Hy.
  Qed.

  Lemma rt_tuple : forall ds l,
    (forall x, In x l -> RT x) -> forallb (desc_ok E) ds = true -> Forall2 wt ds l -> forallb json_ok l = true ->
    forall f, jsum (ser_tuple ds l) <= f -> de_tuple (de_fuel f) ds (ser_tuple ds l) = Some l.
  Proof.
    induction ds as [|d ds IH]; intros l Hrt Hd Hwt Hj f Hf; inversion Hwt as [|? x ? l' Hx Hl]; subst; [reflexivity|].
    cbn [forallb] in Hd, Hj. apply andb_true_iff in Hd as [Hd Hds]. apply andb_true_iff in Hj as [Hjx Hjl].
    cbn [Serde.ser_tuple] in *. unfold jsum in *. simpl in Hf. cbn [de_tuple].
    rewrite (Hrt x (or_introl eq_refl) d Hd Hx Hjx f) by lia.
    rewrite IH; try assumption; [reflexivity | | lia].
    intros y Hy. apply Hrt. right. exact Hy.
  Qed.

  Lemma struct_def_lookup d df : struct_def E d = Some df -> exists n, unbox d = DRef n /\ lookup E n = Some df.
  Proof.
    unfold struct_def. destruct (unbox d); try discriminate. intro H. exists name. split; [reflexivity | exact H].
  Qed.

  Lemma is_prim_not_nullable d : is_prim d = true -> nullable E d = false.
  Proof. destruct d; try discriminate; reflexivity. Qed.

  Lemma ser_nonnull d v : wt d v -> nullable E d = false -> json_ok v = true -> ser d v <> JNull.
  Proof.
    intro Hwt. induction Hwt; intros Hn Hj Hc; try discriminate Hc; try discriminate Hn.
    - destruct f; [discriminate Hc | discriminate Hj].
    - unfold nullable in *. cbn [unbox] in Hn. rewrite ser_box in Hc. apply IHHwt; assumption.
    - rewrite ser_VStruct in Hc. unfold struct_def in Hc. cbn [unbox] in Hc. rewrite H in Hc. discriminate.
    - rewrite ser_VStruct in Hc. unfold struct_def in Hc. cbn [unbox] in Hc. rewrite H in Hc.
      unfold nullable in Hn. cbn [unbox] in Hn. rewrite H in Hn. apply negb_false_iff in Hn.
      cbn [json_ok forallb] in Hj. rewrite andb_true_r in Hj.
      apply IHHwt; [apply is_prim_not_nullable; exact Hn | exact Hj | exact Hc].
    - rewrite ser_VEnum in Hc. unfold enum_shape, struct_def in Hc. cbn [unbox] in Hc. rewrite H, H0 in Hc. discriminate.
    - rewrite ser_VEnum in Hc. unfold enum_shape, struct_def in Hc. cbn [unbox] in Hc. rewrite H, H0 in Hc. discriminate.
    - rewrite ser_VEnum in Hc. unfold enum_shape, struct_def in Hc. cbn [unbox] in Hc. rewrite H, H0 in Hc. discriminate.
    - rewrite ser_VEnum in Hc. unfold enum_shape, struct_def in Hc. cbn [unbox] in Hc. rewrite H, H0 in Hc. discriminate.
  Qed.

  Lemma de_prim_ser d v : is_prim d = true -> wt d v -> json_ok v = true -> de_prim d (ser d v) = Some v.
  Proof.
    intros Hp Hwt Hj. destruct d; try discriminate Hp; inversion Hwt; subst; try reflexivity.
    - cbn [Serde.ser de_prim]. assert ((lo <=? z)%Z && (z <=? hi)%Z = true) as ->; [|reflexivity].
      apply andb_true_iff; split; apply Z.leb_le; assumption.
    - destruct f; [reflexivity | discriminate Hj].
  Qed.

  Lemma skipped_default f v :
    skip_ok f = true -> skipped (fskip f) v = true ->
    (if fdefault f then default_of (fdesc f) else if is_option (fdesc f) then Some VNone else None) = Some v.
  Proof.
    unfold skip_ok, default_of, is_option. intros Hok Hsk.
    destruct (fskip f); cbn [skipped] in Hsk; try discriminate Hsk.
    - destruct v; try discriminate Hsk. destruct (unbox (fdesc f)); try discriminate Hok.
      destruct (fdefault f); reflexivity.
    - destruct v; try discriminate Hsk. destruct l; try discriminate Hsk.
      apply andb_true_iff in Hok as [-> Hok]. destruct (unbox (fdesc f)); try discriminate Hok. reflexivity.
    - destruct v; try discriminate Hsk. destruct l; try discriminate Hsk.
      apply andb_true_iff in Hok as [-> Hok]. destruct (unbox (fdesc f)); try discriminate Hok. reflexivity.
    - destruct v; try discriminate Hsk. destruct b; try discriminate Hsk.
      apply andb_true_iff in Hok as [-> Hok]. destruct (unbox (fdesc f)); try discriminate Hok. reflexivity.
  Qed.

  Lemma Forall2_combine {A B} (R : A -> B -> Prop) : forall l m a b, Forall2 R l m -> In (a, b) (combine l m) -> R a b.
  Proof.
    intros l m a b H. induction H; intro Hi; [destruct Hi|].
    destruct Hi as [Heq|Hi]; [injection Heq as -> ->; assumption | apply IHForall2; exact Hi].
  Qed.

  Lemma Forall2_len {A B} (R : A -> B -> Prop) l m : Forall2 R l m -> length l = length m.
  Proof. intro H. induction H; cbn [length]; [reflexivity | rewrite IHForall2; reflexivity]. Qed.

  Lemma rt_payload_flat sh p :
    (forall x, In x p -> RT x) -> shape_ok E sh = true -> shape_flat_ok sh = true -> wt_payload sh p ->
    forallb json_ok p = true ->
    forall f DF, jw (ser_payload sh p) <= f -> de_payload (de_fuel f) sh (ser_payload sh p) DF = Some p.
  Proof.
    destruct sh; cbn [shape_ok shape_flat_ok wt_payload ser_payload de_payload];
      intros Hrt Hok Hfl Hp Hj f DF Hf; try discriminate.
    - subst. reflexivity.
    - destruct Hp as [x [-> Hx]]. cbn [forallb] in Hj. apply andb_true_iff in Hj as [Hjx _].
      rewrite (Hrt x (or_introl eq_refl) d Hok Hx Hjx f Hf). reflexivity.
    - rewrite jw_arr in Hf. apply rt_tuple; try assumption. lia.
  Qed.

  Lemma de_fields_own_pointwise rec own kvs : forall fs l,
    length fs = length l ->
    (forall f v, In (f, v) (combine fs l) ->
       (if fflatten f then de_flat E rec f own kvs else de_named rec f kvs) = Some v) ->
    de_fields_own E rec own fs kvs = Some l.
  Proof.
    induction fs as [|f fs IH]; intros [|v l] Hlen H; try discriminate Hlen; [reflexivity|].
    cbn [de_fields_own]. rewrite (H f v) by (left; reflexivity).
    rewrite (IH l); [reflexivity | cbn [length] in Hlen; lia |].
    intros f1 v1 Hi. apply H. right. exact Hi.
  Qed.

  Lemma rt_fields n fs l :
    (forall x, vsize x < n -> RT x) -> vsum l < n ->
    fields_ok E fs = true -> Forall2 (fun f v => wt (fdesc f) v) fs l -> forallb json_ok l = true ->
    forall f, jwsum (ser_fields fs l) <= f -> de_fields E (de_fuel f) fs (ser_fields fs l) = Some l.
  Proof.
    intros IHn Hsz Hok Hwt Hj f Hf. apply fields_ok_facts in Hok. destruct Hok as [Hnd Hone Hdesc Hskip Hdef Hflat].
    unfold de_fields.
    rewrite (nodupb_complete _ (proj1 (own_keys_nodup (own_names fs) fs l Hnd (fun f1 Hf1 _ => Hflat f1 Hf1)))).
    apply de_fields_own_pointwise; [eapply Forall2_len; exact Hwt|].
    intros f0 v0 Hin.
    assert (In f0 fs) as Hf0 by (eapply in_combine_l; exact Hin).
    assert (In v0 l) as Hv0 by (eapply in_combine_r; exact Hin).
    pose proof (Forall2_combine _ _ _ _ _ Hwt Hin) as Hwt0. cbn beta in Hwt0.
    assert (json_ok v0 = true) as Hj0 by (rewrite forallb_forall in Hj; apply Hj; exact Hv0).
    assert (vsize v0 < n) as Hsz0 by (pose proof (in_vsum v0 l Hv0); lia).
    pose proof (jwsum_ser_field_le fs l f0 v0 Hin) as Hle.
    destruct (fflatten f0) eqn:Ef.
    - destruct (flatten_ok_inv (own_names fs) f0 Ef (Hflat _ Hf0)) as [vs [Hsd [_ Hvs]]].
      destruct (wt_enum_inv _ _ _ Hwt0 Hsd) as [tag [p [sh [-> [Hassoc Hp]]]]].
      destruct (Hvs _ _ Hassoc) as [Hmem Hfl].
      assert (enum_shape E (fdesc f0) tag = Some sh) as He by (unfold enum_shape; rewrite Hsd; exact Hassoc).
      pose proof (ser_field_flat f0 tag p sh Ef He Hfl Hp) as Hsf.
      unfold de_flat. rewrite Hsd.
      rewrite (find_variant_ser_fields (own_names fs) fs l Hone (fun f1 Hf1 => own_names_in fs f1 Hf1)
                 f0 _ Hin Ef vs tag sh _ Hsf Hmem Hassoc).
      assert (shape_ok E sh = true) as Hshok.
      { destruct (struct_def_lookup _ _ Hsd) as [nm [_ Hl]]. apply lookup_def_ok in Hl. cbn [def_ok] in Hl.
        apply andb_true_iff in Hl as [_ Hl]. rewrite forallb_forall in Hl.
        apply (Hl (tag, sh)). apply assoc_in. exact Hassoc. }
      rewrite Hsf in Hle. unfold jwsum in Hle, Hf. simpl in Hle.
      rewrite (rt_payload_flat sh p); try assumption.
      + destruct sh; try discriminate Hfl; reflexivity.
      + intros x Hx. apply IHn. pose proof (in_vsum x p Hx). destruct (vsize_list p) as [_ [_ [_ Hve]]].
        specialize (Hve tag). lia.
      + lia.
    - unfold de_named.
      rewrite (assoc_ser_fields (own_names fs) fs l Hnd (fun f1 Hf1 _ => Hflat f1 Hf1) f0 v0 Hin Ef (own_names_in fs f0 Hf0 Ef)).
      unfold Serde.ser_field in *. rewrite Ef in *. destruct (skipped (fskip f0) v0) eqn:Esk.
      + cbn [assoc]. apply skipped_default; [apply Hskip; exact Hf0 | exact Esk].
      + cbn [assoc]. rewrite leqb_refl. unfold jwsum in Hle, Hf. simpl in Hle.
        apply (IHn v0 Hsz0 (fdesc f0) (Hdesc f0 Hf0) Hwt0 Hj0 f). lia.
  Qed.

  Lemma rt_payload n sh p :
    (forall x, vsize x < n -> RT x) -> vsum p < n -> shape_ok E sh = true -> wt_payload sh p ->
    forallb json_ok p = true ->
    forall f, jw (ser_payload sh p) <= f ->
    de_payload (de_fuel f) sh (ser_payload sh p) (de_fields E (de_fuel f)) = Some p.
  Proof.
    intros IHn Hsz Hok Hp Hj f Hf.
    assert (forall x, In x p -> RT x) as Hrt.
    { intros x Hx. apply IHn. pose proof (in_vsum x p Hx). lia. }
    destruct sh; try (apply rt_payload_flat; try assumption; reflexivity).
    cbn [shape_ok wt_payload ser_payload de_payload] in *.
    apply andb_true_iff in Hok as [Hok _]. rewrite jw_obj in Hf.
    apply (rt_fields n); try assumption. lia.
  Qed.

  Ltac fuel1 f Hf :=
    destruct f as [|f]; [match type of Hf with jw ?j <= 0 => pose proof (jw_pos j); lia end|].

  Lemma rt_all : forall n v, vsize v < n -> RT v.
  Proof.
    induction n as [|n IHn]; [lia|]. intros v Hsz d.
    induction d; intros Hd Hwt Hj f Hf; inversion Hwt; subst; fuel1 f Hf; rewrite de_fuel_S;
      try match goal with H : lookup E _ = Some _ |- _ => rename H into Hl end;
      try match goal with H : assoc _ _ = Some _ |- _ => rename H into Ha end;
      try match goal with H : Forall2 _ _ _ |- _ => rename H into Hw end;
      try match goal with H : Forall _ _ |- _ => rename H into Hw end;
      try match goal with H : Serde.wt E _ _ |- _ => lazymatch H with Hwt => fail | _ => rename H into Hw end end.
    - (* DStr *) reflexivity.
    - (* DInt *) apply (de_prim_ser (DInt lo hi) (VInt z)); [reflexivity | exact Hwt | exact Hj].
    - (* DFloat *) apply (de_prim_ser DFloat (VFloat f0)); [reflexivity | exact Hwt | exact Hj].
    - reflexivity.
    - reflexivity.
    - (* DOption / None *) reflexivity.
    - (* DOption / Some *)
      rewrite ser_VSome in *. unfold opt_inner in *. cbn [unbox] in *.
      cbn [desc_ok] in Hd. apply andb_true_iff in Hd as [Hnn Hd']. apply negb_true_iff in Hnn.
      cbn [json_ok] in Hj. cbn [de_body].
      pose proof (ser_nonnull d v0 Hw Hnn Hj) as Hne.
      assert (vsize v0 < n) as Hsz' by (cbn [vsize] in Hsz; lia).
      pose proof (IHn v0 Hsz' d Hd' Hw Hj (S f) Hf) as Hrt. rewrite de_fuel_S in Hrt.
      rewrite Hrt. destruct (ser d v0); try reflexivity. congruence.
    - (* DVec *)
      rewrite ser_VList in *. unfold vec_inner in *. cbn [unbox] in *. cbn [de_body].
      rewrite jw_arr in Hf. destruct (vsize_list l) as [Hvs _]. rewrite Hvs in Hsz.
      rewrite (rt_list d l); try assumption; [reflexivity | | lia].
      intros x Hx. apply IHn. pose proof (in_vsum x l Hx). lia.
    - (* DMap *)
      rewrite ser_VMap in *. unfold vec_inner in *. cbn [unbox] in *. cbn [de_body].
      rewrite jw_obj in Hf. rewrite vsize_map in Hsz.
      rewrite (rt_map d l); try assumption;
        [cbn [option_map]; rewrite dedup_last_id by assumption; reflexivity | | lia].
      intros kv Hkv. apply IHn. pose proof (in_vmsum kv l Hkv). lia.
    - (* DBox *)
      rewrite ser_box in *. cbn [de_body]. rewrite <- de_fuel_S. apply IHd; assumption.
    - (* DTuple *)
      rewrite ser_VTuple in *. unfold tuple_descs in *. cbn [unbox] in *. cbn [de_body].
      rewrite jw_arr in Hf. destruct (vsize_list l) as [_ [Hvs _]]. rewrite Hvs in Hsz.
      rewrite rt_tuple; try assumption; [reflexivity | | lia].
      intros x Hx. apply IHn. pose proof (in_vsum x l Hx). lia.
    - (* DRef / struct *)
      rewrite ser_VStruct in *. unfold struct_def in *. cbn [unbox] in *. rewrite Hl in *.
      cbn [de_body]. rewrite Hl. cbn [de_def].
      rewrite jw_obj in Hf. destruct (vsize_list l) as [_ [_ [Hvs _]]]. rewrite Hvs in Hsz.
      rewrite (rt_fields n); try assumption; [reflexivity | lia | | lia].
      apply lookup_def_ok in Hl. exact Hl.
    - (* DRef / newtype *)
      rewrite ser_VStruct in *. unfold struct_def in *. cbn [unbox] in *. rewrite Hl in *.
      cbn [de_body]. rewrite Hl.
      cbn [json_ok forallb] in Hj. rewrite andb_true_r in Hj.
      rewrite de_prim_ser; [reflexivity | | assumption | assumption].
      apply lookup_def_ok in Hl. exact Hl.
    - (* DRef / unit variant *)
      rewrite ser_VEnum in *. unfold enum_shape, struct_def in *. cbn [unbox] in *. rewrite Hl, Ha in *.
      cbn [de_body]. rewrite Hl. cbn [de_def]. rewrite Ha. reflexivity.
    - (* DRef / newtype variant *)
      assert (enum_shape E (DRef name) tag = Some (SNewtype d)) as He
        by (unfold enum_shape, struct_def; cbn [unbox]; rewrite Hl; exact Ha).
      assert (wt_payload (SNewtype d) [v0]) as Hp by (exists v0; split; [reflexivity | assumption]).
      rewrite (ser_enum_payload _ _ _ _ He Hp) in *.
      cbn [de_body]. rewrite Hl. cbn [de_def]. rewrite Ha.
      rewrite jw_obj in Hf. unfold jwsum, list_sum in Hf. cbn [map fold_right snd] in Hf.
      destruct (vsize_list [v0]) as [_ [_ [_ Hvs]]]. rewrite (Hvs tag) in Hsz.
      rewrite (rt_payload n (SNewtype d) [v0] IHn); [reflexivity | lia | | exact Hp | exact Hj | lia].
      apply lookup_def_ok in Hl. cbn [def_ok] in Hl. apply andb_true_iff in Hl as [_ Hl].
      rewrite forallb_forall in Hl. apply (Hl (tag, SNewtype d)). apply assoc_in. exact Ha.
    - (* DRef / tuple variant *)
      assert (enum_shape E (DRef name) tag = Some (STuple ds)) as He
        by (unfold enum_shape, struct_def; cbn [unbox]; rewrite Hl; exact Ha).
      assert (wt_payload (STuple ds) l) as Hp by exact Hw.
      rewrite (ser_enum_payload _ _ _ _ He Hp) in *.
      cbn [de_body]. rewrite Hl. cbn [de_def]. rewrite Ha.
      rewrite jw_obj in Hf. unfold jwsum, list_sum in Hf. cbn [map fold_right snd] in Hf.
      destruct (vsize_list l) as [_ [_ [_ Hvs]]]. rewrite (Hvs tag) in Hsz.
      rewrite (rt_payload n (STuple ds) l IHn); [reflexivity | lia | | exact Hp | exact Hj | lia].
      apply lookup_def_ok in Hl. cbn [def_ok] in Hl. apply andb_true_iff in Hl as [_ Hl].
      rewrite forallb_forall in Hl. apply (Hl (tag, STuple ds)). apply assoc_in. exact Ha.
    - (* DRef / struct variant *)
      assert (enum_shape E (DRef name) tag = Some (SStruct fs)) as He
        by (unfold enum_shape, struct_def; cbn [unbox]; rewrite Hl; exact Ha).
      assert (wt_payload (SStruct fs) l) as Hp by exact Hw.
      rewrite (ser_enum_payload _ _ _ _ He Hp) in *.
      cbn [de_body]. rewrite Hl. cbn [de_def]. rewrite Ha.
      rewrite jw_obj in Hf. unfold jwsum, list_sum in Hf. cbn [map fold_right snd] in Hf.
      destruct (vsize_list l) as [_ [_ [_ Hvs]]]. rewrite (Hvs tag) in Hsz.
      rewrite (rt_payload n (SStruct fs) l IHn); [reflexivity | lia | | exact Hp | exact Hj | lia].
      apply lookup_def_ok in Hl. cbn [def_ok] in Hl. apply andb_true_iff in Hl as [_ Hl].
      rewrite forallb_forall in Hl. apply (Hl (tag, SStruct fs)). apply assoc_in. exact Ha.
    - (* Span *)
      cbn [Serde.ser de_body de_opaque]. rewrite span_codec_roundtrip by assumption. reflexivity.
    - (* Ident *)
      cbn [Serde.ser de_body de_opaque]. rewrite ident_codec_roundtrip. reflexivity.
    - (* VersionReq: Display then from_str gives the same text *)
      cbn [Serde.ser de_body de_opaque]. rewrite vreq_normal_roundtrip by assumption. reflexivity.
  Qed.

  Theorem serde_roundtrip d v :
    desc_ok E d = true -> wt d v -> json_ok v = true -> de E d (ser d v) = Some v.
  Proof.
    intros Hd Hwt Hj. unfold de. apply (rt_all (S (vsize v)) v (Nat.lt_succ_diag_r _) d Hd Hwt Hj). apply le_n.
  Qed.

  Corollary serde_roundtrip_ref n v :
    wt (DRef n) v -> json_ok v = true -> de E (DRef n) (ser (DRef n) v) = Some v.
  Proof.
    intros Hwt Hj. apply serde_roundtrip; try assumption.
    cbn [desc_ok]. inversion Hwt; subst; match goal with H : lookup E _ = Some _ |- _ => rewrite H end; reflexivity.
  Qed.
End Proofs.

(* C16: an operation that passes the entry discipline (Model/LowererEntries.v) is a step of the strict machine; a trace that
   passes it ends in a well-formed RQ. *)
From Coq Require Import List NArith Bool Lia.
From PV Require Import Lib.ListX Model.Rq Model.RqWf Model.Lowerer Model.RqEq Model.LowererTrace Model.LowererVis
                       Model.LowererSelect Model.LowererEntries
                       Proofs.RqWfProofs Proofs.LowererProofs Proofs.LowererTraceProofs Proofs.LowererVisProofs Proofs.LowererSelectProofs.
Import ListNotations.
Local Open Scope N_scope.

Lemma subsetb_incl a b : subsetb a b = true <-> incl a b.
Proof.
  unfold subsetb. rewrite forallb_forall. split.
  - intros H x Hx. apply memN_In. apply H. exact Hx.
  - intros H x Hx. apply memN_In. apply H. exact Hx.
Qed.

Lemma subsetb_trans a b c : subsetb a b = true -> incl b c -> subsetb a c = true.
Proof. intros H1 H2. apply subsetb_incl. apply subsetb_incl in H1. eapply incl_tran; eassumption. Qed.

(* every window only holds ids that are visible in its frame *)
Fixpoint einv (fs : list (fkind * list transform)) (es : estack) : Prop :=
  match fs, es with
  | [], [] => True
  | f :: rest, e :: er => incl e (fvis (f :: rest)) /\ einv rest er
  | _, _ => False
  end.

Lemma fvis_push t fs fs' : push_top t fs = Some fs' -> fvis fs' = tvis (fvis fs) t.
Proof.
  intro H. apply push_top_some in H as [k [p [r [-> ->]]]]. rewrite !fvis_cons. apply pvis_snoc.
Qed.

Lemma einv_push t fs fs' e er e' :
  push_top t fs = Some fs' -> einv fs (e :: er) -> incl e' (tvis (fvis fs) t) -> einv fs' (e' :: er).
Proof.
  intros Hp Hi He. pose proof (fvis_push _ _ _ Hp) as Ev. apply push_top_some in Hp as [k [p [r [-> ->]]]].
  cbn [einv] in *. destruct Hi as [_ Hr]. split; [rewrite Ev; exact He | exact Hr].
Qed.

Lemma einv_top fs es : einv fs es -> incl (top_of es) (fvis fs).
Proof. destruct fs, es; cbn [einv top_of]; try contradiction; [intros _ ? [] | intros [H _]; exact H]. Qed.

Lemma einv_tl f fs es : einv (f :: fs) es -> einv fs (tl es).
Proof. destruct es; cbn [einv tl]; [contradiction | intros [_ H]; exact H]. Qed.

Lemma einv_add fs es cs : einv fs es -> incl cs (fvis fs) -> einv fs (add_top cs es).
Proof.
  destruct fs, es; cbn [einv add_top]; try contradiction; [auto|].
  intros [H1 H2] Hc. split; [apply incl_app; assumption | exact H2].
Qed.

Lemma top_add cs es : es <> [] -> top_of (add_top cs es) = top_of es ++ cs.
Proof. destruct es; [congruence | reflexivity]. Qed.

Lemma einv_nonempty f fs es : einv (f :: fs) es -> es <> [].
Proof. destruct es; cbn [einv]; [contradiction | discriminate]. Qed.

Lemma einv_reset_push t fs fs' es : push_top t fs = Some fs' -> einv fs es -> einv fs' (reset_top es).
Proof.
  intros Hp Hi. pose proof Hp as Hp'. apply push_top_some in Hp' as [k [p [r [-> _]]]].
  destruct es as [|e er]; [contradiction|]. cbn [reset_top]. eapply einv_push; [exact Hp | exact Hi | intros ? []].
Qed.

Lemma tvis_grows vis t x : (forall p, t <> TSelect p) -> (forall p c, t <> TAggregate p c) -> In x vis -> In x (tvis vis t).
Proof.
  intros H1 H2 Hx. destruct t; cbn; try exact Hx; try (apply in_or_app; left; exact Hx).
  - exfalso. eapply H1. reflexivity.
  - exfalso. eapply H2. reflexivity.
Qed.

Lemma apply_use_shape s r u tr : apply_use s r u = Some tr ->
  (tr = TFrom r /\ u = UFrom) \/ (tr = TAppend r /\ u = UAppend) \/ (exists sd f, tr = TJoin sd r f /\ u = UJoin sd f).
Proof.
  destruct u as [|sd f|]; cbn [apply_use].
  - intro H; injection H as <-. auto.
  - destruct (guard s (expr_cids f)); [|discriminate]. intro H; injection H as <-. right. right. eauto.
  - intro H; injection H as <-. auto.
Qed.

(* the use of an instance: the transform is fine for the strict machine when a join's filter is within window ++ post-reads *)
Lemma use_tvok s3 r u tr vis e post :
  apply_use s3 r u = Some tr -> incl e vis -> incl post (tvis vis tr) ->
  match u with UJoin _ f => subsetb (expr_cids f) (e ++ post) = true | _ => True end ->
  tvok vis tr = true.
Proof.
  intros Hu He Hp Hc. destruct (apply_use_shape _ _ _ _ Hu) as [[-> ->]|[[-> ->]|[sd [f [-> ->]]]]]; try reflexivity.
  cbn [tvok]. eapply subsetb_trans; [exact Hc|]. apply incl_app.
  - intros x Hx. apply in_or_app. left. apply He. exact Hx.
  - exact Hp.
Qed.

Lemma resolve_src_frames s x t cols s2 : resolve_src s x = Some (t, cols, s2) -> frames s2 = frames s.
Proof.
  destruct x as [t0|l lc]; cbn [resolve_src].
  - destruct (find_table (tables s) t0); [|discriminate]. intro H; injection H as <- <- <-. reflexivity.
  - destruct (guard s (leaf_cids l)); [|discriminate]. intro H; injection H as <- <- <-. reflexivity.
Qed.

(* what one step does to the stack of pipelines *)
Lemma step_frames s o s1 : step s o = Some s1 ->
  match o with
  | ODeclExtern _ _ => frames s1 = frames s
  | OBegin _ _ _ _ => exists k r, frames s1 = (k, [TFrom r]) :: frames s /\ k <> FLoop
  | OBeginLoop => frames s1 = (FLoop, []) :: frames s
  | OInstance _ _ _ u => exists r tr s3, apply_use s3 r u = Some tr /\ push_top tr (frames s) = Some (frames s1)
  | ODeclare node e w agg _ =>
      (frames s1 = frames s /\ next_cid s1 = next_cid s)
      \/ (push_top (TCompute (next_cid s) e w agg) (frames s) = Some (frames s1) /\ next_cid s1 = next_cid s + 1)
  | OPush t => simple t = true /\ push_top t (frames s) = Some (frames s1)
  | OEndTable _ _ => exists p fs, frames s = (FTable, p) :: fs /\ frames s1 = fs
  | OEndInline _ _ u => exists t p fs r tr s3, frames s = (FInline t, p) :: fs /\ apply_use s3 r u = Some tr
                                             /\ push_top tr fs = Some (frames s1)
  | OEndLoop => exists p fs, frames s = (FLoop, p) :: fs /\ push_top (TLoop p) fs = Some (frames s1)
  end.
Proof.
  destruct o; cbn [step].
  - intro H; injection H as <-. reflexivity.
  - set (s0' := if inline then mkL (next_cid s) (next_tid s + 1) (mapping s) (frames s) (tables s) else s).
    assert (frames s0' = frames s) as Ef0 by (unfold s0'; destruct inline; reflexivity).
    destruct (resolve_src s0' s0) as [[[t cols] s2]|] eqn:R; [|discriminate].
    destruct (mk_instance s2 node name t cols) as [r s3] eqn:M. intro H; injection H as <-.
    destruct (mk_instance_frames _ _ _ _ _ _ _ M) as [Ef3 _]. rewrite (resolve_src_frames _ _ _ _ _ R), Ef0 in Ef3.
    exists (if inline then FInline (next_tid s) else FTable), r. cbn [frames]. rewrite Ef3. split; [reflexivity|].
    destruct inline; discriminate.
  - destruct (frames s); [discriminate|]. intro H; injection H as <-. reflexivity.
  - destruct (resolve_src s s0) as [[[t cols] s2]|] eqn:R; [|discriminate].
    destruct (mk_instance s2 node name t cols) as [r s3] eqn:M.
    destruct (apply_use s3 r u) as [tr|] eqn:U; [|discriminate].
    destruct (push_top tr (frames s3)) as [fs|] eqn:P; [|discriminate]. intro H; injection H as <-.
    destruct (mk_instance_frames _ _ _ _ _ _ _ M) as [Ef3 _]. rewrite (resolve_src_frames _ _ _ _ _ R) in Ef3. rewrite Ef3 in P.
    exists r, tr, s3. split; [exact U | first [exact P | reflexivity]].
  - destruct (lookup_node (mapping s) node) as [[c0|m]|].
    + intro H; injection H as <-. left. split; reflexivity.
    + destruct (guard s (expr_cids e ++ window_cids w)); [|discriminate].
      destruct e; destruct plain_ok; cbv beta iota zeta;
        try (destruct (push_top _ (frames s)) as [fs|] eqn:P; [|discriminate]; intro H; injection H as <-; right; split; [first [exact P | reflexivity] | reflexivity]).
      intro H; injection H as <-. left. split; reflexivity.
    + destruct (guard s (expr_cids e ++ window_cids w)); [|discriminate].
      destruct e; destruct plain_ok; cbv beta iota zeta;
        try (destruct (push_top _ (frames s)) as [fs|] eqn:P; [|discriminate]; intro H; injection H as <-; right; split; [first [exact P | reflexivity] | reflexivity]).
      intro H; injection H as <-. left. split; reflexivity.
  - destruct (simple t) eqn:Hs; cbn [andb]; [|discriminate]. destruct (guard s (transform_uses t)); [|discriminate].
    destruct (push_top t (frames s)) as [fs|] eqn:P; [|discriminate]. intro H; injection H as <-. split; [reflexivity | first [exact P | reflexivity]].
  - destruct (frames s) as [|[[| |] p] fs]; try discriminate. destruct (guard s (map snd frame)); [|discriminate].
    intro H; injection H as <-. exists p, fs. split; reflexivity.
  - destruct (frames s) as [|[[|t|] p] fs]; try discriminate. destruct (guard s (map snd frame)); [|discriminate].
    set (s1' := mkL (next_cid s) (next_tid s) (mapping s) fs (tables s ++ [mkTable t None (select_relation p frame)])).
    destruct (mk_instance s1' node None t (map fst frame)) as [r s2] eqn:M.
    destruct (mk_instance_frames _ _ _ _ _ _ _ M) as [Ef2 _].
    set (s3 := mkL (next_cid s2) (next_tid s2) (redirect (combine (map snd frame) (tref_cids r)) (mapping s2)) (frames s2) (tables s2)).
    destruct (apply_use s3 r u) as [tr|] eqn:U; [|discriminate].
    destruct (push_top tr (frames s3)) as [fs'|] eqn:P; [|discriminate]. intro H; injection H as <-.
    cbn [s3 frames] in P. rewrite Ef2 in P. exists t, p, fs, r, tr, s3. repeat split; first [assumption | reflexivity].
  - destruct (frames s) as [|[[| |] p] fs]; try discriminate.
    destruct (push_top (TLoop p) fs) as [fs'|] eqn:P; [|discriminate]. intro H; injection H as <-. exists p, fs. split; [reflexivity | first [exact P | reflexivity]].
Qed.

Lemma push_top_last_gen t fs s1 : push_top t fs = Some (frames s1) -> top_last s1 = Some t.
Proof.
  intro Hp. apply push_top_some in Hp as [k [p [r [_ E]]]]. unfold top_last. rewrite E. apply last_opt_snoc.
Qed.

Lemma simple_tvok vis t : simple t = true -> tvok vis t = subsetb (transform_uses t) vis.
Proof. destruct t; cbn [simple]; try discriminate; reflexivity. Qed.

Theorem estep_vstep s es lo bs s' es' :
  einv (frames s) es -> estep (s, es) (lo, bs) = Some (s', es') ->
  exists o, elaborate s lo = Some o /\ vstep s o = Some s' /\ einv (frames s') es'.
Proof.
  intros HI. unfold estep. destruct (elaborate s lo) as [o|] eqn:El; [|discriminate].
  destruct (step s o) as [s1|] eqn:St; [|discriminate]. intro H. exists o. split; [reflexivity|].
  pose proof (step_frames _ _ _ St) as SF. unfold vstep. rewrite St. cbv zeta in H.
  enough (vguard s o s1 = true /\ s' = s1 /\ einv (frames s1) es') as [G [-> E]] by (rewrite G; auto).
  destruct o; cbn [vguard].
  - (* ODeclExtern *) injection H as <- <-. rewrite SF. auto.
  - (* OBegin *) destruct (src_closed s0); [|discriminate]. injection H as <- <-. destruct SF as [k [r [-> _]]].
    repeat split. intros ? [].  exact HI.
  - (* OBeginLoop *) injection H as <- <-. rewrite SF. repeat split. intros ? []. exact HI.
  - (* OInstance *)
    destruct (src_closed s0); cbn [andb] in *; [|discriminate].
    destruct (subsetb (entries_of true bs) (fvis (frames s1))) eqn:Hp; [|discriminate].
    destruct SF as [r [tr [s3 [U P]]]]. rewrite (fvis_push _ _ _ P) in Hp. apply subsetb_incl in Hp.
    unfold top_ok. rewrite (push_top_last_gen _ _ _ P).
    assert (s' = s1 /\ es' = reset_top es /\ match u with UJoin _ f => subsetb (expr_cids f) (top_of es ++ entries_of true bs) = true | _ => True end)
      as [-> [-> Hc]].
    { destruct u as [|sd f|]; [injection H as <- <-; auto | | injection H as <- <-; auto].
      destruct (subsetb (expr_cids f) (top_of es ++ entries_of true bs)); [injection H as <- <-; auto | discriminate]. }
    split; [eapply use_tvok; [exact U | apply einv_top; exact HI | exact Hp | exact Hc]|].
    split; [reflexivity | eapply einv_reset_push; eassumption].
  - (* ODeclare *)
    destruct (subsetb (entries_of false bs) (fvis (frames s))) eqn:Hpre; [|discriminate]. apply subsetb_incl in Hpre.
    pose proof (einv_add _ _ _ HI Hpre) as HI1.
    destruct SF as [[Ef En]|[P En]].
    + rewrite En, N.eqb_refl in H |- *. destruct (lookup_node (mapping s1) node) as [[c|m]|]; try discriminate.
      split; [reflexivity|]. rewrite Ef. destruct (memN c (fvis (frames s))) eqn:Hm; injection H as <- <-; split; try reflexivity; [|exact HI1].
      apply einv_add; [exact HI1|]. intros x [<-|[]]. apply memN_In. exact Hm.
    + assert (next_cid s + 1 =? next_cid s = false) as Ne by (apply N.eqb_neq; lia). rewrite En, Ne in H |- *.
      destruct (subsetb (expr_cids e ++ window_cids w) (top_of (add_top (entries_of false bs) es))) eqn:Hc; [|discriminate].
      injection H as <- <-. unfold top_ok. rewrite (push_top_last_gen _ _ _ P). cbn [tvok transform_uses].
      split; [eapply subsetb_trans; [exact Hc | apply einv_top; exact HI1]|]. split; [reflexivity|].
      pose proof P as P'. apply push_top_some in P' as [k [p [r [Ef _]]]].
      destruct (add_top (entries_of false bs) es) as [|e1 er] eqn:Ea; [rewrite Ef in HI1; contradiction|].
      cbn [add_top]. eapply einv_push; [exact P | exact HI1 |].
      cbn [tvis transform_diags snd]. apply incl_app; [|intros x [<-|[]]; apply in_or_app; right; left; reflexivity].
      intros x Hx. apply in_or_app. left. apply (einv_top _ _ HI1). exact Hx.
  - (* OPush *)
    destruct (subsetb (entries_of false bs) (fvis (frames s))) eqn:Hpre; cbn [andb] in H; [|discriminate].
    destruct (subsetb (transform_uses t) (top_of es ++ entries_of false bs)) eqn:Hc; [|discriminate]. injection H as <- <-.
    destruct SF as [Hs P]. apply subsetb_incl in Hpre.
    split; [rewrite (simple_tvok _ _ Hs); eapply subsetb_trans; [exact Hc | apply incl_app; [apply einv_top; exact HI | exact Hpre]]|].
    split; [reflexivity | eapply einv_reset_push; eassumption].
  - (* OEndTable *)
    destruct (subsetb (map snd frame) (fvis (frames s))) eqn:Hf; [|discriminate]. injection H as <- <-.
    destruct SF as [p [fs [Ef ->]]]. split; [reflexivity|]. split; [reflexivity|]. rewrite Ef in HI. eapply einv_tl; exact HI.
  - (* OEndInline *)
    destruct (subsetb (map snd frame) (fvis (frames s))) eqn:Hf; cbn [andb] in *; [|discriminate].
    destruct (subsetb (entries_of true bs) (fvis (frames s1))) eqn:Hp; [|discriminate].
    destruct SF as [t [p [fs [r [tr [s3 [Ef [U P]]]]]]]]. rewrite (fvis_push _ _ _ P) in Hp. apply subsetb_incl in Hp.
    rewrite Ef in HI |- *. cbn [tl]. pose proof (einv_tl _ _ _ HI) as HI1.
    unfold top_ok. rewrite (push_top_last_gen _ _ _ P).
    assert (s' = s1 /\ es' = reset_top (tl es) /\ match u with UJoin _ f => subsetb (expr_cids f) (top_of (tl es) ++ entries_of true bs) = true | _ => True end)
      as [-> [-> Hc]].
    { destruct u as [|sd f|]; [injection H as <- <-; auto | | injection H as <- <-; auto].
      destruct (subsetb (expr_cids f) (top_of (tl es) ++ entries_of true bs)); [injection H as <- <-; auto | discriminate]. }
    split; [eapply use_tvok; [exact U | apply einv_top; exact HI1 | exact Hp | exact Hc]|].
    split; [reflexivity | eapply einv_reset_push; eassumption].
  - (* OEndLoop *)
    injection H as <- <-. destruct SF as [p [fs [Ef P]]]. rewrite Ef in HI.
    split; [reflexivity|]. split; [reflexivity|]. eapply einv_reset_push; [exact P | eapply einv_tl; exact HI].
Qed.

Lemma erun_vrun l : forall s es k s' es', einv (frames s) es -> erun (s, es) l k = inl (s', es') ->
  exists ops, vrun s ops = Some s'.
Proof.
  induction l as [|[lo bs] l IH]; intros s es k s' es' HI; cbn [erun].
  - intro H; injection H as <- <-. exists []. reflexivity.
  - destruct (estep (s, es) (lo, bs)) as [[s1 es1]|] eqn:E; [|discriminate].
    destruct (estep_vstep _ _ _ _ _ _ HI E) as [o [El [V HI1]]]. cbn [fst snd]. rewrite El.
    destruct (forallb (check_obs s s1 o) bs); [|discriminate]. intro H. destruct (IH _ _ _ _ _ HI1 H) as [ops R].
    exists (o :: ops). cbn [vrun]. rewrite V. exact R.
Qed.

(* a trace that passes the entry discipline ends in a well-formed RQ *)
Theorem entries_ok_wf l q : entries_ok l q = true -> rq_wf q = true.
Proof.
  unfold entries_ok, entries_verdict. destruct (erun (init, []) l 0) as [[s es]|k] eqn:R.
  - cbn [fst]. destruct (finish s) as [q'|] eqn:F.
    + destruct (rq_eqb q' q) eqn:E; [|intro H; apply N.eqb_eq in H; lia]. intros _. apply rq_eqb_sound in E. subst q'.
      destruct (erun_vrun l init [] 0%nat s es I R) as [ops V]. eapply strict_runs_emit_wf; eassumption.
    + intro H; apply N.eqb_eq in H; lia.
  - intro H; apply N.eqb_eq in H; lia.
Qed.

(* ------------------------------------------------------------------ lower_sorts: the shapes the replay checks mean what they say *)

Lemma is_prefix_sound a : forall l, is_prefix a l = true -> exists post, l = a ++ post.
Proof.
  induction a as [|x a IH]; intros l; cbn [is_prefix]; [intros _; exists l; reflexivity|].
  destruct l as [|y l]; [discriminate|]. intro H. apply andb_true_iff in H as [H1 H2]. apply N.eqb_eq in H1. subst y.
  destruct (IH _ H2) as [post ->]. exists post. reflexivity.
Qed.

Lemma is_infix_sound a : forall l, is_infix a l = true -> exists pre post, l = pre ++ a ++ post.
Proof.
  induction l as [|y l IH]; cbn [is_infix]; intro H; apply orb_true_iff in H as [H|H].
  - apply is_prefix_sound in H as [post ->]. exists [], post. reflexivity.
  - discriminate.
  - apply is_prefix_sound in H as [post ->]. exists [], post. reflexivity.
  - destruct (IH H) as [pre [post ->]]. exists (y :: pre), post. reflexivity.
Qed.

Lemma is_suffix_sound a l : is_suffix a l = true -> exists pre, l = pre ++ a.
Proof.
  unfold is_suffix. intro H. apply is_prefix_sound in H as [post E]. exists (rev post).
  rewrite <- (rev_involutive l), E, rev_app_distr, rev_involutive. reflexivity.
Qed.

(* lower_sorts puts the ids its declares handed back, in order, next to the directions *)
Theorem lower_sorts_m_ids dirs results : length dirs = length results -> sorts_cids (lower_sorts_m dirs results) = results.
Proof. intro H. unfold sorts_cids, lower_sorts_m. apply combine_snd. exact H. Qed.

(* what a passed check says about the transform: its sort / compute ids ARE a run of consecutive declare results *)
Theorem sorts_check_sound top t : sorts_check top t = true ->
  match t with
  | TSort srt => exists pre, top = pre ++ sorts_cids srt
  | TAggregate _ c => exists pre, top = pre ++ c
  | TTake _ _ srt => exists pre post, top = pre ++ sorts_cids srt ++ post
  | TCompute _ _ (Some w) _ => exists pre post, top = pre ++ sorts_cids (w_sort w) ++ post
  | _ => True
  end.
Proof.
  destruct t; cbn [sorts_check]; try (intros _; exact I).
  - destruct w as [w|]; [apply is_infix_sound | intros _; exact I].
  - apply is_suffix_sound.
  - apply is_suffix_sound.
  - apply is_infix_sound.
Qed.

(* The split decision, for pipelines of any length: whatever decision function is used, if it never
   lets a transform join a SELECT in front of a transform it may not precede (a finite, table-level
   fact checked on the function translated from the source), then every atomic segment that the
   back-to-front walk of split_off_back cuts off is clause-ordered. *)
From Coq Require Import List Bool Arith Lia.
From PV Require Import Model.SplitBase.
Import ListNotations.

Section Split.
  Variable split : kind -> list nm -> bool.
  Variable records : kind -> bool.
  Hypothesis records_spec : forall k, records k = match k with KComputeAgg => false | _ => true end.
  (* the table-level fact *)
  Hypothesis table_ok : forall k f y, split k f = false -> In y f -> may_precede k y = true.

  Definition covers (f : list nm) (acc : list kind) : Prop :=
    forall y, In y acc -> y = KComputeAgg \/ In (as_name y) f.

  Lemma clause_ordered_cons x rest :
    clause_ordered (x :: rest) = forallb (fun y => may_precede x (as_name y) || match y with KComputeAgg => true | _ => false end) rest && clause_ordered rest.
  Proof. reflexivity. Qed.

  Lemma split_back_ordered rp : forall f acc pre seg,
    clause_ordered acc = true -> covers f acc ->
    split_back split records rp f acc = (pre, seg) -> clause_ordered seg = true.
  Proof.
    induction rp as [|k rest IH]; intros f acc pre seg Hacc Hcov Hs; cbn [split_back] in Hs.
    - injection Hs as _ <-. exact Hacc.
    - destruct (split k f) eqn:Esp.
      + injection Hs as _ <-. exact Hacc.
      + eapply IH; [| |exact Hs].
        * rewrite clause_ordered_cons. apply andb_true_iff; split; [|exact Hacc].
          apply forallb_forall. intros y Hy. destruct (Hcov y Hy) as [->|Hin].
          -- apply orb_true_r.
          -- rewrite (table_ok k f (as_name y) Esp Hin). reflexivity.
        * intros y [<-|Hy].
          -- rewrite records_spec. destruct k; try (right; left; reflexivity). left; reflexivity.
          -- destruct (Hcov y Hy) as [->|Hin]; [left; reflexivity|]. right.
             destruct (records k); [right; exact Hin | exact Hin].
  Qed.

  Theorem split_back_clause_ordered p pre seg :
    split_back split records (rev p) [] [] = (pre, seg) -> clause_ordered seg = true.
  Proof.
    intro H. apply (split_back_ordered (rev p) [] [] pre seg); [reflexivity | intros y [] | exact H].
  Qed.

  (* and nothing is lost or reordered: prefix ++ segment is the pipeline *)
  Lemma split_back_app rp : forall f acc pre seg,
    split_back split records rp f acc = (pre, seg) -> pre ++ seg = rev rp ++ acc.
  Proof.
    induction rp as [|k rest IH]; intros f acc pre seg Hs; cbn [split_back] in Hs.
    - injection Hs as <- <-. reflexivity.
    - destruct (split k f).
      + injection Hs as <- <-. reflexivity.
      + apply IH in Hs. rewrite Hs. cbn [rev]. rewrite <- app_assoc. reflexivity.
  Qed.

  Theorem split_back_partition p pre seg :
    split_back split records (rev p) [] [] = (pre, seg) -> pre ++ seg = p.
  Proof. intro H. apply split_back_app in H. rewrite rev_involutive, app_nil_r in H. exact H. Qed.
End Split.

(* turning the exhaustive boolean check into the hypothesis above *)
Lemma nm_eqb_eq a b : nm_eqb a b = true <-> a = b.
Proof. destruct a, b; cbn; split; intro H; try reflexivity; try discriminate. Qed.

Lemma mem_In x f : mem x f = true <-> In x f.
Proof.
  unfold mem. rewrite existsb_exists. split.
  - intros [y [Hy E]]. apply nm_eqb_eq in E; subst; exact Hy.
  - intro H. exists x. split; [exact H | apply nm_eqb_eq; reflexivity].
Qed.

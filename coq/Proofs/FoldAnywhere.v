(* Constant folding as a rewriting system: static_eval_rq_operator / static_eval_case / the `in` desugaring
   applied at ANY position of an expression, in ANY order, any number of times, preserves the documented
   value (outside the one excluded corner, which is a side condition of the step, not of the whole run);
   the resolver's bottom-up pass [seval] is one such run.  This lifts EvalProofs.static_eval_op_sound (one
   node whose children are already folded) to whole expressions and to every folding strategy. *)
From Coq Require Import List NArith ZArith QArith Bool Lia Relations.
From PV Require Import Lib.ListX Model.Value Model.PrqlExpr Model.StaticEval Model.EvalDoc Model.EvalRq
                       Proofs.EvalProofs Gen.GenPratt Gen.GenExpand.
Import ListNotations.

(* one application of a folding function at the root *)
Inductive fold_root : rexpr -> rexpr -> Prop :=
| FR_op n args : leqb n n_in = false -> fold_root (ROp n args) (static_eval_op n args)
| FR_in args : fold_root (ROp n_in args) (seval_in args)
| FR_case cs : fold_root (RCase cs) (static_eval_case cs).

(* ... at any position.  The side condition of FS_arg is the excluded corner, locally: under an operator whose
   meaning looks at whether an operand is the LITERAL null (`==`, `!=`, in-range), a step may not turn an operand
   that is not the literal null into it. *)
Inductive fold_step : rexpr -> rexpr -> Prop :=
| FS_root r r' : fold_root r r' -> fold_step r r'
| FS_arg n pre a a' post : fold_step a a' -> (uses_null_flag n = true -> is_null a' = is_null a) ->
    fold_step (ROp n (pre ++ a :: post)) (ROp n (pre ++ a' :: post))
| FS_cond pre c c' v post : fold_step c c' -> fold_step (RCase (pre ++ (c, v) :: post)) (RCase (pre ++ (c', v) :: post))
| FS_val pre c v v' post : fold_step v v' -> fold_step (RCase (pre ++ (c, v) :: post)) (RCase (pre ++ (c, v') :: post)).

Definition fold_steps := clos_refl_trans_1n rexpr fold_step.

Lemma fold_steps_trans a b c : fold_steps a b -> fold_steps b c -> fold_steps a c.
Proof. intros H1 H2. induction H1; [exact H2|]. econstructor; [eassumption|]. apply IHclos_refl_trans_1n. exact H2. Qed.

(* ---------- soundness of one step ---------- *)
Lemma fold_root_sound env r r' : fold_root r r' -> eval_r env r' = eval_r env r.
Proof.
  intros [n args _|args|cs].
  - apply static_eval_op_sound.
  - apply seval_in_sound.
  - apply static_eval_case_sound.
Qed.

Lemma Forall2_same {A} (P : A -> A -> Prop) (l : list A) : (forall x, P x x) -> Forall2 P l l.
Proof. intros H. induction l; constructor; auto. Qed.

Lemma eval_case_congr env pre c c' v v' post :
  eval_r env c' = eval_r env c -> eval_r env v' = eval_r env v ->
  eval_r env (RCase (pre ++ (c', v') :: post)) = eval_r env (RCase (pre ++ (c, v) :: post)).
Proof.
  intros Hc Hv. induction pre as [|[pc pv] t IH]; cbn [app].
  - rewrite !eval_r_case_cons, Hc, Hv. reflexivity.
  - rewrite !eval_r_case_cons, IH. reflexivity.
Qed.

Lemma fold_step_sound env r r' : fold_step r r' -> eval_r env r' = eval_r env r.
Proof.
  induction 1 as [r r' H|n pre a a' post _ IH NF|pre c c' v post _ IH|pre c v v' post _ IH].
  - apply fold_root_sound. exact H.
  - apply eval_r_cong. apply Forall2_app; [apply Forall2_same; auto|].
    constructor; [split; assumption|apply Forall2_same; auto].
  - apply eval_case_congr; [exact IH|reflexivity].
  - apply eval_case_congr; [reflexivity|exact IH].
Qed.

(* ---------- any run ---------- *)
Theorem fold_steps_sound env r r' : fold_steps r r' -> eval_r env r' = eval_r env r.
Proof.
  induction 1 as [|x y z S _ IH]; [reflexivity|]. rewrite IH. apply fold_step_sound. exact S.
Qed.

(* ---------- the resolver's bottom-up pass is a run ---------- *)
Lemma fold_step_from_lit l r : ~ fold_step (RLit l) r.
Proof.
  intros H. inversion H as [? ? R| | |]; subst. inversion R.
Qed.
Lemma fold_steps_from_lit l r : fold_steps (RLit l) r -> r = RLit l.
Proof. intros H. inversion H as [|? y ? S R]; subst; [reflexivity|]. exfalso.
  match goal with X : fold_step (RLit _) _ |- _ => exact (fold_step_from_lit _ _ X) end. Qed.
Lemma is_null_inv a : is_null a = true -> a = RLit LNull.
Proof. destruct a as [|[| | | | |]| |]; cbn; intros; try discriminate; reflexivity. Qed.
Lemma fold_step_src_not_null a a' : fold_step a a' -> is_null a = false.
Proof.
  intros H. destruct (is_null a) eqn:E; [|reflexivity]. apply is_null_inv in E. subst. exfalso. exact (fold_step_from_lit _ _ H).
Qed.

(* lifting a run of an operand to a run of the operator node *)
Lemma steps_arg n pre post a a' :
  fold_steps a a' -> (uses_null_flag n = true -> is_null a' = is_null a) ->
  fold_steps (ROp n (pre ++ a :: post)) (ROp n (pre ++ a' :: post)).
Proof.
  induction 1 as [|x y z S R IH]; intros NF; [constructor|].
  pose proof (fold_step_src_not_null _ _ S) as Nx.
  assert (Ny : uses_null_flag n = true -> is_null y = false).
  { intros U. destruct (is_null y) eqn:E; [|reflexivity]. apply is_null_inv in E. subst y.
    apply fold_steps_from_lit in R. subst z. specialize (NF U). cbn [is_null] in NF. rewrite Nx in NF. discriminate NF. }
  econstructor.
  - apply FS_arg; [exact S|]. intros U. rewrite (Ny U), Nx. reflexivity.
  - apply IH. intros U. rewrite (NF U), Nx, (Ny U). reflexivity.
Qed.

Lemma steps_args n todo : forall done,
  Forall (fun a => fold_steps a (seval a) /\ (uses_null_flag n = true -> is_null (seval a) = is_null a)) todo ->
  fold_steps (ROp n (done ++ todo)) (ROp n (done ++ map seval todo)).
Proof.
  induction todo as [|a t IH]; intros done H; [constructor|].
  inversion H as [|? ? [Ha Na] Ht]; subst. cbn [map].
  eapply fold_steps_trans; [apply steps_arg; [exact Ha|exact Na]|].
  replace (done ++ seval a :: t) with ((done ++ [seval a]) ++ t) by (rewrite <- app_assoc; reflexivity).
  replace (done ++ seval a :: map seval t) with ((done ++ [seval a]) ++ map seval t) by (rewrite <- app_assoc; reflexivity).
  apply IH. exact Ht.
Qed.

Lemma steps_cond pre post c c' v : fold_steps c c' -> fold_steps (RCase (pre ++ (c, v) :: post)) (RCase (pre ++ (c', v) :: post)).
Proof. induction 1 as [|x y z S _ IH]; [constructor|]. econstructor; [apply FS_cond; exact S|exact IH]. Qed.
Lemma steps_val pre post c v v' : fold_steps v v' -> fold_steps (RCase (pre ++ (c, v) :: post)) (RCase (pre ++ (c, v') :: post)).
Proof. induction 1 as [|x y z S _ IH]; [constructor|]. econstructor; [apply FS_val; exact S|exact IH]. Qed.

Lemma steps_cases todo : forall done,
  Forall (fun cv => fold_steps (fst cv) (seval (fst cv)) /\ fold_steps (snd cv) (seval (snd cv))) todo ->
  fold_steps (RCase (done ++ todo)) (RCase (done ++ map (fun cv => (seval (fst cv), seval (snd cv))) todo)).
Proof.
  induction todo as [|[c v] t IH]; intros done H; [constructor|].
  inversion H as [|? ? [Hc Hv] Ht]; subst. cbn [map fst snd] in *.
  eapply fold_steps_trans; [apply steps_cond; exact Hc|].
  eapply fold_steps_trans; [apply steps_val; exact Hv|].
  replace (done ++ (seval c, seval v) :: t) with ((done ++ [(seval c, seval v)]) ++ t) by (rewrite <- app_assoc; reflexivity).
  replace (done ++ (seval c, seval v) :: map (fun cv => (seval (fst cv), seval (snd cv))) t)
    with ((done ++ [(seval c, seval v)]) ++ map (fun cv => (seval (fst cv), seval (snd cv))) t) by (rewrite <- app_assoc; reflexivity).
  apply IH. exact Ht.
Qed.

Theorem seval_is_a_run r : no_corner r = true -> fold_steps r (seval r).
Proof.
  induction r as [i|l|n args IH|cs IH] using rexpr_ind2; intros NC; try (constructor; fail).
  - cbn [seval]. cbn [no_corner] in NC. apply andb_true_iff in NC as [NC1 NC2].
    rewrite forallb_forall in NC1.
    assert (A : Forall (fun a => fold_steps a (seval a) /\ (uses_null_flag n = true -> is_null (seval a) = is_null a)) args).
    { rewrite Forall_forall in IH. apply Forall_forall. intros a Ha. split; [apply IH; [exact Ha|apply NC1; exact Ha]|].
      intros U. rewrite U in NC2. rewrite forallb_forall in NC2. specialize (NC2 a Ha).
      destruct (is_null a) eqn:Na.
      - apply is_null_inv in Na. subst a. reflexivity.
      - cbn in NC2. apply negb_true_iff in NC2. exact NC2. }
    eapply fold_steps_trans; [exact (steps_args n args [] A)|]. cbn [app].
    destruct (leqb n n_in) eqn:EI.
    + apply leqb_spec in EI. subst n. econstructor; [apply FS_root; apply FR_in|constructor].
    + econstructor; [apply FS_root; apply FR_op; exact EI|constructor].
  - cbn [seval]. cbn [no_corner] in NC. rewrite forallb_forall in NC.
    assert (A : Forall (fun cv => fold_steps (fst cv) (seval (fst cv)) /\ fold_steps (snd cv) (seval (snd cv))) cs).
    { rewrite Forall_forall in IH. apply Forall_forall. intros cv Hcv. specialize (NC cv Hcv). apply andb_true_iff in NC as [N1 N2].
      destruct (IH cv Hcv) as [Hc Hv]. split; [apply Hc; exact N1|apply Hv; exact N2]. }
    eapply fold_steps_trans; [exact (steps_cases cs [] A)|]. cbn [app].
    econstructor; [apply FS_root; apply FR_case|constructor].
Qed.

(* down to the documented meaning of the source expression: whatever the folder does after ast_expand *)
Theorem fold_anywhere_doc env e r' : fold_steps (expand e) r' -> eval_r env r' = eval_doc env e.
Proof. intros H. rewrite (fold_steps_sound env _ _ H). apply expand_sound. Qed.

(* ================= the Normalizer (sql/pq/preprocess.rs): null to the right of std.eq ================= *)
Lemma is_null_normalize a : is_null (normalize a) = is_null a.
Proof.
  destruct a as [i|l|n args|cs]; try reflexivity.
  cbn [normalize]. destruct (leqb n n_eq); [|reflexivity].
  destruct (map normalize args) as [|[i|[| | | | |]|m x|cs] [|b [|c t]]]; reflexivity.
Qed.

Lemma swap_null_eq env args :
  eval_r env (match args with [RLit LNull; r] => ROp n_eq [r; RLit LNull] | _ => ROp n_eq args end) = eval_r env (ROp n_eq args).
Proof.
  destruct args as [|a [|b [|c t]]]; try reflexivity; destruct a as [i|[| | | | |]|m x|cs]; try reflexivity.
  change n_eq with (expand_binop B_Eq). rewrite !eval_r_std. cbn [rq_reversed is_eq_op is_null orb].
  rewrite orb_true_r. destruct (is_null b) eqn:E; [|reflexivity].
  apply is_null_inv in E. subst b. reflexivity.
Qed.

(* full strength, no side condition: the Normalizer never changes the documented value *)
Theorem normalize_sound env r : eval_r env (normalize r) = eval_r env r.
Proof.
  induction r as [i|l|n args IH|cs IH] using rexpr_ind2; try reflexivity.
  - cbn [normalize].
    assert (CG : eval_r env (ROp n (map normalize args)) = eval_r env (ROp n args)).
    { apply eval_r_cong. induction IH as [|a t Ha Ht IHt]; cbn [map]; constructor; [|exact IHt].
      split; [exact Ha|]. intros _. apply is_null_normalize. }
    destruct (leqb n n_eq) eqn:E; [|exact CG].
    apply leqb_spec in E. subst n. rewrite swap_null_eq. exact CG.
  - cbn [normalize]. induction IH as [|[c v] t [Hc Hv] Ht IHt]; [reflexivity|].
    cbn [map fst snd] in *. rewrite !eval_r_case_cons, Hc, Hv, IHt. reflexivity.
Qed.

(* what gen_expr.rs relies on (process_null picks `b` when `a` is the literal null, else `a`): after the pass the
   literal null is never the LEFT operand of std.eq unless both operands are the literal null *)
Fixpoint null_on_the_right (r : rexpr) : bool :=
  match r with
  | ROp n args =>
      forallb null_on_the_right args &&
      (if leqb n n_eq then match args with [a; b] => negb (is_null a) || is_null b | _ => true end else true)
  | RCase cs => forallb (fun cv => null_on_the_right (fst cv) && null_on_the_right (snd cv)) cs
  | _ => true
  end.

Lemma null_on_the_right_swap args :
  forallb null_on_the_right args = true ->
  null_on_the_right (match args with [RLit LNull; r] => ROp n_eq [r; RLit LNull] | _ => ROp n_eq args end) = true.
Proof.
  intros H.
  destruct args as [|a [|b [|c t]]]; try (destruct a as [i|[| | | | |]|m x|cs]);
    cbn [null_on_the_right is_null negb orb]; rewrite ?leqb_refl; try (rewrite H; reflexivity).
  cbn [forallb null_on_the_right] in H |- *.
  destruct (null_on_the_right b); destruct (is_null b); cbn in *; congruence.
Qed.

Theorem normalize_puts_null_right r : null_on_the_right (normalize r) = true.
Proof.
  induction r as [i|l|n args IH|cs IH] using rexpr_ind2; try reflexivity.
  - cbn [normalize].
    assert (A : forallb null_on_the_right (map normalize args) = true).
    { induction IH as [|a t Ha Ht IHt]; [reflexivity|]. cbn [map forallb]. rewrite Ha, IHt. reflexivity. }
    destruct (leqb n n_eq) eqn:E.
    + apply leqb_spec in E. subst n. apply null_on_the_right_swap. exact A.
    + cbn [null_on_the_right]. rewrite A, E. reflexivity.
  - cbn [normalize null_on_the_right]. induction IH as [|[c v] t [Hc Hv] Ht IHt]; [reflexivity|].
    cbn [map forallb fst snd] in *. rewrite Hc, Hv, IHt. reflexivity.
Qed.

(* ================= date/time literals ================= *)
(* /repo 1aeb8d9 (F17): `==` / `!=` of two date/time literals is never decided at compile time *)
Lemma temporal_comparison_kept k s k' s' n : n = n_eq \/ n = n_ne ->
  static_eval_op n [RLit (LTemporal k s); RLit (LTemporal k' s')] = ROp n [RLit (LTemporal k s); RLit (LTemporal k' s')].
Proof.
  intros [->| ->]; unfold static_eval_op; cbn [is_temporal_lit negb];
    repeat (match goal with |- context [leqb ?a ?b] => let v := eval vm_compute in (leqb a b) in change (leqb a b) with v end);
    cbv iota; rewrite andb_false_r; reflexivity.
Qed.

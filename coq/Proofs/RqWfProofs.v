(* C16: what rq_wf (and its one relaxation rq_wf_lax) buys a back end.  See Props/C16.v for the statements. *)
From Coq Require Import List NArith Bool Lia.
From PV Require Import Lib.ListX Model.Rq Model.RqWf.
Import ListNotations.
Local Open Scope N_scope.

(* ------------------------------------------------------------------ small facts *)

Lemma memN_In x l : memN x l = true <-> In x l.
Proof.
  unfold memN. rewrite existsb_exists. split.
  - intros [y [H E]]. apply N.eqb_eq in E. subst. exact H.
  - intro H. exists x. split; [exact H | apply N.eqb_refl].
Qed.

Lemma memN_false x l : memN x l = false <-> ~ In x l.
Proof.
  split; intro H.
  - intro Hi. apply memN_In in Hi. congruence.
  - destruct (memN x l) eqn:E; [apply memN_In in E; contradiction | reflexivity].
Qed.

Lemma dups_from_nil seen l : dups_from seen l = [] -> NoDup l /\ (forall x, In x l -> ~ In x seen).
Proof.
  revert seen. induction l as [|x l IH]; intros seen; cbn [dups_from].
  - intros _. split; [constructor | intros ? []].
  - destruct (memN x seen) eqn:E; [discriminate|]. intro H. apply IH in H as [ND Hs].
    apply memN_false in E. split.
    + constructor; [|exact ND]. intro Hi. apply (Hs x Hi). left; reflexivity.
    + intros y [<-|Hy]; [exact E|]. intro Hy'. apply (Hs y Hy). right; exact Hy'.
Qed.

Lemma dups_nil l : dups l = [] -> NoDup l.
Proof. intro H. apply dups_from_nil in H. tauto. Qed.

Lemma NoDup_dups_from seen l : NoDup l -> (forall x, In x l -> ~ In x seen) -> dups_from seen l = [].
Proof.
  revert seen. induction l as [|x l IH]; intros seen ND Hs; cbn [dups_from]; [reflexivity|].
  inversion ND as [|? ? Hx ND']; subst.
  assert (memN x seen = false) as -> by (apply memN_false; apply Hs; left; reflexivity).
  apply IH; [exact ND'|]. intros y Hy [<-|Hy']; [contradiction|]. apply (Hs y); [right; exact Hy | exact Hy'].
Qed.

Lemma NoDup_dups l : NoDup l -> dups l = [].
Proof. intro H. apply NoDup_dups_from; [exact H | intros ? _ []]. Qed.

Lemma forallb_map_false {A} (f : A -> diag) (l : list A) :
  (forall a, lax_diag (f a) = false) -> forallb lax_diag (map f l) = true -> l = [].
Proof.
  intros Hf H. destruct l as [|a l]; [reflexivity|]. cbn in H. rewrite Hf in H. discriminate.
Qed.

(* nested induction principle for transform *)
Section TransformInd.
  Variable P : transform -> Prop.
  Hypothesis HFrom : forall r, P (TFrom r).
  Hypothesis HCompute : forall id e w a, P (TCompute id e w a).
  Hypothesis HSelect : forall cs, P (TSelect cs).
  Hypothesis HFilter : forall e, P (TFilter e).
  Hypothesis HAgg : forall p c, P (TAggregate p c).
  Hypothesis HSort : forall s, P (TSort s).
  Hypothesis HTake : forall r p s, P (TTake r p s).
  Hypothesis HJoin : forall sd r f, P (TJoin sd r f).
  Hypothesis HAppend : forall r, P (TAppend r).
  Hypothesis HLoop : forall p, Forall P p -> P (TLoop p).

  Fixpoint transform_ind' (t : transform) : P t :=
    match t with
    | TFrom r => HFrom r
    | TCompute id e w a => HCompute id e w a
    | TSelect cs => HSelect cs
    | TFilter e => HFilter e
    | TAggregate p c => HAgg p c
    | TSort s => HSort s
    | TTake r p s => HTake r p s
    | TJoin sd r f => HJoin sd r f
    | TAppend r => HAppend r
    | TLoop p => HLoop p ((fix go (l : list transform) : Forall P l :=
                             match l with
                             | [] => Forall_nil P
                             | a :: l' => Forall_cons a (transform_ind' a) (go l')
                             end) p)
    end.
End TransformInd.

(* the nested fixes are the list-level functions *)
Lemma loop_defs p : transform_defs (TLoop p) = pipeline_defs p.
Proof. cbn [transform_defs]. unfold pipeline_defs. induction p as [|a p IH]; cbn [flat_map]; [reflexivity | rewrite IH; reflexivity]. Qed.

Lemma loop_uses p : transform_uses (TLoop p) = flat_map transform_uses p.
Proof. cbn [transform_uses]. induction p as [|a p IH]; cbn [flat_map]; [reflexivity | rewrite IH; reflexivity]. Qed.

Lemma loop_trefs p : transform_trefs (TLoop p) = flat_map transform_trefs p.
Proof. cbn [transform_trefs]. induction p as [|a p IH]; cbn [flat_map]; [reflexivity | rewrite IH; reflexivity]. Qed.

Lemma loop_decls p : transform_decls (TLoop p) = flat_map transform_decls p.
Proof. cbn [transform_decls]. induction p as [|a p IH]; cbn [flat_map]; [reflexivity | rewrite IH; reflexivity]. Qed.

Lemma loop_diags defs ldefs w decl vis p :
  transform_diags defs ldefs w decl vis (TLoop p) = (pipeline_diags defs ldefs w decl vis p, vis).
Proof.
  (* the nested fix of transform_diags and the top-level pipeline_diags are the same fixpoint *)
  reflexivity.
Qed.

(* definitions seen by the back end = the defined ids *)
Lemma tref_decls_fst r : map fst (tref_decls r) = tref_cids r.
Proof. unfold tref_decls, tref_cids. rewrite map_map. reflexivity. Qed.

Lemma transform_decls_fst t : map fst (transform_decls t) = transform_defs t.
Proof.
  induction t using transform_ind'; try reflexivity; try apply tref_decls_fst.
  rewrite loop_decls, loop_defs. unfold pipeline_defs.
  induction H as [|a p Ha _ IH]; cbn [flat_map map]; [reflexivity|]. rewrite map_app, Ha, IH. reflexivity.
Qed.

Lemma relation_decls_fst r : map fst (relation_decls r) = relation_defs r.
Proof.
  unfold relation_decls, relation_defs. destruct (r_kind r); try reflexivity. unfold pipeline_defs.
  induction p as [|a p IH]; cbn [flat_map map]; [reflexivity|]. rewrite map_app, transform_decls_fst, IH. reflexivity.
Qed.

Lemma all_decls_fst q : map fst (all_decls q) = all_defs q.
Proof.
  unfold all_decls, all_defs. rewrite map_app, relation_decls_fst. f_equal.
  induction (q_tables q) as [|t ts IH]; cbn [flat_map map]; [reflexivity|]. rewrite map_app, relation_decls_fst, IH. reflexivity.
Qed.

Lemma find_fst_some {B} (l : list (N * B)) c : In c (map fst l) -> find (fun p => N.eqb (fst p) c) l <> None.
Proof.
  induction l as [|[k v] l IH]; cbn [map In find fst]; [intros []|].
  destruct (N.eqb k c) eqn:E; [discriminate|]. intros [H|H]; [apply N.eqb_neq in E; congruence | apply IH; exact H].
Qed.

Lemma find_fst_unique {B} (l : list (N * B)) c d :
  NoDup (map fst l) -> In (c, d) l -> find (fun p => N.eqb (fst p) c) l = Some (c, d).
Proof.
  induction l as [|[k v] l IH]; cbn [map In find fst]; [intros _ []|].
  intros ND [H|H].
  - injection H as -> ->. rewrite N.eqb_refl. reflexivity.
  - inversion ND as [|? ? Hk ND']; subst. destruct (N.eqb k c) eqn:E.
    + apply N.eqb_eq in E; subst. exfalso. apply Hk. change c with (fst (c, d)). apply in_map. exact H.
    + apply IH; assumption.
Qed.

(* ------------------------------------------------------------------ the visibility check *)

Section Check.
  Variable defs ldefs : list cid.
  Variable w : N.
  Variable decl : list tid.

  Notation cu := (check_uses defs ldefs w).
  Notation td := (transform_diags defs ldefs w decl).
  Notation pd := (pipeline_diags defs ldefs w decl).

  Definition sort_site (s : site) : bool := match s with STakeSort | SWinSort => true | _ => false end.

  Lemma check_uses_lax vis s cs :
    forallb lax_diag (cu vis s cs) = true ->
    forall c, In c cs -> In c vis \/ (In c defs /\ sort_site s = true).
  Proof.
    unfold check_uses. induction cs as [|x cs IH]; cbn [flat_map]; intros H c []; subst.
    - rewrite forallb_app in H. apply andb_true_iff in H as [H _]. unfold check_use in H.
      destruct (memN c vis) eqn:E; [left; apply memN_In; exact E|].
      destruct (memN c defs) eqn:F; [|cbn in H; discriminate].
      destruct (memN c ldefs); cbn in H; [|discriminate].
      right. split; [apply memN_In; exact F|]. destruct s; cbn in *; congruence.
    - rewrite forallb_app in H. apply andb_true_iff in H as [_ H]. apply IH; assumption.
  Qed.

  Lemma check_uses_strict vis s cs :
    sort_site s = false -> forallb lax_diag (cu vis s cs) = true -> incl cs vis.
  Proof.
    intros Hs H c Hc. destruct (check_uses_lax vis s cs H c Hc) as [?|[_ ?]]; [assumption | congruence].
  Qed.

  Lemma check_uses_defs vis s cs :
    incl vis defs -> forallb lax_diag (cu vis s cs) = true -> incl cs defs.
  Proof.
    intros Hv H c Hc. destruct (check_uses_lax vis s cs H c Hc) as [?|[? _]]; [apply Hv|]; assumption.
  Qed.

  Lemma check_uses_nil vis s cs : cu vis s cs = [] -> incl cs vis.
  Proof.
    unfold check_uses. induction cs as [|x cs IH]; cbn [flat_map]; intros H c []; subst.
    - apply app_eq_nil in H as [H _]. unfold check_use in H. destruct (memN c vis) eqn:E; [apply memN_In; exact E | discriminate].
    - apply app_eq_nil in H as [_ H]. apply IH; assumption.
  Qed.

  Lemma check_tid_lax t : forallb lax_diag (check_tid w decl t) = true -> In t decl.
  Proof.
    unfold check_tid. destruct (memN t decl) eqn:E; [intros _; apply memN_In; exact E | cbn; discriminate].
  Qed.

  Lemma window_lax vis ow :
    incl vis defs -> forallb lax_diag (window_diags defs ldefs w vis ow) = true -> incl (window_cids ow) defs.
  Proof.
    intros Hv. destruct ow as [x|]; cbn [window_diags window_cids]; [|intros _ ? []].
    rewrite !forallb_app. intro H. apply andb_true_iff in H as [H1 H]. apply andb_true_iff in H as [H2 H3].
    apply incl_app; [|apply incl_app]; eapply (check_uses_defs _ _ _ Hv); eassumption.
  Qed.

  Ltac split_forallb H :=
    repeat (rewrite forallb_app in H);
    repeat match type of H with
           | _ && _ = true => let H1 := fresh H in apply andb_true_iff in H as [H1 H]
           end.

  (* one transform keeps "visible ⊆ defined", uses only defined ids, refers only to declared tables *)
  Lemma transform_ok t : forall vis,
    incl vis defs -> incl (transform_defs t) defs ->
    forallb lax_diag (fst (td vis t)) = true ->
    incl (transform_uses t) defs /\ incl (transform_trefs t) decl /\ incl (snd (td vis t)) defs.
  Proof.
    induction t using transform_ind'; intros vis Hv Hd Hl.
    - (* From *) cbn in *. repeat split.
      + intros ? [].
      + intros ? [<-|[]]. apply check_tid_lax; exact Hl.
      + apply incl_app; assumption.
    - (* Compute *) cbn [transform_diags fst snd transform_uses transform_trefs transform_defs] in *.
      rewrite forallb_app in Hl. apply andb_true_iff in Hl as [H1 H2]. repeat split.
      + apply incl_app; [eapply (check_uses_defs _ _ _ Hv); eassumption | eapply (window_lax _ _ Hv); eassumption].
      + intros ? [].
      + apply incl_app; assumption.
    - (* Select *) cbn in *. repeat split.
      + eapply (check_uses_defs _ _ _ Hv); eassumption.
      + intros ? [].
      + eapply (check_uses_defs _ _ _ Hv); eassumption.
    - (* Filter *) cbn in *. repeat split; [eapply (check_uses_defs _ _ _ Hv); eassumption | intros ? [] | assumption].
    - (* Aggregate *) cbn [transform_diags fst snd transform_uses transform_trefs] in *.
      rewrite forallb_app in Hl. apply andb_true_iff in Hl as [H1 H2].
      assert (incl (p ++ c) defs) by (apply incl_app; eapply (check_uses_defs _ _ _ Hv); eassumption).
      repeat split; [assumption | intros ? [] | assumption].
    - (* Sort *) cbn in *. repeat split; [eapply (check_uses_defs _ _ _ Hv); eassumption | intros ? [] | assumption].
    - (* Take *) cbn [transform_diags fst snd transform_uses transform_trefs] in *.
      rewrite !forallb_app in Hl. apply andb_true_iff in Hl as [H1 Hl]. apply andb_true_iff in Hl as [H2 H3].
      repeat split; [| intros ? [] | assumption].
      apply incl_app; [|apply incl_app]; eapply (check_uses_defs _ _ _ Hv); eassumption.
    - (* Join *) cbn [transform_diags fst snd transform_uses transform_trefs transform_defs] in *.
      rewrite forallb_app in Hl. apply andb_true_iff in Hl as [H1 H2].
      assert (incl (vis ++ tref_cids r) defs) as Hv' by (apply incl_app; assumption).
      repeat split; [eapply (check_uses_defs _ _ _ Hv'); eassumption | | assumption].
      intros ? [<-|[]]. apply check_tid_lax; exact H1.
    - (* Append *) cbn in *. repeat split; [intros ? [] | | assumption].
      intros ? [<-|[]]. apply check_tid_lax; exact Hl.
    - (* Loop *) rewrite loop_diags in *. rewrite loop_uses, loop_trefs. rewrite loop_defs in Hd. cbn [fst snd] in *.
      split; [|split; [|exact Hv]].
      + revert vis Hv Hd Hl. induction H as [|a p Ha _ IH]; intros vis Hv Hd Hl; cbn [flat_map]; [intros ? []|].
        cbn [pipeline_diags] in Hl. rewrite forallb_app in Hl. apply andb_true_iff in Hl as [H1 H2].
        unfold pipeline_defs in Hd. cbn [flat_map] in Hd. apply incl_app_inv in Hd as [Hd1 Hd2].
        destruct (Ha vis Hv Hd1 H1) as [Hu [_ Hs]].
        apply incl_app; [exact Hu | apply (IH (snd (td vis a))); assumption].
      + revert vis Hv Hd Hl. induction H as [|a p Ha _ IH]; intros vis Hv Hd Hl; cbn [flat_map]; [intros ? []|].
        cbn [pipeline_diags] in Hl. rewrite forallb_app in Hl. apply andb_true_iff in Hl as [H1 H2].
        unfold pipeline_defs in Hd. cbn [flat_map] in Hd. apply incl_app_inv in Hd as [Hd1 Hd2].
        destruct (Ha vis Hv Hd1 H1) as [_ [Ht Hs]].
        apply incl_app; [exact Ht | apply (IH (snd (td vis a))); assumption].
  Qed.

  Lemma pipeline_ok p : forall vis,
    incl vis defs -> incl (pipeline_defs p) defs ->
    forallb lax_diag (pd vis p) = true ->
    incl (flat_map transform_uses p) defs /\ incl (flat_map transform_trefs p) decl.
  Proof.
    induction p as [|a p IH]; intros vis Hv Hd Hl; cbn [flat_map]; [split; intros ? []|].
    cbn [pipeline_diags] in Hl. rewrite forallb_app in Hl. apply andb_true_iff in Hl as [H1 H2].
    unfold pipeline_defs in Hd. cbn [flat_map] in Hd. apply incl_app_inv in Hd as [Hd1 Hd2].
    destruct (transform_ok a vis Hv Hd1 H1) as [Hu [Ht Hs]].
    destruct (IH _ Hs Hd2 H2) as [Hu' Ht'].
    split; apply incl_app; assumption.
  Qed.

  Lemma relation_ok r :
    incl (relation_defs r) defs ->
    forallb lax_diag (relation_diags defs ldefs w decl r) = true ->
    incl (relation_uses r) defs /\ incl (relation_trefs r) decl.
  Proof.
    unfold relation_defs, relation_diags, relation_uses, relation_trefs.
    destruct (r_kind r); intros Hd Hl; try (split; intros ? []; fail).
    - rewrite forallb_app in Hl. apply andb_true_iff in Hl as [H1 _].
      apply (pipeline_ok p []); [intros ? [] | assumption | assumption].
    - split; [|intros ? []]. eapply check_uses_defs; [|eassumption]. intros ? [].
    - split; [|intros ? []]. eapply check_uses_defs; [|eassumption]. intros ? [].
  Qed.

  (* shape clauses: a pipeline relation without diagnostics starts with From and ends with a Select of the declared arity *)
  Lemma starts_with_from_nil p : forallb lax_diag (starts_with_from w p) = true -> exists r p', p = TFrom r :: p'.
  Proof. destruct p as [|[] p]; cbn; try discriminate. intros _. eauto. Qed.

  Lemma last_some (p : list transform) : forall t, last (map Some p) None = Some t -> exists p', p = p' ++ [t].
  Proof.
    induction p as [|a p IH]; intros t; [discriminate|].
    destruct p as [|b p].
    - cbn. intro H; injection H as <-. exists []. reflexivity.
    - change (last (map Some (a :: b :: p)) None) with (last (map Some (b :: p)) None).
      intro H. destruct (IH t H) as [p' E]. exists (a :: p'). rewrite E. reflexivity.
  Qed.

  Lemma ends_with_select_nil p cols :
    forallb lax_diag (ends_with_select w p cols) = true ->
    exists p' cs, p = p' ++ [TSelect cs] /\ length cs = length cols.
  Proof.
    unfold ends_with_select. destruct (last (map Some p) None) as [[]|] eqn:E; cbn; try discriminate.
    destruct (N.eqb _ _) eqn:L; cbn; [|discriminate]. intros _.
    apply last_some in E as [p' E]. exists p', cs. split; [exact E|].
    apply N.eqb_eq in L. lia.
  Qed.
End Check.

(* ------------------------------------------------------------------ whole query *)

Lemma tables_ok defs ts : forall i decl,
  incl (flat_map (fun t => relation_defs (t_relation t)) ts) defs ->
  forallb lax_diag (tables_diags defs i decl ts) = true ->
  incl (flat_map (fun t => relation_uses (t_relation t)) ts) defs
  /\ incl (flat_map (fun t => relation_trefs (t_relation t)) ts) (decl ++ map t_id ts).
Proof.
  induction ts as [|t ts IH]; intros i decl Hd Hl; cbn [flat_map map]; [split; intros ? []|].
  cbn [tables_diags] in Hl. rewrite forallb_app in Hl. apply andb_true_iff in Hl as [H1 H2].
  cbn [flat_map] in Hd. apply incl_app_inv in Hd as [Hd1 Hd2].
  destruct (relation_ok defs _ i decl _ Hd1 H1) as [Hu Ht].
  destruct (IH _ _ Hd2 H2) as [Hu' Ht'].
  split; apply incl_app; try assumption.
  - intros x Hx. apply in_or_app. left. apply Ht; exact Hx.
  - intros x Hx. apply Ht' in Hx. rewrite <- app_assoc in Hx. exact Hx.
Qed.

(* decl-before-use, positionally: the table at position i refers only to tables at positions < i *)
Lemma tables_order defs ts : forall i decl,
  incl (flat_map (fun t => relation_defs (t_relation t)) ts) defs ->
  forallb lax_diag (tables_diags defs i decl ts) = true ->
  forall k t, nth_error ts k = Some t ->
  incl (relation_trefs (t_relation t)) (decl ++ firstn k (map t_id ts)).
Proof.
  induction ts as [|t0 ts IH]; intros i decl Hd Hl k t Hk; [destruct k; discriminate|].
  cbn [tables_diags] in Hl. rewrite forallb_app in Hl. apply andb_true_iff in Hl as [H1 H2].
  cbn [flat_map] in Hd. apply incl_app_inv in Hd as [Hd1 Hd2].
  destruct k as [|k]; cbn [nth_error] in Hk.
  - injection Hk as <-. cbn [firstn]. rewrite app_nil_r. apply (relation_ok defs _ i decl _ Hd1 H1).
  - cbn [map firstn]. specialize (IH _ _ Hd2 H2 k t Hk). intros x Hx. apply IH in Hx.
    rewrite <- app_assoc in Hx. exact Hx.
Qed.

Record lookups_total (q : rq) : Prop := {
  lt_cids : forall c, In c (used_cids q) -> lookup_cid q c <> None;
  lt_tids : forall t, In t (used_tids q) -> lookup_tid q t <> None;
  lt_unique_cid : forall c d, In (c, d) (all_decls q) -> lookup_cid q c = Some d;
  lt_nodup_tid : NoDup (table_ids q) }.

Lemma lookup_tid_some q t : In t (table_ids q) -> lookup_tid q t <> None.
Proof.
  unfold lookup_tid, table_ids. induction (q_tables q) as [|d ds IH]; cbn [map In find]; [intros []|].
  destruct (N.eqb (t_id d) t) eqn:E; [discriminate|]. intros [H|H]; [apply N.eqb_neq in E; congruence | apply IH; exact H].
Qed.

Theorem wf_lax_lookups_total q : rq_wf_lax q = true -> lookups_total q.
Proof.
  unfold rq_wf_lax, rq_diags. intro H.
  rewrite !forallb_app in H. apply andb_true_iff in H as [H1 H]. apply andb_true_iff in H as [H2 H].
  apply andb_true_iff in H as [H3 H4].
  apply forallb_map_false in H1; [|reflexivity]. apply forallb_map_false in H2; [|reflexivity].
  apply dups_nil in H1. apply dups_nil in H2.
  assert (incl (flat_map (fun t => relation_defs (t_relation t)) (q_tables q)) (all_defs q)) as Hd1
    by (unfold all_defs; apply incl_appl, incl_refl).
  assert (incl (relation_defs (q_relation q)) (all_defs q)) as Hd2
    by (unfold all_defs; apply incl_appr, incl_refl).
  destruct (tables_ok _ _ _ _ Hd1 H3) as [Hu Ht].
  destruct (relation_ok _ _ _ _ _ Hd2 H4) as [Hu' Ht'].
  constructor.
  - intros c Hc. unfold lookup_cid.
    assert (In c (all_defs q)) as Hin.
    { unfold used_cids in Hc. apply in_app_or in Hc as [Hc|Hc]; [apply Hu | apply Hu']; exact Hc. }
    rewrite <- all_decls_fst in Hin. apply find_fst_some in Hin.
    destruct (find _ _); [discriminate | contradiction].
  - intros t Hc. apply lookup_tid_some. unfold used_tids in Hc. apply in_app_or in Hc as [Hc|Hc].
    + apply Ht in Hc. exact Hc.
    + apply Ht'. exact Hc.
  - intros c d Hin. unfold lookup_cid. rewrite (find_fst_unique _ c d); [reflexivity | rewrite all_decls_fst; exact H1 | exact Hin].
  - exact H2.
Qed.

Lemma wf_nil q : rq_wf q = true -> rq_diags q = [].
Proof. unfold rq_wf. destruct (rq_diags q); [reflexivity | discriminate]. Qed.

Theorem wf_implies_wf_lax q : rq_wf q = true -> rq_wf_lax q = true.
Proof. intro H. unfold rq_wf_lax. rewrite (wf_nil q H). reflexivity. Qed.

Theorem wf_lookups_total q : rq_wf q = true -> lookups_total q.
Proof. intro H. apply wf_lax_lookups_total, wf_implies_wf_lax, H. Qed.

Theorem wf_lookups_total_explicit q : rq_wf q = true ->
  (forall c, In c (used_cids q) -> lookup_cid q c <> None)
  /\ (forall t, In t (used_tids q) -> lookup_tid q t <> None)
  /\ (forall c d, In (c, d) (all_decls q) -> lookup_cid q c = Some d)
  /\ NoDup (table_ids q).
Proof. intro H. destruct (wf_lookups_total q H). auto. Qed.

Theorem wf_lax_defs_nodup q : rq_wf_lax q = true -> NoDup (all_defs q).
Proof.
  unfold rq_wf_lax, rq_diags. intro H. rewrite !forallb_app in H. apply andb_true_iff in H as [H1 _].
  apply forallb_map_false in H1; [|reflexivity]. apply dups_nil; exact H1.
Qed.

(* clause 3, positionally *)
Theorem wf_lax_decl_before_use q : rq_wf_lax q = true ->
  forall k t, nth_error (q_tables q) k = Some t ->
  incl (relation_trefs (t_relation t)) (firstn k (table_ids q)).
Proof.
  unfold rq_wf_lax, rq_diags. intro H.
  rewrite !forallb_app in H. apply andb_true_iff in H as [_ H]. apply andb_true_iff in H as [_ H].
  apply andb_true_iff in H as [H3 _]. intros k t Hk.
  assert (incl (flat_map (fun t => relation_defs (t_relation t)) (q_tables q)) (all_defs q)) as Hd1
    by (unfold all_defs; apply incl_appl, incl_refl).
  exact (tables_order _ _ _ _ Hd1 H3 k t Hk).
Qed.

(* clauses 4 and 5 *)
Definition pipeline_shape (r : relation) : Prop :=
  forall p, r_kind r = KPipeline p ->
  (exists tr p', p = TFrom tr :: p') /\ (exists p' cs, p = p' ++ [TSelect cs] /\ length cs = length (r_columns r)).

Lemma relation_shape defs ldefs w decl r : forallb lax_diag (relation_diags defs ldefs w decl r) = true -> pipeline_shape r.
Proof.
  unfold relation_diags, pipeline_shape. intros H p E. rewrite E in H.
  rewrite !forallb_app in H. apply andb_true_iff in H as [_ H]. apply andb_true_iff in H as [H1 H2].
  split; [eapply starts_with_from_nil | eapply ends_with_select_nil]; eassumption.
Qed.

Lemma tables_shape defs ts : forall i decl,
  forallb lax_diag (tables_diags defs i decl ts) = true -> forall t, In t ts -> pipeline_shape (t_relation t).
Proof.
  induction ts as [|t0 ts IH]; intros i decl Hl t []; cbn [tables_diags] in Hl;
    rewrite forallb_app in Hl; apply andb_true_iff in Hl as [H1 H2].
  - subst. eapply relation_shape; eassumption.
  - eapply IH; eassumption.
Qed.

Theorem wf_lax_pipeline_shape q : rq_wf_lax q = true ->
  pipeline_shape (q_relation q) /\ forall t, In t (q_tables q) -> pipeline_shape (t_relation t).
Proof.
  unfold rq_wf_lax, rq_diags. intro H.
  rewrite !forallb_app in H. apply andb_true_iff in H as [_ H]. apply andb_true_iff in H as [_ H].
  apply andb_true_iff in H as [H3 H4]. split; [eapply relation_shape; eassumption | eapply tables_shape; eassumption].
Qed.

(* strict clause 2 for one pipeline: with no diagnostic at all, every use is visible where it occurs; stated for
   the transforms of a top-level pipeline (prefix p1, transform t): uses t ⊆ visible-after p1 *)
Fixpoint vis_after (defs ldefs : list cid) (w : N) (decl : list tid) (vis : list cid) (p : list transform) : list cid :=
  match p with
  | [] => vis
  | a :: p' => vis_after defs ldefs w decl (snd (transform_diags defs ldefs w decl vis a)) p'
  end.

Lemma vis_after_indep defs ldefs w decl defs' ldefs' w' decl' t : forall vis,
  snd (transform_diags defs ldefs w decl vis t) = snd (transform_diags defs' ldefs' w' decl' vis t).
Proof. destruct t; reflexivity. Qed.

Lemma pipeline_diags_app defs ldefs w decl p1 p2 : forall vis,
  pipeline_diags defs ldefs w decl vis (p1 ++ p2)
  = pipeline_diags defs ldefs w decl vis p1 ++ pipeline_diags defs ldefs w decl (vis_after defs ldefs w decl vis p1) p2.
Proof.
  induction p1 as [|a p1 IH]; intro vis; cbn [app pipeline_diags vis_after]; [reflexivity|].
  rewrite IH, app_assoc. reflexivity.
Qed.

Definition direct_uses (t : transform) : list cid :=
  match t with TLoop _ => [] | TJoin _ _ _ => [] | _ => transform_uses t end.

Lemma strict_uses_visible defs ldefs w decl p1 t p2 vis :
  pipeline_diags defs ldefs w decl vis (p1 ++ t :: p2) = [] ->
  incl (direct_uses t) (vis_after defs ldefs w decl vis p1)
  /\ (forall sd r f, t = TJoin sd r f -> incl (expr_cids f) (vis_after defs ldefs w decl vis p1 ++ tref_cids r)).
Proof.
  rewrite pipeline_diags_app. intro H. apply app_eq_nil in H as [_ H]. cbn [pipeline_diags] in H.
  apply app_eq_nil in H as [H _]. set (v := vis_after defs ldefs w decl vis p1) in *.
  split.
  - destruct t; cbn [direct_uses transform_uses transform_diags fst] in *; try (intros ? []; fail).
    + apply app_eq_nil in H as [H1 H2]. apply incl_app; [eapply check_uses_nil; eassumption|].
      destruct w0 as [x|]; cbn [window_diags window_cids] in *; [|intros ? []].
      apply app_eq_nil in H2 as [H2 H3]. apply app_eq_nil in H3 as [H3 H4].
      apply incl_app; [|apply incl_app]; eapply check_uses_nil; eassumption.
    + eapply check_uses_nil; eassumption.
    + eapply check_uses_nil; eassumption.
    + apply app_eq_nil in H as [H1 H2]. apply incl_app; eapply check_uses_nil; eassumption.
    + eapply check_uses_nil; eassumption.
    + apply app_eq_nil in H as [H1 H2]. apply app_eq_nil in H2 as [H2 H3].
      apply incl_app; [|apply incl_app]; eapply check_uses_nil; eassumption.
  - intros sd r f ->. cbn [transform_diags fst] in H. apply app_eq_nil in H as [_ H].
    eapply check_uses_nil; eassumption.
Qed.

(* C07, token level -- concatenations of endsafe pieces contain no statement separator / comment opener. *)
From Coq Require Import List NArith Bool Lia.
From PV Require Import Lib.ListX Model.SqlScopeTok.
Import ListNotations.
Local Open Scope N_scope.

Definition bad_join (a b : str) : bool :=
  match lastc a, b with Some x, y :: _ => bad_pair x y | _, _ => false end.

Lemma lastc_cons2 c d r : lastc (c :: d :: r) = lastc (d :: r).
Proof. reflexivity. Qed.

Lemma no_opener_app a b : no_opener (a ++ b) = no_opener a && no_opener b && negb (bad_join a b).
Proof.
  induction a as [|c r IH].
  - cbn. unfold bad_join. cbn. now rewrite andb_true_r.
  - destruct r as [|d r'].
    + cbn [app no_opener]. unfold bad_join. cbn [lastc].
      destruct b as [|y b']; cbn [no_opener].
      * now rewrite !andb_true_r.
      * destruct (negb (N.eqb c c_semi)), (bad_pair c y), (negb (N.eqb y c_semi)); cbn; try reflexivity;
          destruct b'; cbn; try reflexivity; try (destruct (negb (bad_pair y n)); destruct (no_opener (n :: b')); reflexivity);
          rewrite ?andb_true_r, ?andb_false_r; reflexivity.
    + change ((c :: d :: r') ++ b) with (c :: (d :: r') ++ b).
      change ((d :: r') ++ b) with (d :: r' ++ b) in *.
      cbn [no_opener]. cbn [app] in IH. cbn [no_opener] in IH.
      unfold bad_join in *. rewrite lastc_cons2.
      change (d :: r' ++ b) with ((d :: r') ++ b).
      destruct (negb (N.eqb c c_semi)); cbn [andb]; [|reflexivity].
      destruct (negb (bad_pair c d)); cbn [andb]; [|reflexivity].
      exact IH.
Qed.

Lemma lastc_cons c l : lastc (c :: l) = match l with [] => Some c | _ => lastc l end.
Proof. destruct l; reflexivity. Qed.

Lemma lastc_app a b : lastc (a ++ b) = match b with [] => lastc a | _ => lastc b end.
Proof.
  induction a as [|c r IH]; [destruct b; reflexivity|].
  change ((c :: r) ++ b) with (c :: (r ++ b)). rewrite lastc_cons, IH.
  destruct b as [|y b'].
  - rewrite app_nil_r. now rewrite lastc_cons.
  - destruct r; cbn [app]; reflexivity.
Qed.

Lemma end_ok_no_bad_join a b : end_ok a = true -> bad_join a b = false.
Proof.
  unfold end_ok, bad_join. destruct (lastc a) as [x|]; [|reflexivity].
  destruct b as [|y b']; [reflexivity|]. unfold bad_pair.
  destruct (N.eqb x c_minus), (N.eqb x c_slash); cbn; intros H; try discriminate; reflexivity.
Qed.

Lemma endsafe_app a b : endsafe a = true -> endsafe b = true -> endsafe (a ++ b) = true.
Proof.
  unfold endsafe. intros Ha Hb.
  apply andb_prop in Ha as [Ha1 Ha2]. apply andb_prop in Hb as [Hb1 Hb2].
  rewrite no_opener_app, Ha1, Hb1, (end_ok_no_bad_join a b Ha2). cbn.
  unfold end_ok in *. rewrite lastc_app. destruct b; assumption.
Qed.

Lemma endsafe_nil : endsafe [] = true.
Proof. reflexivity. Qed.

Lemma endsafe_paren s : endsafe s = true -> endsafe (40 :: s ++ [41]) = true.
Proof.
  intros H. change (40 :: s ++ [41]) with ([40] ++ s ++ [41]).
  apply endsafe_app; [reflexivity|]. apply endsafe_app; [exact H | reflexivity].
Qed.

Lemma inst_endsafe t : tmpl_safe t = true -> forall fills, Forall (fun s => endsafe s = true) fills -> endsafe (inst t fills) = true.
Proof.
  induction t as [|[s|] r IH]; intros Ht fills Hf; cbn [inst].
  - reflexivity.
  - cbn in Ht. apply andb_prop in Ht as [Hs Hr]. apply endsafe_app; [exact Hs | now apply IH].
  - cbn in Ht. destruct fills as [|a fills'].
    + apply IH; [exact Ht | constructor].
    + inversion Hf; subst. apply endsafe_app; [assumption | now apply IH].
Qed.

Theorem out_endsafe T : tmpls_safe T = true ->
  (forall s, Out T s -> endsafe s = true) /\ (forall l, Outs T l -> Forall (fun s => endsafe s = true) l).
Proof.
  intros HT.
  assert (Hin : forall t, In t T -> tmpl_safe t = true).
  { unfold tmpls_safe in HT. rewrite forallb_forall in HT. exact HT. }
  split.
  - intros s H. induction H using Out_mut with
      (P := fun s _ => endsafe s = true) (P0 := fun l _ => Forall (fun s => endsafe s = true) l).
    + assumption.
    + now apply endsafe_paren.
    + apply inst_endsafe; auto.
    + constructor.
    + constructor; assumption.
  - intros l H. induction H using Outs_mut with
      (P := fun s _ => endsafe s = true) (P0 := fun l _ => Forall (fun s => endsafe s = true) l).
    + assumption.
    + now apply endsafe_paren.
    + apply inst_endsafe; auto.
    + constructor.
    + constructor; assumption.
Qed.

Theorem single_statement T : tmpls_safe T = true -> forall s, Out T s -> no_opener s = true.
Proof.
  intros HT s H. destruct (out_endsafe T HT) as [A _]. specialize (A s H).
  unfold endsafe in A. now apply andb_prop in A as [A _].
Qed.

(* F3 (residual): the template [-{l:14}] parenthesises a negated operand, but a negative number literal (or an s-string
   that starts with a minus sign) is an atom of full strength: the renderer produces [--3] *)
Definition neg_tmpl : tmpl := [Some [c_minus]; None].
Lemma double_minus_out T : In neg_tmpl T -> Out T [45; 45; 51].
Proof.
  intros H.
  change [45; 45; 51] with (inst neg_tmpl [[45; 51]]).
  apply O_inst; [exact H|]. constructor; [|constructor].
  apply O_atom. reflexivity.
Qed.

Theorem single_statement_refuted T : In neg_tmpl T -> exists s, Out T s /\ no_opener s = false.
Proof. intros H. exists [45; 45; 51]. split; [now apply double_minus_out | reflexivity]. Qed.

(* C07, token level -- concatenations of endsafe pieces contain no statement separator / comment opener. *)
From Coq Require Import List NArith Bool Lia.
From PV Require Import Lib.ListX Model.SqlScopeTok.
Import ListNotations.
Local Open Scope N_scope.

Definition bad_join (a b : str) : bool :=
  match lastc a, b with Some x, y :: _ => bad_pair x y | _, _ => false end.

Lemma lastc_cons2 c d r : lastc (c :: d :: r) = lastc (d :: r).
Proof. reflexivity. Qed.

Lemma no_opener_app a b : no_opener (a ++ b) = no_opener a && no_opener b && negb (bad_join a b).
Proof.
  induction a as [|c r IH].
  - cbn. unfold bad_join. cbn. now rewrite andb_true_r.
  - destruct r as [|d r'].
    + cbn [app no_opener]. unfold bad_join. cbn [lastc].
      destruct b as [|y b']; cbn [no_opener].
      * now rewrite !andb_true_r.
      * destruct (negb (N.eqb c c_semi)), (bad_pair c y), (negb (N.eqb y c_semi)); cbn; try reflexivity;
          destruct b'; cbn; try reflexivity; try (destruct (negb (bad_pair y n)); destruct (no_opener (n :: b')); reflexivity);
          rewrite ?andb_true_r, ?andb_false_r; reflexivity.
    + change ((c :: d :: r') ++ b) with (c :: (d :: r') ++ b).
      change ((d :: r') ++ b) with (d :: r' ++ b) in *.
      cbn [no_opener]. cbn [app] in IH. cbn [no_opener] in IH.
      unfold bad_join in *. rewrite lastc_cons2.
      change (d :: r' ++ b) with ((d :: r') ++ b).
      destruct (negb (N.eqb c c_semi)); cbn [andb]; [|reflexivity].
      destruct (negb (bad_pair c d)); cbn [andb]; [|reflexivity].
      exact IH.
Qed.

Lemma lastc_cons c l : lastc (c :: l) = match l with [] => Some c | _ => lastc l end.
Proof. destruct l; reflexivity. Qed.

Lemma lastc_app a b : lastc (a ++ b) = match b with [] => lastc a | _ => lastc b end.
Proof.
  induction a as [|c r IH]; [destruct b; reflexivity|].
  change ((c :: r) ++ b) with (c :: (r ++ b)). rewrite lastc_cons, IH.
  destruct b as [|y b'].
  - rewrite app_nil_r. now rewrite lastc_cons.
  - destruct r; cbn [app]; reflexivity.
Qed.

Lemma end_ok_no_bad_join a b : end_ok a = true -> bad_join a b = false.
Proof.
  unfold end_ok, bad_join. destruct (lastc a) as [x|]; [|reflexivity].
  destruct b as [|y b']; [reflexivity|]. unfold bad_pair.
  destruct (N.eqb x c_minus), (N.eqb x c_slash); cbn; intros H; try discriminate; reflexivity.
Qed.

Lemma endsafe_app a b : endsafe a = true -> endsafe b = true -> endsafe (a ++ b) = true.
Proof.
  unfold endsafe. intros Ha Hb.
  apply andb_prop in Ha as [Ha1 Ha2]. apply andb_prop in Hb as [Hb1 Hb2].
  rewrite no_opener_app, Ha1, Hb1, (end_ok_no_bad_join a b Ha2). cbn.
  unfold end_ok in *. rewrite lastc_app. destruct b; assumption.
Qed.

Lemma endsafe_nil : endsafe [] = true.
Proof. reflexivity. Qed.

Lemma endsafe_paren s : endsafe s = true -> endsafe (40 :: s ++ [41]) = true.
Proof.
  intros H. change (40 :: s ++ [41]) with ([40] ++ s ++ [41]).
  apply endsafe_app; [reflexivity|]. apply endsafe_app; [exact H | reflexivity].
Qed.

Lemma inst_endsafe t : tmpl_safe t = true -> forall fills, Forall (fun s => endsafe s = true) fills -> endsafe (inst t fills) = true.
Proof.
  induction t as [|[s|] r IH]; intros Ht fills Hf; cbn [inst].
  - reflexivity.
  - cbn in Ht. apply andb_prop in Ht as [Hs Hr]. apply endsafe_app; [exact Hs | now apply IH].
  - cbn in Ht. destruct fills as [|a fills'].
    + apply IH; [exact Ht | constructor].
    + inversion Hf; subst. apply endsafe_app; [assumption | now apply IH].
Qed.

Theorem out_endsafe T : tmpls_safe T = true ->
  (forall s, Out T s -> endsafe s = true) /\ (forall l, Outs T l -> Forall (fun s => endsafe s = true) l).
Proof.
  intros HT.
  assert (Hin : forall t, In t T -> tmpl_safe t = true).
  { unfold tmpls_safe in HT. rewrite forallb_forall in HT. exact HT. }
  split.
  - intros s H. induction H using Out_mut with
      (P := fun s _ => endsafe s = true) (P0 := fun l _ => Forall (fun s => endsafe s = true) l).
    + assumption.
    + now apply endsafe_paren.
    + apply inst_endsafe; auto.
    + constructor.
    + constructor; assumption.
  - intros l H. induction H using Outs_mut with
      (P := fun s _ => endsafe s = true) (P0 := fun l _ => Forall (fun s => endsafe s = true) l).
    + assumption.
    + now apply endsafe_paren.
    + apply inst_endsafe; auto.
    + constructor.
    + constructor; assumption.
Qed.

Theorem single_statement T : tmpls_safe T = true -> forall s, Out T s -> no_opener s = true.
Proof.
  intros HT s H. destruct (out_endsafe T HT) as [A _]. specialize (A s H).
  unfold endsafe in A. now apply andb_prop in A as [A _].
Qed.

(* F3 (residual): the template [-{l:14}] parenthesises a negated operand, but a negative number literal (or an s-string
   that starts with a minus sign) is an atom of full strength: the renderer produces [--3] *)
Definition neg_tmpl : tmpl := [Some [c_minus]; None].
Lemma double_minus_out T : In neg_tmpl T -> Out T [45; 45; 51].
Proof.
  intros H.
  change [45; 45; 51] with (inst neg_tmpl [[45; 51]]).
  apply O_inst; [exact H|]. constructor; [|constructor].
  apply O_atom. reflexivity.
Qed.

Theorem single_statement_refuted T : In neg_tmpl T -> exists s, Out T s /\ no_opener s = false.
Proof. intros H. exists [45; 45; 51]. split; [now apply double_minus_out | reflexivity]. Qed.

(* ------------------------------------------------------------------ the renderer with the guard of fixes/C07-N11:
   a text chunk may end in [-] when a hole follows; the operand is parenthesised if it starts with [-] *)
Definition nonempty_safe (s : str) : Prop := endsafe s = true /\ s <> [].
Definition hd_hole (t : tmpl) : bool := match t with None :: _ => true | _ => false end.

Lemma end_ok_split s : end_ok s = negb (ends_in_minus s || ends_in_slash s).
Proof. unfold end_ok, ends_in_minus, ends_in_slash. destruct (lastc s); reflexivity. Qed.

Lemma lastc_app_ne a b : b <> [] -> lastc (a ++ b) = lastc b.
Proof. intros H. rewrite lastc_app. destruct b; [contradiction | reflexivity]. Qed.

Lemma guard_facts acc a : nonempty_safe a -> no_opener acc = true ->
  (end_ok acc = true \/ ends_in_minus acc = true) ->
  endsafe (guard acc a) = true /\ guard acc a <> [] /\ bad_join acc (guard acc a) = false.
Proof.
  intros [Ha Hne] Hacc Hend. unfold guard.
  destruct (ends_in_minus acc && starts_minus a) eqn:G.
  - repeat split; [now apply endsafe_paren | discriminate |].
    unfold bad_join. destruct (lastc acc) as [x|]; [|reflexivity]. unfold bad_pair.
    destruct (N.eqb x c_minus), (N.eqb x c_slash); reflexivity.
  - repeat split; [exact Ha | exact Hne |].
    destruct Hend as [He|Hm]; [now apply end_ok_no_bad_join|].
    rewrite Hm in G. cbn in G. unfold bad_join, ends_in_minus in *. destruct (lastc acc) as [x|]; [|reflexivity].
    destruct a as [|y a']; [reflexivity|]. unfold starts_minus in G. unfold bad_pair.
    apply N.eqb_eq in Hm. subst x. rewrite G. reflexivity.
Qed.

Lemma inst_g_endsafe : forall t acc fills, tmpl_safe_g t = true -> Forall nonempty_safe fills ->
  no_opener acc = true -> (end_ok acc = true \/ (ends_in_minus acc = true /\ hd_hole t = true)) ->
  endsafe (inst_g acc t fills) = true.
Proof.
  induction t as [|[s|] r IH]; intros acc fills Ht Hf Hacc Hend; cbn [inst_g].
  - destruct Hend as [He|[_ Hh]]; [|discriminate]. unfold endsafe. now rewrite Hacc, He.
  - cbn [tmpl_safe_g] in Ht. apply andb_prop in Ht as [Ht Hr]. apply andb_prop in Ht as [Ht Hs3].
    apply andb_prop in Ht as [Hs1 Hs2].
    destruct Hend as [He|[_ Hh]]; [|discriminate].
    apply IH; [exact Hr | exact Hf | |].
    + rewrite no_opener_app, Hacc, Hs1, (end_ok_no_bad_join acc s He). reflexivity.
    + destruct s as [|c s'].
      * rewrite app_nil_r. left. exact He.
      * assert (Hne : c :: s' <> []) by discriminate.
        assert (E1 : ends_in_minus (acc ++ c :: s') = ends_in_minus (c :: s'))
          by (unfold ends_in_minus; now rewrite (lastc_app_ne acc _ Hne)).
        assert (E2 : ends_in_slash (acc ++ c :: s') = ends_in_slash (c :: s'))
          by (unfold ends_in_slash; now rewrite (lastc_app_ne acc _ Hne)).
        destruct (ends_in_minus (c :: s')) eqn:Em.
        -- right. split; [exact E1|].
           cbn in Hs3. unfold hd_hole. destruct r as [|[x|] r']; try discriminate; reflexivity.
        -- left. rewrite end_ok_split, E1, E2. apply negb_true_iff in Hs2. rewrite Hs2. reflexivity.
  - cbn [tmpl_safe_g] in Ht.
    assert (Hend' : end_ok acc = true \/ ends_in_minus acc = true) by (destruct Hend as [?|[? _]]; auto).
    destruct fills as [|a fills'].
    + assert (Hq : nonempty_safe [63]) by (split; [reflexivity | discriminate]).
      destruct (guard_facts acc [63] Hq Hacc Hend') as (Hg & Hne & Hb).
      apply IH; [exact Ht | constructor | |].
      * apply andb_prop in Hg as [Hg1 _]. now rewrite no_opener_app, Hacc, Hg1, Hb.
      * left. apply andb_prop in Hg as [_ Hg2]. unfold end_ok in *. now rewrite (lastc_app_ne acc _ Hne).
    + inversion Hf as [|? ? Ha Hf']; subst.
      destruct (guard_facts acc a Ha Hacc Hend') as (Hg & Hne & Hb).
      apply IH; [exact Ht | exact Hf' | |].
      * apply andb_prop in Hg as [Hg1 _]. now rewrite no_opener_app, Hacc, Hg1, Hb.
      * left. apply andb_prop in Hg as [_ Hg2]. unfold end_ok in *. now rewrite (lastc_app_ne acc _ Hne).
Qed.

Theorem outg_endsafe T : tmpls_safe_g T = true ->
  (forall s, Outg T s -> nonempty_safe s) /\ (forall l, Outsg T l -> Forall nonempty_safe l).
Proof.
  intros HT.
  assert (Hin : forall t, In t T -> tmpl_safe_g t = true).
  { unfold tmpls_safe_g in HT. rewrite forallb_forall in HT. exact HT. }
  split.
  - intros s H. induction H using Outg_mut with (P := fun s _ => nonempty_safe s) (P0 := fun l _ => Forall nonempty_safe l).
    + split; assumption.
    + match goal with H : nonempty_safe _ |- _ => destruct H as [A _] end. split; [now apply endsafe_paren | discriminate].
    + split; [|assumption]. apply inst_g_endsafe; auto.
    + constructor.
    + constructor; assumption.
  - intros l H. induction H using Outsg_mut with (P := fun s _ => nonempty_safe s) (P0 := fun l _ => Forall nonempty_safe l).
    + split; assumption.
    + match goal with H : nonempty_safe _ |- _ => destruct H as [A _] end. split; [now apply endsafe_paren | discriminate].
    + split; [|assumption]. apply inst_g_endsafe; auto.
    + constructor.
    + constructor; assumption.
Qed.

(* with the guard, a template whose text ends in [-] directly in front of a hole is harmless *)
Theorem single_statement_guarded T : tmpls_safe_g T = true -> forall s, Outg T s -> no_opener s = true.
Proof.
  intros HT s H. destruct (outg_endsafe T HT) as [A _]. destruct (A s H) as [E _].
  unfold endsafe in E. now apply andb_prop in E as [E _].
Qed.

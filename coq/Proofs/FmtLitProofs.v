(* C14 -- character-level round trips of Model/FmtLit.v: integers, floats, identifiers, strings. *)
From Coq Require Import List NArith ZArith Bool Arith Lia.
From PV Require Import Lib.ListX Model.FmtLit.
Import ListNotations.
Local Open Scope N_scope.

Local Arguments N.add : simpl never.
Local Arguments N.sub : simpl never.
Local Arguments N.mul : simpl never.
Local Arguments N.div : simpl never.
Local Arguments N.modulo : simpl never.
Local Arguments N.pow : simpl never.
Local Arguments N.eqb : simpl never.
Local Arguments N.leb : simpl never.
Local Arguments N.ltb : simpl never.

(* ------------------------------------------------------------------ decimal digits *)
Lemma is_digit_spec c : is_digit c = true <-> 48 <= c <= 57.
Proof. unfold is_digit, in_range. rewrite andb_true_iff, !N.leb_le. tauto. Qed.

Lemma digits_val_app l1 l2 a : digits_val (l1 ++ l2) a = digits_val l2 (digits_val l1 a).
Proof. revert a; induction l1 as [|c t IH]; intro a; cbn [app digits_val]; [reflexivity|]. destruct (is_digit c); apply IH. Qed.

Lemma size_nat_gt n : n < 2 ^ N.of_nat (N.size_nat n).
Proof.
  destruct n as [|p]; [reflexivity|]. cbn [N.size_nat].
  induction p as [p IH|p IH|]; cbn [Pos.size_nat].
  - rewrite Nat2N.inj_succ, N.pow_succ_r'. change (N.pos p~1) with (2 * N.pos p + 1). lia.
  - rewrite Nat2N.inj_succ, N.pow_succ_r'. change (N.pos p~0) with (2 * N.pos p). lia.
  - reflexivity.
Qed.

Record digits_of (n : N) (l : str) : Prop := {
  d_val : forall a, digits_val l a = a * 10 ^ N.of_nat (length l) + n;
  d_dig : forallb is_digit l = true;
  d_head : match l with [] => False | c :: t => if n =? 0 then t = [] /\ c = 48 else c <> 48 end;
}.

Lemma digits_fuel_spec : forall f n acc, n < 2 ^ N.of_nat f ->
  exists l, digits_fuel (S f) n acc = l ++ acc /\ digits_of n l.
Proof.
  induction f as [|f IH]; intros n acc Hn.
  - assert (n = 0) as -> by (cbn in Hn; lia). exists [48]. split; [reflexivity|].
    constructor; [intro a | reflexivity | cbn [d_head]; change (0 =? 0) with true; cbv iota; auto].
    cbn [digits_val length]. change (is_digit 48) with true. cbv iota. change (N.of_nat 1) with 1. rewrite N.pow_1_r. lia.
  - cbn [digits_fuel]. pose proof (N.div_mod' n 10) as Hdm. pose proof (N.mod_lt n 10 ltac:(lia)) as Hm.
    destruct (N.eqb_spec (n / 10) 0) as [E|E].
    + exists [c_zero + n mod 10]. split; [reflexivity|].
      assert (n = n mod 10) as Hnn by lia.
      constructor.
      * intro a. cbn [digits_val length]. unfold c_zero.
        assert (is_digit (48 + n mod 10) = true) as -> by (apply is_digit_spec; lia).
        change (N.of_nat 1) with 1. rewrite N.pow_1_r. clear Hn IH. lia.
      * cbn [forallb]. rewrite andb_true_r. apply is_digit_spec. unfold c_zero. lia.
      * destruct (N.eqb_spec n 0) as [->|Hz]; [split; reflexivity|]. unfold c_zero. lia.
    + assert (n / 10 < 2 ^ N.of_nat f) as Hlt.
      { rewrite Nat2N.inj_succ, N.pow_succ_r' in Hn. clear IH. set (q := n / 10) in *. set (m := n mod 10) in *. set (X := 2 ^ N.of_nat f) in *. clearbody q m X. lia. }
      destruct (IH (n / 10) ((c_zero + n mod 10) :: acc) Hlt) as [l' [El' [Hv Hd Hh]]].
      exists (l' ++ [c_zero + n mod 10]). split; [rewrite El', <- app_assoc; reflexivity|].
      assert (is_digit (c_zero + n mod 10) = true) as Hdg by (apply is_digit_spec; unfold c_zero; lia).
      constructor.
      * intro a. rewrite digits_val_app, Hv. cbn [digits_val]. rewrite Hdg. rewrite app_length. cbn [length].
        rewrite Nat.add_1_r, Nat2N.inj_succ, N.pow_succ_r'. unfold c_zero. lia.
      * rewrite forallb_app, Hd. cbn [forallb]. rewrite Hdg. reflexivity.
      * destruct l' as [|c t]; [contradiction|]. cbn [app].
        destruct (N.eqb_spec (n / 10) 0) as [|_]; [contradiction|].
        destruct (N.eqb_spec n 0) as [->|_]; [cbn in E; contradiction | exact Hh].
Qed.

Lemma show_N_spec n : digits_of n (show_N n).
Proof.
  unfold show_N. destruct (digits_fuel_spec (N.size_nat n) n [] (size_nat_gt n)) as [l [E H]].
  rewrite E, app_nil_r. exact H.
Qed.

(* ------------------------------------------------------------------ integers *)
Lemma take_while_all p l : forallb p l = true -> take_while p l = (l, []).
Proof. induction l as [|c t IH]; cbn [forallb take_while]; [reflexivity|]. intro H. apply andb_true_iff in H as [-> Ht]. rewrite (IH Ht). reflexivity. Qed.

Lemma digit_or_us l : forallb is_digit l = true -> forallb is_digit_or_us l = true.
Proof. induction l as [|c t IH]; cbn [forallb]; [reflexivity|]. intro H. apply andb_true_iff in H as [Hc Ht]. unfold is_digit_or_us. rewrite Hc, (IH Ht). reflexivity. Qed.

Lemma lex_int_part_digits n : lex_int_part (show_N n) = Some (show_N n, []).
Proof.
  destruct (show_N_spec n) as [_ Hd Hh]. destruct (show_N n) as [|c t]; [contradiction|].
  cbn [forallb] in Hd. apply andb_true_iff in Hd as [Hc Ht]. unfold lex_int_part. rewrite Hc. cbn [andb].
  destruct (N.eqb_spec n 0) as [->|Hz].
  - destruct Hh as [-> ->]. reflexivity.
  - unfold c_zero. destruct (N.eqb_spec c 48) as [|_]; [contradiction|]. cbn [negb].
    rewrite (take_while_all _ _ (digit_or_us _ Ht)). reflexivity.
Qed.

Theorem int_roundtrip : forall n, n <= i64_max -> lex_number (show_N n) = Some (NInt n, []).
Proof.
  intros n Hn. unfold lex_number. rewrite lex_int_part_digits. cbn [lex_frac lex_exp].
  pose proof (d_val _ _ (show_N_spec n) 0) as Hv. rewrite N.mul_0_l, N.add_0_l in Hv. rewrite Hv.
  apply N.leb_le in Hn. rewrite Hn. reflexivity.
Qed.

(* C14 -- character-level round trips of Model/FmtLit.v: integers, floats, identifiers, strings. *)
From Coq Require Import List NArith ZArith Bool Arith Lia.
From PV Require Import Lib.ListX Model.FmtLit.
Import ListNotations.
Local Open Scope N_scope.

Local Arguments N.add : simpl never.
Local Arguments N.sub : simpl never.
Local Arguments N.mul : simpl never.
Local Arguments N.div : simpl never.
Local Arguments N.modulo : simpl never.
Local Arguments N.pow : simpl never.
Local Arguments N.eqb : simpl never.
Local Arguments N.leb : simpl never.
Local Arguments N.ltb : simpl never.

(* ------------------------------------------------------------------ decimal digits *)
Lemma is_digit_spec c : is_digit c = true <-> 48 <= c <= 57.
Proof. unfold is_digit, in_range. rewrite andb_true_iff, !N.leb_le. tauto. Qed.

Lemma digits_val_app l1 l2 a : digits_val (l1 ++ l2) a = digits_val l2 (digits_val l1 a).
Proof. revert a; induction l1 as [|c t IH]; intro a; cbn [app digits_val]; [reflexivity|]. destruct (is_digit c); apply IH. Qed.

Lemma size_nat_gt n : n < 2 ^ N.of_nat (N.size_nat n).
Proof.
  destruct n as [|p]; [reflexivity|]. cbn [N.size_nat].
  induction p as [p IH|p IH|]; cbn [Pos.size_nat].
  - rewrite Nat2N.inj_succ, N.pow_succ_r'. change (N.pos p~1) with (2 * N.pos p + 1). lia.
  - rewrite Nat2N.inj_succ, N.pow_succ_r'. change (N.pos p~0) with (2 * N.pos p). lia.
  - reflexivity.
Qed.

Record digits_of (n : N) (l : str) : Prop := {
  d_val : forall a, digits_val l a = a * 10 ^ N.of_nat (length l) + n;
  d_dig : forallb is_digit l = true;
  d_head : match l with [] => False | c :: t => if n =? 0 then t = [] /\ c = 48 else c <> 48 end;
}.

Lemma digits_fuel_S f n acc :
  digits_fuel (S f) n acc =
  if n / 10 =? 0 then (c_zero + n mod 10) :: acc else digits_fuel f (n / 10) ((c_zero + n mod 10) :: acc).
Proof. reflexivity. Qed.

Lemma digit_mod n : is_digit (c_zero + n mod 10) = true /\ c_zero + n mod 10 - 48 = n mod 10 /\ (n mod 10 <> 0 -> c_zero + n mod 10 <> 48).
Proof.
  pose proof (N.mod_lt n 10 ltac:(discriminate)) as Hm. set (m := n mod 10) in *. clearbody m.
  unfold c_zero. repeat split; [apply is_digit_spec; lia | lia | lia].
Qed.

Lemma digits_fuel_spec : forall f n acc, n < 2 ^ N.of_nat f ->
  exists l, digits_fuel (S f) n acc = l ++ acc /\ digits_of n l.
Proof.
  induction f as [|f IH]; intros n acc Hn.
  - assert (n = 0) as -> by (cbn in Hn; lia). exists [48]. split; [reflexivity|].
    constructor; [intro a | reflexivity | cbn [d_head]; change (0 =? 0) with true; cbv iota; auto].
    cbn [digits_val length]. change (is_digit 48) with true. cbv iota. change (N.of_nat 1) with 1. rewrite N.pow_1_r. lia.
  - rewrite digits_fuel_S. pose proof (N.div_mod' n 10) as Hdm. pose proof (N.mod_lt n 10 ltac:(discriminate)) as Hm.
    destruct (digit_mod n) as [Hdg [Hsub Hnz]].
    destruct (N.eqb_spec (n / 10) 0) as [E|E].
    + exists [c_zero + n mod 10]. split; [reflexivity|].
      assert (n = n mod 10) as Hnn by (rewrite E in Hdm; rewrite N.mul_0_r, N.add_0_l in Hdm; exact Hdm).
      constructor.
      * intro a. cbn [digits_val length]. rewrite Hdg, Hsub, <- Hnn.
        change (N.of_nat 1) with 1. rewrite N.pow_1_r. reflexivity.
      * cbn [forallb]. rewrite Hdg. reflexivity.
      * destruct (N.eqb_spec n 0) as [->|Hz]; [split; reflexivity|]. apply Hnz. rewrite <- Hnn. exact Hz.
    + assert (n / 10 < 2 ^ N.of_nat f) as Hlt.
      { rewrite Nat2N.inj_succ, N.pow_succ_r' in Hn. clear IH Hdg Hsub Hnz. set (q := n / 10) in *. set (m := n mod 10) in *.
        set (X := 2 ^ N.of_nat f) in *. clearbody q m X. lia. }
      destruct (IH (n / 10) ((c_zero + n mod 10) :: acc) Hlt) as [l' [El' [Hv Hd Hh]]].
      exists (l' ++ [c_zero + n mod 10]). split; [rewrite El', <- app_assoc; reflexivity|].
      constructor.
      * intro a. rewrite digits_val_app, Hv. cbn [digits_val]. rewrite Hdg, Hsub. rewrite app_length. cbn [length].
        rewrite Nat.add_1_r, Nat2N.inj_succ, N.pow_succ_r'.
        set (P := 10 ^ N.of_nat (length l')). rewrite Hdm at 3. set (q := n / 10). set (m := n mod 10). ring.
      * rewrite forallb_app, Hd. cbn [forallb]. rewrite Hdg. reflexivity.
      * destruct l' as [|c t]; [contradiction|]. cbn [app].
        destruct (N.eqb_spec (n / 10) 0) as [|_]; [contradiction|].
        destruct (N.eqb_spec n 0) as [Hz|_]; [|exact Hh]. rewrite Hz in E. cbn in E. contradiction.
Qed.

Lemma show_N_spec n : digits_of n (show_N n).
Proof.
  unfold show_N. destruct (digits_fuel_spec (N.size_nat n) n [] (size_nat_gt n)) as [l [E H]].
  rewrite E, app_nil_r. exact H.
Qed.

(* ------------------------------------------------------------------ integers *)
Lemma take_while_all p l : forallb p l = true -> take_while p l = (l, []).
Proof. induction l as [|c t IH]; cbn [forallb take_while]; [reflexivity|]. intro H. apply andb_true_iff in H as [-> Ht]. rewrite (IH Ht). reflexivity. Qed.

Lemma digit_or_us l : forallb is_digit l = true -> forallb is_digit_or_us l = true.
Proof. induction l as [|c t IH]; cbn [forallb]; [reflexivity|]. intro H. apply andb_true_iff in H as [Hc Ht]. rewrite (IH Ht). unfold is_digit_or_us. rewrite Hc. reflexivity. Qed.

Lemma lex_int_part_digits n : lex_int_part (show_N n) = Some (show_N n, []).
Proof.
  destruct (show_N_spec n) as [_ Hd Hh]. destruct (show_N n) as [|c t]; [contradiction|].
  cbn [forallb] in Hd. apply andb_true_iff in Hd as [Hc Ht]. unfold lex_int_part. rewrite Hc. cbn [andb].
  destruct (N.eqb_spec n 0) as [->|Hz].
  - destruct Hh as [-> ->]. reflexivity.
  - unfold c_zero. destruct (N.eqb_spec c 48) as [|_]; [contradiction|]. cbn [negb].
    rewrite (take_while_all _ _ (digit_or_us _ Ht)). reflexivity.
Qed.

Theorem int_roundtrip : forall n, n <= i64_max -> lex_number (show_N n) = Some (NInt n, []).
Proof.
  intros n Hn. unfold lex_number. rewrite lex_int_part_digits. cbn [lex_frac lex_exp].
  pose proof (d_val _ _ (show_N_spec n) 0) as Hv. rewrite N.mul_0_l, N.add_0_l in Hv. rewrite Hv.
  apply N.leb_le in Hn. rewrite Hn. reflexivity.
Qed.

(* ------------------------------------------------------------------ identifiers *)
Lemma take_while_stop p l rest :
  forallb p l = true -> match rest with [] => True | c :: _ => p c = false end -> take_while p (l ++ rest) = (l, rest).
Proof.
  intros Hl Hr. induction l as [|c t IH]; cbn [app forallb] in *.
  - destruct rest as [|c r]; [reflexivity|]. cbn [take_while]. rewrite Hr. reflexivity.
  - apply andb_true_iff in Hl as [Hc Ht]. cbn [take_while]. rewrite Hc, (IH Ht). reflexivity.
Qed.

(* strip_prefix w (s ++ rest): either w lies inside s, or s is a proper prefix of w *)
Lemma strip_prefix_app w s rest r : strip_prefix w (s ++ rest) = Some r ->
  (exists s2, s = w ++ s2 /\ r = s2 ++ rest) \/ (exists w2, w = s ++ w2 /\ w2 <> [] /\ rest = w2 ++ r).
Proof.
  revert s; induction w as [|x w IH]; intros s H.
  - left. exists s. cbn in H. injection H as <-. split; reflexivity.
  - destruct s as [|y s].
    + right. exists (x :: w). cbn [app] in *. split; [reflexivity|]. split; [discriminate|].
      apply strip_prefix_spec in H. exact H.
    + cbn [app strip_prefix] in H. destruct (N.eqb_spec x y) as [->|]; [|discriminate].
      destruct (IH s H) as [[s2 [-> ->]]|[w2 [-> [Hw ->]]]].
      * left. exists s2. split; reflexivity.
      * right. exists w2. repeat split; auto.
Qed.

Definition ranges_sub (rs allowed : list (N * N)) : bool :=
  forallb (fun r => existsb (fun a => (fst a <=? fst r) && (snd r <=? snd a)) allowed) rs.
Lemma ranges_sub_in rs allowed c : ranges_sub rs allowed = true -> in_ranges rs c = true -> in_ranges allowed c = true.
Proof.
  unfold ranges_sub, in_ranges. intros Hs Hc. apply existsb_exists in Hc as [r [Hr Hin]].
  rewrite forallb_forall in Hs. specialize (Hs r Hr). apply existsb_exists in Hs as [a [Ha Hle]].
  apply existsb_exists. exists a. split; [exact Ha|]. unfold in_range in *.
  apply andb_true_iff in Hin as [H1 H2]. apply andb_true_iff in Hle as [H3 H4].
  apply N.leb_le in H1, H2, H3, H4. apply andb_true_iff; split; apply N.leb_le; lia.
Qed.

Definition letters : list (N * N) := [(65, 90); (97, 122)].
Definition start_ok : list (N * N) := [(65, 90); (95, 95); (97, 122)].
Definition rest_ok : list (N * N) := [(48, 57); (65, 90); (95, 95); (97, 122)].

Definition lit_words : list str := [w_true; w_false; w_null].
Definition covers (big small : list str) : bool := forallb (fun w => existsb (leqb w) big) small.

(* what the proofs need from the generated tables (decidable; checked by vm_compute in Props):
   the bare classes of both printers lie within the lexer's plain identifiers, every word the lexer reads as a keyword or
   literal is in both printers' reserved lists, and keywords are lower-case ASCII words *)
Definition idtab_ok (T : idtab) : bool :=
  ranges_sub (it_fmt_start T) start_ok && ranges_sub (it_fmt_rest T) rest_ok &&
  ranges_sub (it_disp_start T) start_ok && ranges_sub (it_disp_rest T) rest_ok &&
  covers (it_fmt_keywords T) (it_lex_keywords T ++ lit_words) &&
  covers (it_disp_reserved T) (it_lex_keywords T ++ lit_words) &&
  forallb (fun w => match w with [] => false | _ => forallb (fun c => in_range c 97 122) w end) (it_lex_keywords T).

Definition is_word (T : idtab) (s : str) : bool := existsb (leqb s) (it_lex_keywords T ++ lit_words).

Definition alnum_ascii : list (N * N) := [(48, 57); (65, 90); (97, 122)].

Section Idents.
  (* Rust's char::is_alphabetic / is_alphanumeric: only their ASCII restriction and one inclusion are used *)
  Variable is_alpha is_alnum : N -> bool.
  Hypothesis ascii_alpha : forall c, c < 128 -> is_alpha c = in_ranges letters c.
  Hypothesis ascii_alnum : forall c, c < 128 -> is_alnum c = in_ranges alnum_ascii c.
  Hypothesis alpha_alnum : forall c, is_alpha c = true -> is_alnum c = true.
  Variable T : idtab.
  Hypothesis TOK : idtab_ok T = true.

  Notation lexw := (lex_word is_alpha is_alnum T).
  Definition word_char (c : N) : bool := is_alnum c || (c =? c_underscore).
  (* what follows the identifier does not continue it *)
  Definition delim (rest : str) : Prop := match rest with [] => True | c :: _ => word_char c = false end.

  Lemma lower_word_char c : in_range c 97 122 = true -> word_char c = true.
  Proof.
    intro H. unfold word_char. pose proof H as H'. unfold in_range in H'. apply andb_true_iff in H' as [_ H2]. apply N.leb_le in H2.
    rewrite ascii_alnum by lia. unfold in_ranges, alnum_ascii. cbn [existsb fst snd]. rewrite H. rewrite !orb_true_r. reflexivity.
  Qed.

  Lemma kw_chars w : In w (it_lex_keywords T) -> w <> [] /\ forallb (fun c => in_range c 97 122) w = true.
  Proof.
    intro Hin. pose proof TOK as TK. unfold idtab_ok in TK. apply andb_true_iff in TK as [_ H]. rewrite forallb_forall in H.
    specialize (H w Hin). destruct w; [discriminate|]. split; [discriminate | exact H].
  Qed.
  Lemma lit_chars w : In w lit_words -> w <> [] /\ forallb (fun c => in_range c 97 122) w = true.
  Proof. intros [<-|[<-|[<-|[]]]]; split; try discriminate; reflexivity. Qed.

  Ltac not_word_char c k Hc :=
    destruct (N.eqb_spec c k) as [->|_];
    [ unfold word_char in Hc; rewrite ascii_alnum in Hc by (vm_compute; reflexivity); vm_compute in Hc; discriminate Hc | ].

  Lemma end_expr_word c t : word_char c = true -> end_expr (c :: t) = false.
  Proof.
    intro Hc. cbn [end_expr]. unfold c_dot.
    not_word_char c 44 Hc. not_word_char c 41 Hc. not_word_char c 93 Hc. not_word_char c 125 Hc. not_word_char c 9 Hc.
    not_word_char c 32 Hc. not_word_char c 62 Hc. not_word_char c 10 Hc. not_word_char c 13 Hc. not_word_char c 46 Hc.
    reflexivity.
  Qed.

  (* a word (keyword / true / false / null) that is not the identifier itself does not match at s ++ rest *)
  Lemma try_word_none w s rest : forallb (fun c => in_range c 97 122) w = true ->
    forallb word_char s = true -> delim rest -> w <> s -> try_word w (s ++ rest) = None.
  Proof.
    intros Hw Hs Hd Hws. unfold try_word. destruct (strip_prefix w (s ++ rest)) as [r|] eqn:E; [|reflexivity].
    destruct (strip_prefix_app _ _ _ _ E) as [[s2 [-> ->]]|[w2 [-> [Hw2 ->]]]].
    - destruct s2 as [|c s2]; [rewrite app_nil_r in Hws; contradiction|].
      rewrite forallb_app in Hs. apply andb_true_iff in Hs as [_ Hs]. cbn [forallb] in Hs. apply andb_true_iff in Hs as [Hc _].
      cbn [app]. rewrite (end_expr_word c _ Hc). reflexivity.
    - exfalso. destruct w2 as [|c w2]; [contradiction|]. cbn [app] in Hd. unfold delim in Hd.
      rewrite forallb_app in Hw. apply andb_true_iff in Hw as [_ Hw]. cbn [forallb] in Hw. apply andb_true_iff in Hw as [Hc _].
      rewrite (lower_word_char c Hc) in Hd. discriminate.
  Qed.

  Lemma first_prefix_none ws s rest : (forall w, In w ws -> forallb (fun c => in_range c 97 122) w = true /\ w <> s) ->
    forallb word_char s = true -> delim rest -> first_prefix ws (s ++ rest) = None.
  Proof.
    intros Hws Hs Hd. induction ws as [|w t IH]; [reflexivity|]. cbn [first_prefix].
    destruct (Hws w (or_introl eq_refl)) as [Hw Hne].
    pose proof (try_word_none w s rest Hw Hs Hd Hne) as Hn. unfold try_word in Hn.
    destruct (strip_prefix w (s ++ rest)) as [r|]; [destruct (end_expr r); [discriminate|] |]; apply IH; intros w' Hin; apply Hws; right; exact Hin.
  Qed.

  (* bare text made of word characters, starting with a letter or `_`, that is not a keyword or literal word *)
  Lemma lex_bare s rest : forallb word_char s = true ->
    match s with c :: _ => is_alpha c || (c =? c_underscore) = true | [] => False end ->
    is_word T s = false -> delim rest -> lexw (s ++ rest) = Some (WIdent s, rest).
  Proof.
    intros Hs Hh Hw Hd. unfold is_word in Hw.
    assert (Hnot : forall w, In w (it_lex_keywords T ++ lit_words) -> w <> s).
    { intros w Hin ->. assert (existsb (leqb s) (it_lex_keywords T ++ lit_words) = true) as X; [|congruence].
      apply existsb_exists. exists s. split; [exact Hin | apply leqb_refl]. }
    unfold lex_word.
    assert (I1 : In w_true (it_lex_keywords T ++ lit_words)) by (apply in_or_app; right; left; reflexivity).
    assert (I2 : In w_false (it_lex_keywords T ++ lit_words)) by (apply in_or_app; right; right; left; reflexivity).
    assert (I3 : In w_null (it_lex_keywords T ++ lit_words)) by (apply in_or_app; right; right; right; left; reflexivity).
    rewrite (try_word_none w_true s rest eq_refl Hs Hd (Hnot _ I1)).
    rewrite (try_word_none w_false s rest eq_refl Hs Hd (Hnot _ I2)).
    rewrite (try_word_none w_null s rest eq_refl Hs Hd (Hnot _ I3)).
    rewrite first_prefix_none; [ | | exact Hs | exact Hd].
    2:{ intros w Hin. split; [apply kw_chars; exact Hin | apply Hnot; apply in_or_app; left; exact Hin]. }
    destruct s as [|c t]; [contradiction|]. cbn [app lex_plain]. rewrite Hh.
    cbn [forallb] in Hs. apply andb_true_iff in Hs as [_ Ht].
    fold word_char. change (fun x => is_alnum x || (x =? c_underscore)) with word_char.
    rewrite (take_while_stop word_char t rest Ht); [reflexivity|]. destruct rest; [exact I | exact Hd].
  Qed.

  (* text in backticks *)
  Lemma lex_bt s rest : contains c_backtick s = false -> lexw (bt s ++ rest) = Some (WIdent s, rest).
  Proof.
    intro Hs. unfold bt. cbn [app]. unfold lex_word.
    assert (Hw : forall w, w <> [] -> forallb (fun c => in_range c 97 122) w = true -> strip_prefix w (c_backtick :: (s ++ [c_backtick]) ++ rest) = None).
    { intros w Hne Hl. destruct w as [|x w]; [contradiction|]. cbn [strip_prefix forallb] in *. apply andb_true_iff in Hl as [Hx _].
      destruct (N.eqb_spec x c_backtick) as [->|]; [discriminate Hx | reflexivity]. }
    unfold try_word. rewrite (Hw w_true ltac:(discriminate) eq_refl), (Hw w_false ltac:(discriminate) eq_refl), (Hw w_null ltac:(discriminate) eq_refl).
    assert (first_prefix (it_lex_keywords T) (c_backtick :: (s ++ [c_backtick]) ++ rest) = None) as ->.
    { assert (forall ws, (forall w, In w ws -> In w (it_lex_keywords T)) -> first_prefix ws (c_backtick :: (s ++ [c_backtick]) ++ rest) = None) as X.
      { induction ws as [|w t IH]; intro Hin; [reflexivity|]. cbn [first_prefix].
        destruct (kw_chars w (Hin w (or_introl eq_refl))) as [Hne Hl]. rewrite (Hw w Hne Hl). apply IH. intros w' Hw'. apply Hin. right; exact Hw'. }
      apply X. auto. }
    cbn [lex_plain]. rewrite ascii_alpha by (vm_compute; reflexivity). change (in_ranges letters c_backtick) with false.
    change (c_backtick =? c_underscore) with false. cbn [orb].
    cbn [lex_backtick]. rewrite N.eqb_refl. rewrite <- app_assoc. cbn [app].
    rewrite (take_while_stop (fun x => negb (x =? c_backtick)) s (c_backtick :: rest)).
    - reflexivity.
    - clear - Hs. induction s as [|c t IH]; [reflexivity|]. cbn [contains existsb forallb] in *. apply orb_false_iff in Hs as [Hc Ht].
      rewrite N.eqb_sym, Hc. cbn [negb andb]. apply IH. exact Ht.
    - rewrite N.eqb_refl. reflexivity.
  Qed.

  Lemma in_rest_ok c : in_ranges rest_ok c = true -> word_char c = true.
  Proof.
    unfold in_ranges, rest_ok, in_range. cbn [existsb fst snd]. intros H. unfold word_char.
    repeat (apply orb_true_iff in H as [H|H]); try discriminate H;
      apply andb_true_iff in H as [H1 H2]; apply N.leb_le in H1, H2;
      try (assert (c = 95) as -> by lia; rewrite orb_true_r; reflexivity);
      (rewrite ascii_alnum by lia; unfold in_ranges, alnum_ascii, in_range; cbn [existsb fst snd];
       apply N.leb_le in H1, H2; rewrite H1, H2; cbn [andb orb]; rewrite ?orb_true_r; reflexivity).
  Qed.
  Lemma in_start_ok c : in_ranges start_ok c = true -> is_alpha c || (c =? c_underscore) = true.
  Proof.
    unfold in_ranges, start_ok, in_range. cbn [existsb fst snd]. intros H.
    repeat (apply orb_true_iff in H as [H|H]); try discriminate H;
      apply andb_true_iff in H as [H1 H2]; apply N.leb_le in H1, H2;
      try (assert (c = 95) as -> by lia; rewrite orb_true_r; reflexivity);
      (rewrite ascii_alpha by lia; unfold in_ranges, letters, in_range; cbn [existsb fst snd];
       apply N.leb_le in H1, H2; rewrite H1, H2; cbn [andb orb]; rewrite ?orb_true_r; reflexivity).
  Qed.

  Lemma forallb_imp (p r : N -> bool) t : (forall c, p c = true -> r c = true) -> forallb p t = true -> forallb r t = true.
  Proof.
    intros Himp. induction t as [|c u IH]; [reflexivity|]. cbn [forallb]. intro H. apply andb_true_iff in H as [Hc Hu].
    rewrite (Himp c Hc), (IH Hu). reflexivity.
  Qed.

  Lemma bare_lexes (start rest_r : list (N * N)) c t rest :
    ranges_sub start start_ok = true -> ranges_sub rest_r rest_ok = true ->
    in_ranges start c = true -> forallb (in_ranges rest_r) t = true ->
    is_word T (c :: t) = false -> delim rest ->
    lexw ((c :: t) ++ rest) = Some (WIdent (c :: t), rest).
  Proof.
    intros S1 S2 Hc Ht Hw Hdl.
    pose proof (in_start_ok c (ranges_sub_in _ _ _ S1 Hc)) as Hstart.
    apply lex_bare; [ | exact Hstart | exact Hw | exact Hdl].
    cbn [forallb]. apply andb_true_iff. split.
    - unfold word_char. apply orb_true_iff in Hstart as [Ha|Hu]; [rewrite (alpha_alnum c Ha); reflexivity | rewrite Hu; apply orb_true_r].
    - apply (forallb_imp (in_ranges rest_r)); [|exact Ht]. intros x Hx. apply in_rest_ok. exact (ranges_sub_in _ _ _ S2 Hx).
  Qed.

  (* a name outside a printer's reserved list is no keyword / literal word when that list covers them *)
  Lemma not_reserved_not_word big s : covers big (it_lex_keywords T ++ lit_words) = true ->
    existsb (leqb s) big = false -> is_word T s = false.
  Proof.
    intros Hc Hn. unfold is_word. destruct (existsb (leqb s) (it_lex_keywords T ++ lit_words)) eqn:E; [|reflexivity].
    apply existsb_exists in E as [w [Hin Hw]]. apply leqb_spec in Hw. subst w.
    unfold covers in Hc. rewrite forallb_forall in Hc. rewrite (Hc s Hin) in Hn. discriminate.
  Qed.

  (* every name (the wildcard `*` included: valid_prql_ident no longer accepts it, commit 328740d) *)
  Theorem write_ident_lexes s rest : contains c_backtick s = false -> delim rest ->
    lexw (write_ident_part T s ++ rest) = Some (WIdent s, rest).
  Proof.
    intros Hb Hd. unfold write_ident_part in *.
    destruct (valid_prql_ident T s && negb (existsb (leqb s) (it_fmt_keywords T))) eqn:B; [|apply lex_bt; exact Hb].
    apply andb_true_iff in B as [Hv Hkw]. apply negb_true_iff in Hkw. unfold valid_prql_ident in Hv.
    destruct s as [|c t]; [discriminate|]. apply andb_true_iff in Hv as [Hc Ht].
    pose proof TOK as TK. unfold idtab_ok in TK. repeat (apply andb_true_iff in TK as [TK ?]).
    apply (bare_lexes (it_fmt_start T) (it_fmt_rest T)); try assumption.
    apply (not_reserved_not_word (it_fmt_keywords T)); assumption.
  Qed.

  Theorem display_ident_lexes s rest : contains c_backtick s = false -> delim rest ->
    lexw (display_ident_part T s ++ rest) = Some (WIdent s, rest).
  Proof.
    intros Hb Hd. unfold display_ident_part.
    destruct s as [|c t]; [apply lex_bt; exact Hb|].
    destruct (in_ranges (it_disp_start T) c && forallb (in_ranges (it_disp_rest T)) t && negb (existsb (leqb (c :: t)) (it_disp_reserved T))) eqn:B;
      [|apply lex_bt; exact Hb].
    apply andb_true_iff in B as [B Hres]. apply negb_true_iff in Hres. apply andb_true_iff in B as [Hc Ht].
    pose proof TOK as TK. unfold idtab_ok in TK. repeat (apply andb_true_iff in TK as [TK ?]).
    apply (bare_lexes (it_disp_start T) (it_disp_rest T)); try assumption.
    apply (not_reserved_not_word (it_disp_reserved T)); assumption.
  Qed.
End Idents.

(* ------------------------------------------------------------------ hexadecimal digits (for \u{...}) *)
Lemma hex_digit_props d : d < 16 ->
  is_hex (hex_digit d) = true /\ hex_val (hex_digit d) = d /\ (hex_digit d =? c_rbrace) = false.
Proof.
  intro Hd. unfold hex_digit, is_hex, hex_val, is_digit, in_range, c_rbrace, c_zero.
  destruct (N.ltb_spec d 10) as [H|H].
  - assert (48 <=? 48 + d = true) as -> by (apply N.leb_le; lia).
    assert (48 + d <=? 57 = true) as -> by (apply N.leb_le; lia).
    cbn [andb orb]. repeat split; [lia|]. apply N.eqb_neq. lia.
  - assert (48 <=? 87 + d = true) as -> by (apply N.leb_le; lia).
    assert (87 + d <=? 57 = false) as -> by (apply N.leb_gt; lia).
    assert (97 <=? 87 + d = true) as -> by (apply N.leb_le; lia).
    assert (87 + d <=? 102 = true) as -> by (apply N.leb_le; lia).
    cbn [andb orb]. repeat split; [lia|]. apply N.eqb_neq. lia.
Qed.

Lemma hex_fuel_S f n acc :
  hex_fuel (S f) n acc = if n / 16 =? 0 then hex_digit (n mod 16) :: acc else hex_fuel f (n / 16) (hex_digit (n mod 16) :: acc).
Proof. reflexivity. Qed.

(* scanning hex digits: what lex_u_digits computes on  digits ++ } :: rest *)
Fixpoint hex_value (l : str) (a : N) : N := match l with [] => a | c :: t => hex_value t (a * 16 + hex_val c) end.
Definition hexs (l : str) : Prop := Forall (fun c => is_hex c = true /\ (c =? c_rbrace) = false) l.

Lemma hex_value_app l1 l2 a : hex_value (l1 ++ l2) a = hex_value l2 (hex_value l1 a).
Proof. revert a; induction l1 as [|c t IH]; intro a; cbn [app hex_value]; auto. Qed.

Lemma lex_u_digits_spec l : hexs l -> forall rest fuel acc n, (length l + n <= 6)%nat -> (length l < fuel)%nat ->
  lex_u_digits fuel (l ++ c_rbrace :: rest) acc n = (hex_value l acc, rest).
Proof.
  induction 1 as [|c t [Hc1 Hc2] Ht IH]; intros rest fuel acc n Hn Hf.
  - destruct fuel; [cbn in Hf; lia|]. cbn [app lex_u_digits]. rewrite N.eqb_refl. reflexivity.
  - destruct fuel; [cbn in Hf; lia|]. cbn [app lex_u_digits length] in *. rewrite Hc2, Hc1.
    destruct (Nat.ltb_spec n 6); [|lia]. cbn [andb]. apply IH; lia.
Qed.

Lemma hex_fuel_spec : forall f n acc, n < 2 ^ N.of_nat f ->
  exists l, hex_fuel (S f) n acc = l ++ acc /\ hexs l /\ (forall a, hex_value l a = a * 16 ^ N.of_nat (length l) + n) /\
            (forall k, n < 16 ^ N.of_nat (S k) -> (length l <= S k)%nat).
Proof.
  induction f as [|f IH]; intros n acc Hn.
  - assert (n = 0) as -> by (cbn in Hn; lia). exists [hex_digit 0]. split; [reflexivity|].
    destruct (hex_digit_props 0 ltac:(lia)) as [H1 [H2 H3]].
    split; [repeat constructor; assumption|]. split.
    + intro a. cbn [hex_value length]. rewrite H2. change (N.of_nat 1) with 1. rewrite N.pow_1_r. lia.
    + intros k _. cbn [length]. lia.
  - rewrite hex_fuel_S. pose proof (N.div_mod' n 16) as Hdm. pose proof (N.mod_lt n 16 ltac:(discriminate)) as Hm.
    destruct (hex_digit_props (n mod 16) Hm) as [H1 [H2 H3]].
    destruct (N.eqb_spec (n / 16) 0) as [E|E].
    + exists [hex_digit (n mod 16)]. split; [reflexivity|].
      assert (n = n mod 16) as Hnn by (rewrite E in Hdm; rewrite N.mul_0_r, N.add_0_l in Hdm; exact Hdm).
      split; [repeat constructor; assumption|]. split.
      * intro a. cbn [hex_value length]. rewrite H2, <- Hnn. change (N.of_nat 1) with 1. rewrite N.pow_1_r. reflexivity.
      * intros k _. cbn [length]. lia.
    + assert (n / 16 < 2 ^ N.of_nat f) as Hlt.
      { rewrite Nat2N.inj_succ, N.pow_succ_r' in Hn. clear IH H1 H2 H3. set (q := n / 16) in *. set (m := n mod 16) in *.
        set (X := 2 ^ N.of_nat f) in *. clearbody q m X. lia. }
      destruct (IH (n / 16) (hex_digit (n mod 16) :: acc) Hlt) as [l' [El' [Hh [Hv Hlen]]]].
      exists (l' ++ [hex_digit (n mod 16)]). split; [rewrite El', <- app_assoc; reflexivity|].
      split; [apply Forall_app; split; [exact Hh | repeat constructor; assumption]|]. split.
      * intro a. rewrite hex_value_app, Hv. cbn [hex_value]. rewrite H2. rewrite app_length. cbn [length].
        rewrite Nat.add_1_r, Nat2N.inj_succ, N.pow_succ_r'.
        set (P := 16 ^ N.of_nat (length l')). rewrite Hdm at 3. set (q := n / 16). set (m := n mod 16). ring.
      * intros k Hk. rewrite app_length. cbn [length]. rewrite Nat.add_1_r.
        destruct k as [|k].
        { exfalso. change (N.of_nat 1) with 1 in Hk. rewrite N.pow_1_r in Hk. clear - Hk Hdm E Hm.
          set (q := n / 16) in *. set (m := n mod 16) in *. clearbody q m. lia. }
        apply le_n_S. apply Hlen. rewrite Nat2N.inj_succ, N.pow_succ_r' in Hk.
        clear - Hk Hdm Hm. set (q := n / 16) in *. set (m := n mod 16) in *. set (X := 16 ^ N.of_nat (S k)) in *. clearbody q m X. lia.
Qed.

Lemma show_hex_spec n : n < 16777216 ->
  hexs (show_hex n) /\ hex_value (show_hex n) 0 = n /\ (length (show_hex n) <= 6)%nat.
Proof.
  intro Hn. unfold show_hex. destruct (hex_fuel_spec (N.size_nat n) n [] (size_nat_gt n)) as [l [E [Hh [Hv Hl]]]].
  rewrite E, app_nil_r. split; [exact Hh|]. split; [rewrite Hv; lia|]. apply (Hl 5%nat). exact Hn.
Qed.

(* ------------------------------------------------------------------ strings *)
Lemma escape_char_nonempty c : escape_char c <> [].
Proof.
  unfold escape_char, escape_default. destruct (is_quote c); [discriminate|].
  repeat match goal with |- context [if ?b then _ else _] => destruct b; try discriminate end.
Qed.

(* the chunk printed for one character never starts with a quote other than the character itself *)
Lemma escape_char_head c q : is_quote q = true -> c <> q ->
  match escape_char c with x :: _ => x <> q | [] => False end.
Proof.
  intros Hq Hne. unfold escape_char. destruct (is_quote c) eqn:Ec; [exact Hne|].
  unfold escape_default.
  assert (Hb : c_bslash <> q).
  { intros <-. discriminate Hq. }
  repeat match goal with |- context [if ?b then _ else _] => destruct b eqn:?; try exact Hb end.
  - exact Hne.
Qed.

Lemma lex_escape_t q r : lex_escape q (116 :: r) = (9, r). Proof. reflexivity. Qed.
Lemma lex_escape_r q r : lex_escape q (114 :: r) = (13, r). Proof. reflexivity. Qed.
Lemma lex_escape_n q r : lex_escape q (110 :: r) = (10, r). Proof. reflexivity. Qed.
Lemma lex_escape_b q r : lex_escape q (c_bslash :: r) = (c_bslash, r). Proof. reflexivity. Qed.

Lemma lex_escape_u q l rest : hexs l -> (length l <= 6)%nat ->
  lex_escape q (c_u :: c_lbrace :: l ++ c_rbrace :: rest) =
  ((if valid_scalar (hex_value l 0) then hex_value l 0 else 65533), rest).
Proof.
  intros Hh Hl.
  change (lex_escape q (c_u :: c_lbrace :: l ++ c_rbrace :: rest)) with
    (let '(v, r) := lex_u_digits 8 (l ++ c_rbrace :: rest) 0 O in ((if valid_scalar v then v else 65533), r)).
  rewrite (lex_u_digits_spec l Hh rest 8 0 0); [reflexivity | lia | lia].
Qed.

Lemma valid_scalar_bound c : valid_scalar c = true -> c < 16777216.
Proof.
  unfold valid_scalar. intro H. apply orb_true_iff in H as [H|H].
  - apply N.ltb_lt in H. lia.
  - apply andb_true_iff in H as [_ H]. apply N.ltb_lt in H. lia.
Qed.

Lemma lex_content_S fuel q n s acc :
  lex_content (S fuel) q n s acc =
  if (n <=? count_prefix q s)%nat then Some (rev acc, skipn n s)
  else match s with
       | [] => None
       | c :: t => if c =? c_bslash then let '(ch, r) := lex_escape q t in lex_content fuel q n r (ch :: acc)
                   else lex_content fuel q n t (c :: acc)
       end.
Proof. reflexivity. Qed.

(* one character of the value: its chunk is consumed and decodes to the character *)
Lemma chunk_step c q n rest fuel acc : valid_scalar c = true ->
  (n <=? count_prefix q (escape_char c ++ rest))%nat = false ->
  lex_content (S fuel) q n (escape_char c ++ rest) acc = lex_content fuel q n rest (c :: acc).
Proof.
  intros Hv Hcp. rewrite lex_content_S, Hcp. unfold escape_char, escape_default.
  destruct (is_quote c) eqn:Eq.
  { cbn [app]. unfold is_quote in Eq. destruct (N.eqb_spec c c_bslash) as [->|]; [discriminate Eq | reflexivity]. }
  destruct (N.eqb_spec c 9) as [->|]; [cbn [app]; rewrite N.eqb_refl, lex_escape_t; reflexivity|].
  destruct (N.eqb_spec c 13) as [->|]; [cbn [app]; rewrite N.eqb_refl, lex_escape_r; reflexivity|].
  destruct (N.eqb_spec c 10) as [->|]; [cbn [app]; rewrite N.eqb_refl, lex_escape_n; reflexivity|].
  destruct (N.eqb_spec c c_bslash) as [->|Hb]; [cbn [app]; rewrite N.eqb_refl, lex_escape_b; reflexivity|].
  destruct (N.eqb_spec c c_squote) as [->|]; [discriminate Eq|].
  destruct (N.eqb_spec c c_dquote) as [->|]; [discriminate Eq|].
  destruct (in_range c 32 126).
  { cbn [app]. destruct (N.eqb_spec c c_bslash); [contradiction | reflexivity]. }
  destruct (show_hex_spec c (valid_scalar_bound c Hv)) as [Hh [Hval Hlen]].
  cbn [app]. rewrite N.eqb_refl. rewrite <- app_assoc. cbn [app].
  rewrite (lex_escape_u q (show_hex c) rest Hh Hlen). rewrite Hval, Hv. reflexivity.
Qed.

Definition esc := escape_all_except_quotes.
Lemma esc_app a b : esc (a ++ b) = esc a ++ esc b.
Proof. unfold esc, escape_all_except_quotes. apply flat_map_app. Qed.
Lemma esc_cons c t : esc (c :: t) = escape_char c ++ esc t.
Proof. reflexivity. Qed.

Lemma count_prefix_repeat q n r : count_prefix q (repeat q n ++ r) = (n + count_prefix q r)%nat.
Proof. induction n as [|n IH]; [reflexivity|]. cbn [repeat app count_prefix]. rewrite N.eqb_refl, IH. reflexivity. Qed.
Lemma skipn_repeat {A} (x : A) n r : skipn n (repeat x n ++ r) = r.
Proof. induction n as [|n IH]; [reflexivity|]. exact IH. Qed.

(* the content loop decodes a value printed chunk by chunk (`ch` = text of one character), provided every chunk decodes
   to its character and no chunk boundary looks like the closing delimiter *)
Lemma content_gen (ch : N -> str) q n :
  (forall c rest fuel acc, valid_scalar c = true -> (n <=? count_prefix q (ch c ++ rest))%nat = false ->
     lex_content (S fuel) q n (ch c ++ rest) acc = lex_content fuel q n rest (c :: acc)) ->
  forall s acc fuel, forallb valid_scalar s = true -> (length s < fuel)%nat ->
  (forall s1 s2, s = s1 ++ s2 -> s2 <> [] -> (count_prefix q (flat_map ch s2 ++ repeat q n) < n)%nat) ->
  lex_content fuel q n (flat_map ch s ++ repeat q n) acc = Some (rev acc ++ s, []).
Proof.
  intro Hstep. induction s as [|c t IH]; intros acc fuel Hv Hf Hsuf.
  - destruct fuel; [cbn in Hf; lia|]. rewrite lex_content_S. cbn [flat_map app].
    rewrite <- (app_nil_r (repeat q n)) at 1. rewrite count_prefix_repeat. cbn [count_prefix].
    destruct (Nat.leb_spec n (n + 0)); [|lia]. rewrite <- (app_nil_r (repeat q n)) at 1. rewrite skipn_repeat, app_nil_r. reflexivity.
  - destruct fuel; [cbn in Hf; lia|]. cbn [forallb] in Hv. apply andb_true_iff in Hv as [Hc Ht].
    cbn [flat_map]. rewrite <- app_assoc. rewrite Hstep; [|exact Hc|].
    + rewrite IH; [cbn [rev]; rewrite <- app_assoc; reflexivity | exact Ht | cbn [length] in Hf; lia|].
      intros s1 s2 E Hne. apply (Hsuf (c :: s1) s2); [rewrite E; reflexivity | exact Hne].
    + apply Nat.leb_gt. rewrite app_assoc. apply (Hsuf [] (c :: t)); [reflexivity | discriminate].
Qed.

Lemma content_decodes q n : forall s acc fuel, forallb valid_scalar s = true -> (length s < fuel)%nat ->
  (forall s1 s2, s = s1 ++ s2 -> s2 <> [] -> (count_prefix q (esc s2 ++ repeat q n) < n)%nat) ->
  lex_content fuel q n (esc s ++ repeat q n) acc = Some (rev acc ++ s, []).
Proof. apply (content_gen escape_char q n). intros c rest fuel acc Hv Hcp. apply chunk_step; assumption. Qed.

(* ---- the escaping branch of quote_string: every double quote of the escaped text becomes backslash double-quote *)
Definition esc2 (c : N) : str := if c =? c_dquote then [c_bslash; c_dquote] else escape_char c.

Lemma escape_dquotes_id l : forallb (fun c => negb (c =? c_dquote)) l = true -> escape_dquotes l = l.
Proof.
  unfold escape_dquotes. induction l as [|c t IH]; [reflexivity|]. cbn [forallb flat_map]. intro H. apply andb_true_iff in H as [Hc Ht].
  apply negb_true_iff in Hc. rewrite Hc. cbn [app]. rewrite (IH Ht). reflexivity.
Qed.
Lemma escape_dquotes_app a b : escape_dquotes (a ++ b) = escape_dquotes a ++ escape_dquotes b.
Proof. unfold escape_dquotes. apply flat_map_app. Qed.

Lemma hexs_no_dquote l : hexs l -> forallb (fun c => negb (c =? c_dquote)) l = true.
Proof.
  induction 1 as [|c t [Hc _] Ht IH]; [reflexivity|]. cbn [forallb]. rewrite IH, andb_true_r.
  destruct (N.eqb_spec c c_dquote) as [->|]; [discriminate Hc | reflexivity].
Qed.

Lemma escape_char_no_dquote c : valid_scalar c = true -> c <> c_dquote ->
  forallb (fun x => negb (x =? c_dquote)) (escape_char c) = true.
Proof.
  intros Hv Hne. unfold escape_char, escape_default. unfold is_quote.
  destruct (N.eqb_spec c c_dquote) as [|_]; [contradiction|]. cbn [orb].
  destruct (N.eqb_spec c c_squote) as [->|]; [reflexivity|].
  destruct (N.eqb_spec c 9); [reflexivity|]. destruct (N.eqb_spec c 13); [reflexivity|]. destruct (N.eqb_spec c 10); [reflexivity|].
  destruct (N.eqb_spec c c_bslash); [reflexivity|].
  destruct (in_range c 32 126).
  - cbn [forallb]. destruct (N.eqb_spec c c_dquote); [contradiction | reflexivity].
  - destruct (show_hex_spec c (valid_scalar_bound c Hv)) as [Hh _].
    cbn [forallb]. change (negb (c_bslash =? c_dquote)) with true. change (negb (c_u =? c_dquote)) with true. change (negb (c_lbrace =? c_dquote)) with true.
    cbn [andb]. rewrite forallb_app, (hexs_no_dquote _ Hh). reflexivity.
Qed.

Lemma escape_dquotes_esc s : forallb valid_scalar s = true -> escape_dquotes (esc s) = flat_map esc2 s.
Proof.
  induction s as [|c t IH]; [reflexivity|]. cbn [forallb]. intro H. apply andb_true_iff in H as [Hc Ht].
  rewrite esc_cons, escape_dquotes_app, (IH Ht). cbn [flat_map]. f_equal. unfold esc2.
  destruct (N.eqb_spec c c_dquote) as [->|Hne]; [reflexivity|]. apply escape_dquotes_id, escape_char_no_dquote; assumption.
Qed.

Lemma lex_escape_dq r : lex_escape c_dquote (c_dquote :: r) = (c_dquote, r). Proof. reflexivity. Qed.

Lemma chunk_step2 c n rest fuel acc : valid_scalar c = true ->
  (n <=? count_prefix c_dquote (esc2 c ++ rest))%nat = false ->
  lex_content (S fuel) c_dquote n (esc2 c ++ rest) acc = lex_content fuel c_dquote n rest (c :: acc).
Proof.
  intros Hv Hcp. unfold esc2 in *. destruct (N.eqb_spec c c_dquote) as [->|Hne]; [|apply chunk_step; assumption].
  rewrite lex_content_S, Hcp. cbn [app]. rewrite N.eqb_refl, lex_escape_dq. reflexivity.
Qed.

Lemma esc2_head c : match esc2 c with x :: _ => x <> c_dquote | [] => False end.
Proof.
  unfold esc2. destruct (N.eqb_spec c c_dquote) as [->|Hne]; [discriminate|]. apply escape_char_head; [reflexivity | exact Hne].
Qed.

Lemma escaped_branch s : forallb valid_scalar s = true -> s <> [] ->
  lex_quoted c_dquote (c_dquote :: flat_map esc2 s ++ [c_dquote]) = Some (s, []).
Proof.
  intros Hv Hne.
  assert (Hsuf : forall s1 s2, s = s1 ++ s2 -> s2 <> [] -> (count_prefix c_dquote (flat_map esc2 s2 ++ repeat c_dquote 1) < 1)%nat).
  { intros s1 s2 _ H2. destruct s2 as [|c t]; [contradiction|]. cbn [flat_map]. pose proof (esc2_head c) as Hh.
    destruct (esc2 c) as [|x r]; [contradiction|]. cbn [app count_prefix]. destruct (N.eqb_spec x c_dquote); [contradiction | lia]. }
  unfold lex_quoted.
  assert (Hcp : count_prefix c_dquote (c_dquote :: flat_map esc2 s ++ [c_dquote]) = 1%nat).
  { cbn [count_prefix]. rewrite N.eqb_refl. pose proof (Hsuf [] s eq_refl Hne) as H. cbn [repeat] in H. lia. }
  rewrite Hcp. cbn [Nat.eqb Nat.even skipn].
  change [c_dquote] with (repeat c_dquote 1).
  rewrite (content_gen esc2 c_dquote 1); [reflexivity | | exact Hv | | exact Hsuf].
  - intros c rest fuel acc Hc Hcp'. apply chunk_step2; assumption.
  - cbn [length]. rewrite app_length. cbn [length repeat]. assert (length s <= length (flat_map esc2 s))%nat; [|lia]. clear - Hv. induction s as [|c t IH]; [cbn; lia|].
    cbn [flat_map forallb] in *. apply andb_true_iff in Hv as [_ Ht]. rewrite app_length. cbn [length].
    pose proof (esc2_head c). destruct (esc2 c); [contradiction|]. cbn [length]. specialize (IH Ht). lia.
Qed.

Lemma count_prefix_app q a b :
  count_prefix q (a ++ b) = if forallb (N.eqb q) a then (length a + count_prefix q b)%nat else count_prefix q a.
Proof.
  induction a as [|c t IH]; [reflexivity|]. cbn [app count_prefix forallb length].
  rewrite (N.eqb_sym q c). destruct (c =? q); [|reflexivity]. cbn [andb]. rewrite IH. destruct (forallb (N.eqb q) t); reflexivity.
Qed.

Lemma contains_false_forall q a : contains q a = false -> a <> [] -> forallb (N.eqb q) a = false /\ count_prefix q a = O.
Proof.
  destruct a as [|c t]; [contradiction|]. intros H _. cbn [contains existsb] in H. apply orb_false_iff in H as [Hc _].
  cbn [forallb count_prefix]. rewrite Hc. rewrite (N.eqb_sym c q), Hc. split; reflexivity.
Qed.

Lemma contains_app q a b : contains q (a ++ b) = contains q a || contains q b.
Proof. unfold contains. apply existsb_app. Qed.

Lemma esc_nil s : esc s = [] -> s = [].
Proof. destruct s as [|c t]; [reflexivity|]. rewrite esc_cons. intro H. apply app_eq_nil in H as [H _]. destruct (escape_char_nonempty c H). Qed.

Lemma esc_length s : (length s <= length (esc s))%nat.
Proof.
  induction s as [|c t IH]; [reflexivity|]. rewrite esc_cons, app_length. cbn [length].
  pose proof (escape_char_nonempty c). destruct (escape_char c); [contradiction|]. cbn [length]. lia.
Qed.

(* runs *)
Lemma max_run_aux_ge q s cur best : (best <= max_run_aux q s cur best /\ cur + count_prefix q s <= max_run_aux q s cur best)%nat.
Proof.
  revert cur best; induction s as [|c t IH]; intros cur best; cbn [max_run_aux count_prefix].
  - lia.
  - destruct (c =? q).
    + destruct (IH (S cur) best). lia.
    + destruct (IH O (Nat.max cur best)). lia.
Qed.
Lemma max_run_suffix q a b : forall cur best, (count_prefix q b <= max_run_aux q (a ++ b) cur best)%nat.
Proof.
  induction a as [|c t IH]; intros cur best; cbn [app].
  - destruct (max_run_aux_ge q b cur best). lia.
  - cbn [max_run_aux]. destruct (c =? q); apply IH.
Qed.
Lemma next_odd_gt n : (n < next_odd n)%nat /\ Nat.even (next_odd n) = false.
Proof.
  unfold next_odd. split.
  - pose proof (Nat.div2_odd (S n)). destruct (Nat.odd (S n)); cbn [Nat.b2n] in *; lia.
  - rewrite Nat.add_1_r, Nat.even_succ, Nat.mul_comm, Nat.odd_mul, Nat.odd_2. reflexivity.
Qed.

Lemma ends_with_app q a b : b <> [] -> ends_with q (a ++ b) = ends_with q b.
Proof.
  intro Hb. unfold ends_with. rewrite rev_app_distr. destruct (rev b) eqn:E; [|reflexivity].
  apply (f_equal (@rev N)) in E. rewrite rev_involutive in E. contradiction.
Qed.
Lemma forall_q_ends q b : b <> [] -> forallb (N.eqb q) b = true -> ends_with q b = true.
Proof.
  intros Hb H. unfold ends_with. destruct (rev b) as [|x r] eqn:E.
  - apply (f_equal (@rev N)) in E. rewrite rev_involutive in E. contradiction.
  - rewrite forallb_forall in H. assert (In x b) as Hin by (apply in_rev; rewrite E; left; reflexivity).
    specialize (H x Hin). rewrite N.eqb_sym. exact H.
Qed.

(* one quoting style: delimiter of n copies of q around e = esc s *)
Lemma lex_quoted_style q n s : is_quote q = true -> forallb valid_scalar s = true ->
  Nat.even n = false -> starts_with q (esc s) = false ->
  (forall s1 s2, s = s1 ++ s2 -> s2 <> [] -> (count_prefix q (esc s2 ++ repeat q n) < n)%nat) ->
  s <> [] ->
  lex_quoted q (repeat q n ++ esc s ++ repeat q n) = Some (s, []).
Proof.
  intros Hq Hv Hodd Hst Hsuf Hne. unfold lex_quoted.
  assert (Hcp : count_prefix q (repeat q n ++ esc s ++ repeat q n) = n).
  { rewrite count_prefix_repeat. destruct (esc s) as [|x r] eqn:E; [apply esc_nil in E; contradiction|].
    cbn [app count_prefix]. cbn [starts_with] in Hst. rewrite Hst. lia. }
  rewrite Hcp. destruct n as [|n]; [discriminate Hodd|]. cbn [Nat.eqb]. rewrite Hodd.
  rewrite skipn_repeat. rewrite content_decodes; [reflexivity | exact Hv | | exact Hsuf].
  rewrite !app_length, repeat_length. pose proof (esc_length s). lia.
Qed.

Theorem string_roundtrip s : forallb valid_scalar s = true -> lex_string (fmt_string s) = Some (s, []).
Proof.
  intros Hv. unfold fmt_string, quote_string. fold (esc s).
  destruct (contains c_dquote (esc s)) eqn:Cd; cbn [negb].
  2:{ (* no double quote in the escaped text: one double quote as delimiter *)
    unfold lex_string. destruct s as [|c t].
    - reflexivity.
    - change (c_dquote :: esc (c :: t) ++ [c_dquote]) with (repeat c_dquote 1 ++ esc (c :: t) ++ repeat c_dquote 1).
      rewrite lex_quoted_style; try reflexivity; try assumption; try discriminate.
      + destruct (esc (c :: t)) as [|x r]; [reflexivity|]. cbn [contains existsb] in Cd. apply orb_false_iff in Cd as [Cd _].
        cbn [starts_with]. rewrite N.eqb_sym. exact Cd.
      + intros s1 s2 E Hne. rewrite E, esc_app, contains_app in Cd. apply orb_false_iff in Cd as [_ Cd].
        assert (esc s2 <> []) as Hn2 by (intro X; apply esc_nil in X; contradiction).
        destruct (contains_false_forall _ _ Cd Hn2) as [Hf Hc]. rewrite count_prefix_app, Hf, Hc. lia. }
  destruct (contains c_squote (esc s)) eqn:Cs; cbn [negb].
  2:{ (* double quotes but no single quote: one single quote as delimiter *)
    unfold lex_string.
    assert (s <> []) as Hne by (intros ->; discriminate Cd).
    assert (lex_quoted c_dquote (c_squote :: esc s ++ [c_squote]) = None) as -> by reflexivity.
    change (c_squote :: esc s ++ [c_squote]) with (repeat c_squote 1 ++ esc s ++ repeat c_squote 1).
    apply lex_quoted_style; try reflexivity; try assumption.
    + destruct (esc s) as [|x r]; [reflexivity|]. cbn [contains existsb] in Cs. apply orb_false_iff in Cs as [Cs _].
      cbn [starts_with]. rewrite N.eqb_sym. exact Cs.
    + intros s1 s2 E Hne2. rewrite E, esc_app, contains_app in Cs. apply orb_false_iff in Cs as [_ Cs].
      assert (esc s2 <> []) as Hn2 by (intro X; apply esc_nil in X; contradiction).
      destruct (contains_false_forall _ _ Cs Hn2) as [Hf Hc]. rewrite count_prefix_app, Hf, Hc. lia. }
  (* both quotes occur *)
  assert (s <> []) as Hne by (intros ->; discriminate Cd).
  set (q := if starts_with c_dquote (esc s) || ends_with c_dquote (esc s) then c_squote else c_dquote) in *.
  destruct (starts_with q (esc s) || ends_with q (esc s)) eqn:He.
  { (* the chosen quote starts or ends the content: double quotes are escaped, one double quote delimits *)
    unfold lex_string. rewrite (escape_dquotes_esc s Hv), (escaped_branch s Hv Hne). reflexivity. }
  apply orb_false_iff in He as [Hst Hen].
  assert (Hq : is_quote q = true) by (unfold q; destruct (_ || _); reflexivity).
  destruct (next_odd_gt (max_run q (esc s))) as [Hgt Hodd].
  set (n := next_odd (max_run q (esc s))) in *.
  assert (Hsuf : forall s1 s2, s = s1 ++ s2 -> s2 <> [] -> (count_prefix q (esc s2 ++ repeat q n) < n)%nat).
  { intros s1 s2 E Hne2. assert (esc s2 <> []) as Hn2 by (intro X; apply esc_nil in X; contradiction).
    rewrite count_prefix_app. destruct (forallb (N.eqb q) (esc s2)) eqn:Hf.
    - exfalso. rewrite E, esc_app, (ends_with_app q _ _ Hn2), (forall_q_ends q _ Hn2 Hf) in Hen. discriminate.
    - pose proof (max_run_suffix q (esc s1) (esc s2) O O) as Hm. rewrite <- esc_app, <- E in Hm. unfold max_run in Hgt. lia. }
  pose proof (lex_quoted_style q n s Hq Hv Hodd Hst Hsuf Hne) as HL.
  unfold lex_string. unfold q in *. destruct (starts_with c_dquote (esc s) || ends_with c_dquote (esc s)).
  - (* single-quote delimiter: the double-quote attempt sees no opening quote *)
    assert (lex_quoted c_dquote (repeat c_squote n ++ esc s ++ repeat c_squote n) = None) as ->.
    { unfold lex_quoted. destruct n as [|n']; [discriminate Hodd|]. reflexivity. }
    exact HL.
  - rewrite HL. reflexivity.
Qed.



(* ------------------------------------------------------------------ floats *)
Lemma zeros_digits k : forallb is_digit (zeros k) = true.
Proof. induction k as [|k IH]; [reflexivity|]. cbn [zeros repeat forallb]. exact IH. Qed.
Lemma zeros_val k a : digits_val (zeros k) a = a * 10 ^ N.of_nat k.
Proof.
  revert a; induction k as [|k IH]; intro a.
  - cbn [zeros repeat digits_val]. change (N.of_nat 0) with 0. rewrite N.pow_0_r. lia.
  - cbn [zeros repeat digits_val]. change (is_digit c_zero) with true. cbv iota. fold (zeros k). rewrite IH.
    rewrite Nat2N.inj_succ, N.pow_succ_r'. unfold c_zero. set (P := 10 ^ N.of_nat k). clearbody P. lia.
Qed.
Lemma count_digits_all l : forallb is_digit l = true -> count_digits l = length l.
Proof.
  unfold count_digits. induction l as [|c t IH]; [reflexivity|]. cbn [forallb filter]. intro H. apply andb_true_iff in H as [-> Ht].
  cbn [length]. rewrite (IH Ht). reflexivity.
Qed.
Lemma forallb_firstn {A} (p : A -> bool) n l : forallb p l = true -> forallb p (firstn n l) = true.
Proof. revert l; induction n as [|n IH]; intros [|c t]; cbn [firstn forallb]; auto. intro H. apply andb_true_iff in H as [-> Ht]. apply IH; exact Ht. Qed.
Lemma forallb_skipn {A} (p : A -> bool) n l : forallb p l = true -> forallb p (skipn n l) = true.
Proof. revert l; induction n as [|n IH]; intros [|c t]; cbn [skipn forallb]; auto. intro H. apply andb_true_iff in H as [_ Ht]. apply IH; exact Ht. Qed.

Lemma norm_dec_id f m e : m <> 0 -> m mod 10 <> 0 -> norm_dec (S f) m e = FFin m e.
Proof.
  intros H0 H1. cbn [norm_dec]. destruct (N.eqb_spec m 0); [contradiction|]. destruct (N.eqb_spec (m mod 10) 0); [contradiction | reflexivity].
Qed.
Lemma norm_dec_strip : forall k f m e, m <> 0 -> m mod 10 <> 0 -> (k < f)%nat ->
  norm_dec f (m * 10 ^ N.of_nat k) e = FFin m (e + Z.of_nat k)%Z.
Proof.
  induction k as [|k IH]; intros f m e H0 H1 Hf.
  - destruct f; [lia|]. change (N.of_nat 0) with 0. rewrite N.pow_0_r, N.mul_1_r, Z.add_0_r. apply norm_dec_id; assumption.
  - destruct f; [lia|]. cbn [norm_dec]. rewrite Nat2N.inj_succ, N.pow_succ_r'.
    set (P := 10 ^ N.of_nat k). assert (P <> 0) as HP by (apply N.pow_nonzero; discriminate).
    assert (m * (10 * P) = (m * P) * 10) as -> by ring.
    destruct (N.eqb_spec (m * P * 10) 0) as [E|_]; [exfalso; apply N.eq_mul_0 in E as [E|E]; [apply N.eq_mul_0 in E as [E|E]; contradiction | discriminate]|].
    rewrite N.mod_mul by discriminate. rewrite N.eqb_refl. rewrite N.div_mul by discriminate.
    unfold P. rewrite IH; [|assumption|assumption|lia]. f_equal. lia.
Qed.

Lemma show_N_nonzero_head m : m <> 0 -> exists c t, show_N m = c :: t /\ is_digit c = true /\ (c =? c_zero) = false /\ forallb is_digit t = true.
Proof.
  intro Hm. destruct (show_N_spec m) as [_ Hd Hh]. destruct (show_N m) as [|c t]; [contradiction|].
  exists c, t. cbn [forallb] in Hd. apply andb_true_iff in Hd as [Hc Ht]. repeat split; try assumption.
  destruct (N.eqb_spec m 0); [contradiction|]. apply N.eqb_neq. exact Hh.
Qed.

Lemma dot_not_digit_or_us : is_digit_or_us c_dot = false. Proof. reflexivity. Qed.

Theorem float_roundtrip m e : flt_wf (FFin m e) = true -> float_prints_as_int (FFin m e) = false ->
  lex_number (fmt_float (FFin m e)) = Some (NFloat (FFin m e), []).
Proof.
  intros Hwf Hpi. cbn [flt_wf] in Hwf. cbn [float_prints_as_int] in Hpi.
  pose proof (d_val _ _ (show_N_spec m) 0) as Hval. rewrite N.mul_0_l, N.add_0_l in Hval.
  pose proof (d_dig _ _ (show_N_spec m)) as Hdig.
  destruct e as [|p|p]; cbn [fmt_float].
  - (* no exponent: an integer too large for i64 *)
    cbn [Z.leb Z.compare Z.to_N andb] in Hpi. rewrite N.pow_0_r, N.mul_1_r in Hpi.
    assert (m <> 0) as Hm0 by (intros ->; discriminate Hpi).
    destruct (N.eqb_spec m 0); [contradiction|]. apply negb_true_iff, N.eqb_neq in Hwf.
    unfold lex_number. rewrite lex_int_part_digits. cbn [lex_frac lex_exp]. rewrite Hval, Hpi.
    rewrite norm_dec_id by assumption. reflexivity.
  - (* trailing zeros *)
    destruct (N.eqb_spec m 0) as [->|Hm0]; [discriminate Hwf|]. apply negb_true_iff, N.eqb_neq in Hwf.
    cbn [Z.leb Z.compare Z.to_N andb] in Hpi.
    set (k := Pos.to_nat p). assert (Hk : N.of_nat k = N.pos p) by (unfold k; apply positive_nat_N).
    destruct (show_N_nonzero_head m Hm0) as [c [t [E [Hc [Hcz Ht]]]]].
    unfold lex_number, lex_int_part. rewrite E. cbn [app]. rewrite Hc, Hcz. cbn [negb andb].
    assert (Hall : forallb is_digit (t ++ zeros k) = true) by (rewrite forallb_app, Ht, zeros_digits; reflexivity).
    rewrite (take_while_all _ _ (digit_or_us _ Hall)). cbn [lex_frac lex_exp].
    assert (Hiv : digits_val (c :: t ++ zeros k) 0 = m * 10 ^ N.pos p).
    { change (c :: t ++ zeros k) with ((c :: t) ++ zeros k). rewrite <- E, digits_val_app, Hval, zeros_val, Hk. reflexivity. }
    rewrite Hiv, Hpi.
    assert (Hcd : count_digits (c :: t ++ zeros k) = length (c :: t ++ zeros k)).
    { apply count_digits_all. cbn [forallb]. rewrite Hc, Hall. reflexivity. }
    rewrite Hcd, <- Hk. rewrite norm_dec_strip; [ | assumption | assumption | ].
    + rewrite Z.add_0_l. unfold k. rewrite positive_nat_Z. reflexivity.
    + cbn [length]. rewrite app_length. unfold zeros. rewrite repeat_length. lia.
  - (* a fraction *)
    destruct (N.eqb_spec m 0) as [->|Hm0]; [discriminate Hwf|]. apply negb_true_iff, N.eqb_neq in Hwf.
    set (k := Pos.to_nat p). assert (Hkpos : (0 < k)%nat) by (unfold k; apply Pos2Nat.is_pos).
    assert (HkZ : (- Z.of_nat k)%Z = Z.neg p) by (unfold k; rewrite positive_nat_Z; reflexivity).
    destruct (show_N_nonzero_head m Hm0) as [c [t [E [Hc [Hcz Ht]]]]].
    set (ds := show_N m) in *. set (n := length ds).
    destruct (Nat.ltb_spec k n) as [Hkn|Hkn].
    + (* digits on both sides of the point *)
      assert (Hsplit : ds = firstn (n - k) ds ++ skipn (n - k) ds) by (symmetry; apply firstn_skipn).
      assert (Hip : firstn (n - k) ds = c :: firstn (n - k - 1) t).
      { rewrite E. destruct (n - k)%nat as [|j] eqn:Ej; [lia|]. replace (S j - 1)%nat with j by lia. reflexivity. }
      assert (Hfp : exists d fp', skipn (n - k) ds = d :: fp' /\ is_digit d = true /\ forallb is_digit fp' = true).
      { pose proof (forallb_skipn is_digit (n - k) ds Hdig) as Hs. pose proof (skipn_length (n - k) ds) as Hl. fold n in Hl.
        destruct (skipn (n - k) ds) as [|d fp']; [cbn [length] in Hl; lia|].
        cbn [forallb] in Hs. apply andb_true_iff in Hs as [Hd Hf]. exists d, fp'. auto. }
      destruct Hfp as [d [fp' [Efp [Hd Hfp']]]].
      unfold lex_number, lex_int_part. rewrite Hip, Efp. cbn [app]. rewrite Hc, Hcz. cbn [negb andb].
      rewrite (take_while_stop is_digit_or_us (firstn (n - k - 1) t) (c_dot :: d :: fp'));
        [ | apply digit_or_us, forallb_firstn; exact Ht | exact dot_not_digit_or_us].
      cbn [lex_frac]. rewrite N.eqb_refl, Hd. cbn [andb]. rewrite (take_while_all _ _ (digit_or_us _ Hfp')). cbn [lex_exp].
      assert (Hm : digits_val ((c :: firstn (n - k - 1) t) ++ d :: fp') 0 = m).
      { rewrite <- Hip, <- Efp, <- Hsplit. exact Hval. }
      rewrite Hm.
      assert (Hcnt : count_digits (d :: fp') = k).
      { rewrite count_digits_all by (cbn [forallb]; rewrite Hd, Hfp'; reflexivity). rewrite <- Efp, skipn_length. fold n. lia. }
      rewrite Hcnt, HkZ. rewrite norm_dec_id by assumption. reflexivity.
    + (* 0.000ddd *)
      unfold lex_number, lex_int_part. cbn [app]. change (is_digit c_zero) with true. rewrite N.eqb_refl. cbn [negb andb].
      assert (Hall : forallb is_digit (zeros (k - n) ++ ds) = true) by (rewrite forallb_app, zeros_digits; exact Hdig).
      destruct (zeros (k - n) ++ ds) as [|d fp'] eqn:Efp.
      { apply app_eq_nil in Efp as [_ X]. rewrite E in X. discriminate X. }
      cbn [forallb] in Hall. apply andb_true_iff in Hall as [Hd Hfp'].
      cbn [lex_frac]. rewrite N.eqb_refl, Hd. cbn [andb]. rewrite (take_while_all _ _ (digit_or_us _ Hfp')). cbn [lex_exp].
      assert (Hm : digits_val ([c_zero] ++ d :: fp') 0 = m).
      { rewrite <- Efp. cbn [app digits_val]. change (is_digit c_zero) with true. cbv iota.
        rewrite digits_val_app, zeros_val. change (0 * 10 + (c_zero - 48)) with 0. rewrite N.mul_0_l. exact Hval. }
      rewrite Hm.
      assert (Hcnt : count_digits (d :: fp') = k).
      { rewrite count_digits_all by (cbn [forallb]; rewrite Hd, Hfp'; reflexivity). rewrite <- Efp, app_length. unfold zeros. rewrite repeat_length. fold n. lia. }
      rewrite Hcnt, HkZ. rewrite norm_dec_id by assumption. reflexivity.
Qed.

Lemma float_roundtrip_refuted_witness :
  flt_wf (FFin 1 0) = true /\ lex_number (fmt_float (FFin 1 0)) = Some (NInt 1, []) /\
  lex_number (fmt_float FInf) = None.
Proof. repeat split; reflexivity. Qed.

(* ------------------------------------------------------------------ raw strings *)
Theorem raw_roundtrip s : forallb raw_ok s = true -> lex_raw (fmt_raw s) = Some (s, []).
Proof.
  intro H. unfold fmt_raw, quote_string.
  assert (contains c_dquote s = false) as ->.
  { clear - H. induction s as [|c t IH]; [reflexivity|]. cbn [forallb contains existsb] in *. apply andb_true_iff in H as [Hc Ht].
    unfold raw_ok, is_quote in Hc. rewrite !andb_true_iff, negb_true_iff, orb_false_iff in Hc. destruct Hc as [[[Hd _] _] _].
    rewrite N.eqb_sym, Hd. apply IH; exact Ht. }
  cbn [negb]. unfold lex_raw. change ((114 =? 114) && is_quote c_dquote) with true. cbv iota.
  rewrite (take_while_stop raw_ok s [c_dquote] H eq_refl). reflexivity.
Qed.

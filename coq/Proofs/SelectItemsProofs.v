(* C05: what the SELECT-list construction (Model/SelectItems.v) guarantees, for all inputs. *)
From Coq Require Import List Bool Arith NArith Lia Permutation.
From PV Require Import Lib.ListX Model.Ident Model.NameGen Proofs.NameGenProofs Model.Wildcards Proofs.WildcardsProofs Model.Dedup Proofs.DedupProofs Model.SelectItems.
Import ListNotations.

(* ---- small facts *)
Lemma ostr_eqb_spec a b : ostr_eqb a b = true <-> a = b.
Proof.
  destruct a as [x|], b as [y|]; cbn [ostr_eqb]; split; intro H; try discriminate; try reflexivity.
  - apply leqb_spec in H. subst; reflexivity.
  - injection H as ->. apply leqb_refl.
Qed.

Lemma nget_nset_same m c v : nget (nset m c v) c = Some v.
Proof.
  induction m as [|[k w] r IH]; cbn [nset nget].
  - rewrite Nat.eqb_refl. reflexivity.
  - destruct (Nat.eqb k c) eqn:E; cbn [nget]; rewrite E; [reflexivity | exact IH].
Qed.

Lemma nget_nset_other m c v d : d <> c -> nget (nset m c v) d = nget m d.
Proof.
  intro Hne. induction m as [|[k w] r IH]; cbn [nset nget].
  - destruct (Nat.eqb c d) eqn:E; [apply Nat.eqb_eq in E; congruence | reflexivity].
  - destruct (Nat.eqb k c) eqn:E; cbn [nget].
    + apply Nat.eqb_eq in E. subst k. destruct (Nat.eqb c d) eqn:E2; [apply Nat.eqb_eq in E2; congruence | reflexivity].
    + destruct (Nat.eqb k d); [reflexivity | exact IH].
Qed.

Lemma inferred_last e x : inferred e = Some x -> item_name (SUnnamed 0 e) = Some x /\ x <> star_s.
Proof.
  destruct e as [parts|s|]; cbn [inferred]; try discriminate.
  destruct (last_part parts) as [p|] eqn:L; [|discriminate].
  destruct (leqb p star_s) eqn:E; [discriminate|]. intro H. injection H as <-.
  cbn [item_name]. split; [exact L | apply leqb_neq; exact E].
Qed.

(* ---- translate_select_item *)
Section Item.
  Variable lower : str -> str.
  Variable reserved : list str.
  Hypothesis gen_stable : forall k, lower (gen_name expr_prefix k) = gen_name expr_prefix k.

  (* the function is total *)
  Lemma select_item_total st c e : exists it st', select_item lower reserved st c e = Some (it, st').
  Proof.
    unfold select_item. destruct (ostr_eqb (inferred e) (nget (cnames st) c)); [eauto|].
    destruct (nget (cnames st) c); [eauto|].
    destruct (select_item_alias_fresh lower expr_prefix reserved gen_stable (map snd (cnames st)) (counter st)) as (nm & n' & A & _).
    rewrite A. eauto.
  Qed.

  (* a column that has a name shows that name: as the last part of its identifier, or through an alias *)
  Theorem select_item_carries_name st c e it st' x :
    select_item lower reserved st c e = Some (it, st') -> nget (cnames st) c = Some x -> item_name it = Some x.
  Proof.
    unfold select_item. intros H Hx. rewrite Hx in H.
    destruct (ostr_eqb (inferred e) (Some x)) eqn:E.
    - injection H as <- <-. apply ostr_eqb_spec in E. destruct (inferred_last e x E) as [L _].
      destruct e; exact L.
    - injection H as <- <-. reflexivity.
  Qed.

  (* a column without a name whose expression gives it one (`t.a` where column_names has no entry) or that is not an
     identifier but needs an alias: the invented alias is generated, unreserved, and not among the names in use *)
  Theorem select_item_invented_alias st c e it st' :
    select_item lower reserved st c e = Some (it, st') -> nget (cnames st) c = None -> inferred e <> None ->
    exists a, it = SAlias c e a /\ ~ In a (map snd (cnames st)) /\ ~ In (lower a) reserved /\
              (exists k, (counter st <= k)%N /\ a = gen_name expr_prefix k /\ (k < counter st')%N) /\
              nget (cnames st') c = Some a.
  Proof.
    unfold select_item. intros H Hn Hi. rewrite Hn in H.
    destruct (ostr_eqb (inferred e) None) eqn:E; [apply ostr_eqb_spec in E; contradiction|].
    destruct (select_item_alias_fresh lower expr_prefix reserved gen_stable (map snd (cnames st)) (counter st)) as (nm & n' & A & Hf & [_ Hr] & Hk).
    rewrite A in H. injection H as <- <-. exists nm. cbn [cnames counter].
    split; [reflexivity | split; [exact Hf | split; [exact Hr | split; [exact Hk | apply nget_nset_same]]]].
  Qed.

  (* afterwards column_names says what the item shows; other columns keep their names *)
  Theorem select_item_records st c e it st' :
    select_item lower reserved st c e = Some (it, st') ->
    (forall a, it = SAlias c e a -> nget (cnames st') c = Some a) /\
    (forall d, d <> c -> nget (cnames st') d = nget (cnames st) d) /\
    (it = SUnnamed c e -> st' = st).
  Proof.
    unfold select_item. intro H.
    destruct (ostr_eqb (inferred e) (nget (cnames st) c)).
    - injection H as <- <-. split; [intros a Ha; discriminate | split; [reflexivity | reflexivity]].
    - destruct (nget (cnames st) c) as [x|].
      + injection H as <- <-. cbn [cnames]. split; [intros a Ha; injection Ha as <-; apply nget_nset_same|].
        split; [intros d Hd; apply nget_nset_other; exact Hd | intro Hx; discriminate].
      + destruct (select_item_alias lower expr_prefix reserved (map snd (cnames st)) (counter st)) as [[a n']|]; [|discriminate].
        injection H as <- <-. cbn [cnames]. split; [intros a0 Ha; injection Ha as <-; apply nget_nset_same|].
        split; [intros d Hd; apply nget_nset_other; exact Hd | intro Hx; discriminate].
  Qed.
  (* a column that has a name keeps it *)
  Lemma select_item_keeps_named st c e it st' d x :
    select_item lower reserved st c e = Some (it, st') -> nget (cnames st) d = Some x -> nget (cnames st') d = Some x.
  Proof.
    unfold select_item. intros H Hd.
    destruct (ostr_eqb (inferred e) (nget (cnames st) c)); [injection H as <- <-; exact Hd|].
    destruct (Nat.eq_dec d c) as [->|Hne].
    - rewrite Hd in H. injection H as <- <-. cbn [cnames]. apply nget_nset_same.
    - destruct (nget (cnames st) c) as [y|].
      + injection H as <- <-. cbn [cnames]. rewrite nget_nset_other; [exact Hd | exact Hne].
      + destruct (select_item_alias lower expr_prefix reserved (map snd (cnames st)) (counter st)) as [[a n']|]; [|discriminate].
        injection H as <- <-. cbn [cnames]. rewrite nget_nset_other; [exact Hd | exact Hne].
  Qed.
End Item.

(* ---- translate_exclude *)
Lemma insert_by_id_perm x l : Permutation (insert_by_id x l) (x :: l).
Proof.
  induction l as [|y r IH]; cbn [insert_by_id]; [apply Permutation_refl|].
  destruct (Nat.leb (fst x) (fst y)); [apply Permutation_refl|].
  eapply Permutation_trans; [apply perm_skip; exact IH | apply perm_swap].
Qed.

Lemma sort_by_id_perm l : Permutation (sort_by_id l) l.
Proof.
  induction l as [|x r IH]; cbn [sort_by_id fold_right]; [apply Permutation_refl|].
  eapply Permutation_trans; [apply insert_by_id_perm | apply perm_skip; exact IH].
Qed.

Definition xname (x : xcol) : str := match snd x with Some n => n | None => unnamed_s end.

(* with EXCLUDE / EXCEPT the emitted list names exactly the excluded columns (each once); without it nothing is emitted *)
Theorem translate_exclude_exact k ex :
  exists ns, translate_exclude (Some k) ex = Some (k, ns) /\ Permutation ns (map xname ex).
Proof.
  exists (as_col_names ex). split; [reflexivity|]. unfold as_col_names.
  change (fun x : xcol => match snd x with Some n => n | None => unnamed_s end) with xname.
  apply Permutation_map. apply sort_by_id_perm.
Qed.

Theorem translate_exclude_unsupported ex : translate_exclude None ex = None.
Proof. reflexivity. Qed.

(* ---- translate_select_items: one item per requested column, in order *)
Definition item_cid (it : sitem) : option cid :=
  match it with SUnnamed c _ => Some c | SAlias c _ _ => Some c | SStar c _ _ _ => Some c | SNull => None end.

Section List_.
  Variable lower : str -> str.
  Variable reserved : list str.
  Variable supported : option exkind.
  Variable omit_prefix : bool.

  Lemma select_item_cid st c e it st' : select_item lower reserved st c e = Some (it, st') -> item_cid it = Some c.
  Proof.
    unfold select_item. destruct (ostr_eqb (inferred e) (nget (cnames st) c)); [intro H; injection H as <- <-; reflexivity|].
    destruct (nget (cnames st) c); [intro H; injection H as <- <-; reflexivity|].
    destruct (select_item_alias lower expr_prefix reserved (map snd (cnames st)) (counter st)) as [[a n']|]; [|discriminate].
    intro H; injection H as <- <-; reflexivity.
  Qed.

  Theorem items_loop_one_per_column cols : forall st ex items st',
    items_loop lower reserved supported omit_prefix st ex cols = Some (items, st') ->
    map item_cid items = map (fun r => Some (creq_cid r)) cols.
  Proof.
    induction cols as [|r cols IH]; intros st ex items st' H; cbn [items_loop] in H.
    - injection H as <- <-. reflexivity.
    - destruct r as [c e|c table].
      + destruct (select_item lower reserved st c e) as [[it st1]|] eqn:E; [|discriminate].
        destruct (items_loop lower reserved supported omit_prefix st1 ex cols) as [[l st2]|] eqn:R; [|discriminate].
        injection H as <- <-. cbn [map creq_cid]. rewrite (select_item_cid _ _ _ _ _ E), (IH _ _ _ _ R). reflexivity.
      + destruct (xtake ex c) as [o ex1].
        destruct (items_loop lower reserved supported omit_prefix st ex1 cols) as [[l st2]|] eqn:R; [|discriminate].
        injection H as <- <-. cbn [map creq_cid item_cid]. rewrite (IH _ _ _ _ R). reflexivity.
  Qed.

  (* every requested column that has a name shows it (its own item, at its own position) -- also when a column is requested twice *)
  Theorem items_loop_names cols : forall st ex items st',
    items_loop lower reserved supported omit_prefix st ex cols = Some (items, st') ->
    Forall2 (fun r it => match r with
                         | CCol c _ => forall x, nget (cnames st) c = Some x -> item_name it = Some x
                         | CStar _ _ => True
                         end) cols items.
  Proof.
    induction cols as [|r cols IH]; intros st ex items st' H; cbn [items_loop] in H.
    - injection H as <- <-. constructor.
    - destruct r as [c e|c table].
      + destruct (select_item lower reserved st c e) as [[it st1]|] eqn:E; [|discriminate].
        destruct (items_loop lower reserved supported omit_prefix st1 ex cols) as [[l st2]|] eqn:R; [|discriminate].
        injection H as <- <-. constructor.
        * intros x Hx. exact (select_item_carries_name lower reserved st c e it st1 x E Hx).
        * pose proof (IH _ _ _ _ R) as F.
          pose proof (fun d x => select_item_keeps_named lower reserved st c e it st1 d x E) as Keep.
          clear - F Keep.
          induction F as [|r it' cols' l' Hr F' IHF]; constructor; [|exact IHF].
          destruct r as [d e'|d t']; [|exact I]. intros x Hx. apply Hr. apply Keep. exact Hx.
      + destruct (xtake ex c) as [o ex1].
        destruct (items_loop lower reserved supported omit_prefix st ex1 cols) as [[l st2]|] eqn:R; [|discriminate].
        injection H as <- <-. constructor; [exact I | exact (IH _ _ _ _ R)].
  Qed.
End List_.

(* ---- the pass over the finished list and the zero-column NULL *)
Lemma dedup_items_fresh items :
  all_fresh [] (map (to_dedup (flat_map item_strs items)) items) = true -> dedup_items items = items.
Proof.
  intro H. unfold dedup_items.
  rewrite (dedup_flags_fresh _ [] [] (incl_refl _) H).
  rewrite map_map. clear H.
  generalize (flat_map item_strs items) as tbl. intro tbl.
  induction items as [|x l IH]; [reflexivity|]. cbn [map select_flags]. rewrite IH. reflexivity.
Qed.

Lemma select_flags_length_le {A} (l : list A) : forall fl, length (select_flags l fl) <= length l.
Proof.
  induction l as [|x l IH]; intros [|b fl]; cbn [select_flags length]; try lia.
  destruct b; cbn [length]; specialize (IH fl); lia.
Qed.

Section Whole.
  Variable lower : str -> str.
  Variable reserved : list str.
  Variable supported : option exkind.
  Variable omit_prefix zero_ok : bool.

  (* PARTIAL (the full statement is refuted by F13): when every item brings an identifier part or alias not seen before, the
     emitted list IS the item list -- one item per requested column, in order *)
  Theorem select_items_exact_partial st ex cols items final st' :
    select_items lower reserved supported omit_prefix zero_ok st ex cols = Some (items, final, st') ->
    all_fresh [] (map (to_dedup (flat_map item_strs items)) items) = true -> items <> [] ->
    final = items /\ map item_cid final = map (fun r => Some (creq_cid r)) cols.
  Proof.
    unfold select_items. intros H Hf Hne.
    destruct (items_loop lower reserved supported omit_prefix st ex cols) as [[its st1]|] eqn:L; [|discriminate].
    injection H as <- <- <-. rewrite (dedup_items_fresh its Hf).
    destruct its as [|i r]; [contradiction|]. split; [reflexivity|].
    exact (items_loop_one_per_column lower reserved supported omit_prefix cols _ _ _ _ L).
  Qed.

  (* never more items than requested columns; and never an empty SELECT list where the dialect needs one *)
  Theorem select_items_bounds st ex cols items final st' :
    select_items lower reserved supported omit_prefix zero_ok st ex cols = Some (items, final, st') ->
    length items = length cols /\ (length final <= Nat.max 1 (length cols)) /\ (zero_ok = false -> final <> []).
  Proof.
    unfold select_items. intro H.
    destruct (items_loop lower reserved supported omit_prefix st ex cols) as [[its st1]|] eqn:L; [|discriminate].
    injection H as <- <- <-.
    pose proof (items_loop_one_per_column lower reserved supported omit_prefix cols _ _ _ _ L) as E.
    apply (f_equal (@length _)) in E. rewrite !map_length in E.
    assert (length (dedup_items its) <= length its) as Hle by (unfold dedup_items; apply select_flags_length_le).
    split; [exact E|]. split.
    - destruct (dedup_items its) as [|d r]; [destruct zero_ok; cbn [length]; lia | lia].
    - intros Hz. destruct (dedup_items its) as [|d r]; [rewrite Hz; discriminate | discriminate].
  Qed.
End Whole.

(* ---- composition with translate_wildcards: what the emitted list SHOWS *)
(* the requests translate_select_items receives for a result of translate_wildcards: stars for the wildcard ids *)
Definition reqs_of (orig_of : cid -> option (list cid)) (shape_of : cid -> eshape) (table_of : cid -> option str) (cids : list cid) : list creq :=
  map (fun c => match orig_of c with Some _ => CStar c (table_of c) | None => CCol c (shape_of c) end) cids.
Definition excluded_of (name_of : cid -> option str) (ex : list (cid * list cid)) : excluded :=
  map (fun p : cid * list cid => (fst p, map (fun x => (x, name_of x)) (snd p))) ex.

Lemma xtake_excluded_of name_of ex c :
  fst (xtake (excluded_of name_of ex) c) =
    (if existsb (fun p : cid * list cid => Nat.eqb (fst p) c) ex then Some (map (fun x => (x, name_of x)) (lookup_ex ex c)) else None)
  /\ exists ex', snd (xtake (excluded_of name_of ex) c) = excluded_of name_of ex' /\
                 forall d, d <> c -> lookup_ex ex' d = lookup_ex ex d /\
                                     existsb (fun p : cid * list cid => Nat.eqb (fst p) d) ex' = existsb (fun p : cid * list cid => Nat.eqb (fst p) d) ex.
Proof.
  induction ex as [|[k s] r IH]; cbn [excluded_of map xtake existsb lookup_ex fst snd].
  - split; [reflexivity|]. exists []. split; [reflexivity | intros d _; split; reflexivity].
  - destruct (Nat.eqb k c) eqn:E.
    + cbn [fst snd orb]. split; [reflexivity|]. exists r. split; [reflexivity|].
      intros d Hd. apply Nat.eqb_eq in E. subst k.
      assert (Nat.eqb c d = false) as E2 by (apply Nat.eqb_neq; congruence).
      cbn [lookup_ex existsb fst]. rewrite E2. split; reflexivity.
    + destruct IH as [IH1 (ex' & IH2 & IH3)]. fold (excluded_of name_of r) in *.
      destruct (xtake (excluded_of name_of r) c) as [o r'] eqn:X. cbn [fst snd] in *.
      cbn [orb]. split; [exact IH1|].
      exists ((k, s) :: ex'). split; [cbn [excluded_of map fst snd]; rewrite IH2; reflexivity|].
      intros d Hd. cbn [lookup_ex existsb fst]. destruct (IH3 d Hd) as [A B]. rewrite A, B. split; reflexivity.
Qed.

Lemma flat_map_ext_in' {A B} (f g : A -> list B) l : (forall a, In a l -> f a = g a) -> flat_map f l = flat_map g l.
Proof.
  induction l as [|x l IH]; intro H; [reflexivity|]. cbn [flat_map].
  rewrite (H x (or_introl eq_refl)), IH; [reflexivity | intros a Ha; apply H; right; exact Ha].
Qed.

Section Compose.
  Variable lower : str -> str.
  Variable reserved : list str.
  Variable supported : option exkind.
  Variable omit_prefix : bool.
  Variable orig_of : cid -> option (list cid).
  Variable shape_of : cid -> eshape.
  Variable table_of : cid -> option str.
  Variable name_of : cid -> option str.

  Definition has_support : bool := match supported with Some _ => true | None => false end.

  Definition is_star (c : cid) : bool := match orig_of c with Some _ => true | None => false end.

  (* item by item, the emitted list shows what Wildcards.v's reading of (ids, exclusions) shows; a STAR id must not be
     requested twice (its exclusion set is consumed by the first), other ids may repeat (`select {a, a}`) *)
  Theorem items_show_is_denote cids : forall st ex items st',
    NoDup (filter is_star cids) ->
    (forall c, In c cids -> lookup_ex ex c <> [] -> existsb (fun p : cid * list cid => Nat.eqb (fst p) c) ex = true) ->
    items_loop lower reserved supported omit_prefix st (excluded_of name_of ex) (reqs_of orig_of shape_of table_of cids) = Some (items, st') ->
    items_show orig_of items = denote orig_of has_support (cids, ex).
  Proof.
    unfold denote. cbn [fst snd].
    induction cids as [|c cids IH]; intros st ex items st' ND Hkeys H; cbn [reqs_of map items_loop] in H.
    - injection H as <- <-. reflexivity.
    - cbn [filter] in ND. unfold is_star in ND at 1.
      destruct (orig_of c) as [orig|] eqn:O.
      + apply NoDup_cons_iff in ND as [Hnin ND].
        assert (forall d, In d cids -> d <> c) as Hdc.
        { intros d Hd Heq. subst d. apply Hnin. apply filter_In. split; [exact Hd | unfold is_star; rewrite O; reflexivity]. }
        destruct (xtake_excluded_of name_of ex c) as [X1 (ex' & X2 & X3)].
        destruct (xtake (excluded_of name_of ex) c) as [o ex1] eqn:X. cbn [fst snd] in X1, X2. subst ex1.
        fold (reqs_of orig_of shape_of table_of cids) in H.
        destruct (items_loop lower reserved supported omit_prefix st (excluded_of name_of ex') (reqs_of orig_of shape_of table_of cids)) as [[l st2]|] eqn:R; [|discriminate].
        injection H as <- <-. cbn [items_show flat_map item_shows]. rewrite O.
        fold (items_show orig_of l).
        assert (items_show orig_of l = flat_map (shows orig_of has_support ex) cids) as Tail.
        { rewrite (IH st ex' l st2 ND); [|intros d Hd Hl; destruct (X3 d (Hdc d Hd)) as [A B]; rewrite B; apply (Hkeys d); [right; exact Hd | rewrite <- A; exact Hl] | exact R].
          apply flat_map_ext_in'. intros d Hd. unfold shows. destruct (orig_of d); [|reflexivity].
          destruct (X3 d (Hdc d Hd)) as [A _]. rewrite A. reflexivity. }
        rewrite Tail. cbn [flat_map]. f_equal. unfold shows. rewrite O. f_equal.
        apply filter_ext. intro x. f_equal. unfold has_support.
        destruct supported as [k|].
        * subst o. destruct (existsb (fun p : cid * list cid => Nat.eqb (fst p) c) ex) eqn:K.
          -- rewrite map_map. cbn [fst]. rewrite map_id. reflexivity.
          -- destruct (lookup_ex ex c) as [|y ys] eqn:Lk; [reflexivity|].
             exfalso. rewrite (Hkeys c) in K; [discriminate | left; reflexivity | rewrite Lk; discriminate].
        * destruct o; reflexivity.
      + fold (reqs_of orig_of shape_of table_of cids) in H.
        destruct (select_item lower reserved st c (shape_of c)) as [[it st1]|] eqn:E; [|discriminate].
        destruct (items_loop lower reserved supported omit_prefix st1 (excluded_of name_of ex) (reqs_of orig_of shape_of table_of cids)) as [[l st2]|] eqn:R; [|discriminate].
        injection H as <- <-. cbn [items_show flat_map]. fold (items_show orig_of l).
        rewrite (IH st1 ex l st2 ND); [|intros d Hd; apply Hkeys; right; exact Hd | exact R].
        cbn [flat_map]. f_equal. unfold shows. rewrite O.
        pose proof (select_item_cid lower reserved st c (shape_of c) it st1 E) as Hc.
        destruct it; cbn [item_cid] in Hc; try discriminate; injection Hc as ->; cbn [item_shows]; try reflexivity.
        rewrite O. reflexivity.
  Qed.
End Compose.

Lemma lookup_ex_key ex c : lookup_ex ex c <> [] -> existsb (fun p : cid * list cid => Nat.eqb (fst p) c) ex = true.
Proof.
  induction ex as [|[k s] r IH]; cbn [lookup_ex existsb fst]; [intro H; contradiction|].
  destruct (Nat.eqb k c); [reflexivity | exact IH].
Qed.

(* the composition: translate_wildcards, then translate_select_items' loop -- on a dialect with EXCLUDE / EXCEPT the emitted
   SELECT list shows exactly the requested columns (as a set; positions of the non-star columns by items_loop_one_per_column) *)
Theorem select_list_shows_requested lower reserved k omit_prefix orig_of shape_of table_of name_of cols st items st' :
  wf_cols orig_of [] cols ->
  NoDup (filter (is_star orig_of) (fst (translate_wildcards cols))) ->
  items_loop lower reserved (Some k) omit_prefix st (excluded_of name_of (snd (translate_wildcards cols)))
             (reqs_of orig_of shape_of table_of (fst (translate_wildcards cols))) = Some (items, st') ->
  forall x, In x (items_show orig_of items) <-> In x (map fst cols).
Proof.
  intros WF ND H x.
  rewrite (items_show_is_denote lower reserved (Some k) omit_prefix orig_of shape_of table_of name_of
             (fst (translate_wildcards cols)) st (snd (translate_wildcards cols)) items st' ND (fun c _ => lookup_ex_key _ c) H).
  cbn [has_support]. rewrite <- surjective_pairing.
  exact (translate_wildcards_exact orig_of cols WF x).
Qed.

(* without the facility nothing requested is lost, but the star may show more (F23) *)
Theorem select_list_no_loss lower reserved omit_prefix orig_of shape_of table_of name_of cols st items st' :
  wf_cols orig_of [] cols ->
  NoDup (filter (is_star orig_of) (fst (translate_wildcards cols))) ->
  items_loop lower reserved None omit_prefix st (excluded_of name_of (snd (translate_wildcards cols)))
             (reqs_of orig_of shape_of table_of (fst (translate_wildcards cols))) = Some (items, st') ->
  forall x, In x (map fst cols) -> In x (items_show orig_of items).
Proof.
  intros WF ND H x Hx.
  rewrite (items_show_is_denote lower reserved None omit_prefix orig_of shape_of table_of name_of
             (fst (translate_wildcards cols)) st (snd (translate_wildcards cols)) items st' ND (fun c _ => lookup_ex_key _ c) H).
  cbn [has_support]. rewrite <- surjective_pairing.
  exact (translate_wildcards_no_loss orig_of cols WF x Hx).
Qed.

(* Lemmas about Model/FromText.v: which JSON cells reach translate_literal with their value. *)
From Coq Require Import List NArith ZArith Bool Lia.
From PV Require Import Lib.ListX Model.Escape Model.SqlLex Model.Literal Model.FromText Proofs.EscapeProofs Proofs.LiteralProofs.
Import ListNotations.

(* FULL STRENGTH (since fix d86674e): whatever literal an accepted cell becomes is the literal of its value; a cell is
   rejected exactly when it is an integer in (i64::MAX, u64::MAX], an array or an object *)
Theorem json_cell_literal v l : map_json_primitive v = Some l -> json_literal_of v = Some l.
Proof.
  destruct v as [|b|z| |s| |]; cbn [map_json_primitive json_literal_of]; try (intro H; exact H); try discriminate.
  destruct ((I64_MIN_Z <=? z)%Z && (z <=? I64_MAX_Z)%Z); [intro H; exact H|].
  destruct ((I64_MAX_Z <? z)%Z && (z <=? U64_MAX_Z)%Z); [discriminate | intro H; exact H].
Qed.

Theorem json_cell_rejected_iff v : map_json_primitive v = None <->
  match v with JInt z => (I64_MAX_Z < z <= U64_MAX_Z)%Z | JArray | JObject => True | _ => False end.
Proof.
  destruct v as [|b|z| |s| |]; cbn [map_json_primitive]; try (split; [discriminate | contradiction]); try tauto.
  destruct ((I64_MIN_Z <=? z)%Z && (z <=? I64_MAX_Z)%Z) eqn:A.
  - apply andb_true_iff in A as [A1 A2]. apply Z.leb_le in A1, A2. unfold I64_MIN_Z, I64_MAX_Z, U64_MAX_Z in *. split; [discriminate | lia].
  - destruct ((I64_MAX_Z <? z)%Z && (z <=? U64_MAX_Z)%Z) eqn:B.
    + apply andb_true_iff in B as [B1 B2]. apply Z.ltb_lt in B1. apply Z.leb_le in B2. split; [intros _; lia | reflexivity].
    + split; [discriminate|]. intros [H1 H2]. apply andb_false_iff in B as [B|B]; [apply Z.ltb_ge in B | apply Z.leb_gt in B]; lia.
Qed.

Theorem json_string_cell_roundtrip d sq s :
  exists l t, map_json_primitive (JString s) = Some l /\ emit_rlit sq (bs_escapes d) l = Some t /\ sql_lex d t = [TString s].
Proof. eexists _, _. split; [reflexivity|]. split; [reflexivity|]. apply literal_string_roundtrip. Qed.

Theorem json_int_cell_roundtrip d sq bs z : (I64_MIN_Z <= z <= I64_MAX_Z)%Z ->
  exists l t, map_json_primitive (JInt z) = Some l /\ emit_rlit sq bs l = Some t /\ int_of_tokens (sql_lex d t) = Some z.
Proof.
  intro H. cbn [map_json_primitive].
  replace ((I64_MIN_Z <=? z)%Z && (z <=? I64_MAX_Z)%Z) with true
    by (symmetry; apply andb_true_iff; split; apply Z.leb_le; lia).
  eexists _, _. split; [reflexivity|]. split; [reflexivity|]. apply int_roundtrip.
Qed.

(* Lemmas about Model/FromText.v: which JSON cells reach translate_literal with their value. *)
From Coq Require Import List NArith ZArith Bool Lia.
From PV Require Import Lib.ListX Model.Escape Model.SqlLex Model.Literal Model.FromText Proofs.EscapeProofs Proofs.LiteralProofs.
Import ListNotations.

(* the literal a kept cell becomes *)
Theorem json_cell_literal v : json_cell_kept v = true ->
  match v with
  | JNull => map_json_primitive v = RNull
  | JBool b => map_json_primitive v = RBool b
  | JInt z => (map_json_primitive v = RInt z /\ (I64_MIN_Z <= z <= I64_MAX_Z)%Z) \/
              (map_json_primitive v = RFloat /\ (z < I64_MIN_Z \/ U64_MAX_Z < z)%Z)
  | JReal => map_json_primitive v = RFloat
  | JString s => map_json_primitive v = RString s
  | JArray | JObject => False
  end.
Proof.
  destruct v as [|b|z| |s| |]; cbn [json_cell_kept map_json_primitive]; try reflexivity; try discriminate.
  intro H. apply negb_true_iff in H.
  destruct ((I64_MIN_Z <=? z)%Z && (z <=? I64_MAX_Z)%Z) eqn:A.
  - left. apply andb_true_iff in A as [A1 A2]. apply Z.leb_le in A1, A2. split; [reflexivity | lia].
  - rewrite H. right. split; [reflexivity|].
    apply andb_false_iff in A. apply andb_false_iff in H.
    destruct A as [A|A]; [apply Z.leb_gt in A; lia|]. apply Z.leb_gt in A.
    destruct H as [H|H]; [apply Z.ltb_ge in H; lia | apply Z.leb_gt in H; lia].
Qed.

(* a string cell, end to end: whatever the dialect's backslash flag, the text emitted for it is read back as the cell's
   value by a reader that fits the flag, in every context (the string theorems of Props/C08.v apply unchanged) *)
Theorem json_string_cell_roundtrip d sq s :
  exists t, emit_rlit sq (bs_escapes d) (map_json_primitive (JString s)) = Some t /\ sql_lex d t = [TString s].
Proof. eexists. split; [reflexivity|]. apply literal_string_roundtrip. Qed.

Theorem json_int_cell_roundtrip d sq bs z : (I64_MIN_Z <= z <= I64_MAX_Z)%Z ->
  exists t, emit_rlit sq bs (map_json_primitive (JInt z)) = Some t /\ int_of_tokens (sql_lex d t) = Some z.
Proof.
  intro H. cbn [map_json_primitive].
  replace ((I64_MIN_Z <=? z)%Z && (z <=? I64_MAX_Z)%Z) with true
    by (symmetry; apply andb_true_iff; split; apply Z.leb_le; lia).
  eexists. split; [reflexivity|]. apply int_roundtrip.
Qed.

(* C14 -- text level, through C17's lexer model (Model/Lexer.v, Proofs/LexForward.v: imported read-only).
   For the SPACED FRAGMENT of the token language -- the tokens between any two of which the renderer writes exactly one
   blank -- the text `render` produces lexes, through the model of the real lexer, to exactly the expected token kinds:
     bare one-part identifiers, true / false / null, non-negative integers, double-quoted strings of printable ASCII
     without quote and backslash, parameters, every BINARY operator symbol, the alias form `name =`, `|`, `=>`.
   Not in the fragment (their adjacency has no blank, or C17 has no forward lemma for them): parentheses, brackets,
   commas, unary operators, named arguments, ranges, floats, dates, raw strings, interpolations, backticked names.
   Everything is stated over abstract tables (the formatter's `ttab` / `idtab`, the lexer's `tables`); the instance on
   the regenerated tables is a set of boolean obligations (Props/C14.v). *)
From Coq Require Import List NArith ZArith Bool Arith Lia.
From PV Require Import Lib.ListX Model.FmtLit Model.FmtPratt Model.Fmt Model.FmtLex Proofs.FmtLitProofs.
From PV Require Model.Lexer Proofs.LexProofs Proofs.LexRelexDefs Proofs.LexRelex Proofs.LexForward.
Import ListNotations.
Local Open Scope N_scope.

Module L := Lexer.
Module LF := LexForward.


Lemma join_sp_app xs ys : xs <> [] -> ys <> [] -> LF.join_sp (xs ++ ys) = LF.join_sp xs ++ 32 :: LF.join_sp ys.
Proof.
  intros Hx Hy. induction xs as [|x t IH]; [contradiction Hx; reflexivity|].
  destruct t as [|x2 t2].
  - cbn [app LF.join_sp]. destruct ys; [contradiction Hy; reflexivity | reflexivity].
  - change ((x :: x2 :: t2) ++ ys) with (x :: (x2 :: t2) ++ ys).
    change (LF.join_sp (x :: (x2 :: t2) ++ ys)) with (x ++ 32 :: LF.join_sp ((x2 :: t2) ++ ys)).
    rewrite (IH ltac:(discriminate)). change (LF.join_sp (x :: x2 :: t2)) with (x ++ 32 :: LF.join_sp (x2 :: t2)).
    rewrite <- app_assoc. reflexivity.
Qed.

Section Spaced.
  (* the formatter's tables *)
  Variable R : ttab.
  Variable nsym : nat.                     (* symbols below nsym are spellings of operators *)
  (* the lexer's tables and character classes *)
  Variable T : L.tables.
  Variable is_alpha is_alnum : N -> bool.
  Variable skind : nat -> L.kind.          (* the kind the spelling of symbol s lexes to *)
  Variable arrow : L.kind.                 (* the kind of `=>` *)

  Notation I := (ids R).
  Notation lexes_as := (LF.lexes_as is_alpha is_alnum T).

  Hypothesis WF : LexProofs.tables_wf T = true.
  Hypothesis TK : LexRelexDefs.relex_tables_ok T = true.
  Hypothesis FK : LF.forward_tables_ok T = true.
  Hypothesis ascii_alpha : forall c, c < 128 -> is_alpha c = in_ranges letters c.
  Hypothesis ascii_alnum : forall c, c < 128 -> is_alnum c = in_ranges alnum_ascii c.
  Hypothesis alpha_alnum : forall c, is_alpha c = true -> is_alnum c = true.
  Hypothesis IOK : idtab_ok I = true.
  (* cross-table facts (booleans on the concrete tables, see Props) *)
  Hypothesis HRES : forall w, LexRelex.kwlike T w ->
    existsb (leqb w) (it_disp_reserved I) = true /\ existsb (leqb w) (it_fmt_keywords I) = true.
  Hypothesis HWORDS : L.t_true T = w_true /\ L.t_false T = w_false /\ L.t_null T = w_null.
  Hypothesis HSYM : forall s, (s < nsym)%nat -> lexes_as (sym_text R s) (skind s).
  Hypothesis HEQ : L.c_in 61 (L.t_controls T) = true.
  Hypothesis HPIPE : L.c_in 124 (L.t_controls T) = true.
  Hypothesis HARROW : lexes_as [61; 62] arrow.
  Hypothesis HFIN : (forall s, LF.kind_finite (skind s) = true) /\ LF.kind_finite arrow = true.

  Lemma class_ok : LexRelexDefs.class_ok is_alpha is_alnum.
  Proof.
    split; intros c H Lc.
    - rewrite (ascii_alpha c Lc) in H.
      pose proof (LexRelexDefs.ascii_all_spec (fun c => implb (in_ranges letters c) (LexRelexDefs.ascii_alpha c)) ltac:(vm_compute; reflexivity) c Lc) as X.
      cbv beta in X. rewrite H in X. exact X.
    - rewrite (ascii_alnum c Lc) in H.
      pose proof (LexRelexDefs.ascii_all_spec (fun c => implb (in_ranges alnum_ascii c) (LexRelexDefs.ascii_alnum c)) ltac:(vm_compute; reflexivity) c Lc) as X.
      cbv beta in X. rewrite H in X. exact X.
  Qed.

  (* ---------------- the fragment (Model/FmtLex.v) *)
  Notation spaced_atom := (FmtLex.spaced_atom R).
  Notation spaced_tok := (FmtLex.spaced_tok R nsym).
  Notation tok_texts := (FmtLex.tok_texts R).
  Notation tok_kinds := (FmtLex.tok_kinds skind arrow).

  (* ---------------- rendering = texts joined by single blanks *)
  Lemma spaced_space a b : spaced_tok a = true -> spaced_tok b = true -> space_between a b = true.
  Proof.
    intros Ha Hb.
    destruct a as [x|s un| | | | | | |n|n| | | | | | | | ]; cbn [spaced_tok] in Ha; try discriminate Ha;
      destruct b as [y|s2 un2| | | | | | |n2|n2| | | | | | | | ]; cbn [spaced_tok] in Hb; try discriminate Hb;
      try (destruct un; [discriminate Ha|]); try (destruct un2; [discriminate Hb|]); reflexivity.
  Qed.

  Lemma tok_texts_join t : spaced_tok t = true -> LF.join_sp (tok_texts t) = tok_text R t /\ tok_texts t <> [].
  Proof.
    intro H. destruct t as [x|s un| | | | | | |n|n| | | | | | | | ]; cbn [spaced_tok] in H; try discriminate H;
      cbn [tok_texts]; split; try reflexivity; discriminate.
  Qed.

  Lemma render_spaced ts : forallb spaced_tok ts = true -> ts <> [] ->
    render R ts = LF.join_sp (flat_map tok_texts ts) /\ flat_map tok_texts ts <> [].
  Proof.
    induction ts as [|a t IH]; intros H Hne; [contradiction Hne; reflexivity|].
    cbn [forallb] in H. apply andb_true_iff in H as [Ha Ht]. destruct (tok_texts_join a Ha) as [Ea Hna].
    destruct t as [|b t'].
    - cbn [render flat_map]. rewrite app_nil_r. split; [symmetry; exact Ea | exact Hna].
    - destruct (IH Ht ltac:(discriminate)) as [E Hn]. pose proof Ht as Ht0. cbn [forallb] in Ht. apply andb_true_iff in Ht as [Hb _].
      change (render R (a :: b :: t')) with (tok_text R a ++ (if space_between a b then [sp] else []) ++ render R (b :: t')).
      rewrite (spaced_space a b Ha Hb), E.
      change (flat_map tok_texts (a :: b :: t')) with (tok_texts a ++ flat_map tok_texts (b :: t')).
      rewrite (join_sp_app _ _ Hna Hn), Ea. split; [reflexivity|].
      destruct (tok_texts a); [contradiction Hna; reflexivity | discriminate].
  Qed.

  (* ---------------- every text lexes as its kind *)
  Lemma bt_neq w : bt w <> w.
  Proof. intro E. apply (f_equal (@length N)) in E. unfold bt in E. cbn [length] in E. rewrite app_length in E. cbn [length] in E. lia. Qed.

  Lemma bare_ident (start rest_r : list (N * N)) (reserved : list str) w :
    ranges_sub start start_ok = true -> ranges_sub rest_r rest_ok = true ->
    (forall k, LexRelex.kwlike T k -> existsb (leqb k) reserved = true) ->
    match w with
    | [] => False
    | c :: t => (in_ranges start c && forallb (in_ranges rest_r) t && negb (existsb (leqb w) reserved)) = true
    end -> lexes_as w (L.KIdent w).
  Proof.
    intros S1 S2 Hres Hw. destruct w as [|c t]; [contradiction|].
    apply andb_true_iff in Hw as [Hw Hr]. apply andb_true_iff in Hw as [Hc Ht]. apply negb_true_iff in Hr.
    apply (LF.ident_lexes is_alpha is_alnum T class_ok TK).
    - split.
      + unfold L.is_ident_start. apply (in_start_ok is_alpha ascii_alpha). eapply ranges_sub_in; eassumption.
      + apply (forallb_imp (in_ranges rest_r)); [|exact Ht]. intros x Hx. unfold L.is_ident_cont.
        apply (in_rest_ok is_alnum ascii_alnum). eapply ranges_sub_in; eassumption.
    - intro K. rewrite (Hres _ K) in Hr. discriminate Hr.
  Qed.

  Lemma disp_bare_lexes w : leqb (display_ident_part I w) w = true -> lexes_as w (L.KIdent w).
  Proof.
    intro H. apply leqb_spec in H. pose proof IOK as TKI. unfold idtab_ok in TKI. repeat (apply andb_true_iff in TKI as [TKI ?]).
    apply (bare_ident (it_disp_start I) (it_disp_rest I) (it_disp_reserved I)); try assumption.
    - intros k K. apply (HRES k K).
    - unfold display_ident_part in H. destruct w as [|c t]; [exact (bt_neq [] H)|].
      destruct (in_ranges (it_disp_start I) c && forallb (in_ranges (it_disp_rest I)) t && negb (existsb (leqb (c :: t)) (it_disp_reserved I)));
        [reflexivity | exfalso; exact (bt_neq _ H)].
  Qed.

  Lemma write_bare_lexes w : leqb (write_ident_part I w) w = true -> lexes_as w (L.KIdent w).
  Proof.
    intro H. apply leqb_spec in H. pose proof IOK as TKI. unfold idtab_ok in TKI. repeat (apply andb_true_iff in TKI as [TKI ?]).
    apply (bare_ident (it_fmt_start I) (it_fmt_rest I) (it_fmt_keywords I)); try assumption.
    - intros k K. apply (HRES k K).
    - unfold write_ident_part, valid_prql_ident in H. destruct w as [|c t].
      + cbn [andb] in H. exact (bt_neq [] H).
      + destruct (in_ranges (it_fmt_start I) c && forallb (in_ranges (it_fmt_rest I)) t && negb (existsb (leqb (c :: t)) (it_fmt_keywords I)));
          [reflexivity | exfalso; exact (bt_neq _ H)].
  Qed.

  (* integers: Display of an i64 is the digit text C17's lemma is about *)
  Lemma dec_bridge l : forallb is_digit l = true -> forall a, fold_left (fun a c => a * 10 + L.hex_val c) l a = FmtLit.digits_val l a.
  Proof.
    induction l as [|c t IH]; intros Hd a; [reflexivity|]. cbn [forallb] in Hd. apply andb_true_iff in Hd as [Hc Ht].
    cbn [fold_left FmtLit.digits_val]. rewrite Hc. rewrite (IH Ht). f_equal. f_equal. unfold L.hex_val.
    assert (L.is_digit c = true) as ->; [|reflexivity].
    unfold L.is_digit. unfold is_digit, in_range in Hc. exact Hc.
  Qed.

  Lemma int_text_show n : n <= L.i64_max -> LF.int_text (show_N n) /\ L.dec_val (show_N n) = n.
  Proof.
    intro Hn. destruct (show_N_spec n) as [Hval Hdig Hhead].
    assert (Hdv : L.dec_val (show_N n) = n).
    { unfold L.dec_val, L.digits_val. rewrite (dec_bridge _ Hdig 0), (Hval 0). lia. }
    split; [|exact Hdv]. unfold LF.int_text. destruct (show_N n) as [|d a] eqn:E; [contradiction|].
    cbn [forallb] in Hdig. apply andb_true_iff in Hdig as [Hd Ha].
    repeat split.
    - unfold L.is_digit. unfold is_digit, in_range in Hd. exact Hd.
    - apply (forallb_imp is_digit); [|exact Ha]. intros x Hx. unfold L.is_digit. unfold is_digit, in_range in Hx. exact Hx.
    - intros ->. destruct (N.eqb_spec n 0); [destruct Hhead as [Ht _]; exact Ht | contradiction Hhead; reflexivity].
    - rewrite Hdv. exact Hn.
  Qed.

  (* strings of printable characters without quote and backslash are written as they are, in double quotes *)
  Lemma fmt_string_plain s : forallb printable_plain s = true -> fmt_string s = 34 :: s ++ [34] /\ LF.plain_body s.
  Proof.
    intro H.
    assert (E : escape_all_except_quotes s = s /\ contains c_dquote s = false /\ LF.plain_body s).
    { unfold LF.plain_body. induction s as [|c t IH]; [repeat split; reflexivity|].
      cbn [forallb] in H. apply andb_true_iff in H as [Hc Ht]. destruct (IH Ht) as [E1 [E2 E3]].
      unfold printable_plain in Hc. apply andb_true_iff in Hc as [Hc H39]. apply andb_true_iff in Hc as [Hc H92].
      apply andb_true_iff in Hc as [Hc H34]. apply negb_true_iff in H39, H92, H34.
      repeat split.
      - unfold escape_all_except_quotes in *. cbn [flat_map]. rewrite E1. unfold escape_char, is_quote, escape_default.
        change c_dquote with 34. change c_squote with 39. change c_bslash with 92.
        rewrite H34, H39, H92. cbn [orb].
        assert ((c =? 9) = false /\ (c =? 13) = false /\ (c =? 10) = false) as [X1 [X2 X3]].
        { pose proof Hc as Hr. unfold in_range in Hr. apply andb_true_iff in Hr as [Hlo _]. apply N.leb_le in Hlo. repeat split; apply N.eqb_neq; lia. }
        rewrite X1, X2, X3, Hc. reflexivity.
      - cbn [contains existsb]. change c_dquote with 34. rewrite N.eqb_sym, H34. exact E2.
      - cbn [forallb]. rewrite H34, H92. exact E3. }
    destruct E as [E1 [E2 E3]]. split; [|exact E3]. unfold fmt_string, quote_string. rewrite E1, E2. reflexivity.
  Qed.

  Lemma atom_lexes a : spaced_atom a = true -> lexes_as (atom_text R a) (atom_kind a).
  Proof.
    intro H. destruct HWORDS as [HT [HF HN]].
    destruct a as [path|l|s|sql parts|s|s|p]; cbn [spaced_atom] in H; try discriminate H.
    - (* identifier *)
      destruct path as [|w [|w2 t]]; try discriminate H. cbn [atom_text atom_kind display_ident map join_dot].
      apply leqb_spec in H as E. rewrite E. apply disp_bare_lexes. rewrite E. apply leqb_spec. reflexivity.
    - destruct l as [ |z|f|b|s|s|s|s|s|n u]; try discriminate H; cbn [atom_text atom_kind literal_text].
      + (* null *)
        rewrite <- HN. replace L.LNull with (LF.word_lit T (L.t_null T)).
        * apply (LF.word_lexes is_alpha is_alnum T TK FK). right; right; left; reflexivity.
        * unfold LF.word_lit. destruct (LF.words_distinct T TK) as [_ [A B]].
          destruct (leqb (L.t_null T) (L.t_true T)) eqn:X; [apply leqb_spec in X; congruence|].
          destruct (leqb (L.t_null T) (L.t_false T)) eqn:Y; [apply leqb_spec in Y; congruence | reflexivity].
      + (* integer *)
        apply andb_true_iff in H as [Hz Hm]. apply Z.leb_le in Hz. apply N.leb_le in Hm.
        assert (Es : show_Z z = show_N (Z.to_N z)) by (destruct z; try reflexivity; lia).
        rewrite Es. destruct (int_text_show (Z.to_N z) Hm) as [IT DV]. rewrite <- DV at 2.
        apply (LF.int_lexes is_alpha is_alnum T TK). exact IT.
      + (* true / false *)
        destruct b.
        * rewrite <- HT. replace (L.LBool true) with (LF.word_lit T (L.t_true T)).
          -- apply (LF.word_lexes is_alpha is_alnum T TK FK). left; reflexivity.
          -- unfold LF.word_lit. rewrite (proj2 (leqb_spec _ _) eq_refl). reflexivity.
        * rewrite <- HF. replace (L.LBool false) with (LF.word_lit T (L.t_false T)).
          -- apply (LF.word_lexes is_alpha is_alnum T TK FK). right; left; reflexivity.
          -- unfold LF.word_lit. destruct (LF.words_distinct T TK) as [A _].
             destruct (leqb (L.t_false T) (L.t_true T)) eqn:X; [apply leqb_spec in X; congruence|].
             rewrite (proj2 (leqb_spec _ _) eq_refl). reflexivity.
      + (* string *)
        destruct (fmt_string_plain s H) as [E PB]. rewrite E. apply (LF.string_lexes is_alpha is_alnum T TK). exact PB.
    - (* parameter *)
      cbn [atom_text atom_kind]. apply (LF.param_lexes is_alpha is_alnum T class_ok TK).
      apply (forallb_imp param_char); [|exact H]. intros c Hc. unfold L.is_param_char, param_char in *.
      apply orb_true_iff in Hc as [Hc|Hc]; [|rewrite Hc; apply orb_true_r].
      apply orb_true_iff in Hc as [Hc|Hc]; [|rewrite Hc; rewrite orb_true_r; reflexivity].
      assert (Lc : c < 128).
      { unfold in_ranges, alnum_ascii, in_range in Hc. cbn [existsb fst snd] in Hc.
        repeat (apply orb_true_iff in Hc as [Hc|Hc]); try discriminate Hc; apply andb_true_iff in Hc as [_ Hc]; apply N.leb_le in Hc; lia. }
      rewrite (ascii_alnum c Lc). change (in_ranges alnum_ascii c) with (in_ranges [(48, 57); (65, 90); (97, 122)] c). rewrite Hc. reflexivity.
  Qed.

  Lemma tok_lexes t : spaced_tok t = true -> Forall2 lexes_as (tok_texts t) (tok_kinds t).
  Proof.
    intro H. destruct t as [x|s un| | | | | | |n|n| | | | | | | | ]; cbn [spaced_tok] in H; try discriminate H;
      cbn [tok_texts tok_kinds tok_text].
    - constructor; [apply atom_lexes; exact H | constructor].
    - destruct un; [discriminate H|]. apply Nat.ltb_lt in H. constructor; [apply HSYM; exact H | constructor].
    - constructor; [apply (LF.control_lexes is_alpha is_alnum T TK FK); exact HPIPE | constructor].
    - constructor; [exact HARROW | constructor].
    - apply leqb_spec in H as E. rewrite E. constructor; [apply write_bare_lexes; rewrite E; apply leqb_spec; reflexivity|].
      constructor; [apply (LF.control_lexes is_alpha is_alnum T TK FK); exact HEQ | constructor].
  Qed.

  Lemma toks_lex ts : forallb spaced_tok ts = true -> Forall2 lexes_as (flat_map tok_texts ts) (flat_map tok_kinds ts).
  Proof.
    induction ts as [|a t IH]; intro H; [constructor|]. cbn [forallb] in H. apply andb_true_iff in H as [Ha Ht].
    cbn [flat_map]. apply Forall2_app; [apply tok_lexes; exact Ha | apply IH; exact Ht].
  Qed.

  Lemma kinds_finite ts : forallb spaced_tok ts = true -> forallb LF.kind_finite (flat_map tok_kinds ts) = true.
  Proof.
    induction ts as [|a t IH]; intro H; [reflexivity|]. cbn [forallb] in H. apply andb_true_iff in H as [Ha Ht].
    cbn [flat_map]. rewrite forallb_app, (IH Ht), andb_true_r. destruct HFIN as [HF1 HF2].
    destruct a as [x|s un| | | | | | |n|n| | | | | | | | ]; cbn [spaced_tok] in Ha; try discriminate Ha; cbn [tok_kinds forallb];
      rewrite ?HF1, ?HF2; try reflexivity.
    destruct x as [path|l|s|sql parts|s|s|p]; cbn [spaced_atom] in Ha; try discriminate Ha; cbn [atom_kind].
    - destruct path as [|w [|w2 t2]]; try discriminate Ha; reflexivity.
    - destruct l; try discriminate Ha; reflexivity.
    - reflexivity.
  Qed.

  (* ---------------- the theorem: the rendered text of a token list of the fragment lexes to its kinds *)
  Theorem render_lexes ts : forallb spaced_tok ts = true -> ts <> [] ->
    exists toks, L.lex is_alpha is_alnum T (render R ts) = Some (L.start_token :: toks) /\
                 map L.tkind toks = flat_map tok_kinds ts.
  Proof.
    intros H Hne. pose proof (kinds_finite ts H) as Hfin. destruct (render_spaced ts H Hne) as [E _]. rewrite E.
    pose proof (toks_lex ts H) as F2.
    exists (LF.spans_from 0 (flat_map tok_texts ts) (flat_map tok_kinds ts)). split.
    - apply (LF.render_lex is_alpha is_alnum T WF); assumption.
    - apply LF.spans_kinds. clear - F2. induction F2; [reflexivity | cbn [length]; f_equal; assumption].
  Qed.

  (* ---------------- back from the lexer's kinds to the tokens (FmtLex.untok) *)
  Variable sym_of : L.kind -> option tok.
  Notation untok := (FmtLex.untok sym_of).
  Notation kind_tok := (FmtLex.kind_tok sym_of).
  Hypothesis HBACK : FmtLex.back_ok nsym skind arrow sym_of = true.

  Lemma back_facts :
    (forall s, (s < nsym)%nat -> sym_of (skind s) = Some (TS s false) /\ is_eq_ctrl (skind s) = false /\ opkind (skind s) = true) /\
    (sym_of arrow = Some TArrow /\ is_eq_ctrl arrow = false /\ opkind arrow = true) /\
    sym_of (L.KControl 124) = Some TPipe.
  Proof.
    pose proof HBACK as HB. unfold FmtLex.back_ok in HB.
    apply andb_true_iff in HB as [HB HP]. apply andb_true_iff in HB as [HB HA3]. apply andb_true_iff in HB as [HB HA2].
    apply andb_true_iff in HB as [HS HA1].
    split; [|split].
    - intros s Hs. rewrite forallb_forall in HS. assert (Hin : In s (seq 0 nsym)) by (apply in_seq; lia).
      specialize (HS s Hin). apply andb_true_iff in HS as [HS H3]. apply andb_true_iff in HS as [H1 H2].
      apply negb_true_iff in H2. split; [|split; assumption].
      destruct (sym_of (skind s)) as [t|]; [|discriminate H1]. destruct t; try discriminate H1.
      destruct un; [discriminate H1|]. apply Nat.eqb_eq in H1. subst. reflexivity.
    - apply negb_true_iff in HA2. split; [|split; assumption].
      destruct (sym_of arrow) as [t|]; [|discriminate HA1]. destruct t; try discriminate HA1. reflexivity.
    - destruct (sym_of (L.KControl 124)) as [t|]; [|discriminate HP]. destruct t; try discriminate HP. reflexivity.
  Qed.

  Lemma kinds_shape t : spaced_tok t = true -> (exists n, t = TAlias n) \/ (exists k, tok_kinds t = [k]).
  Proof.
    intro H. destruct t as [x|s un| | | | | | |n|n| | | | | | | | ]; cbn [FmtLex.spaced_tok] in H; try discriminate H;
      cbn [FmtLex.tok_kinds]; try (right; eexists; reflexivity).
    left. exists n. reflexivity.
  Qed.

  Lemma kind_tok_back t k : spaced_tok t = true -> tok_kinds t = [k] -> kind_tok k = Some t.
  Proof.
    destruct back_facts as [BS [[BA1 [BA2 BA3]] BP]].
    intros H E. destruct t as [x|s un| | | | | | |n|n| | | | | | | | ]; cbn [FmtLex.spaced_tok] in H; try discriminate H;
      cbn [FmtLex.tok_kinds] in E.
    - injection E as <-. destruct x as [p|l|s|? ?|?|?|?]; cbn [FmtLex.spaced_atom] in H; try discriminate H.
      + destruct p as [|w [|? ?]]; try discriminate H. reflexivity.
      + destruct l; try discriminate H; cbn [FmtLex.atom_kind FmtLex.kind_tok]; try reflexivity.
        apply andb_true_iff in H as [H _]. apply Z.leb_le in H. rewrite Z2N.id by exact H. reflexivity.
      + reflexivity.
    - destruct un; [discriminate H|]. apply Nat.ltb_lt in H. injection E as <-. destruct (BS s H) as [B1 [B2 B3]].
      unfold FmtLex.kind_tok. destruct (skind s); try discriminate B3; exact B1.
    - injection E as <-. exact BP.
    - injection E as <-. unfold FmtLex.kind_tok. destruct arrow; try discriminate BA3; exact BA1.
    - discriminate E.
  Qed.

  Lemma head_not_eq t k r : spaced_tok t = true -> tok_kinds t = k :: r -> is_eq_ctrl k = false.
  Proof.
    destruct back_facts as [BS [[BA1 [BA2 BA3]] BP]].
    intros H E. destruct t as [x|s un| | | | | | |n|n| | | | | | | | ]; cbn [FmtLex.spaced_tok] in H; try discriminate H;
      cbn [FmtLex.tok_kinds] in E; injection E as <- _; try reflexivity.
    - destruct x as [[|w [|? ?]]|[]|?|? ?|?|?|?]; reflexivity.
    - destruct un; [discriminate H|]. apply Nat.ltb_lt in H. apply (BS s H).
    - exact BA2.
  Qed.

  Lemma untok_alias w r : untok (L.KIdent w :: L.KControl 61 :: r) = FmtLex.cons_tok (Some (TAlias w)) (untok r).
  Proof. reflexivity. Qed.

  Lemma untok_other k r : (forall k2 r2, r = k2 :: r2 -> is_eq_ctrl k2 = false) ->
    untok (k :: r) = FmtLex.cons_tok (kind_tok k) (untok r).
  Proof.
    intro H. destruct r as [|k2 r2]; [destruct k; reflexivity|]. specialize (H k2 r2 eq_refl).
    destruct k; try reflexivity.
    match goal with |- FmtLex.untok _ (L.KIdent ?w :: _) = _ =>
      change (untok (L.KIdent w :: k2 :: r2)) with
        (if is_eq_ctrl k2 then FmtLex.cons_tok (Some (TAlias w)) (untok r2) else FmtLex.cons_tok (kind_tok (L.KIdent w)) (untok (k2 :: r2))) end.
    rewrite H. reflexivity.
  Qed.

  Lemma untok_kinds ts : forallb spaced_tok ts = true -> untok (flat_map tok_kinds ts) = Some ts.
  Proof.
    induction ts as [|t ts IH]; [reflexivity|]. intro H. cbn [forallb] in H. apply andb_true_iff in H as [Ht Hts].
    specialize (IH Hts). cbn [flat_map].
    assert (HN : forall k2 r2, flat_map tok_kinds ts = k2 :: r2 -> is_eq_ctrl k2 = false).
    { intros k2 r2 E. destruct ts as [|t2 ts2]; [discriminate E|]. cbn [forallb] in Hts. apply andb_true_iff in Hts as [H2 _].
      cbn [flat_map] in E. destruct (tok_kinds t2) as [|k' r'] eqn:E2.
      - destruct (kinds_shape t2 H2) as [[n ->]|[k Ek]]; [discriminate E2 | rewrite Ek in E2; discriminate E2].
      - cbn [app] in E. injection E as Ek _. subst k2. exact (head_not_eq t2 k' r' H2 E2). }
    destruct (kinds_shape t Ht) as [[n ->]|[k Ek]].
    - cbn [FmtLex.tok_kinds app]. rewrite untok_alias, IH. reflexivity.
    - rewrite Ek. cbn [app]. rewrite (untok_other k _ HN), (kind_tok_back t k Ht Ek), IH. reflexivity.
  Qed.

  (* the text-level round trip of the fragment: the rendered text lexes, and the lexer's kinds read back as the tokens *)
  Theorem text_roundtrip ts : FmtLex.spaced R nsym ts = true ->
    exists toks, L.lex is_alpha is_alnum T (render R ts) = Some (L.start_token :: toks) /\
                 map L.tkind toks = flat_map tok_kinds ts /\ untok (map L.tkind toks) = Some ts.
  Proof.
    intro H. assert (N : ts <> []) by (intros ->; discriminate H).
    assert (H' : forallb spaced_tok ts = true) by (destruct ts; [discriminate H | exact H]).
    destruct (render_lexes ts H' N) as [toks [E1 E2]]. exists toks. split; [exact E1|]. split; [exact E2|].
    rewrite E2. apply untok_kinds; exact H'.
  Qed.
End Spaced.

(* ------------------------------------------------------------------ operator spellings *)
Section Symbols.
  Variable T : L.tables.
  Variable is_alpha is_alnum : N -> bool.
  Hypothesis TK : LexRelexDefs.relex_tables_ok T = true.
  Hypothesis FK : LF.forward_tables_ok T = true.

  Notation sym_kind := (FmtLex.sym_kind T).

  Lemma sym_kind_lexes txt k : sym_kind txt = Some k -> LF.lexes_as is_alpha is_alnum T txt k /\ LF.kind_finite k = true.
  Proof.
    unfold sym_kind. destruct txt as [|a [|b [|c t]]]; try discriminate.
    - destruct (L.c_in a (L.t_controls T)) eqn:E; [|discriminate]. intro H. injection H as <-.
      split; [apply (LF.control_lexes is_alpha is_alnum T TK FK); exact E | reflexivity].
    - destruct (find (fun o => leqb (fst o) [a; b]) (L.t_ops T)) as [o|] eqn:E; [|discriminate]. intro H. injection H as <-.
      apply find_some in E as [Hin Hl]. apply leqb_spec in Hl. destruct o as [tx [name ne]]. cbn [fst snd] in *. subst tx.
      split; [apply (LF.op_lexes is_alpha is_alnum T TK FK a b name ne); exact Hin | reflexivity].
  Qed.

  Lemma symtab_lexes (tab : list str) : forallb (fun txt => match sym_kind txt with Some _ => true | None => false end) tab = true ->
    (forall s, (s < length tab)%nat -> LF.lexes_as is_alpha is_alnum T (nth s tab []) (kind_or_start (sym_kind (nth s tab [])))) /\
    (forall s, LF.kind_finite (kind_or_start (sym_kind (nth s tab []))) = true).
  Proof.
    intro H. rewrite forallb_forall in H. split.
    - intros s Hs. specialize (H (nth s tab []) (nth_In _ _ Hs)).
      destruct (sym_kind (nth s tab [])) as [k|] eqn:E; [|discriminate H]. apply (sym_kind_lexes _ k E).
    - intro s. destruct (sym_kind (nth s tab [])) as [k|] eqn:E; [apply (sym_kind_lexes _ k E) | reflexivity].
  Qed.
End Symbols.

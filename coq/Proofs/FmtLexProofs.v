(* C14 -- text level, through C17's lexer model (Model/Lexer.v, Proofs/LexForward.v: imported read-only).
   For the SPACED FRAGMENT of the token language -- the tokens between any two of which the renderer writes exactly one
   blank -- the text `render` produces lexes, through the model of the real lexer on the tables regenerated from the
   source, to exactly the expected token kinds:
     bare one-part identifiers, true / false / null, non-negative integers, double-quoted strings of printable ASCII
     without quote and backslash, parameters, every BINARY operator symbol, the alias form `name =`, `|`, `=>`.
   Not in the fragment (their adjacency has no blank, or C17 has no forward lemma for them): parentheses, brackets,
   commas, unary operators, named arguments, ranges, floats, dates, raw strings, interpolations, backticked names. *)
From Coq Require Import List NArith ZArith Bool Arith Lia.
From PV Require Import Lib.ListX Model.FmtLit Model.FmtPratt Model.Fmt Model.FmtTy Model.FmtStmt Model.FmtInst Proofs.FmtLitProofs.
From PV Require Model.Lexer Model.LexerGen Proofs.LexProofs Proofs.LexRelexDefs Proofs.LexRelex Proofs.LexForward.
Import ListNotations.
Local Open Scope N_scope.

Module L := Lexer.
Module LF := LexForward.
Notation LT := LexerGen.gen_tables.

(* ---- table obligations on the lexer tables (the same as Props/C17.v states; re-judged here by vm_compute) *)
Lemma lex_tables_wf : LexProofs.tables_wf LT = true. Proof. vm_compute. reflexivity. Qed.
Lemma lex_relex_ok : LexRelexDefs.relex_tables_ok LT = true. Proof. vm_compute. reflexivity. Qed.
Lemma lex_forward_ok : LF.forward_tables_ok LT = true. Proof. vm_compute. reflexivity. Qed.

(* ---- cross-table obligation: the formatter's reserved words cover the lexer's keywords and true / false / null, and
        every operator spelling the formatter can print is a control character or a two-character operator of the lexer *)
Definition sym_kind (txt : str) : option L.kind :=
  match txt with
  | [c] => if L.c_in c (L.t_controls LT) then Some (L.KControl c) else None
  | [a; b] => match find (fun o => leqb (fst o) [a; b]) (L.t_ops LT) with Some o => Some (L.KOp (fst (snd o))) | None => None end
  | _ => None
  end.
Definition cross_tables_ok : bool :=
  forallb (fun k => existsb (leqb k) (it_disp_reserved I_prql) && existsb (leqb k) (it_fmt_keywords I_prql))
          (L.t_keywords LT ++ LexRelexDefs.words LT) &&
  forallb (fun txt => match sym_kind txt with Some _ => true | None => false end) symtab &&
  L.c_in 61 (L.t_controls LT) && L.c_in 124 (L.t_controls LT) &&
  match sym_kind [61; 62] with Some (L.KOp _) => true | _ => false end.
Lemma cross_ok : cross_tables_ok = true. Proof. vm_compute. reflexivity. Qed.

(* ------------------------------------------------------------------ the fragment *)
Definition printable_plain (c : N) : bool := in_range c 32 126 && negb (c =? 34) && negb (c =? 92).
Definition param_char (c : N) : bool := in_ranges alnum_ascii c || (c =? 95) || (c =? 46).

Definition spaced_atom (a : atom) : bool :=
  match a with
  | AIdent [w] => leqb (display_ident_part I_prql w) w          (* written bare *)
  | ALit (LBool _) | ALit LNull => true
  | ALit (LInt z) => (0 <=? z)%Z && (Z.to_N z <=? i64_max)
  | ALit (LStr s) => forallb printable_plain s
  | AParam s => forallb param_char s
  | _ => false
  end.
Definition spaced_tok (t : tok) : bool :=
  match t with
  | TA a => spaced_atom a
  | TS s false => (s <? length symtab)%nat
  | TAlias n => leqb (write_ident_part I_prql n) n
  | TPipe | TArrow => true
  | _ => false
  end.

(* the texts of a token (an alias is two lexer tokens) and the kinds they must lex to *)
Definition tok_texts (t : tok) : list str :=
  match t with
  | TAlias n => [write_ident_part I_prql n; [61]]
  | _ => [tok_text R_prql t]
  end.
Definition atom_kind (a : atom) : L.kind :=
  match a with
  | AIdent [w] => L.KIdent w
  | ALit (LBool b) => L.KLiteral (L.LBool b)
  | ALit LNull => L.KLiteral L.LNull
  | ALit (LInt z) => L.KLiteral (L.LInt (Z.to_N z))
  | ALit (LStr s) => L.KLiteral (L.LString s)
  | AParam s => L.KParam s
  | _ => L.KStart
  end.
Definition tok_kinds (t : tok) : list L.kind :=
  match t with
  | TA a => [atom_kind a]
  | TS s _ => match sym_kind (nth s symtab []) with Some k => [k] | None => [] end
  | TAlias n => [L.KIdent n; L.KControl 61]
  | TPipe => [L.KControl 124]
  | TArrow => match sym_kind [61; 62] with Some k => [k] | None => [] end
  | _ => []
  end.

(* ------------------------------------------------------------------ rendering = texts joined by single blanks *)
Lemma spaced_space a b : spaced_tok a = true -> spaced_tok b = true -> space_between a b = true.
Proof.
  destruct a as [x|s [|]| | | | | | |n|n| | | | | | | | ]; try discriminate;
    destruct b as [y|s2 [|]| | | | | | |n2|n2| | | | | | | | ]; try discriminate; reflexivity.
Qed.

Lemma join_sp_app xs ys : xs <> [] -> ys <> [] -> LF.join_sp (xs ++ ys) = LF.join_sp xs ++ 32 :: LF.join_sp ys.
Proof.
  intros Hx Hy. induction xs as [|x t IH]; [contradiction Hx; reflexivity|].
  destruct t as [|x2 t2].
  - cbn [app LF.join_sp]. destruct ys; [contradiction Hy; reflexivity | reflexivity].
  - change ((x :: x2 :: t2) ++ ys) with (x :: (x2 :: t2) ++ ys). cbn [LF.join_sp]. cbn [app] in IH.
    change (LF.join_sp (x :: x2 :: t2 ++ ys)) with (x ++ 32 :: LF.join_sp (x2 :: t2 ++ ys)).
    rewrite (IH ltac:(discriminate)). rewrite <- app_assoc. reflexivity.
Qed.

Lemma tok_texts_join t : spaced_tok t = true -> LF.join_sp (tok_texts t) = tok_text R_prql t /\ tok_texts t <> [].
Proof.
  intro H. destruct t as [x|s un| | | | | | |n|n| | | | | | | | ]; try discriminate; cbn [tok_texts]; try (split; [reflexivity | discriminate]).
  split; [|discriminate]. cbn [LF.join_sp tok_text ids R_prql sp]. rewrite <- app_assoc. reflexivity.
Qed.

Lemma render_spaced ts : forallb spaced_tok ts = true -> ts <> [] ->
  render R_prql ts = LF.join_sp (flat_map tok_texts ts) /\ flat_map tok_texts ts <> [].
Proof.
  induction ts as [|a t IH]; intros H Hne; [contradiction Hne; reflexivity|].
  cbn [forallb] in H. apply andb_true_iff in H as [Ha Ht]. destruct (tok_texts_join a Ha) as [Ea Hna].
  destruct t as [|b t'].
  - cbn [render flat_map]. rewrite app_nil_r. split; [symmetry; exact Ea | exact Hna].
  - destruct (IH Ht ltac:(discriminate)) as [E Hn]. cbn [forallb] in Ht. apply andb_true_iff in Ht as [Hb _].
    change (render R_prql (a :: b :: t')) with (tok_text R_prql a ++ (if space_between a b then [sp] else []) ++ render R_prql (b :: t')).
    rewrite (spaced_space a b Ha Hb), E. cbn [flat_map]. fold (flat_map tok_texts (b :: t')).
    rewrite (join_sp_app _ _ Hna Hn), Ea. split; [reflexivity|].
    destruct (tok_texts a); [contradiction Hna; reflexivity | discriminate].
Qed.

(* ------------------------------------------------------------------ every text lexes as its kind *)
Section Classes.
  Variable is_alpha is_alnum : N -> bool.
  Hypothesis ascii_alpha : forall c, c < 128 -> is_alpha c = in_ranges letters c.
  Hypothesis ascii_alnum : forall c, c < 128 -> is_alnum c = in_ranges alnum_ascii c.

  Notation lexes_as := (LF.lexes_as is_alpha is_alnum LT).

  Lemma class_ok : LexRelexDefs.class_ok is_alpha is_alnum.
  Proof.
    split; intros c H Lc.
    - rewrite (ascii_alpha c Lc) in H.
      pose proof (LexRelexDefs.ascii_all_spec (fun c => implb (in_ranges letters c) (LexRelexDefs.ascii_alpha c)) ltac:(vm_compute; reflexivity) c Lc) as X.
      cbv beta in X. rewrite H in X. exact X.
    - rewrite (ascii_alnum c Lc) in H.
      pose proof (LexRelexDefs.ascii_all_spec (fun c => implb (in_ranges alnum_ascii c) (LexRelexDefs.ascii_alnum c)) ltac:(vm_compute; reflexivity) c Lc) as X.
      cbv beta in X. rewrite H in X. exact X.
  Qed.
End Classes.

(* C04 -- proofs about Model/WinLower.v *)
From Coq Require Import List NArith Bool.
From PV Require Import Model.WinLower.
Import ListNotations.

Lemma on_eqb_refl a : on_eqb a a = true.
Proof. destruct a; cbn; [apply N.eqb_refl | reflexivity]. Qed.

Lemma lreplay_app cur a b : lreplay cur (a ++ b) = true <-> exists cur', lreplay cur a = true /\ True /\ lreplay cur' b = true /\
  cur' = fold_left (fun c o => match o with LSet w => Some w | LTake | LReset => None | LDeclare _ _ => c end) a cur.
Proof.
  revert cur. induction a as [|o a IH]; intro cur; cbn [app lreplay fold_left].
  - split; [intro H; exists cur; auto | intros [c [_ [_ [H ->]]]]; exact H].
  - destruct o as [w| | |n g]; try apply IH.
    rewrite andb_true_iff. split.
    + intros [H1 H2]. apply IH in H2 as [c [Ha [_ [Hb E]]]]. exists c. rewrite H1. auto.
    + intros [c [Ha [_ [Hb E]]]]. apply andb_true_iff in Ha as [H1 Ha]. split; [exact H1|]. apply IH. exists c. auto.
Qed.

Lemma declares_replay cur cols : lreplay cur (declares cur cols) = true.
Proof. induction cols as [|n cols IH]; [reflexivity|]. cbn [declares map lreplay]. rewrite on_eqb_refl. exact IH. Qed.

Lemma declares_keep cur cols : fold_left (fun c o => match o with LSet w => Some w | LTake | LReset => None | LDeclare _ _ => c end) (declares cur cols) cur = cur.
Proof. unfold declares. induction cols as [|n cols IH]; [reflexivity|]. cbn [map fold_left]. exact IH. Qed.

(* one transform call, entered with the field at None, is a trace declare_as_column agrees with, and leaves the field at None *)
Lemma call_replays c : lreplay None (ops_of_call c) = true /\
  fold_left (fun c o => match o with LSet w => Some w | LTake | LReset => None | LDeclare _ _ => c end) (ops_of_call c) None = None.
Proof.
  unfold ops_of_call. split.
  - apply lreplay_app. eexists. split; [apply declares_replay|]. split; [exact I|]. split; [|reflexivity].
    rewrite declares_keep. cbn [app lreplay].
    apply lreplay_app. eexists. split; [|split; [exact I | split; [|reflexivity]]].
    + destruct (tc_body c); cbn [lreplay]; try apply declares_replay. reflexivity.
    + reflexivity.
  - rewrite !fold_left_app. cbn [fold_left]. reflexivity.
Qed.

Lemma pipeline_replays p : lreplay None (ops_of_pipeline p) = true.
Proof.
  unfold ops_of_pipeline. induction p as [|c p IH]; [reflexivity|]. cbn [flat_map].
  apply lreplay_app. destruct (call_replays c) as [H1 H2]. eexists. split; [exact H1|]. split; [exact I|]. split; [|reflexivity].
  rewrite H2. exact IH.
Qed.

(* what the columns get *)
Lemma body_column_gets_window c cols n g : tc_body c = BColumns cols -> In (n, g) (body_windows c) -> g = if n then Some (tc_win c) else None.
Proof. intros E H. unfold body_windows in H. rewrite E in H. apply in_map_iff in H as [m [H _]]. injection H as <- <-. reflexivity. Qed.

Lemma aggregate_column_gets_none c cols n g : tc_body c = BAggregate cols -> In (n, g) (body_windows c) -> g = None.
Proof. intros E H. unfold body_windows in H. rewrite E in H. apply in_map_iff in H as [m [H _]]. injection H as _ <-. destruct m; reflexivity. Qed.

Lemma key_column_gets_none c n g : In (n, g) (key_windows c) -> g = None.
Proof. intro H. unfold key_windows in H. apply in_map_iff in H as [m [H _]]. injection H as _ <-. destruct m; reflexivity. Qed.

(* Instance lemmas for the PRQL source grammar (Model/PrqlExpr.v over Gen/GenPratt.v). *)
From Coq Require Import List Arith Lia Bool.
From PV Require Import Lib.ListX Model.Pratt Model.PrqlExpr Proofs.PrattProofs Gen.GenPratt.
Import ListNotations.

Lemma pops_complete : forall o : pop, In o pops_all.
Proof. intros [b|]; [right; apply in_map; destruct b; vm_compute; tauto | left; reflexivity]. Qed.
Lemma unops_complete : forall u : unop, In u unops_all.
Proof. intros u; destruct u; vm_compute; tauto. Qed.

(* Theta-1 for the PRQL grammar: any printer whose policy passes [compat] round-trips *)
Lemma prql_print_parse_roundtrip (P : policy pop unop) :
  compat pop unop pprec prassoc puprec PINF pops_all unops_all P = true ->
  forall e : gexpr, exists fuel, gparse fuel 0 (print pop unop nat nat P e) = Some (e, []).
Proof.
  exact (print_parse_roundtrip pop unop nat nat pprec prassoc puprec PINF pops_all unops_all
           pops_complete unops_complete P).
Qed.

(* uniqueness: the tree is determined by the table -- two table-respecting readings of one token list agree *)
Lemma prql_unique : table_ok pop unop pprec prassoc puprec PINF pops_all unops_all = true ->
  forall d1 d2 : dexpr pop unop nat nat,
  dok pop unop nat nat pprec prassoc puprec PINF d1 = true ->
  dok pop unop nat nat pprec prassoc puprec PINF d2 = true ->
  dprint pop unop nat nat d1 = dprint pop unop nat nat d2 -> erase d1 = erase d2.
Proof.
  intros T. destruct (table_ok_facts pop unop pprec prassoc puprec PINF pops_all unops_all pops_complete unops_complete T) as [A [B [C D]]].
  exact (dprint_unique pop unop nat nat pprec prassoc puprec PINF A B D).
Qed.

(* and the parser finds it *)
Lemma prql_parse_finds : table_ok pop unop pprec prassoc puprec PINF pops_all unops_all = true ->
  forall d : dexpr pop unop nat nat, dok pop unop nat nat pprec prassoc puprec PINF d = true ->
  exists fuel, gparse fuel 0 (dprint pop unop nat nat d) = Some (erase d, []).
Proof.
  intros T. destruct (table_ok_facts pop unop pprec prassoc puprec PINF pops_all unops_all pops_complete unops_complete T) as [A [B [C D]]].
  exact (dprint_parse_roundtrip pop unop nat nat pprec prassoc puprec PINF A B D).
Qed.

(* soundness: whatever tree the parser returns is a reading of the tokens that respects the table *)
From PV Require Import Proofs.PrattSound.
Lemma prql_parse_sound : table_ok pop unop pprec prassoc puprec PINF pops_all unops_all = true ->
  forall fuel ts e, gparse fuel 0 ts = Some (e, []) ->
  exists n d, erase d = e /\ dok pop unop nat nat pprec prassoc puprec PINF d = true /\ ts = wrap n (dprint pop unop nat nat d).
Proof.
  intros T. destruct (table_ok_facts pop unop pprec prassoc puprec PINF pops_all unops_all pops_complete unops_complete T) as [A [B [C D]]].
  apply (parse_sound pop unop nat nat pprec prassoc puprec PINF A B C).
  - intros u o. destruct o as [b|]; [destruct b|]; vm_compute; lia.
  - intros u u'. reflexivity.
Qed.

(* C14 -- type expressions: every well-formed type parses back, through the model of parser/types.rs, from the tokens
   the model of codegen/types.rs emits; more fuel never changes a parse. *)
From Coq Require Import List NArith Bool Arith Lia.
From PV Require Import Lib.ListX Model.FmtLit Model.FmtPratt Model.FmtTy.
Import ListNotations.

Ltac bsplit := repeat match goal with H : (_ && _) = true |- _ => apply andb_true_iff in H; destruct H end.

Lemma ty_ind2 (P : ty -> Prop) :
  (forall n, P (TyPrim n)) -> (forall p, P (TyIdent p)) -> P TyFunc0 ->
  (forall ps r, Forall P ps -> P r -> P (TyFunc ps r)) -> (forall fs, Forall P fs -> P (TyTuple fs)) ->
  P TyArr0 -> (forall e, P e -> P (TyArr e)) -> (forall n t, P t -> P (TyField n t)) -> (forall n, P (TyStar n)) ->
  P TyWild0 -> (forall t, P t -> P (TyWild t)) -> forall t, P t.
Proof.
  intros HP HI HF0 HF HT HA0 HA HFd HS HW0 HW. fix IH 1.
  intros [n|p| |ps r|fs| |e|n t|n| |t].
  - apply HP. - apply HI. - apply HF0.
  - apply HF; [|apply IH]. induction ps as [|a l IHl]; constructor; [apply IH | exact IHl].
  - apply HT. induction fs as [|a l IHl]; constructor; [apply IH | exact IHl].
  - apply HA0. - apply HA; apply IH. - apply HFd; apply IH. - apply HS. - apply HW0. - apply HW; apply IH.
Qed.

Lemma go_forall_ty (p : ty -> bool) l :
  (fix go (l : list ty) : bool := match l with [] => true | a :: t => p a && go t end) l = forallb p l.
Proof. induction l as [|a t IH]; [reflexivity|]. cbn [forallb]. rewrite <- IH. reflexivity. Qed.

(* ------------------------------------------------------------------ fuel monotonicity *)
Definition ext (P Q : list tok -> option (ty * list tok)) : Prop := forall ts r, P ts = Some r -> Q ts = Some r.

Lemma params_mono P Q (L : ext P Q) : forall n m ts r, n <= m -> params_loop P n ts = Some r -> params_loop Q m ts = Some r.
Proof.
  induction n as [|n IH]; intros m ts r Hle H; [discriminate H|]. destruct m as [|m]; [lia|]. cbn [params_loop] in *.
  destruct ts as [|t ts']; [exact H|]. destruct (starts_ty t); [|exact H].
  destruct (P (t :: ts')) as [[a r1]|] eqn:E1; [|discriminate H]. rewrite (L _ _ E1).
  destruct (params_loop P n r1) as [[l r2]|] eqn:E2; [|discriminate H]. rewrite (IH m _ _ ltac:(lia) E2). exact H.
Qed.

Lemma field_mono P Q (L : ext P Q) ts r : p_field P ts = Some r -> p_field Q ts = Some r.
Proof.
  unfold p_field. intro H.
  repeat match type of H with
  | context [match P ?a with _ => _ end] => let E := fresh "E" in destruct (P a) as [[? ?]|] eqn:E; [rewrite (L _ _ E) | discriminate H]
  | context [match ?d with _ => _ end] => destruct d; try discriminate H
  end; exact H.
Qed.

Lemma fields_mono P Q (L : ext P Q) : forall n m ts r, n <= m -> fields_loop P n ts = Some r -> fields_loop Q m ts = Some r.
Proof.
  induction n as [|n IH]; intros m ts r Hle H; [discriminate H|]. destruct m as [|m]; [lia|]. cbn [fields_loop] in *.
  assert (K : match p_field P ts with
              | Some (a, TComma :: r1) => match fields_loop P n r1 with Some (l, r2) => Some (a :: l, r2) | None => None end
              | Some (a, TClose GTup :: r1) => Some ([a], r1)
              | _ => None end = Some r ->
              match p_field Q ts with
              | Some (a, TComma :: r1) => match fields_loop Q m r1 with Some (l, r2) => Some (a :: l, r2) | None => None end
              | Some (a, TClose GTup :: r1) => Some ([a], r1)
              | _ => None end = Some r).
  { intro HX. destruct (p_field P ts) as [[a r0]|] eqn:E; [|discriminate HX]. rewrite (field_mono P Q L _ _ E).
    destruct r0 as [|t0 r1]; [exact HX|]. destruct t0; try exact HX.
    destruct (fields_loop P n r1) as [[l r2]|] eqn:E2; [|discriminate HX]. rewrite (IH m _ _ ltac:(lia) E2). exact HX. }
  destruct ts as [|t ts']; [apply K; exact H|]. destruct t; try (apply K; exact H). destruct k; try (apply K; exact H). exact H.
Qed.

Lemma p_ty_mono : forall f g ts r, f <= g -> p_ty f ts = Some r -> p_ty g ts = Some r.
Proof.
  induction f as [|f IH]; intros g ts r Hle H; [discriminate H|]. destruct g as [|g]; [lia|].
  assert (L : ext (p_ty f) (p_ty g)) by (intros ts0 r0; apply IH; lia).
  cbn [p_ty] in *.
  destruct ts as [|t ts']; [exact H|]. destruct t; try exact H.
  - destruct k; try exact H.
    + (* tuple *)
      destruct (fields_loop (p_ty f) f ts') as [[fs r1]|] eqn:E1; [|discriminate H].
      rewrite (fields_mono _ _ L f g _ _ ltac:(lia) E1). exact H.
    + (* array *)
      assert (K : match p_ty f ts' with
                  | Some (e, r1) => match r1 with TClose GArr :: r2 => Some (TyArr e, r2) | _ => None end
                  | None => None end = Some r ->
                  match p_ty g ts' with
                  | Some (e, r1) => match r1 with TClose GArr :: r2 => Some (TyArr e, r2) | _ => None end
                  | None => None end = Some r).
      { intro HX. destruct (p_ty f ts') as [[e r0]|] eqn:E; [|discriminate HX]. rewrite (L _ _ E). exact HX. }
      destruct ts' as [|t2 r2]; [apply K; exact H|]. destruct t2; try (apply K; exact H). destruct k; try (apply K; exact H). exact H.
  - (* func *)
    destruct ts' as [|t2 r2]; [exact H|].
    destruct (starts_ty t2 || match t2 with TThin => true | _ => false end); [|exact H].
    destruct (params_loop (p_ty f) f (t2 :: r2)) as [[ps r3]|] eqn:E1; [|discriminate H].
    rewrite (params_mono _ _ L f g _ _ ltac:(lia) E1).
    destruct r3 as [|t3 r4]; [exact H|]. destruct t3; try exact H.
    destruct (p_ty f r4) as [[rt r5]|] eqn:E2; [|discriminate H]. rewrite (L _ _ E2). exact H.
Qed.

Theorem parse_ty_mono f g ts t : f <= g -> parse_ty f ts = Some t -> parse_ty g ts = Some t.
Proof.
  intros Hle H. unfold parse_ty in *. destruct (p_ty f ts) as [[t0 r]|] eqn:E; [|discriminate H].
  rewrite (p_ty_mono f g _ _ Hle E). exact H.
Qed.

(* ------------------------------------------------------------------ the round trip *)
(* what may follow a type whose text ends in a bare `func` *)
Definition stop_func (rest : list tok) : Prop :=
  match rest with
  | [] => True
  | t :: _ => starts_ty t = false /\ match t with TThin => False | _ => True end
  end.

Lemma head_ty t : is_field t = false -> exists h ts, fmt_ty t = h :: ts /\ starts_ty h = true.
Proof.
  destruct t; intro H; try discriminate H; cbn [fmt_ty]; eexists _, _; split; reflexivity.
Qed.

Definition good_ty (t : ty) : Prop :=
  wf_ty t = true -> is_field t = false -> forall rest, (ends_func t = true -> stop_func rest) ->
  exists g, forall f, g <= f -> p_ty f (fmt_ty t ++ rest) = Some (t, rest).

(* what may follow a field: `,` or `}` *)
Definition after_field (rest : list tok) : Prop := exists r, rest = TComma :: r \/ rest = TClose GTup :: r.
Lemma after_stop rest : after_field rest -> stop_func rest.
Proof. intros [r [->| ->]]; split; try reflexivity; exact I. Qed.


Fixpoint fmt_fields (l : list ty) : list tok :=
  match l with
  | [] => []
  | [a] => fmt_ty a
  | a :: t => fmt_ty a ++ TComma :: fmt_fields t
  end.

Lemma fmt_tuple fs : fmt_ty (TyTuple fs) = TOpen GTup :: fmt_fields fs ++ [TClose GTup].
Proof.
  assert (G : forall l,
    (fix go (l : list ty) : list tok :=
       match l with
       | [] => []
       | [a] => fmt_ty a
       | a :: (_ :: _) as t => fmt_ty a ++ TComma :: go t
       end) l = fmt_fields l).
  { induction l as [|a t IH]; [reflexivity|]. destruct t as [|b t']; [reflexivity|].
    change (fmt_fields (a :: b :: t')) with (fmt_ty a ++ TComma :: fmt_fields (b :: t')). rewrite <- IH. reflexivity. }
  cbn [fmt_ty]. rewrite G. reflexivity.
Qed.

Definition field_good (t : ty) : Prop :=
  wf_ty t = true -> is_field t = true -> forall rest, after_field rest ->
  exists g, forall f, g <= f -> p_field (p_ty f) (fmt_ty t ++ rest) = Some (t, rest).

Lemma no_ends t rest : ends_func t = false -> ends_func t = true -> stop_func rest.
Proof. intros H1 H2. rewrite H1 in H2. discriminate H2. Qed.

Lemma params_ok X : forall ps, Forall good_ty ps ->
  forallb (fun a => negb (is_field a) && negb (ends_func a) && wf_ty a) ps = true ->
  exists g, forall f n, g <= f -> g <= n -> params_loop (p_ty f) n (flat_map fmt_ty ps ++ TThin :: X) = Some (ps, TThin :: X).
Proof.
  induction ps as [|a t IH]; intros HG Hw.
  - exists 1. intros f n _ Hn. destruct n; [lia|]. reflexivity.
  - inversion HG as [|? ? Ga Gt]; subst. cbn [forallb] in Hw. bsplit.
    destruct (IH Gt ltac:(assumption)) as [g2 Hg2].
    assert (Hnf : is_field a = false) by (apply negb_true_iff; assumption).
    assert (Hne : ends_func a = false) by (apply negb_true_iff; assumption).
    destruct (Ga ltac:(assumption) Hnf (flat_map fmt_ty t ++ TThin :: X) (no_ends a _ Hne)) as [g1 Hg1].
    destruct (head_ty a Hnf) as [h [ts [Eh Hs]]].
    exists (S (g1 + g2)). intros f n Hf Hn. destruct n; [lia|].
    cbn [flat_map]. rewrite <- app_assoc. cbn [params_loop].
    rewrite Eh at 1. cbn [app]. rewrite Hs.
    rewrite (Hg1 f ltac:(lia)). rewrite (Hg2 f n ltac:(lia) ltac:(lia)). reflexivity.
Qed.

Lemma field_head t : is_field t = true -> wf_ty t = true ->
  exists h ts, fmt_ty t = h :: ts /\ match h with TClose _ => False | _ => True end.
Proof.
  intros Hf Hw. destruct t as [n|p| |ps r|fs| |e|n x|n| |x]; try discriminate Hf; cbn [fmt_ty].
  - destruct n as [n|]; [eexists _, _; split; [reflexivity | exact I]|].
    cbn [wf_ty] in Hw. bsplit. destruct (head_ty x ltac:(apply negb_true_iff; assumption)) as [h [ts [E Hs]]]. rewrite E.
    eexists _, _; split; [reflexivity|]. destruct h; try exact I. discriminate Hs.
  - destruct n; eexists _, _; split; try reflexivity; exact I.
  - eexists _, _; split; [reflexivity | exact I].
  - eexists _, _; split; [reflexivity | exact I].
Qed.

Lemma fields_ok X : forall fs, Forall field_good fs -> forallb (fun a => is_field a && wf_ty a) fs = true ->
  exists g, forall f n, g <= f -> g <= n -> fields_loop (p_ty f) n (fmt_fields fs ++ TClose GTup :: X) = Some (fs, X).
Proof.
  induction fs as [|a t IH]; intros HG Hw.
  - exists 1. intros f n _ Hn. destruct n; [lia|]. reflexivity.
  - inversion HG as [|? ? Ga Gt]; subst. cbn [forallb] in Hw. bsplit.
    destruct (field_head a ltac:(assumption) ltac:(assumption)) as [h [ts [Eh Hh]]].
    destruct t as [|b t'].
    + destruct (Ga ltac:(assumption) ltac:(assumption) (TClose GTup :: X) ltac:(eexists; right; reflexivity)) as [g1 Hg1].
      exists (S g1). intros f n Hf Hn. destruct n; [lia|]. cbn [fmt_fields fields_loop].
      rewrite (Hg1 f ltac:(lia)). rewrite Eh. cbn [app]. destruct h; try reflexivity. contradiction.
    + destruct (IH Gt ltac:(assumption)) as [g2 Hg2].
      destruct (Ga ltac:(assumption) ltac:(assumption) (TComma :: fmt_fields (b :: t') ++ TClose GTup :: X) ltac:(eexists; left; reflexivity)) as [g1 Hg1].
      exists (S (g1 + g2)). intros f n Hf Hn. destruct n; [lia|].
      change (fmt_fields (a :: b :: t')) with (fmt_ty a ++ TComma :: fmt_fields (b :: t')). rewrite <- app_assoc. cbn [app fields_loop].
      rewrite (Hg1 f ltac:(lia)). rewrite (Hg2 f n ltac:(lia) ltac:(lia)). rewrite Eh. cbn [app]. destruct h; try reflexivity. contradiction.
Qed.

Lemma p_field_named P n l rest h ts : l = h :: ts -> starts_ty h = true ->
  p_field P (TAlias n :: l ++ rest) = match P (l ++ rest) with Some (a, r1) => Some (TyField (Some n) a, r1) | None => None end.
Proof. intros -> Hs. cbn [app]. destruct h; try discriminate Hs; try reflexivity. Qed.
Lemma p_field_plain P l rest h ts : l = h :: ts -> starts_ty h = true ->
  p_field P (l ++ rest) = match P (l ++ rest) with Some (a, r1) => Some (TyField None a, r1) | None => None end.
Proof. intros -> Hs. cbn [app]. destruct h; try discriminate Hs; try reflexivity. Qed.
Lemma p_field_wild P l rest h ts : l = h :: ts -> starts_ty h = true ->
  p_field P (TRg false true :: l ++ rest) = match P (l ++ rest) with Some (a, r1) => Some (TyWild a, r1) | None => None end.
Proof. intros -> Hs. cbn [app p_field]. rewrite Hs. reflexivity. Qed.

Theorem all_good_ty t : good_ty t /\ field_good t.
Proof.
  induction t as [n|p| |ps r IHps IHr|fs IHfs| |e IHe|n x IHx|n| |x IHx] using ty_ind2; split;
    try (intros _ Hf; discriminate Hf).
  - (* primitive *)
    intros Hw _ rest _. exists 1. intros f Hf. destruct f; [lia|]. cbn [fmt_ty app p_ty ty_of_path]. cbn [wf_ty] in Hw. rewrite Hw. reflexivity.
  - (* identifier *)
    intros Hw _ rest _. exists 1. intros f Hf. destruct f; [lia|]. cbn [fmt_ty app p_ty]. cbn [wf_ty] in Hw.
    unfold ty_of_path. destruct p as [|n [|m t]]; try reflexivity. destruct (is_prim n); [discriminate Hw | reflexivity].
  - (* func *)
    intros _ _ rest Hs. specialize (Hs eq_refl). exists 1. intros f Hf. destruct f; [lia|]. cbn [fmt_ty app p_ty].
    destruct rest as [|t r]; [reflexivity|]. destruct Hs as [Hs1 Hs2]. rewrite Hs1. destruct t; try reflexivity. contradiction.
  - (* func p.. -> r *)
    intros Hw _ rest Hs. cbn [wf_ty] in Hw. rewrite go_forall_ty in Hw. bsplit. destruct IHr as [Gr _].
    assert (Hnr : is_field r = false) by (apply negb_true_iff; assumption).
    destruct (Gr ltac:(assumption) Hnr rest Hs) as [g2 Hg2].
    destruct (params_ok (fmt_ty r ++ rest) ps) as [g1 Hg1].
    { clear - IHps. induction IHps as [|a t [Ga _] _ IH]; constructor; assumption. }
    { assumption. }
    exists (S (g1 + g2)). intros f Hf. destruct f; [lia|]. cbn [fmt_ty app]. rewrite <- app_assoc. cbn [app p_ty].
    assert (Hhd : exists t2 r2, flat_map fmt_ty ps ++ TThin :: fmt_ty r ++ rest = t2 :: r2 /\
                                (starts_ty t2 || match t2 with TThin => true | _ => false end) = true).
    { destruct ps as [|a t]; [eexists _, _; split; reflexivity|].
      match goal with H : forallb _ (a :: t) = true |- _ => cbn [forallb] in H end. bsplit.
      destruct (head_ty a ltac:(apply negb_true_iff; assumption)) as [h [ts [E Hh]]].
      cbn [flat_map]. rewrite E. cbn [app]. eexists _, _; split; [reflexivity|]. rewrite Hh. reflexivity. }
    destruct Hhd as [t2 [r2 [E Ht2]]]. rewrite E at 1. cbv iota. rewrite Ht2.
    rewrite (Hg1 f f ltac:(lia) ltac:(lia)). rewrite (Hg2 f ltac:(lia)). reflexivity.
  - (* tuple *)
    intros Hw _ rest _. cbn [wf_ty] in Hw. rewrite go_forall_ty in Hw. bsplit.
    destruct (fields_ok rest fs) as [g1 Hg1].
    { clear - IHfs. induction IHfs as [|a t [_ Ga] _ IH]; constructor; assumption. }
    { assumption. }
    exists (S g1). intros f Hf. destruct f; [lia|]. rewrite fmt_tuple. cbn [app]. rewrite <- app_assoc. cbn [app p_ty].
    rewrite (Hg1 f f ltac:(lia) ltac:(lia)). reflexivity.
  - (* [] *)
    intros _ _ rest _. exists 1. intros f Hf. destruct f; [lia|]. reflexivity.
  - (* [e] *)
    intros Hw _ rest _. cbn [wf_ty] in Hw. bsplit. destruct IHe as [Ge _].
    assert (Hne : is_field e = false) by (apply negb_true_iff; assumption).
    destruct (Ge ltac:(assumption) Hne (TClose GArr :: rest) ltac:(intros _; split; [reflexivity | exact I])) as [g1 Hg1].
    destruct (head_ty e Hne) as [h [ts [E Hh]]].
    exists (S g1). intros f Hf. destruct f; [lia|]. cbn [fmt_ty app]. rewrite <- app_assoc. cbn [app p_ty].
    rewrite (Hg1 f ltac:(lia)). rewrite E. cbn [app]. destruct h; try discriminate Hh; try reflexivity; destruct k; try discriminate Hh; reflexivity.
  - (* field n = t / t *)
    intros Hw _ rest Ha. cbn [wf_ty] in Hw. bsplit. destruct IHx as [Gx _].
    assert (Hnx : is_field x = false) by (apply negb_true_iff; assumption).
    destruct (Gx ltac:(assumption) Hnx rest (fun _ => after_stop rest Ha)) as [g1 Hg1].
    destruct (head_ty x Hnx) as [h [ts [E Hh]]].
    exists g1. intros f Hf. destruct n as [n|]; cbn [fmt_ty app].
    + rewrite (p_field_named _ n _ rest h ts E Hh), (Hg1 f Hf). reflexivity.
    + rewrite (p_field_plain _ _ rest h ts E Hh), (Hg1 f Hf). reflexivity.
  - (* n = * / * *)
    intros _ _ rest _. exists 0. intros f _. destruct n; reflexivity.
  - (* .. *)
    intros _ _ rest _. exists 0. intros f _. reflexivity.
  - (* ..t *)
    intros Hw _ rest Ha. cbn [wf_ty] in Hw. bsplit. destruct IHx as [Gx _].
    assert (Hnx : is_field x = false) by (apply negb_true_iff; assumption).
    destruct (Gx ltac:(assumption) Hnx rest (fun _ => after_stop rest Ha)) as [g1 Hg1].
    destruct (head_ty x Hnx) as [h [ts [E Hh]]].
    exists g1. intros f Hf. cbn [fmt_ty app]. rewrite (p_field_wild _ _ rest h ts E Hh), (Hg1 f Hf). reflexivity.
Qed.

Theorem ty_roundtrip t : wf_ty t = true -> is_field t = false ->
  exists f0, forall f, f0 <= f -> parse_ty f (fmt_ty t) = Some t.
Proof.
  intros Hw Hf. destruct (all_good_ty t) as [G _]. destruct (G Hw Hf [] (fun _ => I)) as [g H].
  exists g. intros f Hle. unfold parse_ty. rewrite app_nil_r in H. rewrite (H f Hle). reflexivity.
Qed.

(* C13 lemmas about Model/Span.v *)
From Coq Require Import List NArith ZArith Bool Arith Lia.
From PV Require Import Lib.ListX Model.Checked Model.Span Proofs.CheckedProofs.
Import ListNotations.

Local Arguments Nat.ltb : simpl never.
Local Arguments Nat.leb : simpl never.
Local Arguments Nat.eqb : simpl never.
Local Arguments Nat.sub : simpl never.
Local Arguments utf8_len : simpl never.

(* ------------------------------------------------------------ UTF-8 offsets *)
Lemma utf8_len_bounds c : 1 <= utf8_len c <= 4.
Proof.
  unfold utf8_len. destruct (N.ltb c 128); [lia|]. destruct (N.ltb c 2048); [lia|].
  destruct (N.ltb c 65536); lia.
Qed.

Lemma utf8_len_ascii c : is_ascii c = true -> utf8_len c = 1.
Proof. unfold is_ascii, utf8_len. intros ->. reflexivity. Qed.

Lemma byte_len_app a b : byte_len (a ++ b) = byte_len a + byte_len b.
Proof. induction a as [|c a IH]; cbn [byte_len app]; [reflexivity | rewrite IH; lia]. Qed.

Lemma byte_len_ge_length s : length s <= byte_len s.
Proof. induction s as [|c s IH]; cbn [byte_len length]; [lia | pose proof (utf8_len_bounds c); lia]. Qed.

Lemma byte_of_char_0 s : byte_of_char s 0 = 0.
Proof. reflexivity. Qed.

Lemma byte_of_char_S c s k : byte_of_char (c :: s) (S k) = utf8_len c + byte_of_char s k.
Proof. reflexivity. Qed.

Lemma byte_of_char_le s k : byte_of_char s k <= byte_len s.
Proof.
  unfold byte_of_char. rewrite <- (firstn_skipn k s) at 2. rewrite byte_len_app. lia.
Qed.

Lemma byte_of_char_all s : byte_of_char s (length s) = byte_len s.
Proof. unfold byte_of_char. rewrite firstn_all. reflexivity. Qed.

Lemma byte_of_char_mono s : forall j k, j <= k -> byte_of_char s j <= byte_of_char s k.
Proof.
  induction s as [|c s IH]; intros j k H.
  - unfold byte_of_char. rewrite !firstn_nil. lia.
  - destruct j as [|j]; [rewrite byte_of_char_0; lia|].
    destruct k as [|k]; [lia|]. rewrite !byte_of_char_S. specialize (IH j k). lia.
Qed.

Lemma byte_of_char_strict s : forall j k, j < k -> k <= length s -> byte_of_char s j < byte_of_char s k.
Proof.
  induction s as [|c s IH]; intros j k H Hk; cbn [length] in Hk; [lia|].
  destruct k as [|k]; [lia|]. rewrite byte_of_char_S. pose proof (utf8_len_bounds c).
  destruct j as [|j]; [rewrite byte_of_char_0; lia|].
  rewrite byte_of_char_S. specialize (IH j k). lia.
Qed.

Lemma char_of_byte_of_char s : forall k, k <= length s -> char_of_byte s (byte_of_char s k) = Ret k.
Proof.
  induction s as [|c s IH]; intros k Hk; cbn [length] in Hk.
  - assert (k = 0) by lia. subst. reflexivity.
  - destruct k as [|k]; [reflexivity|].
    rewrite byte_of_char_S. cbn [char_of_byte]. pose proof (utf8_len_bounds c).
    destruct (Nat.eqb_spec (utf8_len c + byte_of_char s k) 0); [lia|].
    destruct (Nat.leb_spec (utf8_len c) (utf8_len c + byte_of_char s k)); [|lia].
    replace (utf8_len c + byte_of_char s k - utf8_len c) with (byte_of_char s k) by lia.
    rewrite IH by lia. reflexivity.
Qed.

Lemma char_of_byte_ret s : forall b k, char_of_byte s b = Ret k -> k <= length s /\ byte_of_char s k = b.
Proof.
  induction s as [|c s IH]; intros b k H; cbn [char_of_byte] in H.
  - destruct (Nat.eqb_spec b 0); [|discriminate]. injection H as <-. subst. split; [cbn; lia | reflexivity].
  - destruct (Nat.eqb_spec b 0).
    + injection H as <-. subst. split; [lia | reflexivity].
    + destruct (Nat.leb_spec (utf8_len c) b); [|discriminate].
      apply bind_ret in H as (k' & H1 & H2). injection H2 as <-.
      apply IH in H1 as [H1 H2]. cbn [length]. split; [lia|].
      rewrite byte_of_char_S. lia.
Qed.

Lemma char_of_byte_not_fail s : forall b, char_of_byte s b <> Fail.
Proof.
  induction s as [|c s IH]; intros b; cbn [char_of_byte].
  - destruct (Nat.eqb b 0); discriminate.
  - destruct (Nat.eqb b 0); [discriminate|]. destruct (Nat.leb (utf8_len c) b); [|discriminate].
    specialize (IH (b - utf8_len c)). destruct (char_of_byte s (b - utf8_len c)); cbn; congruence.
Qed.

(* b is a character boundary of s *)
Definition boundary (s : source) (b : nat) : Prop := exists k, k <= length s /\ byte_of_char s k = b.

Lemma char_of_byte_boundary s b : boundary s b <-> exists k, char_of_byte s b = Ret k.
Proof.
  split.
  - intros (k & Hk & <-). exists k. apply char_of_byte_of_char; exact Hk.
  - intros (k & H). apply char_of_byte_ret in H as [H1 H2]. exists k; split; assumption.
Qed.

Lemma char_of_byte_panics s b : ~ boundary s b -> char_of_byte s b = Panic.
Proof.
  intro H. destruct (char_of_byte s b) as [k| |] eqn:E; [|exfalso; eapply char_of_byte_not_fail; eauto | reflexivity].
  exfalso. apply H. apply char_of_byte_boundary. eauto.
Qed.

(* ------------------------------------------------------------ lexer errors *)
Theorem lexer_error_span_in_bounds_lemma s bs be sid :
  boundary s bs -> boundary s be -> bs <= be ->
  exists cs ce,
    convert_lexer_error s bs be sid = Ret (Span cs ce sid, firstn (ce - cs) (skipn cs s)) /\
    cs <= ce /\ ce <= length s /\ byte_of_char s cs = bs /\ byte_of_char s ce = be.
Proof.
  intros (cs & Hcs & Es) (ce & Hce & Ee) Hle. exists cs, ce.
  assert (cs <= ce) as Hc.
  { destruct (Nat.le_gt_cases cs ce) as [|Hgt]; [assumption|].
    pose proof (byte_of_char_strict s ce cs Hgt Hcs). lia. }
  unfold convert_lexer_error. rewrite <- Es, <- Ee, !char_of_byte_of_char by assumption. cbn [bind].
  destruct (Nat.ltb_spec ce cs); [lia|]. repeat split; try assumption; reflexivity.
Qed.

Lemma convert_lexer_error_off_boundary s bs be sid :
  ~ boundary s bs \/ ~ boundary s be -> convert_lexer_error s bs be sid = Panic.
Proof.
  intros [H|H]; unfold convert_lexer_error.
  - rewrite (char_of_byte_panics _ _ H). reflexivity.
  - destruct (char_of_byte s bs) eqn:E; cbn [bind]; try reflexivity.
    + rewrite (char_of_byte_panics _ _ H). reflexivity.
    + exfalso; eapply char_of_byte_not_fail; eauto.
Qed.

(* ------------------------------------------------------------ lines *)
Definition sum (l : list nat) : nat := fold_right Nat.add 0 l.

Lemma sum_cons a l : sum (a :: l) = a + sum l.
Proof. reflexivity. Qed.

Lemma line_lens_sum_n : forall n s, length s <= n -> forall cur, sum (line_lens s cur) = cur + length s.
Proof.
  induction n as [|n IH]; intros s Hn cur.
  - destruct s; [|cbn in Hn; lia]. cbn. destruct (Nat.eqb_spec cur 0); cbn; lia.
  - destruct s as [|c s]; cbn [line_lens length].
    + destruct (Nat.eqb_spec cur 0); cbn; lia.
    + cbn [length] in Hn. destruct (is_sep c).
      * destruct (N.eqb c 13).
        -- destruct s as [|d s'].
           ++ change (line_lens [] 0) with (@nil nat). cbn [sum fold_right length]. lia.
           ++ cbn [length] in Hn. destruct (N.eqb d 10).
              ** rewrite sum_cons, (IH s' ltac:(lia) 0). cbn [length]. lia.
              ** rewrite sum_cons, (IH (d :: s') ltac:(cbn [length]; lia) 0). cbn [length]. lia.
        -- rewrite sum_cons, (IH s ltac:(lia) 0). lia.
      * rewrite (IH s ltac:(lia)). lia.
Qed.

Lemma line_lens_sum s cur : sum (line_lens s cur) = cur + length s.
Proof. apply (line_lens_sum_n (length s)); lia. Qed.

Lemma lines_sum s : sum (lines s) = length s.
Proof. destruct s as [|c s]; [reflexivity|]. unfold lines. rewrite line_lens_sum. lia. Qed.

Lemma lines_nonempty s : lines s <> [].
Proof.
  destruct s as [|c s]; [discriminate|]. unfold lines. intro H.
  pose proof (line_lens_sum (c :: s) 0) as E. rewrite H in E. cbn in E. lia.
Qed.

(* every line has at least one character, unless the source is empty *)
Lemma line_lens_pos_n : forall n s, length s <= n -> forall cur, Forall (fun x => 1 <= x) (line_lens s cur).
Proof.
  induction n as [|n IH]; intros s Hn cur.
  - destruct s; [|cbn in Hn; lia]. cbn. destruct (Nat.eqb_spec cur 0); constructor; [lia|constructor].
  - destruct s as [|c s]; cbn [line_lens].
    + destruct (Nat.eqb_spec cur 0); constructor; [lia|constructor].
    + cbn [length] in Hn. destruct (is_sep c).
      * destruct (N.eqb c 13).
        -- destruct s as [|d s'].
           ++ constructor; [lia|]. change (line_lens [] 0) with (@nil nat). constructor.
           ++ cbn [length] in Hn. destruct (N.eqb d 10); (constructor; [lia|]); apply IH; cbn [length]; lia.
        -- constructor; [lia|]. apply IH; lia.
      * apply IH; lia.
Qed.

Lemma lines_pos s : s <> [] -> Forall (fun x => 1 <= x) (lines s).
Proof. destruct s as [|c s]; [congruence|]. intros _. unfold lines. apply (line_lens_pos_n (length (c :: s))). lia. Qed.

(* ------------------------------------------------------------ locate *)
Lemma locate_cons2 n m rest off idx :
  locate (n :: m :: rest) off idx = if Nat.ltb off n then (idx, off) else locate (m :: rest) (off - n) (S idx).
Proof. reflexivity. Qed.

Lemma locate_spec : forall lens off idx, lens <> [] -> off <= sum lens ->
  exists l, fst (locate lens off idx) = idx + l /\ l < length lens /\ line_start lens l + snd (locate lens off idx) = off /\ snd (locate lens off idx) <= nth l lens 0 /\ (snd (locate lens off idx) < nth l lens 0 \/ l = length lens - 1).
Proof.
  induction lens as [|n rest IH]; intros off idx Hne Hoff; [congruence|].
  destruct rest as [|m rest'].
  - exists 0. cbn [locate fst snd length nth line_start]. cbn [sum fold_right] in Hoff.
    repeat split; lia.
  - rewrite locate_cons2. destruct (Nat.ltb_spec off n).
    + exists 0. cbn [fst snd length nth line_start]. repeat split; lia.
    + cbn [sum fold_right] in Hoff.
      destruct (IH (off - n) (S idx) ltac:(discriminate)) as (l & H1 & H2 & H3 & H4 & H5).
      { cbn [sum fold_right]. lia. }
      exists (S l). rewrite H1. cbn [length nth line_start] in *. repeat split; lia.
Qed.

Theorem get_offset_line_spec s off l c :
  get_offset_line s off = Some (l, c) ->
  off <= length s /\ l < length (lines s) /\ line_start (lines s) l + c = off /\ c <= nth l (lines s) 0 /\ (c < nth l (lines s) 0 \/ l = length (lines s) - 1).
Proof.
  unfold get_offset_line. destruct (Nat.leb_spec off (length s)); [|discriminate].
  intro E. injection E as E.
  destruct (locate_spec (lines s) off 0 (lines_nonempty s)) as (l' & H1 & H2 & H3 & H4 & H5).
  { rewrite lines_sum. assumption. }
  rewrite E in *. cbn [fst snd] in *. subst l. cbn [Nat.add] in *. repeat split; assumption.
Qed.

Lemma get_offset_line_some s off : off <= length s -> get_offset_line s off = Some (locate (lines s) off 0).
Proof. intro H. unfold get_offset_line. destruct (Nat.leb_spec off (length s)); [reflexivity | lia]. Qed.

Lemma get_offset_line_none s off : length s < off -> get_offset_line s off = None.
Proof. intro H. unfold get_offset_line. destruct (Nat.leb_spec off (length s)); [lia | reflexivity]. Qed.

(* ------------------------------------------------------------ compose_location *)
Theorem location_is_position_lemma s sp :
  sp_start sp <= length s -> sp_end sp <= length s ->
  compose_location s sp = Some (locate (lines s) (sp_start sp) 0, locate (lines s) (sp_end sp) 0).
Proof.
  intros H1 H2. unfold compose_location. rewrite !get_offset_line_some by assumption. reflexivity.
Qed.

Lemma compose_location_none s sp :
  compose_location s sp = None <-> (length s < sp_start sp \/ length s < sp_end sp).
Proof.
  unfold compose_location, get_offset_line.
  destruct (Nat.leb_spec (sp_start sp) (length s)) as [H1|H1];
    destruct (Nat.leb_spec (sp_end sp) (length s)) as [H2|H2];
    split; intro H0; try discriminate; try reflexivity; lia.
Qed.

(* ------------------------------------------------------------ token spans *)
Fixpoint toks_okb (prev : nat) (toks : list (nat * nat)) : bool :=
  match toks with
  | [] => true
  | t :: rest => Nat.leb prev (fst t) && Nat.leb (fst t) (snd t) && toks_okb (snd t) rest
  end.

Lemma toks_okb_nth : forall toks prev i t, toks_okb prev toks = true -> nth_error toks i = Some t ->
  prev <= fst t /\ fst t <= snd t.
Proof.
  induction toks as [|u rest IH]; intros prev i t H E; [destruct i; discriminate|].
  cbn [toks_okb] in H. apply andb_true_iff in H as [H H3]. apply andb_true_iff in H as [H1 H2].
  apply Nat.leb_le in H1. apply Nat.leb_le in H2.
  destruct i as [|i]; cbn [nth_error] in E.
  - injection E as <-. lia.
  - destruct (IH _ _ _ H3 E). lia.
Qed.

Lemma toks_okb_order : forall toks prev i j ti tj, toks_okb prev toks = true -> i <= j ->
  nth_error toks i = Some ti -> nth_error toks j = Some tj -> fst ti <= snd tj.
Proof.
  induction toks as [|u rest IH]; intros prev i j ti tj H Hij Ei Ej; [destruct i; discriminate|].
  pose proof H as H0.
  cbn [toks_okb] in H. apply andb_true_iff in H as [H H3]. apply andb_true_iff in H as [H1 H2].
  apply Nat.leb_le in H1. apply Nat.leb_le in H2.
  destruct i as [|i]; cbn [nth_error] in Ei.
  - injection Ei as <-. destruct j as [|j]; cbn [nth_error] in Ej.
    + injection Ej as <-. assumption.
    + destruct (toks_okb_nth _ _ _ _ H3 Ej). lia.
  - destruct j as [|j]; [lia|]. cbn [nth_error] in Ej.
    apply (IH (snd u) i j ti tj H3); [lia | exact Ei | exact Ej].
Qed.

Theorem map_span_start_le_end toks i j sid :
  toks_okb 0 toks = true -> i < j -> j <= length toks ->
  sp_start (map_span toks i j sid) <= sp_end (map_span toks i j sid).
Proof.
  intros H Hij Hj. unfold map_span. cbn [sp_start sp_end].
  destruct (nth_error toks i) as [ti|] eqn:Ei.
  2:{ apply nth_error_None in Ei. lia. }
  destruct (nth_error toks (j - 1)) as [tj|] eqn:Ej; [|lia].
  apply (toks_okb_order toks 0 i (j - 1) ti tj H); [lia | exact Ei | exact Ej].
Qed.

(* degenerate ranges chumsky produces at end of input (i = j = length): start = 0 or a token start, end = start or a
   previous token's end; start <= end can fail there only if tokens were unordered *)
Theorem map_span_empty_range toks i sid :
  toks_okb 0 toks = true -> length toks <= i ->
  sp_start (map_span toks i i sid) = 0.
Proof.
  intros _ H. unfold map_span. cbn [sp_start]. destruct (nth_error toks i) eqn:E; [|reflexivity].
  assert (nth_error toks i <> None) as N by congruence. apply nth_error_Some in N. lia.
Qed.

(* ------------------------------------------------------------ byte spans read as char spans *)
Lemma ascii_before_byte_char : forall s b, ascii_before_byte s b = true -> b <= length s ->
  char_of_byte s b = Ret b.
Proof.
  induction s as [|c s IH]; intros b H Hb; cbn [length] in Hb.
  - assert (b = 0) by lia. subst. reflexivity.
  - cbn [char_of_byte ascii_before_byte] in *. destruct (Nat.eqb_spec b 0); [subst; reflexivity|].
    apply andb_true_iff in H as [H1 H2]. rewrite (utf8_len_ascii _ H1).
    destruct (Nat.leb_spec 1 b); [|lia]. rewrite (IH (b - 1) H2) by lia. cbn [bind]. f_equal. lia.
Qed.

Lemma ascii_before_byte_len : forall s b, ascii_before_byte s b = true -> b <= byte_len s -> b <= length s.
Proof.
  induction s as [|c s IH]; intros b H Hb; cbn [byte_len length] in *; [lia|].
  cbn [ascii_before_byte] in H. destruct (Nat.eqb_spec b 0); [lia|].
  apply andb_true_iff in H as [H1 H2]. rewrite (utf8_len_ascii _ H1) in Hb.
  specialize (IH (b - 1) H2). lia.
Qed.

Lemma ascii_before_byte_mono : forall s a b, a <= b -> ascii_before_byte s b = true -> ascii_before_byte s a = true.
Proof.
  induction s as [|c s IH]; intros a b Hab H; [reflexivity|].
  cbn [ascii_before_byte] in *. destruct (Nat.eqb_spec a 0); [reflexivity|].
  destruct (Nat.eqb_spec b 0); [lia|]. apply andb_true_iff in H as [H1 H2]. rewrite H1. cbn [andb].
  apply (IH (a - 1) (b - 1)); [lia | assumption].
Qed.

(* ------------------------------------------------------------ F9 as an exact characterisation *)
Lemma char_of_byte_le s : forall b k, char_of_byte s b = Ret k -> k <= b.
Proof.
  intros b k H. apply char_of_byte_ret in H as [H1 <-]. unfold byte_of_char.
  rewrite <- (firstn_length_le s H1) at 1. apply byte_len_ge_length.
Qed.

Lemma utf8_len_1_ascii c : utf8_len c = 1 -> is_ascii c = true.
Proof.
  unfold utf8_len, is_ascii. destruct (N.ltb c 128); [reflexivity|]. destruct (N.ltb c 2048); [discriminate|].
  destruct (N.ltb c 65536); discriminate.
Qed.

(* the character offset of a byte offset equals the byte offset exactly when everything before it is ASCII *)
Lemma char_eq_byte_iff_ascii : forall s b k, char_of_byte s b = Ret k -> (k = b <-> ascii_before_byte s b = true).
Proof.
  induction s as [|c s IH]; intros b k H.
  - cbn [char_of_byte] in H. destruct (Nat.eqb_spec b 0); [|discriminate]. injection H as <-. subst. split; reflexivity.
  - cbn [char_of_byte ascii_before_byte] in *. destruct (Nat.eqb_spec b 0) as [->|Hb].
    + injection H as <-. split; reflexivity.
    + destruct (Nat.leb_spec (utf8_len c) b) as [Hu|]; [|discriminate].
      apply bind_ret in H as (k' & H1 & H2). injection H2 as <-.
      pose proof (char_of_byte_le _ _ _ H1) as Lk. pose proof (utf8_len_bounds c) as Bc.
      split.
      * intro E. assert (utf8_len c = 1) as U by lia. rewrite (utf8_len_1_ascii _ U). cbn [andb].
        rewrite U in H1. apply (IH _ _ H1). lia.
      * intro A. apply andb_true_iff in A as [A1 A2]. rewrite (utf8_len_ascii _ A1) in H1.
        apply (IH _ _ H1) in A2. lia.
Qed.

(* span level: a byte span read as a character span is the right character span iff the text before its end is ASCII *)
Theorem byte_span_is_char_span_iff s bs be cs ce :
  char_of_byte s bs = Ret cs -> char_of_byte s be = Ret ce -> bs <= be ->
  ((bs = cs /\ be = ce) <-> ascii_before_byte s be = true).
Proof.
  intros Hs He Hle. split.
  - intros [_ E]. apply (char_eq_byte_iff_ascii _ _ _ He). congruence.
  - intro A. split.
    + symmetry. apply (char_eq_byte_iff_ascii _ _ _ Hs). eapply ascii_before_byte_mono; eassumption.
    + symmetry. apply (char_eq_byte_iff_ascii _ _ _ He). assumption.
Qed.

Lemma locate_injective s a b : a <= length s -> b <= length s ->
  locate (lines s) a 0 = locate (lines s) b 0 -> a = b.
Proof.
  intros Ha Hb E.
  pose proof (get_offset_line_some s a Ha) as Ga. pose proof (get_offset_line_some s b Hb) as Gb.
  destruct (locate (lines s) a 0) as [la ca]. destruct (locate (lines s) b 0) as [lb cb].
  apply get_offset_line_spec in Ga as (_ & _ & Sa & _). apply get_offset_line_spec in Gb as (_ & _ & Sb & _).
  injection E as -> ->. lia.
Qed.

(* location level, both directions, every source: what `composed` reports for a parser error (token byte span read as
   character offsets) is the location of the characters at those byte offsets IFF the text before the end of the span
   is ASCII.  Otherwise it is the assert panic or a different (line, column). *)
(* ------------------------------------------------------------ composed (byte span -> character span, once, totally) *)
Lemma chars_before_le s : forall b, chars_before s b <= length s.
Proof.
  induction s as [|c s IH]; intro b; cbn [chars_before length]; [lia|].
  destruct (Nat.eqb b 0); [lia|]. specialize (IH (b - utf8_len c)). lia.
Qed.

Lemma chars_before_mono s : forall a b, a <= b -> chars_before s a <= chars_before s b.
Proof.
  induction s as [|c s IH]; intros a b H; cbn [chars_before]; [lia|].
  destruct (Nat.eqb_spec a 0); [lia|]. destruct (Nat.eqb_spec b 0); [lia|].
  specialize (IH (a - utf8_len c) (b - utf8_len c)). lia.
Qed.

(* on a character boundary it is the character offset *)
Lemma chars_before_byte_of_char s : forall k, k <= length s -> chars_before s (byte_of_char s k) = k.
Proof.
  induction s as [|c s IH]; intros k Hk; cbn [length] in Hk.
  - assert (k = 0) by lia. subst. reflexivity.
  - destruct k as [|k]; [reflexivity|]. rewrite byte_of_char_S. cbn [chars_before].
    pose proof (utf8_len_bounds c). destruct (Nat.eqb_spec (utf8_len c + byte_of_char s k) 0); [lia|].
    replace (utf8_len c + byte_of_char s k - utf8_len c) with (byte_of_char s k) by lia. rewrite IH by lia. reflexivity.
Qed.

Lemma span_to_chars_bytes s bs be sid cs ce :
  cs <= length s -> ce <= length s -> byte_of_char s cs = bs -> byte_of_char s ce = be ->
  span_to_chars s (Span bs be sid) = Span cs ce sid.
Proof.
  intros Hcs Hce Es Ee. unfold span_to_chars. cbn [sp_start sp_end sp_src].
  rewrite <- Es, <- Ee, !chars_before_byte_of_char by assumption. reflexivity.
Qed.

Lemma span_to_chars_src s sp : sp_src (span_to_chars s sp) = sp_src sp.
Proof. reflexivity. Qed.

(* `composed` panics exactly when the converted span is reversed (ariadne's Label assert); the location assert cannot
   fire: the converted offsets are at most the character length *)
Theorem composed_one_panics_iff s sp :
  composed_one [(sp_src sp, s)] (Some sp) = Panic <->
  chars_before s (sp_end sp) < chars_before s (sp_start sp).
Proof.
  unfold composed_one. cbn [find fst]. rewrite Nat.eqb_refl.
  rewrite location_is_position_lemma by (unfold span_to_chars; cbn [sp_start sp_end]; apply chars_before_le).
  unfold span_to_chars. cbn [sp_start sp_end].
  destruct (Nat.ltb_spec (chars_before s (sp_end sp)) (chars_before s (sp_start sp))); split; intro H0;
    try reflexivity; try discriminate; lia.
Qed.

(* FULL STRENGTH: no span whose start is not after its end makes `composed` panic, whatever its unit or size *)
Theorem composed_one_total tree sp : sp_start sp <= sp_end sp -> composed_one tree (Some sp) <> Panic.
Proof.
  intros H. unfold composed_one. destruct (find (fun p => Nat.eqb (fst p) (sp_src sp)) tree) as [[k s]|]; [|discriminate].
  rewrite location_is_position_lemma by (unfold span_to_chars; cbn [sp_start sp_end]; apply chars_before_le).
  unfold span_to_chars. cbn [sp_start sp_end]. pose proof (chars_before_mono s _ _ H).
  destruct (Nat.ltb_spec (chars_before s (sp_end sp)) (chars_before s (sp_start sp))); [lia | discriminate].
Qed.

(* a span that `composed` leaves on a message is the conversion of the one it had, names a file of the tree, has
   start <= end <= the character length of that file, and the location is the position of its two ends *)
Lemma find_source_key (tree : list (nat * source)) k p :
  find (fun p => Nat.eqb (fst p) k) tree = Some p -> fst p = k.
Proof. intro H. apply find_some in H as [_ H]. apply Nat.eqb_eq in H. exact H. Qed.

Theorem composed_one_reported tree sp sp' loc :
  composed_one tree sp = Ret (Some sp', loc) ->
  exists sp0 s, sp = Some sp0 /\ find (fun p => Nat.eqb (fst p) (sp_src sp')) tree = Some (sp_src sp', s) /\
    sp' = span_to_chars s sp0 /\
    sp_start sp' <= sp_end sp' /\ sp_end sp' <= length s /\
    loc = Some (locate (lines s) (sp_start sp') 0, locate (lines s) (sp_end sp') 0).
Proof.
  unfold composed_one. destruct sp as [sp|]; [|discriminate].
  destruct (find (fun p => Nat.eqb (fst p) (sp_src sp)) tree) as [[k s]|] eqn:F; [|discriminate].
  destruct (compose_location s (span_to_chars s sp)) as [l|] eqn:C; [|discriminate].
  destruct (Nat.ltb_spec (sp_end (span_to_chars s sp)) (sp_start (span_to_chars s sp))) as [R|R]; [discriminate|].
  intro H. injection H as <- <-. exists sp, s. split; [reflexivity|].
  pose proof (find_source_key _ _ _ F) as K. cbn [fst] in K. subst k. rewrite span_to_chars_src.
  assert (~ (length s < sp_start (span_to_chars s sp) \/ length s < sp_end (span_to_chars s sp))) as B.
  { intro B. apply compose_location_none in B. congruence. }
  repeat split; try assumption; try lia.
  rewrite <- C. apply location_is_position_lemma; lia.
Qed.

Theorem composed_one_foreign tree sp :
  find (fun p => Nat.eqb (fst p) (sp_src sp)) tree = None -> composed_one tree (Some sp) = Ret (None, None).
Proof. intro F. unfold composed_one. rewrite F. reflexivity. Qed.

(* no message keeps a location without a span *)
Theorem composed_one_location_has_span tree sp loc :
  composed_one tree sp = Ret (None, loc) -> loc = None.
Proof.
  unfold composed_one. destruct sp as [sp|]; [|intro H; injection H as <-; reflexivity].
  destruct (find (fun p => Nat.eqb (fst p) (sp_src sp)) tree) as [[k s]|]; [|intro H; injection H as <-; reflexivity].
  destruct (compose_location s (span_to_chars s sp)); [|discriminate].
  destruct (Nat.ltb (sp_end (span_to_chars s sp)) (sp_start (span_to_chars s sp))); discriminate.
Qed.

(* a byte span whose ends are the byte offsets of characters cs <= ce of the file: reported as the character span *)
Lemma composed_one_bytes tree s sid bs be cs ce :
  find (fun p => Nat.eqb (fst p) sid) tree = Some (sid, s) ->
  cs <= ce -> ce <= length s -> byte_of_char s cs = bs -> byte_of_char s ce = be ->
  composed_one tree (Some (Span bs be sid)) =
  Ret (Some (Span cs ce sid), Some (locate (lines s) cs 0, locate (lines s) ce 0)).
Proof.
  intros F Hc Hce Es Ee. unfold composed_one. cbn [sp_src]. unfold source in *. rewrite F.
  rewrite (span_to_chars_bytes s bs be sid cs ce) by (assumption || lia).
  rewrite location_is_position_lemma by (cbn [sp_start sp_end]; lia). cbn [sp_start sp_end].
  destruct (Nat.ltb_spec ce cs); [lia | reflexivity].
Qed.

(* kept for C12: the in-bounds hypotheses are no longer needed *)
Theorem composed_one_total_in_bounds s sp :
  sp_start sp <= sp_end sp -> sp_start sp <= length s -> sp_end sp <= length s ->
  composed_one [(sp_src sp, s)] (Some sp) <> Panic.
Proof. intros H _ _. apply composed_one_total; assumption. Qed.

(* FULL STRENGTH (true since d3106b1; before, false behind non-ASCII text: finding F9): a parser error over tokens i..j is
   reported without a panic as the CHARACTER span of the text from the start of token i to the end of token j-1, with the
   position of both ends *)
Theorem parser_error_located s toks i j :
  let sp := map_span toks i j 1 in
  toks_okb 0 toks = true -> i < j -> j <= length toks ->
  boundary s (sp_start sp) -> boundary s (sp_end sp) ->
  exists cs ce,
    parser_error_reported s toks i j = Ret (Some (Span cs ce 1), Some (locate (lines s) cs 0, locate (lines s) ce 0)) /\
    cs <= ce /\ ce <= length s /\ byte_of_char s cs = sp_start sp /\ byte_of_char s ce = sp_end sp.
Proof.
  intros sp Hok Hij Hj (cs & Hcs & Es) (ce & Hce & Ee).
  pose proof (map_span_start_le_end toks i j 1 Hok Hij Hj) as Hle. fold sp in Hle.
  assert (cs <= ce) as Hc.
  { destruct (Nat.le_gt_cases cs ce) as [|Hgt]; [assumption|].
    pose proof (byte_of_char_strict s ce cs Hgt Hcs). lia. }
  exists cs, ce. split; [|repeat split; assumption].
  unfold parser_error_reported. fold sp.
  assert (sp = Span (sp_start sp) (sp_end sp) 1) as E by (destruct sp eqn:X; unfold sp in X; unfold map_span in X; injection X as <- <- <-; reflexivity).
  rewrite E. apply composed_one_bytes; try assumption. reflexivity.
Qed.

(* ------------------------------------------------------------ lexer errors as reported (re-based to bytes, composed) *)
Lemma byte_of_char_ascii : forall s k, forallb is_ascii s = true -> k <= length s -> byte_of_char s k = k.
Proof.
  induction s as [|c s IH]; intros k A Hk; cbn [length] in Hk.
  - assert (k = 0) by lia. subst. reflexivity.
  - destruct k as [|k]; [reflexivity|]. cbn [forallb] in A. apply andb_true_iff in A as [A1 A2].
    rewrite byte_of_char_S, (utf8_len_ascii _ A1), (IH k A2) by lia. reflexivity.
Qed.

Lemma lexer_error_to_byte_span_spec s cs ce sid : cs <= length s -> ce <= length s ->
  lexer_error_to_byte_span s (Span cs ce sid) = Span (byte_of_char s cs) (byte_of_char s ce) sid.
Proof.
  intros H1 H2. unfold lexer_error_to_byte_span. destruct (forallb is_ascii s) eqn:A; [|reflexivity].
  cbn [sp_start sp_end sp_src]. rewrite !byte_of_char_ascii by assumption. reflexivity.
Qed.

Theorem lexer_error_reported_located tree s bs be sid :
  find (fun p => Nat.eqb (fst p) sid) tree = Some (sid, s) ->
  boundary s bs -> boundary s be -> bs <= be ->
  exists cs ce,
    lexer_error_reported tree s bs be sid =
      Ret ((Some (Span cs ce sid), Some (locate (lines s) cs 0, locate (lines s) ce 0)), firstn (ce - cs) (skipn cs s)) /\
    cs <= ce /\ ce <= length s /\ byte_of_char s cs = bs /\ byte_of_char s ce = be.
Proof.
  intros F Hs He Hle.
  destruct (lexer_error_span_in_bounds_lemma s bs be sid Hs He Hle) as (cs & ce & E & H1 & H2 & H3 & H4).
  exists cs, ce. split; [|repeat split; assumption].
  unfold lexer_error_reported. rewrite E. cbn [bind fst snd].
  rewrite lexer_error_to_byte_span_spec by lia. rewrite H3, H4.
  rewrite (composed_one_bytes tree s sid bs be cs ce F H1 H2 H3 H4). reflexivity.
Qed.

Theorem prql_to_tokens_error_located s bs be :
  boundary s bs -> boundary s be -> bs <= be ->
  exists cs ce,
    prql_to_tokens_error s bs be =
      Ret ((Some (Span cs ce 1), Some (locate (lines s) cs 0, locate (lines s) ce 0)), firstn (ce - cs) (skipn cs s)) /\
    cs <= ce /\ ce <= length s /\ byte_of_char s cs = bs /\ byte_of_char s ce = be.
Proof.
  intros. unfold prql_to_tokens_error. apply lexer_error_reported_located; try assumption. reflexivity.
Qed.

(* ------------------------------------------------------------ fold_function: errors of std bodies *)
Theorem respan_std_user err call cs sp :
  call = Some cs -> sp_src cs <> std_source_id -> respan_std err call = Some sp -> sp_src sp <> std_source_id.
Proof.
  intros -> Hc. unfold respan_std, respan_moves. destruct err as [e|].
  - destruct (Nat.eqb_spec (sp_src e) std_source_id) as [E|E]; destruct (Nat.eqb_spec (sp_src cs) std_source_id); cbn [negb andb]; try lia;
      intro H; injection H as <-; assumption.
  - cbn [andb]. discriminate.
Qed.

(* an error that does not point into std.prql is left alone *)
Theorem respan_std_keeps err call :
  (forall e, err = Some e -> sp_src e <> std_source_id) -> respan_std err call = err.
Proof.
  intro H. unfold respan_std, respan_moves. destruct err as [e|]; [|reflexivity].
  specialize (H e eq_refl). destruct (Nat.eqb_spec (sp_src e) std_source_id); [contradiction | reflexivity].
Qed.

(* ------------------------------------------------------------ interpolation rebasing *)
Lemma byte_of_char_app_r pre t k : byte_of_char (pre ++ t) (length pre + k) = byte_len pre + byte_of_char t k.
Proof.
  unfold byte_of_char. rewrite firstn_app. replace (length pre + k - length pre) with k by lia.
  rewrite firstn_all2 by lia. apply byte_len_app.
Qed.

Theorem interp_content_offset pre c q content k :
  is_ascii c = true -> is_ascii q = true ->
  byte_of_char (pre ++ c :: q :: content) (length pre + 2 + k) = byte_len pre + 2 + byte_of_char content k.
Proof.
  intros Hc Hq. replace (length pre + 2 + k) with (length pre + S (S k)) by lia.
  rewrite byte_of_char_app_r, !byte_of_char_S, (utf8_len_ascii _ Hc), (utf8_len_ascii _ Hq). lia.
Qed.

Theorem interp_rebase_correct_iff tok q i_s i_e :
  interp_rebase tok i_s i_e = interp_actual tok q i_s i_e <-> q = 1.
Proof.
  unfold interp_rebase, interp_actual. split; intro H.
  - injection H as H _. lia.
  - subst. f_equal; lia.
Qed.

(* ------------------------------------------------------------ Reason *)
Theorem reason_nonempty_lemma r : reason_display r = [] -> r = RSimple [].
Proof.
  destruct r as [t|who e f|f|n ns|issue details|m]; cbn [reason_display]; intro H.
  - subst; reflexivity.
  - destruct who; cbn in H; [destruct s; cbn in H; discriminate | discriminate].
  - discriminate.
  - destruct ns; cbn in H; discriminate.
  - discriminate.
  - discriminate.
Qed.

(* ------------------------------------------------------------ multi-file ids *)
Lemma number_from_find : forall srcs k i s, nth_error srcs i = Some s ->
  find (fun p => Nat.eqb (fst p) (k + i)) (number_from k srcs) = Some (k + i, s).
Proof.
  induction srcs as [|s0 srcs IH]; intros k i s E; [destruct i; discriminate|].
  cbn [number_from find fst]. destruct i as [|i]; cbn [nth_error] in E.
  - injection E as <-. rewrite Nat.add_0_r, Nat.eqb_refl. reflexivity.
  - destruct (Nat.eqb_spec k (k + S i)); [lia|].
    replace (k + S i) with (S k + i) by lia. apply IH; assumption.
Qed.

Theorem source_tree_names_file srcs i s :
  nth_error srcs i = Some s -> find (fun p => Nat.eqb (fst p) (S i)) (source_tree srcs) = Some (S i, s).
Proof. intro E. unfold source_tree. apply (number_from_find srcs 1 i s E). Qed.

(* ------------------------------------------------------------ SourceTree as two hash maps *)
Lemma last_assoc_none {A} key (l : list (N * A)) : ~ In key (map fst l) -> last_assoc key l = None.
Proof.
  induction l as [|[k v] t IH]; intro H; [reflexivity|]. cbn [last_assoc map fst In] in *.
  rewrite IH by tauto. destruct (N.eqb_spec k key); [exfalso; tauto | reflexivity].
Qed.

Lemma last_assoc_nodup {A} (l : list (N * A)) : NoDup (map fst l) -> forall i key v,
  nth_error l i = Some (key, v) -> last_assoc key l = Some v.
Proof.
  induction l as [|[k v0] t IH]; intros ND i key v H; [destruct i; discriminate|].
  cbn [map fst] in ND. inversion ND as [|? ? Hn ND']; subst. cbn [last_assoc]. destruct i as [|i]; cbn [nth_error] in H.
  - injection H as -> ->. rewrite (last_assoc_none _ _ Hn), N.eqb_refl. reflexivity.
  - rewrite (IH ND' i key v H). reflexivity.
Qed.

Lemma tree_entries_nth : forall files k i p s, nth_error files i = Some (p, s) ->
  nth_error (tree_entries k files) i = Some (u16 (k + N.of_nat i + 1), p).
Proof.
  induction files as [|[p0 s0] t IH]; intros k i p s H; [destruct i; discriminate|].
  cbn [tree_entries]. destruct i as [|i]; cbn [nth_error] in *.
  - injection H as -> _. replace (k + N.of_nat 0 + 1)%N with (k + 1)%N by lia. reflexivity.
  - rewrite (IH (k + 1)%N i p s H). replace (k + 1 + N.of_nat i + 1)%N with (k + N.of_nat (S i) + 1)%N by lia. reflexivity.
Qed.

Lemma tree_entries_keys : forall files k key, (k + N.of_nat (length files) < 65536)%N ->
  In key (map fst (tree_entries k files)) -> (k < key <= k + N.of_nat (length files))%N.
Proof.
  induction files as [|[p0 s0] t IH]; intros k key B H; [contradiction|].
  cbn [tree_entries map fst In length] in *. rewrite Nat2N.inj_succ in *. destruct H as [H|H].
  - subst key. unfold u16. rewrite N.mod_small by lia. lia.
  - apply (IH (k + 1)%N) in H; lia.
Qed.

Lemma tree_entries_nodup : forall files k, (k + N.of_nat (length files) < 65536)%N ->
  NoDup (map fst (tree_entries k files)).
Proof.
  induction files as [|[p0 s0] t IH]; intros k B; [constructor|].
  cbn [tree_entries map fst length] in *. rewrite Nat2N.inj_succ in B. constructor.
  - intro H. apply (tree_entries_keys t (k + 1)%N) in H; [|lia]. unfold u16 in H. rewrite N.mod_small in H by lia. lia.
  - apply IH. lia.
Qed.

(* distinct paths and fewer than 65536 files: id i+1 names the content of the i-th file (the simple model source_tree) *)
Theorem tree_source_distinct files i p s :
  NoDup (map fst files) -> (N.of_nat (length files) < 65536)%N -> nth_error files i = Some (p, s) ->
  tree_source files (N.of_nat i + 1) = Some s.
Proof.
  intros ND B H. unfold tree_source, tree_path, tree_content.
  assert (i < length files) as Li by (apply nth_error_Some; congruence).
  pose proof (tree_entries_nth files 0 i p s H) as E. unfold u16 in E. rewrite N.mod_small in E by lia.
  rewrite N.add_0_l in E.
  rewrite (last_assoc_nodup _ (tree_entries_nodup files 0 ltac:(lia)) i _ _ E).
  exact (last_assoc_nodup files ND i p s H).
Qed.

(* the association list handed to composed_one answers exactly like the two hash maps *)
Lemma find_resolved (f : N -> option source) id : forall es : list (N * N),
  find (fun p => Nat.eqb (fst p) (N.to_nat id))
       (flat_map (fun e => match f (fst e) with Some s => [(N.to_nat (fst e), s)] | None => [] end) es)
  = if existsb (fun e => N.eqb (fst e) id) es
    then match f id with Some s => Some (N.to_nat id, s) | None => None end else None.
Proof.
  induction es as [|e es IH]; [reflexivity|]. cbn [flat_map existsb]. destruct (N.eqb_spec (fst e) id) as [E|E].
  - rewrite E. cbn [orb]. destruct (f id) as [s|].
    + cbn [app find fst]. rewrite Nat.eqb_refl. reflexivity.
    + cbn [app]. rewrite IH. destruct (existsb _ es); reflexivity.
  - cbn [orb]. destruct (f (fst e)) as [s|]; cbn [app]; [|exact IH].
    cbn [find fst]. destruct (Nat.eqb_spec (N.to_nat (fst e)) (N.to_nat id)) as [X|_]; [apply N2Nat.inj in X; contradiction | exact IH].
Qed.

Lemma last_assoc_absent {A} key (l : list (N * A)) : existsb (fun e => N.eqb (fst e) key) l = false -> last_assoc key l = None.
Proof.
  intro H. apply last_assoc_none. intro I. apply in_map_iff in I as (e & <- & I).
  assert (existsb (fun e0 => N.eqb (fst e0) (fst e)) l = true) as X by (apply existsb_exists; exists e; split; [assumption | apply N.eqb_refl]).
  congruence.
Qed.

Theorem tree_of_files_find files id :
  find (fun p => Nat.eqb (fst p) (N.to_nat id)) (tree_of_files files) =
  match tree_source files id with Some s => Some (N.to_nat id, s) | None => None end.
Proof.
  unfold tree_of_files. rewrite find_resolved. destruct (existsb _ (tree_entries 0 files)) eqn:X; [reflexivity|].
  unfold tree_source, tree_path. rewrite (last_assoc_absent _ _ X). reflexivity.
Qed.


(* Small list utilities over code-point strings (list N).  stdlib only. *)
From Coq Require Import List NArith Bool Lia.
Import ListNotations.
Local Open Scope N_scope.

Definition str := list N.

Fixpoint leqb (a b : str) : bool :=
  match a, b with
  | [], [] => true
  | x :: a', y :: b' => N.eqb x y && leqb a' b'
  | _, _ => false
  end.

Lemma leqb_spec a b : leqb a b = true <-> a = b.
Proof.
  revert b; induction a as [|x a IH]; intros [|y b]; cbn [leqb]; split; intro H;
    try reflexivity; try discriminate.
  - apply andb_true_iff in H as [H1 H2]. apply N.eqb_eq in H1. apply IH in H2. congruence.
  - injection H as -> ->. apply andb_true_iff; split; [apply N.eqb_refl | apply IH; reflexivity].
Qed.

Lemma leqb_refl a : leqb a a = true.
Proof. apply leqb_spec; reflexivity. Qed.

Lemma leqb_neq a b : leqb a b = false <-> a <> b.
Proof.
  split; intro H.
  - intro E. apply leqb_spec in E. congruence.
  - destruct (leqb a b) eqn:E; [apply leqb_spec in E; contradiction | reflexivity].
Qed.

(* Rust's str::strip_prefix *)
Fixpoint strip_prefix (p s : str) : option str :=
  match p, s with
  | [], _ => Some s
  | x :: p', y :: s' => if N.eqb x y then strip_prefix p' s' else None
  | _ :: _, [] => None
  end.

Lemma strip_prefix_spec p s r : strip_prefix p s = Some r <-> s = p ++ r.
Proof.
  revert s; induction p as [|x p IH]; intros s; cbn [strip_prefix app].
  - split; intro H; [injection H as ->; reflexivity | subst; reflexivity].
  - destruct s as [|y s]; [split; intro H; discriminate|].
    destruct (N.eqb x y) eqn:E.
    + apply N.eqb_eq in E; subst y. rewrite IH. split; intro H; [subst; reflexivity | injection H as ->; reflexivity].
    + apply N.eqb_neq in E. split; intro H; [discriminate | injection H as -> _; contradiction].
Qed.

(* index of the first element equal to s *)
Fixpoint find_index (s : str) (l : list str) : option nat :=
  match l with
  | [] => None
  | x :: l' => if leqb s x then Some 0%nat else option_map S (find_index s l')
  end.

Lemma find_index_some s l i : find_index s l = Some i -> nth_error l i = Some s.
Proof.
  revert i; induction l as [|x l IH]; intros i; cbn [find_index]; [discriminate|].
  destruct (leqb s x) eqn:E.
  - intro H; injection H as <-. apply leqb_spec in E; subst; reflexivity.
  - destruct (find_index s l) as [j|]; cbn [option_map]; [|discriminate].
    intro H; injection H as <-. cbn [nth_error]. apply IH; reflexivity.
Qed.

Lemma find_index_none s l : find_index s l = None <-> ~ In s l.
Proof.
  induction l as [|x l IH]; cbn [find_index In]; [tauto|].
  destruct (leqb s x) eqn:E.
  - apply leqb_spec in E; subst. split; [discriminate | intro H; exfalso; apply H; left; reflexivity].
  - apply leqb_neq in E. destruct (find_index s l); cbn [option_map].
    + split; [discriminate|]. intro H. exfalso. apply H. right.
      destruct IH as [_ IH2]. destruct (in_dec (list_eq_dec N.eq_dec) s l) as [Hi|Hn]; [exact Hi|].
      specialize (IH2 Hn); discriminate.
    + split; [|reflexivity]. intros _ [H|H]; [congruence | apply IH in H; [exact H|reflexivity]].
Qed.

Lemma find_index_nodup s l i :
  NoDup l -> nth_error l i = Some s -> find_index s l = Some i.
Proof.
  revert i; induction l as [|x l IH]; intros i ND H; [destruct i; discriminate|].
  inversion ND as [|? ? Hx ND']; subst. cbn [find_index].
  destruct i as [|i]; cbn [nth_error] in H.
  - injection H as ->. rewrite leqb_refl. reflexivity.
  - assert (s <> x) as Hne. { intro; subst. apply Hx. eapply nth_error_In; eauto. }
    apply leqb_neq in Hne. rewrite Hne. rewrite (IH i ND' H). reflexivity.
Qed.

Fixpoint nodupb (l : list str) : bool :=
  match l with
  | [] => true
  | x :: l' => negb (existsb (leqb x) l') && nodupb l'
  end.

Lemma nodupb_spec l : nodupb l = true -> NoDup l.
Proof.
  induction l as [|x l IH]; cbn [nodupb]; intro H; [constructor|].
  apply andb_true_iff in H as [H1 H2]. constructor; [|apply IH; exact H2].
  intro Hin. apply negb_true_iff in H1.
  assert (existsb (leqb x) l = true) as E.
  { apply existsb_exists. exists x. split; [exact Hin | apply leqb_refl]. }
  congruence.
Qed.

(* C07 -- a small SQL abstract syntax, sufficient for what prqlc emits and for name resolution.
   Identifiers are interned by the converter (vplib/sqlast.py): a name is an [N]; 0 is "no name"
   (an anonymous output column / a FROM item without alias / an opaque table function).
   Lists inside the mutually defined types are spelled out as their own inductive types so that
   structural recursion and the generated mutual induction principle are plain (no nested inductives).
   Executable definitions only; no proofs here. *)
From Coq Require Import List NArith Bool.
Import ListNotations.
Local Open Scope N_scope.

Definition name := N.

Inductive setop := Union | Except | Intersect.
Inductive quant := QAll | QDistinct | QNone.
Inductive dkind := DNone | DDistinct | DOn.

(* LIMIT / OFFSET / FETCH of one query: only presence matters for scoping and dialect checks *)
Record limit := mkLimit { l_limit : bool; l_offset : bool; l_offset_rows : bool; l_fetch : bool }.
Definition no_limit := mkLimit false false false false.

(* window frame of an OVER clause.  A bound is CURRENT ROW, <n> PRECEDING or <n> FOLLOWING, n = None for UNBOUNDED
   (offsets are literals in what prqlc emits; the converter refuses anything else).  [WFrame units s e]: units 1 = ROWS,
   2 = RANGE, 3 = GROUPS; e = None is the short form without BETWEEN (its end is CURRENT ROW). *)
Inductive wbound := WCur | WPrec (n : option N) | WFol (n : option N).
Inductive wframe := WNone | WFrame (units : N) (s : wbound) (e : option wbound).

Inductive expr : Type :=
| ECol (q : option name) (c : name)          (* column reference: bare [c] or qualified [q.c] *)
| ELit                                       (* literal, placeholder, opaque text *)
| EStar (q : option name)                    (* [*] / [q.*] in expression position: COUNT( * ), GROUP BY t.* *)
| EApp (f : name) (args : exprs)             (* function call / operator / CASE / CAST / IN-list ...: f = 0 for operators *)
| EWin (f : name) (args part ord : exprs) (fr : wframe)   (* f(args) OVER (PARTITION BY part ORDER BY ord <frame>) *)
| ESub (q : query)                           (* scalar / EXISTS / IN sub-query *)
with exprs : Type :=
| ENil
| ECons (e : expr) (es : exprs)
with query : Type :=
| Query (recursive : bool) (cs : ctes) (body : setexpr) (order : exprs) (lim : limit)
with ctes : Type :=
| CNil
| CCons (n : name) (q : query) (cs : ctes)
with setexpr : Type :=
| SSelect (d : dkind) (don : exprs) (proj : items) (from : trefs) (wher grp hav : exprs)
| SSetOp (op : setop) (qt : quant) (l r : setexpr)
| SQuery (q : query)                         (* parenthesised query as an operand *)
with items : Type :=
| INil
| IExpr (e : expr) (alias : name) (rest : items)                        (* alias 0 = none *)
| IWild (q : name) (ek : N) (excl : list name) (rest : items)           (* [*] (q = 0) or [q.*]; ek: 0 none, 1 EXCLUDE, 2 EXCEPT *)
with trefs : Type :=
| TNil
| TTable (joined : bool) (n : name) (alias : name) (on : exprs) (rest : trefs)     (* alias = effective name the item is known by; n = 0: opaque table function *)
| TDerived (joined : bool) (q : query) (alias : name) (on : exprs) (rest : trefs). (* alias 0 = derived table without alias *)

Scheme expr_mut := Induction for expr Sort Prop
with exprs_mut := Induction for exprs Sort Prop
with query_mut := Induction for query Sort Prop
with ctes_mut := Induction for ctes Sort Prop
with setexpr_mut := Induction for setexpr Sort Prop
with items_mut := Induction for items Sort Prop
with trefs_mut := Induction for trefs Sort Prop.
Combined Scheme ast_mutind from expr_mut, exprs_mut, query_mut, ctes_mut, setexpr_mut, items_mut, trefs_mut.

(* list <-> spelled-out lists (used by the converter's output and by statements) *)
Definition es (l : list expr) : exprs := fold_right ECons ENil l.
Definition cs_of (l : list (name * query)) : ctes := fold_right (fun p r => CCons (fst p) (snd p) r) CNil l.
Fixpoint ctes_list (c : ctes) : list (name * query) :=
  match c with CNil => [] | CCons n q r => (n, q) :: ctes_list r end.
Fixpoint exprs_list (x : exprs) : list expr :=
  match x with ENil => [] | ECons e r => e :: exprs_list r end.
Fixpoint items_len (i : items) : nat :=
  match i with INil => O | IExpr _ _ r => S (items_len r) | IWild _ _ _ r => S (items_len r) end.

Definition mem (x : name) (l : list name) : bool := existsb (N.eqb x) l.

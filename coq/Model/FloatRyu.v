(* C08 -- float literals, the binary side: which binary64 a decimal spelling denotes, and which decimal digits Rust's
   {:?} prints for that binary64 (the SHORTEST digit string that reads back as the same float; among those of that
   length the one closest to the float) -- for spellings of any length, 16 and 17 significant digits included.
   Model/FloatFmt.v lays digits out; this file finds them:

     round64 m e      the binary64 nearest to m * 10^e (ties to even): mantissa * 2^exponent, subnormals included,
                      None when the value rounds to infinity.   (what str::parse::<f64> does: correctly rounded)
     interval f       the decimals that read back as f: f -/+ half the distance to its neighbours, ends included
                      exactly when the mantissa is even
     shortest f       for k = 1 .. 17: the k-digit decimals just below and just above f; the first k that has one
                      inside the interval wins, the closer of the two if both are (a tie: the even last digit)
     emit_float_ryu   lex value -> round64 -> shortest -> FloatFmt.emit_float layout

   Exact arithmetic on N (numerators / denominators); executable, validated against the implementation on every float
   spelling of the check (stream float-text: text; hook f64_bits: the rounding).  Proofs in Proofs/FloatRyuProofs.v. *)
From Coq Require Import List NArith ZArith Bool.
From PV Require Import Lib.ListX Model.SqlLex Model.Literal Model.FloatFmt.
Import ListNotations.
Local Open Scope N_scope.

(* a non-negative rational *)
Definition rat := (N * N)%type.                     (* numerator, denominator (> 0) *)
Definition rle (a b : rat) : bool := fst a * snd b <=? fst b * snd a.
Definition rlt (a b : rat) : bool := fst a * snd b <? fst b * snd a.
Definition radd (a b : rat) : rat := (fst a * snd b + fst b * snd a, snd a * snd b).
Definition rsub (a b : rat) : rat := (fst a * snd b - fst b * snd a, snd a * snd b).     (* a >= b *)
Definition rdist (a b : rat) : rat := if rle a b then rsub b a else rsub a b.

Definition dec_rat (m : N) (e : Z) : rat :=
  match e with Zneg p => (m, 10 ^ Npos p) | _ => (m * 10 ^ Z.to_N e, 1) end.
Definition bin_rat (mant : N) (q : Z) : rat :=
  match q with Zneg p => (mant, 2 ^ Npos p) | _ => (mant * 2 ^ Z.to_N q, 1) end.

(* ------------------------------------------------------------------ decimal -> binary64 *)
Definition MIN_Q : Z := (-1074)%Z.
Definition MAX_Q : Z := 971%Z.
Definition P52 : N := 2 ^ 52.
Definition P53 : N := 2 ^ 53.

(* v / 2^q as a fraction A / B of naturals *)
Definition scaled_pair (v : rat) (q : Z) : N * N :=
  let '(n, d) := v in
  match q with Zneg p => (n * 2 ^ Npos p, d) | _ => (n, d * 2 ^ Z.to_N q) end.
(* floor (v / 2^q) and whether the remainder is below / equal / above one half *)
Definition scaled (v : rat) (q : Z) : N * comparison :=
  let '(A, B) := scaled_pair v q in
  let fl := A / B in
  (fl, 2 * (A - fl * B) ?= B).
(* round half to even *)
Definition round_up (fl : N) (c : comparison) : bool := match c with Gt => true | Eq => N.odd fl | Lt => false end.

Definition round64 (m : N) (e : Z) : option (N * Z) :=
  if m =? 0 then Some (0, MIN_Q) else
  let v := dec_rat m e in
  let q0 := (Z.of_N (N.log2 (fst v)) - Z.of_N (N.log2 (snd v)) - 52)%Z in      (* within one of the right exponent *)
  let pick (q : Z) := let q := Z.max q MIN_Q in (q, scaled v q) in
  let '(q, (fl, c)) :=
      let '(q1, (f1, c1)) := pick q0 in
      if P53 <=? f1 then pick (q1 + 1)%Z
      else if (f1 <? P52) && (MIN_Q <? q1)%Z then pick (q1 - 1)%Z
      else (q1, (f1, c1)) in
  (* the exponent estimate is validated, not trusted: a float comes out only if the truncated mantissa is normalised
     (or the exponent is the smallest one); the correspondence run would show a spurious None as a disagreement *)
  if negb (((P52 <=? fl) && (fl <? P53)) || ((q =? MIN_Q)%Z && (fl <? P52))) then None else
  let mant := if round_up fl c then fl + 1 else fl in
  let '(mant, q) := if mant =? P53 then (P52, (q + 1)%Z) else (mant, q) in
  if (MAX_Q <? q)%Z then None else Some (mant, q).

(* the IEEE bit pattern, for comparison with the hook's f64_bits *)
Definition bits64 (f : N * Z) : N :=
  let '(mant, q) := f in
  if mant <? P52 then mant                                         (* zero and subnormals: exponent field 0 *)
  else Z.to_N (q + 1075) * P52 + (mant - P52).

(* ------------------------------------------------------------------ binary64 -> shortest decimal *)
Definition half_gaps (f : N * Z) : rat * rat :=              (* below, above *)
  let '(mant, q) := f in
  let up := bin_rat 1 (q - 1) in
  let down := if (mant =? P52) && (MIN_Q <? q)%Z then bin_rat 1 (q - 2) else up in
  (down, up).

Definition in_interval (f : N * Z) (x : rat) : bool :=
  let v := bin_rat (fst f) (snd f) in
  let '(down, up) := half_gaps f in
  let lo := rsub v down in
  let hi := radd v up in
  if N.even (fst f) then rle lo x && rle x hi else rlt lo x && rlt x hi.

(* position of the leading decimal digit: 10^p <= v < 10^(p+1) *)
Fixpoint neg_pos (fuel : nat) (v : rat) (j : N) : Z :=
  match fuel with
  | O => (- Z.of_N j)%Z
  | S f => if rle (1, 10 ^ j) v then (- Z.of_N j)%Z else neg_pos f v (j + 1)
  end.
Definition lead_pos (v : rat) : Z :=
  if snd v <=? fst v then Z.of_nat (length (digits_of (fst v / snd v))) - 1
  else neg_pos 400 v 1.

(* the two k-digit decimals around v: (digits, exponent) *)
Definition candidates (v : rat) (p : Z) (k : nat) : list (N * Z) :=
  let x := (p - Z.of_nat k + 1)%Z in
  let lo := match x with
            | Zneg px => fst v * 10 ^ Npos px / snd v
            | _ => fst v / (snd v * 10 ^ Z.to_N x)
            end in
  [(lo, x); (lo + 1, x)].

Definition best (f : N * Z) (v : rat) (cs : list (N * Z)) : option (N * Z) :=
  match filter (fun c => negb (fst c =? 0) && in_interval f (dec_rat (fst c) (snd c))) cs with
  | [] => None
  | [c] => Some c
  | c1 :: c2 :: _ =>
      let d1 := rdist (dec_rat (fst c1) (snd c1)) v in
      let d2 := rdist (dec_rat (fst c2) (snd c2)) v in
      if rlt d1 d2 then Some c1 else if rlt d2 d1 then Some c2
      else if N.even (fst c1) then Some c1 else Some c2        (* exactly half way: the even last digit (core::num::flt2dec dragon) *)
  end.

Fixpoint shortest_from (fuel : nat) (f : N * Z) (v : rat) (p : Z) (k : nat) : option (N * Z) :=
  match fuel with
  | O => None
  | S fu => match best f v (candidates v p k) with
            | Some c => Some c
            | None => shortest_from fu f v p (S k)
            end
  end.
Definition shortest (f : N * Z) : option (N * Z) :=
  if fst f =? 0 then Some (0, 0%Z) else
  let v := bin_rat (fst f) (snd f) in shortest_from 17 f v (lead_pos v) 1.

(* what translate_literal emits for the float literal whose spelling denotes m * 10^e: None = the compile error *)
Definition emit_float_ryu (m : N) (e : Z) : option str :=
  match round64 m e with
  | None => None
  | Some f => match shortest f with Some (D, x) => Some (emit_float D x) | None => None end
  end.

Definition emit_float_ryu_view (m : N) (sg : bool) (mag : N) : option (N * str) :=
  let e := if sg then Z.opp (Z.of_N mag) else Z.of_N mag in
  match round64 m e with
  | None => None
  | Some f => match shortest f with Some (D, x) => Some (bits64 f, emit_float D x) | None => Some (bits64 f, []) end
  end.

(* C16: the id discipline of semantic/lowering.rs (struct Lowerer) as a state machine.

   State = the fields of Lowerer that carry identifiers:
     next_cid, next_tid   IdGenerator<CId>, IdGenerator<TId>     (utils/id_gen.rs: gen = post-increment)
     mapping              node_mapping : PL node id -> LoweredTarget (Compute cid | Input {column -> cid})
     frames               self.pipeline plus the pipelines suspended by lower_relation (drain / restore),
                          innermost first; each frame remembers why it was opened
     tables               table_buffer
   Operations = the places where lowering.rs touches those fields; their parameters are the choices made by the
   traversal of the resolved PL tree (which node, which expression, which frame), which the model does not look at:
     ODeclExtern   lower_table_decl, TableExpr::LocalTable            tid.gen, push ExternRef decl
     OBegin        lower_relation .. lower_pipeline reaching its leaf  [tid.gen for an inline table,] drain pipeline,
                                                                       lower_table_ref(leaf), push From
     OBeginLoop    TransformKind::Loop -> lower_relation of a closure whose leaf is the closure parameter (no From)
     OInstance     lower_table_ref for Join / Append of a table, s-string, built-in function or literal
                                                                       [tid.gen, push decl,] create_a_table_instance
                                                                       (one fresh cid per declared column, duplicates kept)
     ODeclare      declare_as_column                                   short-circuit | alias of a ColumnRef | cid.gen + Compute
     OPush         pipeline.push(Select | Filter | Aggregate | Sort | Take)
     OEndTable     push_select; lower_table_decl (RelationVar)         tid.gen, push decl, restore pipeline
     OEndInline    push_select; lower_table_ref (TransformCall)        push decl under the reserved tid,
                                                                       create_a_table_instance, redirect_mappings, restore,
                                                                       push Join / Append
     OEndLoop      pop the closing Select, restore, push Loop
   The only way an identifier enters an emitted expression is by being read out of `mapping` (lookup_cid,
   declare_as_column, find_selected_all) -- modelled by the guard: an operation whose expression mentions a cid that
   is not in the range of `mapping` is not a step the Lowerer can take (None).  create_a_table_instance `unwrap`s the
   table in table_buffer: an instance of a table that is not there is not a step either.
   What the model does NOT know is which columns the resolver lets an expression mention (scoping): visibility
   (clause 2 of rq_wf in its narrow form) is checked per program, not derived from this machine.
   Mirrors semantic/lowering.rs at /repo HEAD: 3b8ac37 removed itertools::unique from create_a_table_instance (mk_instance
   below); a131b2a (module / relation variable where a value is required), 7911778 (lookup_cid: compile error instead of
   panic) and 287b286 (relation literal: compile errors instead of unwrap panics) only turn panics / pass-throughs into
   `Err` -- in the model those were never steps (the guard), so nothing changes; `in_interpolation` carries no identifier.
   utils/id_gen.rs (79f4a51): `gen` is still post-increment; ids are N here, so there is no overflow to model on this side
   (IdGenerator::load, used by the SQL back end on a possibly deserialized RQ, is `idgen_load` at the end of this file).

   Hook `lowerer-op-trace` (120eb8c, cfg prqlc_verif, log lines `verif:lowerer_op {"op":..,"d":..}`) emits, in order, the
   code-side events that the operations below are made of (the correspondence run is the next round's work):
     extern {tid,name,columns}            ODeclExtern
     relation_begin                       pipeline drained: first half of OBegin (after `reserve` when inline) / OBeginLoop
     reserve {tid}                        OBegin inline=true: tid.gen for the table the sub-pipeline will become
     leaf {tid,relation}                  SNewLeaf of OBegin / OInstance (s-string, built-in function, literal)
     instance {node,name,tid,columns}     mk_instance (OBegin, OInstance, OEndInline)
     push {transform}                     From: end of OBegin; Select/Filter/Aggregate/Sort/Take: OPush;
                                          Join/Append: end of OInstance / OEndInline
     declare {node,how,cid|compute}       ODeclare (how = cached | alias | new)
     relation_end {select,columns}        the `frame` of OEndTable / OEndInline (for a loop: the Select that OEndLoop pops)
     inline_table {tid}, redirect {pairs} OEndInline (pairs = the HashMap: last pair per key, sorted)
     table {tid,name,columns}             OEndTable (tid.gen happens here, after the relation was lowered)
     loop_begin / loop_end                OBeginLoop / OEndLoop
   Executable definitions only; invariants are proved in Proofs/LowererProofs.v. *)
From Coq Require Import List NArith Bool.
From PV Require Import Lib.ListX Model.Rq Model.RqWf.
Import ListNotations.
Local Open Scope N_scope.

Inductive target := MCompute (c : cid) | MInput (cols : list (relcol * cid)).

Inductive fkind := FTable | FInline (t : tid) | FLoop.

Record lstate := mkL {
  next_cid : N;
  next_tid : N;
  mapping : list (N * target);
  frames : list (fkind * list transform);
  tables : list table_decl }.

Definition init : lstate := mkL 0 0 [] [] [].

Inductive leaf :=
| LLiteral (columns : list str) (nrows : N)
| LSString (items : list expr)
| LBuiltIn (name : str) (args : list expr).

Definition leaf_kind (l : leaf) : relkind :=
  match l with
  | LLiteral c n => KLiteral c n
  | LSString i => KSString i
  | LBuiltIn n a => KBuiltIn n a
  end.

Definition leaf_cids (l : leaf) : list cid :=
  match l with LLiteral _ _ => [] | LSString i => exprs_cids i | LBuiltIn _ a => exprs_cids a end.

Inductive src := SExisting (t : tid) | SNewLeaf (l : leaf) (cols : list relcol).
Inductive use := UFrom | UJoin (sd : join_side) (f : expr) | UAppend.

Inductive op :=
| ODeclExtern (name : list str) (cols : list relcol)
| OBegin (inline : bool) (node : N) (name : option str) (s : src)
| OBeginLoop
| OInstance (node : N) (name : option str) (s : src) (u : use)
| ODeclare (node : N) (e : expr) (w : option window) (agg plain_ok : bool)
| OPush (t : transform)
| OEndTable (name : option str) (frame : list (relcol * cid))
| OEndInline (node : N) (frame : list (relcol * cid)) (u : use)
| OEndLoop.

(* ---- pieces ---- *)

Definition target_cids (t : target) : list cid :=
  match t with MCompute c => [c] | MInput cols => map snd cols end.

Definition mapping_cids (m : list (N * target)) : list cid := flat_map (fun p => target_cids (snd p)) m.

Definition guard (s : lstate) (cs : list cid) : bool :=
  forallb (fun c => memN c (mapping_cids (mapping s))) cs.

Definition seqN (b : N) (n : nat) : list N := map (fun i => b + N.of_nat i) (seq 0 n).

Definition ostr_eqb (a b : option str) : bool :=
  match a, b with Some x, Some y => leqb x y | None, None => true | _, _ => false end.
Definition relcol_eqb (a b : relcol) : bool :=
  match a, b with RSingle x, RSingle y => ostr_eqb x y | RWildcard, RWildcard => true | _, _ => false end.

(* `.collect::<HashMap<RelationColumn, _>>()`: of several pairs with an equal key the LAST one stays
   (create_a_table_instance builds node_mapping's Input entry this way: when a table declares the same column name --
   or two unnamed columns -- twice, only the last of them can be looked up by name) *)
Fixpoint hm_collect (l : list (relcol * cid)) : list (relcol * cid) :=
  match l with
  | [] => []
  | x :: l' => if existsb (fun y => relcol_eqb (fst x) (fst y)) l' then hm_collect l' else x :: hm_collect l'
  end.

(* create_a_table_instance: one fresh cid per declared column of table t, duplicates included (since 3b8ac37 the column
   list is no longer passed through itertools::unique, so the instance lines up, position by position, with the table's
   closing Select); the instance is remembered under PL node `node` as a map from column to cid *)
Definition mk_instance (s : lstate) (node : N) (name : option str) (t : tid) (cols : list relcol)
  : table_ref * lstate :=
  let icols := combine cols (seqN (next_cid s) (length cols)) in
  (mkTRef t icols name,
   mkL (next_cid s + N.of_nat (length cols)) (next_tid s) ((node, MInput (hm_collect icols)) :: mapping s) (frames s) (tables s)).

Definition find_table (ts : list table_decl) (t : tid) : option table_decl :=
  find (fun d => N.eqb (t_id d) t) ts.

Definition resolve_src (s : lstate) (x : src) : option (tid * list relcol * lstate) :=
  match x with
  | SExisting t =>
      match find_table (tables s) t with
      | Some d => Some (t, r_columns (t_relation d), s)
      | None => None
      end
  | SNewLeaf l cols =>
      if guard s (leaf_cids l) then
        let t := next_tid s in
        Some (t, cols, mkL (next_cid s) (t + 1) (mapping s) (frames s)
                           (tables s ++ [mkTable t None (mkRel (leaf_kind l) cols)]))
      else None
  end.

Definition apply_use (s : lstate) (r : table_ref) (u : use) : option transform :=
  match u with
  | UFrom => Some (TFrom r)
  | UJoin sd f => if guard s (expr_cids f) then Some (TJoin sd r f) else None
  | UAppend => Some (TAppend r)
  end.

Definition push_top (t : transform) (fs : list (fkind * list transform)) : option (list (fkind * list transform)) :=
  match fs with
  | (k, p) :: fs' => Some ((k, p ++ [t]) :: fs')
  | [] => None
  end.

Definition simple (t : transform) : bool :=
  match t with
  | TSelect _ | TFilter _ | TAggregate _ _ | TSort _ | TTake _ _ _ => true
  | _ => false
  end.

Definition lookup_node (m : list (N * target)) (node : N) : option target :=
  option_map snd (find (fun p => N.eqb (fst p) node) m).

(* `redirects` is a HashMap<CId, CId> collected from zip(closing Select, instance columns): when the closing Select
   names one id twice the LAST pair stays *)
Definition redirect_cid (rs : list (cid * cid)) (c : cid) : cid :=
  match find (fun p => N.eqb (fst p) c) (rev rs) with Some p => snd p | None => c end.

Definition redirect_target (rs : list (cid * cid)) (t : target) : target :=
  match t with
  | MCompute c => MCompute (redirect_cid rs c)
  | MInput cols => MInput (map (fun rc => (fst rc, redirect_cid rs (snd rc))) cols)
  end.

Definition redirect (rs : list (cid * cid)) (m : list (N * target)) : list (N * target) :=
  map (fun p => (fst p, redirect_target rs (snd p))) m.

Definition select_relation (p : list transform) (frame : list (relcol * cid)) : relation :=
  mkRel (KPipeline (p ++ [TSelect (map snd frame)])) (map fst frame).

Definition step (s : lstate) (o : op) : option lstate :=
  match o with
  | ODeclExtern name cols =>
      Some (mkL (next_cid s) (next_tid s + 1) (mapping s) (frames s)
                (tables s ++ [mkTable (next_tid s) None (mkRel (KExternRef name) cols)]))
  | OBegin inline node name x =>
      let k := if inline then FInline (next_tid s) else FTable in
      let s1 := if inline then mkL (next_cid s) (next_tid s + 1) (mapping s) (frames s) (tables s) else s in
      match resolve_src s1 x with
      | Some (t, cols, s2) =>
          let (r, s3) := mk_instance s2 node name t cols in
          Some (mkL (next_cid s3) (next_tid s3) (mapping s3) ((k, [TFrom r]) :: frames s3) (tables s3))
      | None => None
      end
  | OBeginLoop =>
      match frames s with
      | [] => None
      | _ => Some (mkL (next_cid s) (next_tid s) (mapping s) ((FLoop, []) :: frames s) (tables s))
      end
  | OInstance node name x u =>
      match resolve_src s x with
      | Some (t, cols, s2) =>
          let (r, s3) := mk_instance s2 node name t cols in
          match apply_use s3 r u with
          | Some tr =>
              match push_top tr (frames s3) with
              | Some fs => Some (mkL (next_cid s3) (next_tid s3) (mapping s3) fs (tables s3))
              | None => None
              end
          | None => None
          end
      | None => None
      end
  | ODeclare node e w agg plain_ok =>
      match lookup_node (mapping s) node with
      | Some (MCompute _) => Some s
      | _ =>
          if guard s (expr_cids e ++ window_cids w) then
            match e, plain_ok with
            | ERef c, true =>
                Some (mkL (next_cid s) (next_tid s) ((node, MCompute c) :: mapping s) (frames s) (tables s))
            | _, _ =>
                let c := next_cid s in
                match push_top (TCompute c e w agg) (frames s) with
                | Some fs => Some (mkL (c + 1) (next_tid s) ((node, MCompute c) :: mapping s) fs (tables s))
                | None => None
                end
            end
          else None
      end
  | OPush t =>
      if simple t && guard s (transform_uses t) then
        match push_top t (frames s) with
        | Some fs => Some (mkL (next_cid s) (next_tid s) (mapping s) fs (tables s))
        | None => None
        end
      else None
  | OEndTable name frame =>
      match frames s with
      | (FTable, p) :: fs =>
          if guard s (map snd frame) then
            Some (mkL (next_cid s) (next_tid s + 1) (mapping s) fs
                      (tables s ++ [mkTable (next_tid s) name (select_relation p frame)]))
          else None
      | _ => None
      end
  | OEndInline node frame u =>
      match frames s with
      | (FInline t, p) :: fs =>
          if guard s (map snd frame) then
            let s1 := mkL (next_cid s) (next_tid s) (mapping s) fs
                          (tables s ++ [mkTable t None (select_relation p frame)]) in
            let (r, s2) := mk_instance s1 node None t (map fst frame) in
            let s3 := mkL (next_cid s2) (next_tid s2)
                          (redirect (combine (map snd frame) (tref_cids r)) (mapping s2)) (frames s2) (tables s2) in
            match apply_use s3 r u with
            | Some tr =>
                match push_top tr (frames s3) with
                | Some fs' => Some (mkL (next_cid s3) (next_tid s3) (mapping s3) fs' (tables s3))
                | None => None
                end
            | None => None
            end
          else None
      | _ => None
      end
  | OEndLoop =>
      match frames s with
      | (FLoop, p) :: fs =>
          match push_top (TLoop p) fs with
          | Some fs' => Some (mkL (next_cid s) (next_tid s) (mapping s) fs' (tables s))
          | None => None
          end
      | _ => None
      end
  end.

Fixpoint run (s : lstate) (ops : list op) : option lstate :=
  match ops with
  | [] => Some s
  | o :: ops' => match step s o with Some s' => run s' ops' | None => None end
  end.

(* lower_to_ir: the table lowered last is the main relation (popped from table_buffer) *)
Definition finish (s : lstate) : option rq :=
  match frames s, rev (tables s) with
  | [], main :: rest => Some (mkRq (rev rest) (t_relation main))
  | _, _ => None
  end.

(* ---- what the invariants talk about ---- *)

Definition Tdefs (ts : list table_decl) : list cid := flat_map (fun t => relation_defs (t_relation t)) ts.
Definition Fdefs (fs : list (fkind * list transform)) : list cid := flat_map (fun f => pipeline_defs (snd f)) fs.
Definition Tuses (ts : list table_decl) : list cid := flat_map (fun t => relation_uses (t_relation t)) ts.
Definition Fuses (fs : list (fkind * list transform)) : list cid := flat_map (fun f => flat_map transform_uses (snd f)) fs.

Definition defs_of (s : lstate) : list cid := Tdefs (tables s) ++ Fdefs (frames s).
Definition uses_of (s : lstate) : list cid := Tuses (tables s) ++ Fuses (frames s).

Definition reserved (fs : list (fkind * list transform)) : list tid :=
  flat_map (fun f => match fst f with FInline t => [t] | _ => [] end) fs.
Definition tids_of (s : lstate) : list tid := map t_id (tables s) ++ reserved (frames s).

(* toposort (utils/toposort.rs): depth-first post-order from `start`; None = cycle (or out of fuel).
   dag n = the dependencies of node n; order is kept reversed (head = pushed last). *)
Section Toposort.
  Variable dag : nat -> list nat.

  (* `for m in &dag[n] { self.visit(dag, *m)?; }` *)
  Fixpoint visit_all (v : list nat -> nat -> option (list nat)) (ms : list nat) (order : list nat) : option (list nat) :=
    match ms with
    | [] => Some order
    | m :: ms' => match v order m with
                  | Some order' => visit_all v ms' order'
                  | None => None
                  end
    end.

  Fixpoint visit (fuel : nat) (visiting order : list nat) (n : nat) : option (list nat) :=
    match fuel with
    | O => None
    | S fuel' =>
        if existsb (Nat.eqb n) order then Some order            (* node.done *)
        else if existsb (Nat.eqb n) visiting then None          (* node.visiting: cycle *)
        else
          match visit_all (visit fuel' (n :: visiting)) (dag n) order with
          | Some order' => Some (n :: order')
          | None => None
          end
    end.

  Definition toposort (fuel : nat) (start : nat) : option (list nat) :=
    option_map (@rev nat) (visit fuel [] [] start).
End Toposort.

(* utils/id_gen.rs, IdGenerator::load (the SQL back end's AnchorContext::of calls it on the RQ it is handed, which may come
   from JSON): fold `skip` over every cid / table id of the query.  Since 79f4a51 `skip` refuses an id above usize::MAX / 2
   (error "id .. is too large") instead of computing id + 1 on it -- which overflowed for usize::MAX (panic in debug builds,
   wrap-around to 0 and colliding ids in release builds).  `max_id` stands for usize::MAX. *)
Section IdGen.
  Variable max_id : N.

  Definition idgen_skip (next : N) (id : N) : option N :=
    if max_id / 2 <? id then None else Some (N.max next (id + 1)).

  Fixpoint idgen_load_from (next : N) (ids : list N) : option N :=
    match ids with
    | [] => Some next
    | id :: ids' => match idgen_skip next id with Some n => idgen_load_from n ids' | None => None end
    end.

  Definition idgen_load (ids : list N) : option N := idgen_load_from 0 ids.

  (* gen: post-increment *)
  Definition idgen_gen (next : N) : N * N := (next, next + 1).
End IdGen.

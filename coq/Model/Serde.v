(* One generic model of serde-derive + serde_json for exactly the features prqlc's PR and RQ types use.

   - a universe of type descriptors (`desc`) and named definitions (`def`: struct / enum / newtype struct;
     Rust has no anonymous structs or enums, so `DStruct fields` / `DEnum variants` of the design live at the
     definition level and are referred to by `DRef name`);
   - per-field attributes: `flatten`, `skip_serializing_if` (the four predicates prqlc uses), `default`;
   - generic values;
   - `ser : env -> desc -> value -> json` (total, structural on the value) and
     `de : env -> desc -> json -> option value` (fuel = weight of the JSON tree);
   - the hand-written codecs: Span ("id:start-end"), Ident (array of strings, last = name), and
     semver::VersionReq (Model/VersionReq.v: from_str and Display, the value is held as its Display text);
   - `schema_ok : env -> bool`, the decidable side condition of the round-trip theorem.

   Executable definitions only; the theorems are in Proofs/SerdeProofs.v. *)
From Coq Require Import List NArith ZArith Bool.
From PV Require Import Lib.ListX Model.Json Model.VersionReq.
From PV Require Model.FloatRyu.   (* C08's binary64 rounding and shortest-digits model, read-only, qualified *)
Import ListNotations.

Inductive codec := CSpan | CIdent | CVersionReq.

Inductive desc :=
| DStr
| DInt (lo hi : Z)                 (* any Rust integer type: its range *)
| DFloat
| DBool
| DChar
| DOption (d : desc)
| DVec (d : desc)
| DMap (d : desc)                  (* HashMap<String, d> *)
| DBox (d : desc)
| DTuple (ds : list desc)
| DRef (name : str)
| DOpaque (c : codec).

Inductive skip := SkipNever | SkipIfNone | SkipIfEmptyVec | SkipIfEmptyMap | SkipIfFalse.

Record field := mkField { fname : str; fdesc : desc; fflatten : bool; fskip : skip; fdefault : bool }.

Inductive shape := SUnit | SNewtype (d : desc) | STuple (ds : list desc) | SStruct (fs : list field).

Inductive def :=
| DefStruct (fs : list field)
| DefEnum (vs : list (str * shape))
| DefNewtype (d : desc).           (* struct T(d): transparent *)

Definition env := list (str * def).

Inductive value :=
| VStr (s : str)
| VInt (z : Z)
| VFloat (f : fl)
| VBool (b : bool)
| VChar (c : N)
| VNone
| VSome (v : value)
| VList (l : list value)
| VTuple (l : list value)
| VMap (l : list (str * value))
| VStruct (l : list value)          (* fields in declaration order; a newtype struct is VStruct [v] *)
| VEnum (tag : str) (l : list value) (* unit: []; newtype: [v]; tuple / struct variant: the components *)
| VSpan (id s e : N)
| VIdent (path : list str) (name : str).

(* Box<T> is transparent for serde *)
Fixpoint unbox (d : desc) : desc := match d with DBox d' => unbox d' | _ => d end.

Definition opt_inner (d : desc) : desc := match unbox d with DOption d' => d' | _ => DStr end.
Definition vec_inner (d : desc) : desc := match unbox d with DVec d' => d' | DMap d' => d' | _ => DStr end.
Definition tuple_descs (d : desc) : list desc := match unbox d with DTuple ds => ds | _ => [] end.

Definition skipped (s : skip) (v : value) : bool :=
  match s, v with
  | SkipIfNone, VNone => true
  | SkipIfEmptyVec, VList [] => true
  | SkipIfEmptyMap, VMap [] => true
  | SkipIfFalse, VBool false => true
  | _, _ => false
  end.

(* ---- the codecs ---- *)

Definition colon : N := 58%N.
Definition dash : N := 45%N.
Definition u16_bound : N := 65536%N.
Definition usize_bound : N := 18446744073709551616%N.

Definition span_ser (id s e : N) : str := print_dec id ++ [colon] ++ print_dec s ++ [dash] ++ print_dec e.

Definition span_de (t : str) : option (N * N * N) :=
  match split_once colon t with
  | Some (a, rest) =>
      match parse_dec u16_bound a with
      | Some id =>
          match split_once dash rest with
          | Some (b, c) =>
              match parse_dec usize_bound b, parse_dec usize_bound c with
              | Some s, Some e => Some (id, s, e)
              | _, _ => None
              end
          | None => None
          end
      | None => None
      end
  | None => None
  end.

Fixpoint jstrs (l : list json) : option (list str) :=
  match l with
  | [] => Some []
  | JStr s :: l' => match jstrs l' with Some r => Some (s :: r) | None => None end
  | _ :: _ => None
  end.

Definition ident_ser (path : list str) (name : str) : json := JArr (map JStr (path ++ [name])).

(* <Vec<String>>::deserialize(..).map(Ident::from_path); from_path panics on [] -- modelled as None *)
Definition ident_de (j : json) : option (list str * str) :=
  match j with
  | JArr l => match jstrs l with
              | Some (x :: r) => Some (removelast (x :: r), last (x :: r) [])
              | _ => None
              end
  | _ => None
  end.

(* serde_json gives an integer token to a visitor that expects f64 as `z as f64` (visit_i64 / visit_u64 of the f64
   primitive visitor; an integer beyond u64 / below i64 is already lexed as an f64): the binary64 nearest to z, ties to even.
   A float is identified with its shortest round-trip text.  Up to 2^53 the conversion is exact and that text is the decimal
   text of the integer followed by `.0`; beyond, C08's model gives the rounding and the shortest digits
   (FloatRyu.emit_float_ryu: round64 then shortest, in Rust's {:?} layout -- which is ryu's for values >= 1e-4: `.0` below
   1e16, exponent form from 1e16).  None: the integer rounds to infinity (serde_json: `number out of range`). *)
Definition two53 : Z := 9007199254740992%Z.
Definition int_is_exact_float (z : Z) : bool := (Z.abs z <=? two53)%Z.
Definition sign_prefix (z : Z) : str := if (z <? 0)%Z then [45%N] else [].
Definition int_float_repr (z : Z) : option str :=
  if int_is_exact_float z then Some (sign_prefix z ++ print_dec (Z.abs_N z) ++ [46%N; 48%N])
  else option_map (app (sign_prefix z)) (FloatRyu.emit_float_ryu (Z.abs_N z) 0%Z).

(* HashMap::insert: a later entry with the same key replaces the value (the map keeps one entry per key) *)
Fixpoint insert_kv {A : Type} (k : str) (v : A) (l : list (str * A)) : list (str * A) :=
  match l with
  | [] => [(k, v)]
  | (k', v') :: l' => if leqb k k' then (k, v) :: l' else (k', v') :: insert_kv k v l'
  end.
Definition dedup_last {A : Type} (l : list (str * A)) : list (str * A) :=
  fold_left (fun acc kv => insert_kv (fst kv) (snd kv) acc) l [].

Section WithEnv.
  Variable E : env.

  Definition lookup (n : str) : option def := assoc n E.

  Definition struct_def (d : desc) : option def :=
    match unbox d with DRef n => lookup n | _ => None end.

  Definition enum_shape (d : desc) (tag : str) : option shape :=
    match struct_def d with Some (DefEnum vs) => assoc tag vs | _ => None end.

  (* ---------------- serialisation ---------------- *)

  Fixpoint ser (d : desc) (v : value) {struct v} : json :=
    let tup := fix tup (ds : list desc) (l : list value) {struct l} : list json :=
      match l with
      | [] => []
      | v :: l' => match ds with d :: ds' => ser d v :: tup ds' l' | [] => [] end
      end in
    (* the entries one field contributes to the enclosing JSON object *)
    let flds := fix flds (fs : list field) (l : list value) {struct l} : list (str * json) :=
      match l with
      | [] => []
      | v :: l' =>
          match fs with
          | [] => []
          | f :: fs' =>
              (if fflatten f then
                 match v with
                 | VEnum tag p =>
                     match enum_shape (fdesc f) tag with
                     | Some SUnit => [(tag, JNull)]
                     | Some (SNewtype d') => match p with [x] => [(tag, ser d' x)] | _ => [] end
                     | Some (STuple ds) => [(tag, JArr (tup ds p))]
                     | _ => []
                     end
                 | _ => []
                 end
               else if skipped (fskip f) v then []
               else [(fname f, ser (fdesc f) v)]) ++ flds fs' l'
          end
      end in
    match v with
    | VStr s => JStr s
    | VInt z => JNum (NInt z)
    | VFloat (FFin r) => JNum (NFloat r)
    | VFloat FNonFinite => JNull
    | VBool b => JBool b
    | VChar c => JStr [c]
    | VNone => JNull
    | VSome v' => ser (opt_inner d) v'
    | VList l => JArr (map (ser (vec_inner d)) l)
    | VTuple l => JArr (tup (tuple_descs d) l)
    | VMap l => JObj (map (fun kv => (fst kv, ser (vec_inner d) (snd kv))) l)
    | VStruct l =>
        match struct_def d with
        | Some (DefStruct fs) => JObj (flds fs l)
        | Some (DefNewtype d') => match l with [x] => ser d' x | _ => JNull end
        | _ => JNull
        end
    | VEnum tag p =>
        match enum_shape d tag with
        | Some SUnit => JStr tag
        | Some (SNewtype d') => match p with [x] => JObj [(tag, ser d' x)] | _ => JNull end
        | Some (STuple ds) => JObj [(tag, JArr (tup ds p))]
        | Some (SStruct fs) => JObj [(tag, JObj (flds fs p))]
        | None => JNull
        end
    | VSpan id s e => JStr (span_ser id s e)
    | VIdent path name => ident_ser path name
    end.

  (* the two local functions of `ser`, as top-level definitions (equal by unfolding) *)
  Fixpoint ser_tuple (ds : list desc) (l : list value) {struct l} : list json :=
    match l with
    | [] => []
    | v :: l' => match ds with d :: ds' => ser d v :: ser_tuple ds' l' | [] => [] end
    end.

  Definition ser_field (f : field) (v : value) : list (str * json) :=
    if fflatten f then
      match v with
      | VEnum tag p =>
          match enum_shape (fdesc f) tag with
          | Some SUnit => [(tag, JNull)]
          | Some (SNewtype d') => match p with [x] => [(tag, ser d' x)] | _ => [] end
          | Some (STuple ds) => [(tag, JArr (ser_tuple ds p))]
          | _ => []
          end
      | _ => []
      end
    else if skipped (fskip f) v then []
    else [(fname f, ser (fdesc f) v)].

  Fixpoint ser_fields (fs : list field) (l : list value) {struct l} : list (str * json) :=
    match l with
    | [] => []
    | v :: l' => match fs with [] => [] | f :: fs' => ser_field f v ++ ser_fields fs' l' end
    end.

  (* ---------------- deserialisation ---------------- *)

  Fixpoint mapM {A B : Type} (f : A -> option B) (l : list A) : option (list B) :=
    match l with
    | [] => Some []
    | x :: l' => match f x, mapM f l' with Some y, Some r => Some (y :: r) | _, _ => None end
    end.

  (* Default::default() of the field types that carry #[serde(default)] *)
  Definition default_of (d : desc) : option value :=
    match unbox d with
    | DOption _ => Some VNone
    | DVec _ => Some (VList [])
    | DMap _ => Some (VMap [])
    | DBool => Some (VBool false)
    | _ => None
    end.

  Definition is_option (d : desc) : bool := match unbox d with DOption _ => true | _ => false end.

  Section Body.
    (* `rec` deserialises strictly smaller JSON trees *)
    Variable rec : desc -> json -> option value.

    Fixpoint de_tuple (ds : list desc) (l : list json) {struct ds} : option (list value) :=
      match ds, l with
      | [], [] => Some []
      | d :: ds', j :: l' => match rec d j, de_tuple ds' l' with Some v, Some r => Some (v :: r) | _, _ => None end
      | _, _ => None
      end.

    (* serde-derive's struct visitor also has visit_seq: a JSON ARRAY is read as the fields in declaration order; when
       the array is exhausted a `default` field gets Default::default() and any other field is `invalid length` (the
       missing-Option rule belongs to visit_map only); more elements than fields is an error.  A struct with a flatten
       field is deserialised through deserialize_map and has no visit_seq. *)
    Fixpoint de_seq_fields (fs : list field) (l : list json) {struct fs} : option (list value) :=
      match fs with
      | [] => match l with [] => Some [] | _ :: _ => None end
      | f :: fs' =>
          match l with
          | j :: l' =>
              match rec (fdesc f) j, de_seq_fields fs' l' with Some v, Some r => Some (v :: r) | _, _ => None end
          | [] =>
              match (if fdefault f then default_of (fdesc f) else None), de_seq_fields fs' [] with
              | Some v, Some r => Some (v :: r)
              | _, _ => None
              end
          end
      end.

    Definition seq_ok (fs : list field) : bool := forallb (fun f => negb (fflatten f)) fs.

    Definition de_struct_seq (fs : list field) (l : list json) : option (list value) :=
      if seq_ok fs then de_seq_fields fs l else None.

    (* payload of variant `tag` *)
    Definition de_payload (sh : shape) (j : json) (de_fields : list field -> list (str * json) -> option (list value)) : option (list value) :=
      match sh with
      | SUnit => match j with JNull => Some [] | _ => None end
      | SNewtype d => match rec d j with Some v => Some [v] | None => None end
      | STuple ds => match j with JArr l => de_tuple ds l | _ => None end
      | SStruct fs => match j with JObj kvs => de_fields fs kvs | JArr l => de_struct_seq fs l | _ => None end
      end.

    (* one named (non-flatten) field, looked up by key among all entries of the object *)
    Definition de_named (f : field) (kvs : list (str * json)) : option value :=
      match assoc (fname f) kvs with
      | Some j => rec (fdesc f) j
      | None => if fdefault f then default_of (fdesc f)
                else if is_option (fdesc f) then Some VNone   (* serde's missing_field *)
                else None
      end.

    (* a flattened enum: the first entry that no named field claims and whose key is a variant name *)
    Fixpoint find_variant (vs : list (str * shape)) (own : list str) (kvs : list (str * json)) : option (str * shape * json) :=
      match kvs with
      | [] => None
      | (k, j) :: kvs' =>
          if mem k own then find_variant vs own kvs'
          else match assoc k vs with
               | Some sh => Some (k, sh, j)
               | None => find_variant vs own kvs'
               end
      end.

    Definition de_flat (f : field) (own : list str) (kvs : list (str * json)) : option value :=
      match struct_def (fdesc f) with
      | Some (DefEnum vs) =>
          match find_variant vs own kvs with
          | Some (tag, sh, j) =>
              match sh with
              | SStruct _ => None      (* struct variant inside flatten: not modelled (schema_ok rejects) *)
              | _ => match de_payload sh j (fun _ _ => None) with Some p => Some (VEnum tag p) | None => None end
              end
          | None => None
          end
      | _ => None
      end.

    Fixpoint de_fields_own (own : list str) (fs : list field) (kvs : list (str * json)) {struct fs} : option (list value) :=
      match fs with
      | [] => Some []
      | f :: fs' =>
          match (if fflatten f then de_flat f own kvs else de_named f kvs), de_fields_own own fs' kvs with
          | Some v, Some r => Some (v :: r)
          | _, _ => None
          end
      end.

    Definition own_names (fs : list field) : list str :=
      map fname (filter (fun f => negb (fflatten f)) fs).

    (* serde-derive's struct visitor: a second entry for a field of the struct is `duplicate field`; entries with other
       keys (unknown, or candidates for a flattened enum) may repeat -- they are ignored / the first match is taken *)
    Definition own_keys (own : list str) (kvs : list (str * json)) : list str :=
      filter (fun k => mem k own) (keys kvs).

    Definition de_fields (fs : list field) (kvs : list (str * json)) : option (list value) :=
      if nodupb (own_keys (own_names fs) kvs) then de_fields_own (own_names fs) fs kvs else None.

    Definition de_def (df : def) (j : json) : option value :=
      match df with
      | DefStruct fs => match j with
                        | JObj kvs => option_map VStruct (de_fields fs kvs)
                        | JArr l => option_map VStruct (de_struct_seq fs l)
                        | _ => None
                        end
      | DefNewtype _ => None   (* handled without fuel in de_body: the inner type is a primitive *)
      | DefEnum vs =>
          match j with
          | JStr tag => match assoc tag vs with Some SUnit => Some (VEnum tag []) | _ => None end
          | JObj [(tag, x)] =>
              match assoc tag vs with
              | Some sh => option_map (VEnum tag) (de_payload sh x de_fields)
              | None => None
              end
          | _ => None
          end
      end.

    Definition de_prim (d : desc) (j : json) : option value :=
      match d, j with
      | DFloat, JNum (NInt z) => option_map (fun r => VFloat (FFin r)) (int_float_repr z)
      | DStr, JStr s => Some (VStr s)
      | DInt lo hi, JNum (NInt z) => if (Z.leb lo z && Z.leb z hi)%bool then Some (VInt z) else None
      | DFloat, JNum (NFloat r) => Some (VFloat (FFin r))
      | DBool, JBool b => Some (VBool b)
      | DChar, JStr [c] => Some (VChar c)
      | _, _ => None
      end.

    Definition de_opaque (c : codec) (j : json) : option value :=
      match c, j with
      | CSpan, JStr t => match span_de t with Some (id, s, e) => Some (VSpan id s e) | None => None end
      | CIdent, _ => match ident_de j with Some (p, n) => Some (VIdent p n) | None => None end
      | CVersionReq, JStr t => option_map VStr (vreq_normalise t)   (* from_str, held as its Display form *)
      | _, _ => None
      end.

    Fixpoint de_body (d : desc) (j : json) {struct d} : option value :=
      match d with
      | DBox d' => de_body d' j
      | DOption d' => match j with JNull => Some VNone | _ => option_map VSome (de_body d' j) end
      | DVec d' => match j with JArr l => option_map VList (mapM (rec d') l) | _ => None end
      | DMap d' => match j with
                   | JObj kvs => option_map (fun l => VMap (dedup_last l))
                                            (mapM (fun kv => option_map (pair (fst kv)) (rec d' (snd kv))) kvs)
                   | _ => None
                   end
      | DTuple ds => match j with JArr l => option_map VTuple (de_tuple ds l) | _ => None end
      | DRef n =>
          match lookup n with
          | Some (DefNewtype d') => option_map (fun v => VStruct [v]) (de_prim d' j)
          | Some df => de_def df j
          | None => None
          end
      | DOpaque c => de_opaque c j
      | _ => de_prim d j
      end.
  End Body.

  Fixpoint de_fuel (fuel : nat) : desc -> json -> option value :=
    match fuel with
    | O => fun _ _ => None
    | S f => de_body (de_fuel f)
    end.

  Definition de (d : desc) (j : json) : option value := de_fuel (jw j) d j.

  (* ---------------- the decidable schema condition ---------------- *)

  Definition is_prim (d : desc) : bool :=
    match d with DStr | DInt _ _ | DFloat | DBool | DChar => true | _ => false end.

  (* can a well-typed, json_ok value of this type serialise to `null`?  (conservative) *)
  Definition nullable (d : desc) : bool :=
    match unbox d with
    | DOption _ => true
    | DRef n => match lookup n with
                | Some (DefStruct _) | Some (DefEnum _) => false
                | Some (DefNewtype d') => negb (is_prim d')
                | None => true
                end
    | _ => false
    end.

  Fixpoint desc_ok (d : desc) : bool :=
    match d with
    | DOption d' => negb (nullable d') && desc_ok d'
    | DVec d' | DMap d' | DBox d' => desc_ok d'
    | DTuple ds => forallb desc_ok ds
    | DRef n => match lookup n with Some _ => true | None => false end
    | _ => true
    end.

  Definition skip_ok (f : field) : bool :=
    match fskip f with
    | SkipNever => true
    | SkipIfNone => is_option (fdesc f)
    | SkipIfEmptyVec => fdefault f && match unbox (fdesc f) with DVec _ => true | _ => false end
    | SkipIfEmptyMap => fdefault f && match unbox (fdesc f) with DMap _ => true | _ => false end
    | SkipIfFalse => fdefault f && match unbox (fdesc f) with DBool => true | _ => false end
    end.

  Definition default_ok (f : field) : bool :=
    if fdefault f then match default_of (fdesc f) with Some _ => true | None => false end else true.

  Definition shape_flat_ok (sh : shape) : bool := match sh with SStruct _ => false | _ => true end.

  (* a flatten field: an enum whose variant names are distinct from the names of the sibling fields;
     no skip attribute; its variants are unit / newtype / tuple *)
  Definition flatten_ok (own : list str) (f : field) : bool :=
    if fflatten f then
      match fskip f, struct_def (fdesc f) with
      | SkipNever, Some (DefEnum vs) =>
          forallb (fun kv => negb (mem (fst kv) own) && shape_flat_ok (snd kv)) vs
      | _, _ => false
      end
    else true.

  Definition fields_ok (fs : list field) : bool :=
    nodupb (map fname fs)
    && (Nat.leb (length (filter fflatten fs)) 1)
    && forallb (fun f => desc_ok (fdesc f) && skip_ok f && default_ok f && flatten_ok (own_names fs) f) fs.

  Definition shape_ok (sh : shape) : bool :=
    match sh with
    | SUnit => true
    | SNewtype d => desc_ok d
    | STuple ds => forallb desc_ok ds
    | SStruct fs => fields_ok fs && forallb (fun f => negb (fflatten f)) fs
    end.

  Definition def_ok (df : def) : bool :=
    match df with
    | DefStruct fs => fields_ok fs
    | DefEnum vs => nodupb (map fst vs) && forallb (fun kv => shape_ok (snd kv)) vs
    | DefNewtype d => is_prim d
    end.

  Definition schema_ok : bool := nodupb (map fst E) && forallb (fun nd => def_ok (snd nd)) E.

  (* ---------------- typing of values (executable) ---------------- *)

  Fixpoint json_ok (v : value) : bool :=
    match v with
    | VFloat FNonFinite => false
    | VSome v' => json_ok v'
    | VList l | VTuple l | VStruct l | VEnum _ l => forallb json_ok l
    | VMap l => forallb (fun kv => json_ok (snd kv)) l
    | _ => true
    end.
End WithEnv.

(* ---------------- typing of generic values against descriptors (specification) ---------------- *)
Section Typing.
  Variable E : env.
  Local Open Scope N_scope.

  Inductive wt : desc -> value -> Prop :=
  | wt_str s : wt DStr (VStr s)
  | wt_int lo hi z : (lo <= z)%Z -> (z <= hi)%Z -> wt (DInt lo hi) (VInt z)
  | wt_float f : wt DFloat (VFloat f)
  | wt_bool b : wt DBool (VBool b)
  | wt_char c : wt DChar (VChar c)
  | wt_none d : wt (DOption d) VNone
  | wt_some d v : wt d v -> wt (DOption d) (VSome v)
  | wt_vec d l : Forall (wt d) l -> wt (DVec d) (VList l)
  | wt_map d l : NoDup (keys l) -> Forall (fun kv => wt d (snd kv)) l -> wt (DMap d) (VMap l)
  | wt_box d v : wt d v -> wt (DBox d) v
  | wt_tuple ds l : Forall2 wt ds l -> wt (DTuple ds) (VTuple l)
  | wt_struct n fs l : lookup E n = Some (DefStruct fs) ->
      Forall2 (fun f v => wt (fdesc f) v) fs l -> wt (DRef n) (VStruct l)
  | wt_newtype n d v : lookup E n = Some (DefNewtype d) -> wt d v -> wt (DRef n) (VStruct [v])
  | wt_enum_unit n vs tag : lookup E n = Some (DefEnum vs) -> assoc tag vs = Some SUnit ->
      wt (DRef n) (VEnum tag [])
  | wt_enum_newtype n vs tag d v : lookup E n = Some (DefEnum vs) -> assoc tag vs = Some (SNewtype d) ->
      wt d v -> wt (DRef n) (VEnum tag [v])
  | wt_enum_tuple n vs tag ds l : lookup E n = Some (DefEnum vs) -> assoc tag vs = Some (STuple ds) ->
      Forall2 wt ds l -> wt (DRef n) (VEnum tag l)
  | wt_enum_struct n vs tag fs l : lookup E n = Some (DefEnum vs) -> assoc tag vs = Some (SStruct fs) ->
      Forall2 (fun f v => wt (fdesc f) v) fs l -> wt (DRef n) (VEnum tag l)
  | wt_span id s e : id < u16_bound -> s < usize_bound -> e < usize_bound -> wt (DOpaque CSpan) (VSpan id s e)
  | wt_ident p n : wt (DOpaque CIdent) (VIdent p n)
  | wt_ver s : vreq_normal s = true -> wt (DOpaque CVersionReq) (VStr s).   (* a VersionReq = the text Display writes *)
End Typing.

(* The finite side of Theta-1 for SQL emission: for every (parent construct, hole, child construct)
   of a dialect, "the emitter omits parentheses  =>  the engine grammar regroups to the same tree
   (or to a rotation licensed by an algebraic law)".  Definitions only. *)
From Coq Require Import List NArith ZArith Bool Arith.
From PV Require Import Lib.ListX Model.Pratt Model.SqlGrammar Model.SqlTree Model.PrqlExpr Model.StaticEval
                       Model.SqlPrint Gen.GenSqlStrength Gen.GenStdSql.
Import ListNotations.

Notation estrength := (Pratt.dstrength sop suop satom sfn eprec euprec EINF).
Notation elreq := (Pratt.lreq sop eprec erassoc).
Notation erreq := (Pratt.rreq sop eprec erassoc).

(* ---- a hole site of a skeleton: what the emitter passes, what the engine requires there ---- *)
Record site := {
  s_idx : nat; s_req : nat; s_left : bool; s_assoc : assoc3;   (* the hole *)
  s_w : nat;                    (* parentheses the skeleton itself puts around the hole *)
  s_ereq : nat;                 (* minimum engine strength for an unparenthesised operand at this position *)
  s_rot : option sop            (* Some o: right operand of the left-associative o -- equal strength rotates *)
}.

Definition edge_sites (w : nat) (c : sdexpr) (ereq : nat) (rot : option sop) (rec : sdexpr -> list site) : list site :=
  match c with
  | DAtom (AHole i req il a) => [{| s_idx := i; s_req := req; s_left := il; s_assoc := a; s_w := w; s_ereq := ereq; s_rot := rot |}]
  | _ => rec c
  end.
Fixpoint sites (d : sdexpr) : list site :=
  match d with
  | DAtom _ => []
  | DBin o wl l wr r =>
      edge_sites wl l (elreq o) None sites ++
      edge_sites wr r (erreq o) (if erassoc o then None else Some o) sites
  | DUn u w x => edge_sites w x (euprec u) None sites
  | DCall _ args => flat_map (fun p => edge_sites (fst p) (snd p) 0 None sites) args
  end.

(* the skeleton's own edges (not ending in a hole) respect the engine grammar *)
Definition skel_edge (rec : sdexpr -> bool) (w : nat) (c : sdexpr) (ereq : nat) : bool :=
  match c with
  | DAtom (AHole _ _ _ _) => true
  | _ => rec c && (negb (Nat.eqb w 0) || (ereq <=? estrength c))
  end.
Fixpoint skel_ok (d : sdexpr) : bool :=
  match d with
  | DAtom _ => true
  | DBin o wl l wr r => skel_edge skel_ok wl l (elreq o) && skel_edge skel_ok wr r (erreq o)
  | DUn u w x => skel_edge skel_ok w x (euprec u)
  | DCall _ args => forallb (fun p => skel_edge skel_ok (fst p) (snd p) 0) args
  end.
Definition top_is_hole (d : sdexpr) : bool := match d with DAtom (AHole _ _ _ _) => true | _ => false end.

(* ---- constructs of a dialect, named ---- *)
Local Open Scope N_scope.
Definition k_atom : str := [97;116;111;109].
Definition k_negatom : str := [97;116;111;109;58;45].   (* "atom:-" *)
Definition k_sstr_minus : str := [115;115;116;114;58;45].   (* "sstr:-" *)
Definition k_case : str := [99;97;115;101].
Definition k_between : str := [98;101;116;119;101;101;110].
Definition k_concat : str := [99;111;110;99;97;116].   (* "concat": std.concat = an f-string (process_concat) *)
Definition k_is_null : str := [105;115;95;110;117;108;108].
Definition k_is_not_null : str := [105;115;95;110;111;116;95;110;117;108;108].
Definition k_op : str := [111;112;58].       (* "op:" + spelling *)
Definition k_tmpl : str := [116;109;112;108;58].  (* "tmpl:" + name *)
Local Close Scope N_scope.

Definition c_atom : construct := {| c_top := 0; c_sk := DAtom (AText []); c_declared := expr_strength_default |}.
(* an atom whose text starts with `-`: a negative numeric literal (static_eval folds -5 into one literal; it
   reaches an operand position when a column defined as -5 is inlined), or an s-string such as s"-a" *)
Definition c_negatom : construct := {| c_top := 0; c_sk := DAtom (AText [45%N; 49%N]); c_declared := negative_atom_strength |}.
(* an s-string whose text starts with `-` (ExprOrSource::Source, strength sstring_strength) *)
Definition c_sstr_minus : construct := {| c_top := 0; c_sk := DAtom (AText [45%N; 120%N]); c_declared := sstring_strength |}.

(* std.concat never reaches translate_binary_operator: process_concat, its own construct (k_concat below) *)
Definition binary_constructs : list (str * construct) :=
  flat_map (fun no => if leqb (fst no) n_concat then [] else
                      match c_binary (snd no), sop_of_sqlbin (snd no) with
                      | Some c, Some so => [(k_op ++ sop_text so, c)]
                      | _, _ => [] end)
           operator_from_name.

Fixpoint dedup (l : list str) : list str :=
  match l with [] => [] | x :: t => if existsb (leqb x) t then dedup t else x :: dedup t end.
(* scope: EVERY template of the dialect that is an expression of the engine grammar -- scalar operators, numeric
   functions, and (since the reconciliation with /repo e8f08a7, which gave the LIKE templates a strength and
   parenthesised their left operand) the string and date functions of modules text and date as well.  Strings and
   dates are outside C02's VALUE domain, not outside its syntax: a LIKE template regroups like any other operator. *)
Definition template_names (dialect : str) : list str :=
  dedup (map t_name (filter (fun t => leqb (t_module t) dialect || leqb (t_module t) []) templates)).
Definition template_constructs (dialect : str) : list (str * construct) :=
  flat_map (fun nm => match find_template dialect (n_std_prefix ++ nm) with
                      | Some t => match c_template t with
                                  | Some c => if existsb (fun p => leqb (fst p) (n_std_prefix ++ nm)) operator_from_name then []
                                              else [(k_tmpl ++ nm, c)]
                                  | None => [] end
                      | None => [] end) (template_names dialect).

Definition constructs (dialect : str) : list (str * construct) :=
  (k_atom, c_atom) :: (k_negatom, c_negatom) :: (k_sstr_minus, c_sstr_minus) :: (k_case, c_case 0 false) :: (k_is_null, c_isnull false) :: (k_is_not_null, c_isnull true) ::
  (match c_between with Some c => [(k_between, c)] | None => [] end) ++
  (* process_concat at arity 3: site 0 = the first part, sites 1 and 2 = a middle and the last part (at any other arity
     every further part has the site of part 1: same required strength, same position right of `||` / inside CONCAT( )) *)
  (k_concat, c_concat (dialect_has_concat dialect) 3) ::
  binary_constructs ++ template_constructs dialect.

(* ---- one (site, child) check ---- *)
Definition child_top (c : construct) : nat := match c_top c with O => estrength (c_sk c) | S _ => EINF end.
Definition child_head (c : construct) : option sop :=
  match c_top c, c_sk c with O, DBin o _ _ _ _ => Some o | _, _ => None end.

(* operator pairs (o, o2) with  x o (y o2 z) = (x o y) o2 z  in SQLite's semantics (laws: Proofs/SqlLaws.v) *)
Definition reassoc_ok : list (sop * sop) :=
  [(SAdd, SAdd); (SAdd, SSub); (SMul, SMul); (SAnd, SAnd); (SOr, SOr); (SConcat, SConcat)].
Definition pair_in (p : sop * sop) (l : list (sop * sop)) : bool :=
  existsb (fun q => sop_eqb (fst p) (fst q) && sop_eqb (snd p) (snd q)) l.

Inductive verdict := VOk | VRot (o o2 : sop) | VBad.
Definition site_verdict (s : site) (c : construct) : verdict :=
  if needs_parens (c_declared c) (s_req s) (s_left s) (s_assoc s) then VOk
  else match s_w s, c_top c with
       | S _, _ | _, S _ => VOk
       | O, O =>
           if s_ereq s <=? child_top c then VOk
           else match s_rot s, child_head c with
                | Some o, Some o2 => if Nat.eqb (eprec o2) (eprec o) then VRot o o2 else VBad
                | _, _ => VBad
                end
       end.
Definition verdict_ok (v : verdict) : bool :=
  match v with VOk => true | VRot o o2 => pair_in (o, o2) reassoc_ok | VBad => false end.
Definition site_ok (s : site) (c : construct) : bool := verdict_ok (site_verdict s c).

(* all (parent, hole number, child) triples of a dialect, with verdicts *)
Fixpoint number {A} (n : nat) (l : list A) : list (nat * A) :=
  match l with [] => [] | x :: t => (n, x) :: number (S n) t end.
Definition triple := (str * nat * str)%type.
Definition all_triples (dialect : str) : list (triple * verdict) :=
  let cs := constructs dialect in
  flat_map (fun p => flat_map (fun ns => map (fun ch => ((fst p, fst ns, fst ch), site_verdict (snd ns) (snd ch))) cs)
                              (number 0 (sites (c_sk (snd p))))) cs.
Definition bad_table (dialect : str) : list triple :=
  map fst (filter (fun tv => negb (verdict_ok (snd tv))) (all_triples dialect)).
(* every level-mate pair a rotation could meet *)
Definition rot_table (dialect : str) : list (sop * sop) :=
  flat_map (fun tv => match snd tv with VRot o o2 => [(o, o2)] | _ => [] end) (all_triples dialect).

(* ---- the same on one concrete expression: which bad triples / unlicensed rotations it contains ---- *)
Definition atom_construct (a : rexpr) : construct :=
  match a with RLit l => if lit_is_negative l then c_negatom else c_atom | _ => c_atom end.

Definition kind_name (dialect : str) (r : rexpr) : str :=
  match r with
  | RCol _ => k_atom
  | RLit l => if lit_is_negative l then k_negatom else k_atom
  | RCase _ => k_case
  | ROp name args =>
      let generic := match lookup_binop name, args with
                     | Some o, [_; _] => match sop_of_sqlbin o with Some so => k_op ++ sop_text so | None => [] end
                     | _, _ => match strip_prefix n_std_prefix name with Some nm => k_tmpl ++ nm | None => [] end
                     end in
      if leqb name n_eq || leqb name n_ne then
        match args with
        | [a; b] => if is_null a || is_null b then (if leqb name n_ne then k_is_not_null else k_is_null) else generic
        | _ => generic
        end
      else if leqb name n_and_in then k_between
      else if leqb name n_concat then k_concat
      else generic
  end.

Fixpoint tree_triples (dialect : str) (fuel : nat) (r : rexpr) : list (triple * verdict) :=
  match fuel with
  | O => []
  | S f =>
      match select dialect r with
      | None => []
      | Some (c, args) =>
          flat_map (fun ns =>
                      match nth_error args (s_idx (snd ns)) with
                      | Some a =>
                          let cc := match a with
                                    | RCol _ | RLit _ => Some (atom_construct a)
                                    | _ => option_map fst (select dialect a)
                                    end in
                          match cc with
                          | Some c' => [((kind_name dialect r, fst ns, kind_name dialect a), site_verdict (snd ns) c')]
                          | None => []
                          end
                      | None => []
                      end) (number 0 (sites (c_sk c))) ++
          flat_map (tree_triples dialect f) args
      end
  end.

Definition rot_bad (d : sdexpr) : list (sop * sop) :=
  filter (fun p => negb (pair_in p reassoc_ok)) (Pratt.rot_pairs sop suop satom sfn eprec erassoc euprec EINF d).

(* shipped to the check: names of structurally bad triples, and unlicensed rotated pairs (as spellings) *)
Definition bad_triples (dialect : str) (e : pexpr) : list triple * list (str * str) :=
  let r := normalize (resolve e) in
  (map fst (filter (fun tv => negb (verdict_ok (snd tv))) (tree_triples dialect (rsize r) r)),
   match sql_tree dialect e with
   | Some p => map (fun q => (sop_text (fst q), sop_text (snd q))) (rot_bad (snd p))
   | None => []
   end).

(* ---- obligations on the emitter's OWN scale (independent of the engine table) ---- *)
Definition code_strength_bin (dflt : nat) (o : sop) : nat :=
  match find (fun b => match sop_of_sqlbin b with Some so => sop_eqb so o | None => false end) sqlbin_all with
  | Some b => sqlbin_strength b
  | None => match o with
            | SLike => expr_strength_like
            | SIs | SIsNot => expr_strength_isnull
            | SBetween => expr_strength_between
            | _ => dflt       (* REGEXP, ~, DIV ... exist only inside templates: the template's own declaration *)
            end
  end.
Definition code_strength_un (u : suop) : nat :=
  match u with SNeg => sqlun_strength SU_Minus | SPos => sqlun_strength SU_Plus | SNot => sqlun_strength SU_Not end.

(* the declared binding_strength of a template is not above the strength the emitter itself gives to the
   template's top-level operator *)
Definition template_honest (t : template) : bool :=
  match c_template t with
  | None => true
  | Some c =>
      match c_top c, c_sk c with
      | O, DBin o _ _ _ _ => c_declared c <=? code_strength_bin (c_declared c) o
      | O, DUn u _ _ => c_declared c <=? code_strength_un u
      | _, _ => true
      end
  end.

(* every hole asks for at least what its position inside the template's text needs: left operand of o -> o's
   strength, right operand -> one more (templates do not use associativity), operand of a prefix operator -> its strength *)
Fixpoint holes_sufficient (dflt : nat) (d : sdexpr) : bool :=
  let edge (w : nat) (c : sdexpr) (need : nat) :=
    match c with
    | DAtom (AHole _ req _ _) => negb (Nat.eqb w 0) || (need <=? req)
    | _ => holes_sufficient dflt c
    end in
  match d with
  | DAtom _ => true
  | DBin o wl l wr r => edge wl l (code_strength_bin dflt o) && edge wr r (S (code_strength_bin dflt o))
  | DUn u w x => edge w x (code_strength_un u)
  | DCall _ args => forallb (fun p => edge (fst p) (snd p) 0) args
  end.
Definition template_holes_sufficient (t : template) : bool :=
  match c_template t with Some c => holes_sufficient (c_declared c) (c_sk c) | None => true end.

Definition tname_of (m n : str) : str := m ++ [46%N] ++ n.
Definition tname (t : template) : str := tname_of (t_module t) (t_name t).

(* ---- known classes of bad triples (narrow, decidable; each is a recorded finding) ---- *)
Local Open Scope N_scope.
Definition cmp4 : list str := [k_op ++ [60]; k_op ++ [62]; k_op ++ [60;61]; k_op ++ [62;61]].
Definition eq2 : list str := [k_op ++ [61]; k_op ++ [60;62]].
Definition k_div_i : str := k_tmpl ++ [100;105;118;95;105].
Definition k_math_log : str := k_tmpl ++ [109;97;116;104;46;108;111;103].
Definition k_regex : str := k_tmpl ++ [114;101;103;101;120;95;115;101;97;114;99;104].
Definition k_mod : str := k_tmpl ++ [109;111;100].
Definition k_div_f : str := k_tmpl ++ [100;105;118;95;102].
Definition k_mul : str := k_op ++ [42].
Local Close Scope N_scope.
Definition mem (s : str) (l : list str) : bool := existsb (leqb s) l.
Definition dishonest_templates : list str := [k_div_i; k_math_log].
(* the LIKE templates (C02-N6: strength 100 over `{column:0}`, repaired by /repo e8f08a7; C02-N5: the pattern hole of
   the sqlite variants next to `||` with required strength 0, repaired by /repo bb7bbd5) *)
Local Open Scope N_scope.
Definition k_text_starts_with : str := k_tmpl ++ [116;101;120;116;46;115;116;97;114;116;115;95;119;105;116;104].
Definition k_text_contains : str := k_tmpl ++ [116;101;120;116;46;99;111;110;116;97;105;110;115].
Definition k_text_ends_with : str := k_tmpl ++ [116;101;120;116;46;101;110;100;115;95;119;105;116;104].
Local Close Scope N_scope.
Definition concat_pattern_templates : list str := [k_text_starts_with; k_text_contains; k_text_ends_with].

(* One class is left: C02-N7 (the PARENT is an f-string on a dialect that spells concatenation `||`).
   F2 (between), F4 (comparison chain), F30 (multiply), C02-N2 (equality under comparison), C02-N3 (regexp),
   C02-N6 and C02-N5 (LIKE templates) were repaired in /repo: their triples are not excused, so a regression breaks
   sql_compat.  (The dialect argument is kept: a class may be dialect-specific, as C02-N5 was.) *)
(* C02-N7: process_concat never parenthesises a part; on a dialect without a CONCAT function the parts sit next to `||` *)
Definition known_concat_part (dialect : str) (t : triple) : bool :=
  negb (dialect_has_concat dialect) && leqb (fst (fst t)) k_concat.
(* F5 (div_i / math.log declared strength 100 over a top-level `*` / `/`) was repaired in /repo af135b8: they declare 11 *)
Definition known_triple (dialect : str) (t : triple) : bool := known_concat_part dialect t.

Definition sql_compat (dialect : str) : bool :=
  forallb (fun tv => known_triple dialect (fst tv) || verdict_ok (snd tv)) (all_triples dialect).
Definition skeletons_ok (dialect : str) : bool :=
  forallb (fun p => skel_ok (c_sk (snd p)) && negb (top_is_hole (c_sk (snd p)))) (constructs dialect).


(* std.math.pow: the FIRST RQ argument is the exponent -- it lands in the second place of the SQL power function *)
From PV Require Import Gen.GenPratt Gen.GenExpand.
Definition pow_template_ok (dialect : str) : bool :=
  match find_template dialect (expand_binop B_Pow) with
  | Some t =>
      match t_params t, t_body t with
      | [p0; p1], Some [CText _; CHole _ 1 _; CText _; CHole _ 0 _; CText _] =>
          leqb p0 [101;120;112;111;110;101;110;116]%N && leqb p1 [99;111;108;117;109;110]%N
      | _, _ => false
      end
  | None => false
  end.

(* ---- the text layer: which (prefix-minus construct, child) pairs put two `-` next to each other ---- *)
Definition is_minus_prefix (c : construct) : bool :=
  match c_top c, c_sk c with O, DUn SNeg O (DAtom (AHole _ _ _ _)) => true | _, _ => false end.
Definition starts_with_minus (c : construct) : bool :=
  match c_top c, c_sk c with
  | O, DUn SNeg _ _ => true
  | O, DAtom (AText (45%N :: _)) => true
  | _, _ => false
  end.
Definition adjacency_bad (dialect : str) : list (str * str) :=
  let cs := constructs dialect in
  flat_map (fun p =>
    if is_minus_prefix (snd p) then
      flat_map (fun ch =>
        match sites (c_sk (snd p)) with
        | s :: _ => if negb (needs_parens (c_declared (snd ch)) (s_req s) (s_left s) (s_assoc s)) && starts_with_minus (snd ch)
                    then [(fst p, fst ch)] else []
        | [] => []
        end) cs
    else []) cs.

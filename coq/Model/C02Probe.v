(* What the C02 check asks the models about one expression, computed once with sharing. Definitions only. *)
From Coq Require Import List NArith ZArith Bool.
From PV Require Import Lib.ListX Model.Value Model.Pratt Model.SqlGrammar Model.SqlTree Model.PrqlExpr Model.StaticEval
                       Model.SqlPrint Model.SqlCompat Model.SqlSem Model.EvalDoc.
Import ListNotations.

(* everything the check wants to know about one expression, computed with sharing *)
Definition probe_dialect (dialect : str) (r : rexpr) :=
  let p := option_map (fun n : node => (fst (fst n), snd (fst n))) (translate dialect (rsize r) r) in
  (option_map render_top p,
   match p with Some q => read_tokens (tokens_of q) | None => None end,
   (map fst (filter (fun tv => negb (verdict_ok (snd tv))) (tree_triples dialect (rsize r) r)),
    match p with Some q => map (fun x => (sop_text (fst x), sop_text (snd x))) (rot_bad (snd q)) | None => [] end)).
Definition probe (e : pexpr) (envs : list (list val)) :=
  let r := normalize (resolve e) in
  ([probe_dialect d_sqlite r; probe_dialect d_generic r], corner e, map (fun env => ship (eval_doc env e)) envs).

(* What the C02 check asks the models about one expression, computed once with sharing. Definitions only. *)
From Coq Require Import List NArith ZArith Bool.
From PV Require Import Lib.ListX Model.Value Model.Pratt Model.SqlGrammar Model.SqlTree Model.PrqlExpr Model.StaticEval
                       Model.SqlPrint Model.SqlCompat Model.SqlSem Model.EvalDoc.
Import ListNotations.

Definition probe_dialect (dialect : str) (r : rexpr) :=
  let p := option_map (fun n : node => (fst (fst n), snd (fst n))) (translate dialect (rsize r) r) in
  (option_map render_top p,
   match p with Some q => read_tokens (tokens_of q) | None => None end,
   (map fst (filter (fun tv => negb (verdict_ok (snd tv))) (tree_triples dialect (rsize r) r)),
    match p with Some q => map (fun x => (sop_text (fst x), sop_text (snd x))) (rot_bad (snd q)) | None => [] end)).
(* canonical text of an RQ expression, compared with the `verif:preprocess` hook's view of rq::Expr
   (pass "normalize": `in` = what the resolver + lowerer hand to the SQL back end, `out` = after the Normalizer).
   std.and#in is the model-internal tag of the `and` built by `in`: the implementation's operator is std.and. *)
Local Open Scope N_scope.
Fixpoint join_with (sep : str) (l : list str) : str :=
  match l with [] => [] | [x] => x | x :: t => x ++ sep ++ join_with sep t end.
Definition rq_lit (l : lit) : str :=
  match l with
  | LNull => [110;117;108;108]
  | LInt z => 105 :: show_z z
  | LFloat n k => 102 :: show_float n k
  | LBool _ => lit_text l
  | LStr s => 115 :: quote_sql s
  | LTemporal k s => 116 :: (48 + k) :: quote_sql s
  end.
Fixpoint rq_ser (r : rexpr) : str :=
  match r with
  | RCol i => 99 :: show_z (Z.of_nat i)
  | RLit l => rq_lit l
  | ROp n args => (if leqb n n_and_in then n_and else n) ++ [40] ++ join_with [59] (map rq_ser args) ++ [41]
  | RCase cs => [99;97;115;101;40] ++ join_with [59] (flat_map (fun cv => [rq_ser (fst cv); rq_ser (snd cv)]) cs) ++ [41]
  end.
Local Close Scope N_scope.

Definition probe (e : pexpr) (envs : list (list val)) :=
  let r0 := resolve e in
  let r := normalize r0 in
  ([probe_dialect d_sqlite r; probe_dialect d_generic r], corner e, map (fun env => ship (eval_doc env e)) envs,
   (rq_ser r0, rq_ser r)).

(* a std function call (math.*, text.*: an RQ operator that is not produced by ast_expand) applied to operator
   expressions: the arguments are resolved on their own, the call node itself is not folded by static_eval *)
Definition probe_call_dialect (dialect : str) (r : rexpr) :=
  (option_map (fun n : node => render_top (fst (fst n), snd (fst n))) (translate dialect (rsize r) r),
   map fst (filter (fun tv => negb (verdict_ok (snd tv))) (tree_triples dialect 1 r))).   (* fuel 1: the call node's own sites *)
Definition probe_call (name : str) (args : list pexpr) :=
  let r := ROp name (map (fun e => normalize (resolve e)) args) in
  [probe_call_dialect d_sqlite r; probe_call_dialect d_generic r].

(* an RQ expression given directly (literals no source text denotes, e.g. Literal::Integer(i64::MIN)): folded bottom-up
   as the resolver does, normalised, emitted *)
Definition probe_rq (r : rexpr) :=
  let r' := normalize (seval r) in
  map (fun d => option_map (fun n : node => render_top (fst (fst n), snd (fst n))) (translate d (rsize r') r')) [d_sqlite; d_generic].

(* `derive d = e1 | select {v = e2}`: both expressions are resolved (and folded) on their own; the SQL
   generator then inlines the definition of column d (index 3) where it is referenced.  Only for
   definitions that resolve to a numeric literal or to an operator node (a null / boolean literal behind
   a column reference is NOT seen by the syntactic null test and by CASE's trailing-true rule). *)
Fixpoint rsubst (i : nat) (by_ : rexpr) (r : rexpr) : rexpr :=
  match r with
  | RCol j => if Nat.eqb i j then by_ else r
  | RLit _ => r
  | ROp n args => ROp n (map (rsubst i by_) args)
  | RCase cs => RCase (map (fun cv => (rsubst i by_ (fst cv), rsubst i by_ (snd cv))) cs)
  end.
Definition inlinable (r : rexpr) : bool :=
  match r with RLit (LInt _) | RLit (LFloat _ _) | ROp _ _ => true | _ => false end.
Definition probe_let (e1 e2 : pexpr) (envs : list (list val)) :=
  let r1 := normalize (resolve e1) in
  let r := rsubst 3 r1 (normalize (resolve e2)) in
  (if inlinable r1 then [probe_dialect d_sqlite r; probe_dialect d_generic r] else [],
   corner e1 || corner e2,
   map (fun env => ship (match eval_doc env e1 with Some v => eval_doc (firstn 3 (env ++ [VNull; VNull; VNull]) ++ [v]) e2 | None => None end)) envs,
   ((rq_ser (resolve e1), rq_ser r1), (rq_ser (resolve e2), rq_ser (normalize (resolve e2))))).   (* the two computes of the RQ *)

(* an f-string `f"..{x}.."` (parts: text | column index) in `derive d = e1 | select {v = f"..."}`: lowering.rs folds the
   parts left to right with std.concat (an empty f-string is the empty string literal); column 3 is d, inlined by the SQL
   generator as in probe_let *)
Definition fstr_part (q : str + nat) : rexpr := match q with inl s => RLit (LStr s) | inr i => RCol i end.
Definition fstr_rq (parts : list (str + nat)) : rexpr :=
  match parts with
  | [] => RLit (LStr [])
  | q :: t => fold_left (fun acc x => ROp n_concat [acc; fstr_part x]) t (fstr_part q)
  end.
Definition probe_fstr (e1 : pexpr) (parts : list (str + nat)) :=
  let r1 := normalize (resolve e1) in
  let r := rsubst 3 r1 (fstr_rq parts) in
  (inlinable r1, [probe_call_dialect d_sqlite r; probe_call_dialect d_generic r],
   (rq_ser (resolve e1), rq_ser (fstr_rq parts)), [dialect_has_concat d_sqlite; dialect_has_concat d_generic]).

(* an RQ expression given as a term (nested std function calls under operators and calls), in any dialects: emitted text
   and the structurally bad / unlicensed triples of the whole tree *)
Definition probe_rexpr (dialects : list str) (r : rexpr) :=
  map (fun d => (option_map (fun n : node => render_top (fst (fst n), snd (fst n))) (translate d (rsize r) r),
                 map fst (filter (fun tv => negb (verdict_ok (snd tv))) (tree_triples d (rsize r) r)))) dialects.

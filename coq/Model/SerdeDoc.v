(* Documents, as opposed to values (C15, second layer).
   - `jnodup` : every object of a JSON tree has pairwise distinct keys (what serde_json always writes; the model's
     `de` differs from real serde on duplicate keys -- serde reports `duplicate field`, a HashMap keeps the last --
     so theorems about arbitrary documents carry this hypothesis);
   - `reach` : the names of the definitions reachable from a list of descriptors through an environment, and the
     decidable conditions `closedb` (every reachable DRef resolves) and `all_reachable` (no definition that the roots
     do not reach), used for the obligation "every type reachable from the roots has a descriptor";
   - `base_name` : `generic.InterpolateItem<rq.Expr>` |-> `generic.InterpolateItem` (the translator mangles generic
     instances by appending the arguments).
   Executable definitions only. *)
From Coq Require Import List NArith ZArith Bool.
From PV Require Import Lib.ListX Model.Json Model.Serde.
Import ListNotations.

Fixpoint jnodup (j : json) : bool :=
  match j with
  | JArr l => (fix all (l : list json) : bool := match l with [] => true | x :: l' => jnodup x && all l' end) l
  | JObj l =>
      nodupb (keys l)
      && (fix all (l : list (str * json)) : bool := match l with [] => true | (_, x) :: l' => jnodup x && all l' end) l
  | _ => true
  end.

(* ---- reachability in a descriptor environment ---- *)
Fixpoint desc_refs (d : desc) : list str :=
  match d with
  | DOption d' | DVec d' | DMap d' | DBox d' => desc_refs d'
  | DTuple ds => flat_map desc_refs ds
  | DRef n => [n]
  | _ => []
  end.

Definition fields_refs (fs : list field) : list str := flat_map (fun f => desc_refs (fdesc f)) fs.

Definition shape_refs (sh : shape) : list str :=
  match sh with
  | SUnit => []
  | SNewtype d => desc_refs d
  | STuple ds => flat_map desc_refs ds
  | SStruct fs => fields_refs fs
  end.

Definition def_refs (df : def) : list str :=
  match df with
  | DefStruct fs => fields_refs fs
  | DefEnum vs => flat_map (fun kv => shape_refs (snd kv)) vs
  | DefNewtype d => desc_refs d
  end.

Definition add_new (seen : list str) (ns : list str) : list str :=
  fold_left (fun acc n => if mem n acc then acc else acc ++ [n]) ns seen.

(* breadth-first closure; `fuel` = number of definitions is enough (each round adds a name or is a fixed point) *)
Fixpoint reach_fuel (E : env) (fuel : nat) (seen : list str) : list str :=
  match fuel with
  | O => seen
  | S f =>
      let next := add_new seen (flat_map (fun n => match assoc n E with Some df => def_refs df | None => [] end) seen) in
      if Nat.eqb (length next) (length seen) then seen else reach_fuel E f next
  end.

Definition reach (E : env) (roots : list desc) : list str :=
  reach_fuel E (S (length E)) (add_new [] (flat_map desc_refs roots)).

(* every name the roots reach has a definition *)
Definition closedb (E : env) (roots : list desc) : bool :=
  forallb (fun n => match assoc n E with Some _ => true | None => false end) (reach E roots).

(* every definition is reached by the roots (the environment is exactly the reachable part) *)
Definition all_reachable (E : env) (roots : list desc) : bool :=
  let r := reach E roots in forallb (fun nd => mem (fst nd) r) E.

(* the reachable set is a fixed point: one more round adds nothing *)
Definition reach_stable (E : env) (roots : list desc) : bool :=
  let r := reach E roots in
  Nat.eqb (length (add_new r (flat_map (fun n => match assoc n E with Some df => def_refs df | None => [] end) r))) (length r).

Definition lt_char : N := 60%N.   (* '<' *)

Fixpoint base_name (s : str) : str :=
  match s with
  | [] => []
  | c :: s' => if N.eqb c lt_char then [] else c :: base_name s'
  end.

(* `rust` = the type names an independent textual scan of the Rust sources reaches from the root types;
   `opaque` = the names with a hand-written impl modelled as a codec.  Each must have a descriptor. *)
Definition rust_types_covered (E : env) (opaque rust : list str) : bool :=
  forallb (fun n => mem n opaque || existsb (fun nd => leqb (base_name (fst nd)) n) E) rust.

(* and conversely every descriptor is the descriptor of a type the scan reached *)
Definition descriptors_are_rust_types (E : env) (rust : list str) : bool :=
  forallb (fun nd => mem (base_name (fst nd)) rust) E.

(* C09 -- identifiers: what prqlc emits for a name (translate_ident_part, sql/gen_expr.rs:867) and what a
   database's lexer makes of it.
     emit : bare iff the name matches utils::valid_ident (a star, or one character of the start class
            followed by characters of the rest class) and is not a keyword (keywords::is_keyword: ASCII upper-casing,
            then membership in the common union or in the dialect's own list); otherwise -- and always for
            dialects with IdentQuotingStyle::AlwaysQuoted -- the dialect's quote character around sqlparser's
            Ident Display of the name with its quote characters doubled (Model/Escape.v: emit_ident_quoted).
     read : Model/SqlLex.v tokens; a bare word denotes its case-folded spelling, a quoted identifier its content.
   The character classes, the keyword lists and the per-dialect quote characters are parameters, instantiated
   with Gen/GenKeywords.v and Gen/GenIdentDialect.v.  Executable definitions only. *)
From Coq Require Import List NArith Bool.
From PV Require Import Lib.ListX Model.Escape Model.SqlLex.
Import ListNotations.
Local Open Scope N_scope.

Definition in_class (cls : list (N * N)) (c : N) : bool :=
  existsb (fun r => (fst r <=? c) && (c <=? snd r)) cls.

Definition is_nil (s : str) : bool := match s with [] => true | _ => false end.
Definition is_star (s : str) : bool := match s with c :: r => (c =? 42) && is_nil r | [] => false end.

(* Regex ^((\* )|(^[start][rest]* ))$  -- Rust's regex: $ matches only at the very end *)
Definition valid_ident (start rest : list (N * N)) (s : str) : bool :=
  is_star s || match s with c :: r => in_class start c && forallb (in_class rest) r | [] => false end.

Definition upper_ascii_c (c : N) : N := if (97 <=? c) && (c <=? 122) then c - 32 else c.
Definition lower_ascii_c (c : N) : N := if (65 <=? c) && (c <=? 90) then c + 32 else c.
Definition upper_ascii (s : str) : str := map upper_ascii_c s.
Definition lower_ascii (s : str) : str := map lower_ascii_c s.

Definition mem_str (s : str) (l : list str) : bool := existsb (leqb s) l.

Definition is_keyword (common extra : list str) (s : str) : bool :=
  mem_str (upper_ascii s) common || mem_str (upper_ascii s) extra.

Record identd := { iq : N; always_quoted : bool; extra_kw : list str }.

Definition emit_ident (start rest : list (N * N)) (common : list str) (d : identd) (s : str) : str :=
  if always_quoted d then emit_ident_quoted (iq d) s
  else if valid_ident start rest s && negb (is_keyword common (extra_kw d) s) then s
  else emit_ident_quoted (iq d) s.

Definition is_bare (start rest : list (N * N)) (common : list str) (d : identd) (s : str) : bool :=
  negb (always_quoted d) && valid_ident start rest s && negb (is_keyword common (extra_kw d) s).

(* the dialect record for a row of GenIdentDialect.ident_dialects *)
Fixpoint lookup_extra (name : str) (t : list (str * list str)) : list str :=
  match t with [] => [] | (n, l) :: t' => if leqb name n then l else lookup_extra name t' end.
Definition identd_of (extra : list (str * list str)) (row : str * N * bool) : identd :=
  let '(name, q, a) := row in {| iq := q; always_quoted := a; extra_kw := lookup_extra name extra |}.
Fixpoint find_dialect (name : str) (rows : list (str * N * bool)) : option (str * N * bool) :=
  match rows with
  | [] => None
  | row :: rows' => if leqb name (fst (fst row)) then Some row else find_dialect name rows'
  end.

(* multi-part names: parts joined by dots (translate_ident) *)
Fixpoint join_dots (parts : list str) : str :=
  match parts with [] => [] | [p] => p | p :: ps => p ++ 46 :: join_dots ps end.
Definition emit_path start rest common d (parts : list str) : str :=
  join_dots (map (emit_ident start rest common d) parts).

(* ---- reading side *)
Inductive fold_kind := FoldNone | FoldLower | FoldUpper.   (* what the engine does to a bare identifier *)
Definition fold_name (k : fold_kind) (s : str) : str :=
  match k with FoldNone => s | FoldLower => lower_ascii s | FoldUpper => upper_ascii s end.

Definition ident_of_tokens (k : fold_kind) (q : N) (l : list tok) : option str :=
  match l with
  | [TWord w] => Some (fold_name k w)
  | [TQuoted q' s] => if q' =? q then Some s else None
  | _ => None
  end.

(* the object a piece of emitted text names *)
Definition ident_denotes (k : fold_kind) (q : N) (text : str) : option str :=
  ident_of_tokens k q (sql_lex std_sql text).

(* multi-part names (translate_ident: schema.table.column, each part emitted by translate_ident_part, joined by dots):
   the token list must be identifiers separated by single dots; the path it names is the list of the parts *)
Fixpoint path_of_tokens (k : fold_kind) (q : N) (l : list tok) : option (list str) :=
  match l with
  | [] => None
  | t :: r =>
      match ident_of_tokens k q [t] with
      | None => None
      | Some s =>
          match r with
          | [] => Some [s]
          | TPunct c :: r' =>
              if c =? 46 then match path_of_tokens k q r' with Some ss => Some (s :: ss) | None => None end else None
          | _ => None
          end
      end
  end.
Definition path_denotes (k : fold_kind) (q : N) (text : str) : option (list str) :=
  path_of_tokens k q (sql_lex std_sql text).

(* table obligations over the character classes: every member satisfies P *)
Definition nrange (lo hi : N) : list N :=
  if lo <=? hi then map (fun i => lo + N.of_nat i) (seq 0 (S (N.to_nat (hi - lo)))) else [].
Definition class_all (P : N -> bool) (cls : list (N * N)) : bool :=
  forallb (fun r => forallb P (nrange (fst r) (snd r))) cls.

Definition classes_ok (start rest : list (N * N)) : bool :=
  class_all is_alpha start &&                                 (* a letter or _ ; in particular not $ (F32, fixed) *)
  class_all is_wordc rest &&
  class_all (fun c => lower_ascii_c c =? c) start && class_all (fun c => lower_ascii_c c =? c) rest.

Definition quotes_ok (rows : list (str * N * bool)) : bool :=
  forallb (fun row => let q := snd (fst row) in (q =? 34) || (q =? 96)) rows.

(* every keyword of an engine is in the set prqlc consults *)
Definition keywords_cover (engine common : list str) : bool := forallb (fun k => mem_str k common) engine.

(* plain-data view for the correspondence harness *)
Definition emit_ident_row start rest common extra (rows : list (str * N * bool)) (dialect s : str) : option str :=
  match find_dialect dialect rows with
  | Some row => Some (emit_ident start rest common (identd_of extra row) s)
  | None => None
  end.
(* a qualified wildcard `t.*` (gen_projection.rs: translate_ident builds [.. qualifier parts, "*"], the star is popped and
   sqlparser prints SelectItem::QualifiedWildcard as the qualifier path followed by .* ) *)
Definition emit_qualified_star start rest common d (parts : list str) : str :=
  emit_path start rest common d parts ++ [46; 42].
(* reading side: the tokens must end in . * ; what stands in front is the path of the qualifier *)
Definition split_qualified_star (l : list tok) : option (list tok) :=
  match rev l with
  | TPunct c2 :: TPunct c1 :: r => if (c2 =? 42) && (c1 =? 46) then Some (rev r) else None
  | _ => None
  end.
Definition qualified_star_denotes (k : fold_kind) (q : N) (text : str) : option (list str) :=
  match split_qualified_star (sql_lex std_sql text) with Some toks => path_of_tokens k q toks | None => None end.

Definition emit_path_row start rest common extra (rows : list (str * N * bool)) (dialect : str) (parts : list str) : option str :=
  match find_dialect dialect rows with
  | Some row => Some (emit_path start rest common (identd_of extra row) parts)
  | None => None
  end.
Definition emit_qualified_star_row start rest common extra (rows : list (str * N * bool)) (dialect : str) (parts : list str) : option str :=
  match find_dialect dialect rows with
  | Some row => Some (emit_qualified_star start rest common (identd_of extra row) parts)
  | None => None
  end.

(* The engine side: how SQLite READS an emitted expression (the generic parser with the table of
   Model/SqlGrammar.v) and what the reading evaluates to (SQLite's scalar semantics over
   Model/Value.v: integer `/` truncates, `%` has the sign of the dividend, ROUND is half away from
   zero and returns a real, SIGN returns an integer, three-valued logic).  TRUSTED, validated on
   every run by executing each emitted expression on SQLite.  Definitions only. *)
From Coq Require Import List NArith ZArith QArith Qround Qabs Bool.
From PV Require Import Lib.ListX Model.Value Model.Pratt Model.SqlGrammar Model.SqlTree Model.PrqlExpr
                       Model.StaticEval Model.SqlPrint Gen.GenSqlStrength.
Import ListNotations.

(* ---- reading ---- *)
Definition eparse := Pratt.parse sop suop satom sfn eprec erassoc euprec.
Definition tokens_of (p : nat * sdexpr) : list stok := wrap (fst p) (dprint sop suop satom sfn (snd p)).
Definition read_tokens (ts : list stok) : option sexpr :=
  match eparse (2 * length ts + 2) 0 ts with
  | Some (e, []) => Some e
  | _ => None
  end.
Definition engine_reading (dialect : str) (e : pexpr) : option sexpr :=
  match sql_tree dialect e with
  | Some p => read_tokens (tokens_of p)
  | None => None
  end.
(* what the emitter MEANT: the tree it built, parentheses forgotten *)
Definition intended_reading (dialect : str) (e : pexpr) : option sexpr :=
  option_map (fun p => erase (snd p)) (sql_tree dialect e).

(* ---- scalar semantics ---- *)
Inductive sv := SV (v : val) | SPair (lo hi : val) | SBad.   (* SPair: the `lo AND hi` of BETWEEN; SBad: not modelled *)

Local Open Scope Z_scope.
Definition round_half_away (q : Q) : Z :=
  if Qle_bool 0 q then Qfloor (q + (1 # 2)) else - Qfloor (- q + (1 # 2)).

Definition sql_div (x y : val) : val :=
  match x, y with
  | VInt _, VInt _ => arith DivI x y
  | _, _ => arith DivF x y
  end.
Definition sql_mod (x y : val) : option val :=
  match x, y with
  | VNull, _ | _, VNull => Some VNull
  | VInt _, VInt _ => Some (arith Mod x y)
  | _, _ => None
  end.
Definition sql_is (x y : val) : val := b2v (val_eqb x y).

Definition lift2 (f : val -> val -> val) (x y : sv) : sv :=
  match x, y with SV a, SV b => SV (f a b) | _, _ => SBad end.

(* `||` on text and NULL (SQLite: NULL if an operand is NULL).  An operand that is a NUMBER is outside the model (SQLite
   renders it as text first: %!.15g for reals), on whichever side it stands *)
Definition sql_concat (a b : val) : option val :=
  match a, b with
  | VStr s, VStr t => Some (VStr (s ++ t))
  | VNull, VNull | VNull, VStr _ | VStr _, VNull => Some VNull
  | _, _ => None
  end.
Definition sql_ev (o : sop) (x y : sv) : sv :=
  match o with
  | SOr => lift2 (eval_bop Or) x y | SAnd => lift2 (eval_bop And) x y
  | SEq => lift2 (eval_bop Eq) x y | SNe => lift2 (eval_bop Ne) x y
  | SLt => lift2 (eval_bop Lt) x y | SLe => lift2 (eval_bop Le) x y
  | SGt => lift2 (eval_bop Gt) x y | SGe => lift2 (eval_bop Ge) x y
  | SIs => lift2 sql_is x y
  | SIsNot => lift2 (fun a b => eval_not (sql_is a b)) x y
  | SAdd => lift2 (arith Add) x y | SSub => lift2 (arith Sub) x y | SMul => lift2 (arith Mul) x y
  | SDiv => lift2 sql_div x y
  | SMod => match x, y with SV a, SV b => match sql_mod a b with Some v => SV v | None => SBad end | _, _ => SBad end
  | SBand => match x, y with SV a, SV b => SPair a b | _, _ => SBad end
  | SBetween => match x, y with
                | SV a, SPair lo hi => SV (eval_bop And (eval_bop Ge a lo) (eval_bop Le a hi))
                | _, _ => SBad end
  | SConcat => match x, y with SV a, SV b => match sql_concat a b with Some v => SV v | None => SBad end | _, _ => SBad end
  | SLike | SRegexp | STilde | SDivKw => SBad
  end.

Definition sql_evu (u : suop) (x : sv) : sv :=
  match x with
  | SV a => SV (match u with SNot => eval_not a | SNeg => eval_neg a | SPos => a end)
  | _ => SBad
  end.

(* atoms: NULL, true, false, a column letter, a decimal number *)
Local Open Scope N_scope.
Definition is_digit (c : N) : bool := (48 <=? c) && (c <=? 57).
Fixpoint digits_val (s : str) (acc : Z) : option Z :=
  match s with
  | [] => Some acc
  | c :: t => if is_digit c then digits_val t (acc * 10 + Z.of_N (c - 48))%Z else None
  end.
Fixpoint split_at (c : N) (s : str) : str * option str :=
  match s with
  | [] => ([], None)
  | x :: t => if x =? c then ([], Some t) else let (a, b) := split_at c t in (x :: a, b)
  end.
Definition number_val (s : str) : option val :=
  let (neg, body) := match s with 45 :: t => (true, t) | _ => (false, s) end in
  let sg (z : Z) := if neg then (- z)%Z else z in
  match split_at 46 body with
  | ([], _) => None
  | (ip, None) => option_map (fun z => VInt (sg z)) (digits_val ip 0%Z)
  | (ip, Some []) => None
  | (ip, Some fp) =>
      match digits_val ip 0%Z, digits_val fp 0%Z with
      | Some i, Some f =>
          let den := Z.pow 10 (Z.of_nat (length fp)) in
          Some (VRat (Qred (Qmake (sg (i * den + f)%Z) (Z.to_pos den))))
      | _, _ => None
      end
  end.
Definition s_true : str := [116;114;117;101].
Definition s_false : str := [102;97;108;115;101].
Definition sql_eva (env : list val) (a : satom) : sv :=
  match a with
  | AHole _ _ _ _ => SBad
  | AText s =>
      if leqb s s_null then SV VNull
      else if leqb s s_true then SV (VInt 1)
      else if leqb s s_false then SV (VInt 0)
      else match s with
           | [c] => if (97 <=? c) && (c <=? 122) then SV (nth (N.to_nat (c - 97)) env VNull)
                    else match number_val s with Some v => SV v | None => SBad end
           | _ => match number_val s with Some v => SV v | None => SBad end
           end
  end.

Definition f_round : str := [82;79;85;78;68].
Definition f_abs : str := [65;66;83].
Definition f_sign : str := [83;73;71;78].
Definition f_floor : str := [70;76;79;79;82].
Definition f_coalesce : str := [67;79;65;76;69;83;67;69].
Definition f_pow : str := [80;79;87].
Local Close Scope N_scope.

Definition fn_round (v : val) : option val :=
  match v with
  | VNull => Some VNull
  | VInt z => Some (VRat (inject_Z z))
  | VRat q => Some (VRat (inject_Z (round_half_away q)))
  | VStr _ => None
  end.
Definition fn_abs (v : val) : option val :=
  match v with
  | VNull => Some VNull | VInt z => Some (VInt (Z.abs z)) | VRat q => Some (VRat (Qred (Qabs q))) | VStr _ => None
  end.
Definition fn_sign (v : val) : option val :=
  match v with
  | VNull => Some VNull | VInt z => Some (VInt (Z.sgn z)) | VRat q => Some (VInt (Z.sgn (Qnum q))) | VStr _ => None
  end.
Definition fn_floor (v : val) : option val :=
  match v with
  | VNull => Some VNull | VInt z => Some (VInt z) | VRat q => Some (VRat (inject_Z (Qfloor q))) | VStr _ => None
  end.
(* POW returns a real; only non-negative integer exponents are modelled *)
Definition fn_pow (x y : val) : option val :=
  match x, y with
  | VNull, _ | _, VNull => Some VNull
  | _, VInt n => if (n <? 0)%Z then None else
                 match to_q x with Some q => Some (VRat (Qred (Qpower q n))) | None => None end
  | _, VRat e => let r := Qred e in
                 if Pos.eqb (Qden r) 1 && negb (Qnum r <? 0)%Z then
                   match to_q x with Some q => Some (VRat (Qred (Qpower q (Qnum r)))) | None => None end
                 else None
  | _, _ => None
  end.

Fixpoint case_eval (args : list sv) : sv :=
  match args with
  | [] => SV VNull
  | [SV e] => SV e
  | SV c :: SV v :: t =>
      match case_eval t with
      | SV rest => SV (if Value.is_true c then v else rest)
      | _ => SBad
      end
  | _ => SBad
  end.

Definition opt_sv (o : option val) : sv := match o with Some v => SV v | None => SBad end.
Definition sql_evf (f : sfn) (args : list sv) : sv :=
  match f with
  | FCase => case_eval args
  | FName s =>
      match args with
      | [SV x] =>
          if leqb s f_round then opt_sv (fn_round x) else if leqb s f_abs then opt_sv (fn_abs x)
          else if leqb s f_sign then opt_sv (fn_sign x) else if leqb s f_floor then opt_sv (fn_floor x) else SBad
      | [SV x; SV y] =>
          if leqb s f_coalesce then SV (eval_bop Coalesce x y)
          else if leqb s f_pow then opt_sv (fn_pow x y) else SBad
      | _ => SBad
      end
  end.

Definition eval_sv (env : list val) (e : sexpr) : sv :=
  Pratt.eval sop suop satom sfn sv sql_ev sql_evu (sql_eva env) sql_evf e.
Definition eval_sql (env : list val) (e : sexpr) : option val :=
  match eval_sv env e with SV v => Some v | _ => None end.

(* value of the SQL the emitter builds for a PRQL expression (its own tree), and of what the engine reads *)
Definition sql_value (dialect : str) (e : pexpr) (env : list val) : option val :=
  match intended_reading dialect e with Some t => eval_sql env t | None => None end.
Definition sql_value_read (dialect : str) (e : pexpr) (env : list val) : option val :=
  match engine_reading dialect e with Some t => eval_sql env t | None => None end.

(* C04 -- the complexity half of sql/pq/anchor.rs split_off_back: which column complexity each transform of the SELECT
   being assembled allows its inputs to have (get_requirements, Requirements::allow_up_to), and whether a Compute can be
   materialized under what has been required of it so far (can_materialize).  Enough to decide -- and to replay on
   the events of the hook `verif:split_off_back` -- whether a WINDOWED column definition may stay in the SELECT whose
   later transforms use it.  The rest of the walk (selected flags, inputs_avail, the output columns, the anchoring of
   the remainder) belongs to the owner of C01/C03 and is not modelled here.
   The tables (which arm allows what, the order of complexities, is_split_required) are parameters: Gen/GenWindow.v and
   Gen/GenSplit.v carry what the source says now.  Executable definitions only. *)
From Coq Require Import List NArith Bool.
From PV Require Import Lib.ListX Model.WindowFns Model.SplitBase.
Import ListNotations.

Record req_tables := mk_req_tables {
  rt_order : list cx;                    (* derive(PartialOrd) on Complexity: declaration order *)
  rt_highest : cx;                       (* Complexity::highest() *)
  rt_default : cx;                       (* from_cids / from_expr: Complexity::lowest() *)
  rt_compute_allows : cx -> cx;          (* Compute arm: by infer_complexity of the compute *)
  rt_filter_allows : bool -> cx;         (* Filter arm: by following.contains("Aggregate") *)
  rt_sort_allows : cx;                   (* Super(Sort) arm *)
  rt_take_sort_allows : cx;              (* Super(Take) arm: the keys of its embedded sort *)
  rt_distinct_on_allows : cx;            (* DistinctOn arm *)
  rt_split : kind -> list nm -> bool;    (* is_split_required *)
  rt_records : kind -> bool }.           (* ... and whether it records the transform in `following` *)

(* get_requirements / Complexity at /repo HEAD, over whatever is_split_required is (Gen/GenSplit.v) *)
Definition model_req_tables (split : kind -> list nm -> bool) (records : kind -> bool) : req_tables :=
  mk_req_tables [CPlain; CNonGroup; CWindowed; CAggregation] CAggregation CPlain
    (fun c => if cx_eqb c CPlain then CAggregation else CPlain)
    (fun aggregate_follows => if aggregate_follows then CPlain else CAggregation)
    CAggregation CAggregation CAggregation split records.
(* equality of the finite part of two tables *)
Definition req_tables_eqb (a b : req_tables) : bool :=
  forallb (fun p : cx * cx => cx_eqb (fst p) (snd p)) (combine (rt_order a) (rt_order b)) && Nat.eqb (length (rt_order a)) (length (rt_order b))
  && cx_eqb (rt_highest a) (rt_highest b) && cx_eqb (rt_default a) (rt_default b)
  && forallb (fun c => cx_eqb (rt_compute_allows a c) (rt_compute_allows b c)) all_cx
  && forallb (fun x => cx_eqb (rt_filter_allows a x) (rt_filter_allows b x)) [true; false]
  && cx_eqb (rt_sort_allows a) (rt_sort_allows b) && cx_eqb (rt_take_sort_allows a) (rt_take_sort_allows b)
  && cx_eqb (rt_distinct_on_allows a) (rt_distinct_on_allows b).

(* one transform, as the walk reads it *)
Record titem := mk_titem {
  t_kind : kind;              (* SplitBase.kind (KSort covers both Super(Sort) and SqlTransform::Sort: t_super tells) *)
  t_super : bool;
  t_cx : cx;                  (* Compute: infer_complexity *)
  t_id : N;                   (* Compute: its column id *)
  t_uses : list N;            (* CidCollector over its expression / its keys (from_expr, from_cids) *)
  t_wuses : list N;           (* Compute: window partition + sort columns; Take: the columns of its embedded sort *)
  t_agg : list (N * cx) }.    (* Aggregate: the column definitions it evaluates (id, infer_complexity) *)

Definition cx_leb (tb : req_tables) (a b : cx) : bool := cx_le (rt_order tb) a b.
Definition cmin (tb : req_tables) (a b : cx) : cx := if cx_leb tb a b then a else b.

Definition reqs := list (N * cx).
(* can_materialize: the fold of Complexity::min over the requirements of that column, from Complexity::highest() *)
Definition allowed (tb : req_tables) (req : reqs) (id : N) : cx :=
  fold_left (fun c r => if N.eqb (fst r) id then cmin tb c (snd r) else c) req (rt_highest tb).
Definition is_required (req : reqs) (id : N) : bool := existsb (fun r => N.eqb (fst r) id) req.
Definition with_cx (c : cx) (ids : list N) : reqs := map (fun i => (i, c)) ids.

(* get_requirements (complexity component): `fol` already contains the transform's own name *)
Definition requirements (tb : req_tables) (t : titem) (fol : list nm) (req : reqs) : reqs :=
  let agg := mem NAggregate fol in
  match t_kind t with
  | KAggregate => with_cx (rt_default tb) (t_uses t)
  | KCompute | KComputeAgg =>
      if is_required req (t_id t)
      then with_cx (rt_compute_allows tb (t_cx t)) (t_uses t) ++ with_cx (rt_default tb) (t_wuses t)
      else []
  | KFilter => with_cx (rt_filter_allows tb agg) (t_uses t)
  | KSort => if agg then [] else with_cx (if t_super t then rt_sort_allows tb else rt_default tb) (t_uses t)
  | KDistinctOn => with_cx (rt_distinct_on_allows tb) (t_uses t)
  | KTake | KTakeSorted => with_cx (rt_default tb) (t_uses t) ++ with_cx (rt_take_sort_allows tb) (t_wuses t)
  | KJoin => with_cx (rt_default tb) (t_uses t)
  | _ => []
  end.

Record wstate := mk_wstate { ws_fol : list nm; ws_req : reqs }.
Definition is_compute_kind (k : kind) : bool := match k with KCompute | KComputeAgg => true | _ => false end.

(* one turn of the loop for a transform that does not end the SELECT; None = the SELECT ends in front of it
   (is_split_required, or a Compute that cannot be materialized) *)
Definition wstep (tb : req_tables) (st : wstate) (t : titem) : option wstate :=
  if rt_split tb (t_kind t) (ws_fol st) then None
  else
    let fol := if rt_records tb (t_kind t) then as_name (t_kind t) :: ws_fol st else ws_fol st in
    let r := requirements tb t fol (ws_req st) in
    let req1 := ws_req st ++ r in
    if is_compute_kind (t_kind t) then
      let a := allowed tb req1 (t_id t) in
      if cx_leb tb (t_cx t) a
      then Some (mk_wstate fol (req1 ++ with_cx a (map fst r)))     (* required.allow_up_to(max_complexity) *)
      else None
    else if forallb (fun ic : N * cx => cx_leb tb (snd ic) (allowed tb req1 (fst ic))) (t_agg t)   (* Aggregate arm; [] otherwise *)
    then Some (mk_wstate fol req1)
    else None.

(* the transforms are given back to front (the walk pops them off the end of the pipeline) *)
Fixpoint walk (tb : req_tables) (st : wstate) (ts_rev : list titem) : option wstate :=
  match ts_rev with
  | [] => Some st
  | t :: rest => match wstep tb st t with Some st' => walk tb st' rest | None => None end
  end.

Definition wstate0 (tb : req_tables) (output : list N) : wstate := mk_wstate [] (with_cx (rt_highest tb) output).

(* for the correspondence: how many transforms (from the back) stay in the SELECT *)
Fixpoint kept (tb : req_tables) (st : wstate) (ts_rev : list titem) : nat :=
  match ts_rev with
  | [] => O
  | t :: rest => match wstep tb st t with Some st' => S (kept tb st' rest) | None => O end
  end.

(* plain data in *)
Definition kind_of_code (n : N) : kind :=
  if N.eqb n 0 then KFrom else if N.eqb n 1 then KJoin else if N.eqb n 2 then KFilter else if N.eqb n 3 then KAggregate
  else if N.eqb n 4 then KCompute else if N.eqb n 5 then KComputeAgg else if N.eqb n 6 then KSort else if N.eqb n 7 then KTake
  else if N.eqb n 8 then KTakeSorted else if N.eqb n 9 then KSelect else if N.eqb n 10 then KLoop else if N.eqb n 11 then KDistinct
  else if N.eqb n 12 then KDistinctOn else if N.eqb n 13 then KUnion else if N.eqb n 14 then KExcept else KIntersect.
Definition cx_of_code (n : N) : cx :=
  if N.eqb n 0 then CPlain else if N.eqb n 1 then CNonGroup else if N.eqb n 2 then CWindowed else CAggregation.
Definition titem_of (d : N * bool * N * N * list N * list N * list (N * N)) : titem :=
  match d with (k, s, c, i, u, w, g) => mk_titem (kind_of_code k) s (cx_of_code c) i u w (map (fun x : N * N => (fst x, cx_of_code (snd x))) g) end.

(* C01 -- clause assembly of translate_select_pipeline (prqlc/src/sql/gen_query.rs): which transforms of one atomic
   pipeline become which clause of the SELECT.  Mirror of the plucking code, in its order:

     from / joins / select are plucked first (they carry no clause of their own here);
     order_by  = pipeline.pluck(into_sort)          -- every Sort, in order;  the ORDER BY is `order_by.last()`
     takes     = pipeline.pluck(into_take)          -- every Take, in order;  composed by range_of_ranges
     is_distinct = pipeline.iter().any(Distinct)
     distinct_ons = pipeline.pluck(into_distinct_on)
     (before_agg, after_agg) = pipeline.break_up(|t| Aggregate | Union)     -- at the FIRST such transform, which goes to `after`
     where_  = filter_of_conditions(before_agg.pluck(into_filter))          -- conjunction, in order
     having  = filter_of_conditions(after_agg.pluck(into_filter))
     aggregate = after_agg.pluck(into_aggregate).next()                      -- the first Aggregate; GROUP BY its partition

   The payloads (conditions, sort keys, aggregates, ranges, DISTINCT ON keys) are parameters: the correspondence run
   instantiates them with positions in the logged pipeline, the soundness theorem (Proofs/PluckSound.v) with functions on rows.
   The LIMIT / OFFSET / FETCH tail computed from `q_takes` is C07's Model/SelectClauses.v (imported by the check, not redone).
   Executable definitions only. *)
From Coq Require Import List Bool.
From PV Require Import Model.SplitBase.
Import ListNotations.

Section Pluck.
  Variables F S G R D : Type.      (* filter condition, sort keys, aggregate, take range, DISTINCT ON keys *)

  Inductive pt :=
  | QFrom | QJoin | QSelect
  | QFilter (f : F) | QSort (s : S) | QAggregate (g : G) | QTake (r : R)
  | QDistinct | QDistinctOn (d : D)
  | QUnion                          (* named by the break_up predicate; never reaches translate_select_pipeline *)
  | QOther.                         (* Except / Intersect / Loop / anything else: no arm looks at it *)

  Record clauses := mkClauses {
    q_where : list F; q_group : option G; q_having : list F;
    q_order : option S; q_takes : list R; q_distinct : bool; q_distinct_on : list D }.

  Definition breaks (t : pt) : bool := match t with QAggregate _ | QUnion => true | _ => false end.
  (* Vec::break_up: position of the first match; it and everything behind it form the second part *)
  Fixpoint break_up (p : list pt) : list pt * list pt :=
    match p with
    | [] => ([], [])
    | t :: r => if breaks t then ([], p) else let '(a, b) := break_up r in (t :: a, b)
    end.

  Definition filters (p : list pt) : list F := flat_map (fun t => match t with QFilter f => [f] | _ => [] end) p.
  Definition sorts (p : list pt) : list S := flat_map (fun t => match t with QSort s => [s] | _ => [] end) p.
  Definition takes (p : list pt) : list R := flat_map (fun t => match t with QTake r => [r] | _ => [] end) p.
  Definition aggregates (p : list pt) : list G := flat_map (fun t => match t with QAggregate g => [g] | _ => [] end) p.
  Definition distinct_ons (p : list pt) : list D := flat_map (fun t => match t with QDistinctOn d => [d] | _ => [] end) p.
  Definition last_opt {A} (l : list A) : option A := match rev l with x :: _ => Some x | [] => None end.

  Definition pluck (p : list pt) : clauses :=
    let '(before, after) := break_up p in
    mkClauses (filters before) (hd_error (aggregates after)) (filters after)
              (last_opt (sorts p)) (takes p)
              (existsb (fun t => match t with QDistinct => true | _ => false end) p) (distinct_ons p).

  (* ---- sort inference re-emits the sorting in front of every Take and at the end of the main query, so real pipelines look
     like [.. Sort k; Take; Sort k; Take; Sort k].  A Sort equal to the one in effect, with only order-retaining transforms
     (takes, filters, DISTINCT; From / Join / Select carry no rows of their own here) in between, does nothing:
     `drop_resorts` removes it.  `same` decides equality of sort keys. *)
  Variable same : S -> S -> bool.
  Fixpoint drop_resorts (cur : option S) (p : list pt) : list pt :=
    match p with
    | [] => []
    | QSort s :: r =>
        match cur with
        | Some c => if same c s then drop_resorts cur r else QSort s :: drop_resorts (Some s) r
        | None => QSort s :: drop_resorts (Some s) r
        end
    | QAggregate g :: r => QAggregate g :: drop_resorts None r
    | QDistinctOn d :: r => QDistinctOn d :: drop_resorts None r
    | QUnion :: r => QUnion :: drop_resorts None r
    | QOther :: r => QOther :: drop_resorts None r
    | t :: r => t :: drop_resorts cur r
    end.

  (* ---- side conditions of the soundness theorem (Proofs/PluckSound.v), judged on every logged pipeline ---- *)
  (* From / Join / Select contribute no clause here; DISTINCT ON, set operations and loops are outside Theta-2 *)
  Definition supported (p : list pt) : bool :=
    forallb (fun t => match t with QDistinctOn _ | QUnion | QOther => false | _ => true end) p.
  (* the kinds Theta-2 sees (Proofs/PluckSound.v: map kind_d (to_trd p) = kinds_theta p) *)
  Definition kinds_theta (p : list pt) : list kind :=
    flat_map (fun t => match t with QFilter _ => [KFilter] | QSort _ => [KSort] | QAggregate _ => [KAggregate] | QTake _ => [KTake]
                               | QDistinct => [KDistinct] | _ => [] end) p.
  (* all hypotheses of c01_pluck_sound_resorted that can be judged on a logged pipeline *)
  Definition theorem_applies (p : list pt) : bool * bool * bool * bool :=
    let q := drop_resorts None p in
    (clause_ordered (kinds_theta q), supported q, Nat.leb (length (aggregates q)) 1,
     let '(b, a) := break_up q in match a with [] => true | _ => match sorts b with [] => true | _ => false end end).
  Definition one_agg (p : list pt) : bool := Nat.leb (length (aggregates p)) 1.
  (* no Sort in front of the Aggregate (sort inference never leaves one there: it records sorts and clears them at an Aggregate) *)
  Definition sorts_behind_agg (p : list pt) : bool :=
    let '(b, a) := break_up p in match a with [] => true | _ => match sorts b with [] => true | _ => false end end.
End Pluck.

Arguments QFrom {F S G R D}. Arguments QJoin {F S G R D}. Arguments QSelect {F S G R D}.
Arguments QFilter {F S G R D}. Arguments QSort {F S G R D}. Arguments QAggregate {F S G R D}. Arguments QTake {F S G R D}.
Arguments QDistinct {F S G R D}. Arguments QDistinctOn {F S G R D}. Arguments QUnion {F S G R D}. Arguments QOther {F S G R D}.

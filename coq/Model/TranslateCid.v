(* C07 -- translate_cid / translate_ident (prqlc/src/sql/gen_expr.rs): how a column id becomes a column reference of the
   SELECT being assembled -- table-qualified or bare.

     translate_select_pipeline:  ctx.query.omit_ident_prefix = count_tables(pipeline) == 1     (From + Join transforms)
     translate_cid, pre-projection, ColumnDecl::RelationColumn(riid, _, col):
         column = `*` | name;  table = relation_instances[riid].table_ref.name (may be None)
     translate_cid, post-projection:
         table = RelationColumn => Some(instance name .unwrap()) | Compute => None;  column = `*` | column_names[cid]
     translate_ident(table, Some(column)):  parts = (if !omit_ident_prefix then table) ++ [column]
   (pre-projection Compute columns are inlined as expressions: not a reference, not modelled here.)
   Inputs and output are what the hook `verif:translate_cid` logs (hooks/translate-cid.diff); the frame of the SELECT is
   the From/Join list of the enclosing `verif:select_pipeline_in`.  Names are interned by the harness.
   Executable definitions only; no proofs here. *)
From Coq Require Import List NArith Bool Arith.
From PV Require Import Model.Checked Model.SqlAst Model.SqlScope Model.SqlScopeX.
Import ListNotations.
Local Open Scope N_scope.

Inductive ccol := CStar | CName (n : name).
Inductive cdecl := DRelCol | DCompute.
Definition cidref : Type := (option name * ccol).

(* count_tables(..) == 1 *)
Definition omit_prefix (ntables : nat) : bool := Nat.eqb ntables 1.

Definition translate_ident (omit : bool) (table : option name) (column : ccol) : cidref :=
  (if omit then None else table, column).

Definition translate_cid (pre omit : bool) (d : cdecl) (inst : option name) (column : ccol) : out cidref :=
  if pre then
    match d with
    | DRelCol => Ret (translate_ident omit inst column)
    | DCompute => Fail                       (* an expression, not a reference *)
    end
  else
    match d with
    | DRelCol => match inst with
                 | Some t => Ret (translate_ident omit (Some t) column)
                 | None => Panic              (* .unwrap() on a relation instance without a name *)
                 end
    | DCompute => Ret (translate_ident omit None column)
    end.

(* ---- the reference in the scope of the SELECT being assembled (frames of Model/SqlScope.v) ---- *)
Definition ref_resolves (sc : scope) (r : cidref) : bool :=
  match r with
  | (None, CName c) => res_bare sc c
  | (Some q, CName c) => res_qual sc q c
  | (None, CStar) => true
  | (Some q, CStar) => has_alias sc q
  end.
Definition ref_unique (sc : scope) (r : cidref) : bool :=
  match r with
  | (None, CName c) => Nat.leb (bare_count sc c) 1
  | (Some q, CName c) => Nat.leb (qual_count sc q c) 1
  | (_, CStar) => true
  end.

(* what the harness reads: (tag, qualifier or 0, 0 = star | column) ; tag 1 Ret, 0 Fail, 2 Panic *)
Definition cid_code (r : out cidref) : N * N * N :=
  match r with
  | Ret (q, c) => (1, match q with Some n => n | None => 0 end, match c with CStar => 0 | CName n => n end)
  | Fail => (0, 0, 0)
  | Panic => (2, 0, 0)
  end.

(* C14 -- the formatter for expressions at unlimited width: codegen/ast.rs `impl WriteSource for pr::Expr / pr::ExprKind`
   (needs_parenthesis, write_within: context strength, binary position, unbound_expr / can_bind_left; write_between
   resets; the parentheses of an aliased expression above context strength alias_ctx; the raised context of an aliased
   callee / named-argument value and of case branches; the parentheses that keep a parameter apart from a following
   `..`), emitting tokens; `render` turns tokens into the text `write_expr` produces.  The strength / associativity
   tables and the context constants are parameters (`ftab`), instantiated from Gen/GenCodegen.v.
   Executable definitions only. *)
From Coq Require Import List NArith ZArith Bool Arith.
From PV Require Import Lib.ListX Model.FmtLit Model.FmtPratt.
Import ListNotations.
Local Open Scope N_scope.

Inductive position := PUnspec | PLeft | PRight.

Record ftab := {
  bs_bin : nat -> N;            (* binding_strength of Binary by operator *)
  as_bin : nat -> position;     (* associativity of Binary by operator (every other kind: Unspecified) *)
  bs_un : N; bs_rng : N; bs_call : N; bs_func : N; bs_other : N;
  cbl : nat -> bool;            (* can_bind_left, by unary operator *)
  sym_bin : nat -> nat;         (* symbol printed for a binary / unary operator (BinOp / UnOp Display) *)
  sym_un : nat -> nat;
  annot_ctx : N;                (* Stmt::write: least context strength of an annotation expression *)
  alias_ctx : N;                (* Expr::write: an aliased expression is parenthesised when context_strength > this *)
  noalias_ctx : N;              (* FuncCall arm, no_alias: least context strength of an aliased callee / named value *)
  case_ctx : N;                 (* SwitchCase::write: least context strength of condition and value *)
  default_ctx : N;              (* Func arm: least context strength of the default value of a parameter *)
  body_ctx : N;                 (* Func arm: least context strength of the body *)
}.

(* WriteOpt restricted to what matters at unlimited width *)
Definition state := (N * position * bool)%type.     (* context_strength, binary_position, unbound_expr *)
Definition st0 : state := (0, PUnspec, false).

Section Formatter.
  Variable F : ftab.

  Definition strength (e : expr) : N :=
    match e with
    | EBin o _ _ => bs_bin F o
    | EUn _ _ => bs_un F
    | ERng _ _ | ERngL _ | ERngR _ | ERng0 => bs_rng F
    | ECall _ _ => bs_call F
    | EFunc _ _ _ => bs_func F
    | _ => bs_other F
    end.
  Definition assoc (e : expr) : position :=
    match e with EBin o _ _ => as_bin F o | _ => PUnspec end.
  Definition can_bind_left (e : expr) : bool :=
    match e with EUn u _ => cbl F u | _ => false end.

  Definition assoc_matches (pos a : position) : bool :=
    match pos, a with PLeft, PLeft | PRight, PRight => true | _, _ => false end.

  Definition needs (st : state) (e : expr) : bool :=
    let '(ctx, pos, unb) := st in
    (unb && can_bind_left e) ||
    (strength e <? ctx) ||
    ((strength e =? ctx) && negb (assoc_matches pos (assoc e))).

  Definition wrap (w : bool) (ts : list tok) : list tok :=
    if w then TOpen GPipe :: ts ++ [TClose GPipe] else ts.

  Definition sep_of (k : gkind) (i : nat) : tok :=
    match k with
    | GPipe => TPipe
    | GTup | GArr => TComma
    | GCase => if Nat.even i then TArrow else TComma
    end.

  (* context strength at which the elements of a bracketed list are written: write_between resets it to 0;
     SwitchCase::write raises it to case_ctx for both sides of `=>` *)
  Definition item_ctx (k : gkind) : N := match k with GCase => case_ctx F | _ => 0 end.

  Definition is_alias_e (e : expr) : bool := match e with EAlias _ _ => true | _ => false end.
  (* no_alias: callee and named-argument values cannot carry a bare alias *)
  Definition no_alias (x : expr) (ctx : N) : N := if is_alias_e x then N.max ctx (noalias_ctx F) else ctx.

  (* `start_text.ends_with(')')` *)
  Definition ends_close (ts : list tok) : bool :=
    match last ts TComma with TClose GPipe => true | _ => false end.
  Definition is_param (e : expr) : bool := match e with EAtom (AParam _) => true | _ => false end.

  Fixpoint fmt (e : expr) (st : state) {struct e} : list tok :=
    let '(ctx, pos, unb) := st in
    match e with
    | EAlias n x =>
        (* Expr::write: an aliased expression as an operand is written in parentheses, at context strength 0 *)
        if alias_ctx F <? ctx then TOpen GPipe :: TAlias n :: fmt x (0, pos, false) ++ [TClose GPipe]
        else TAlias n :: fmt x (ctx, pos, false)
    | ENamed n x => TNamed n :: fmt x (no_alias x ctx, pos, unb)
    | _ =>
      let w := needs st e in
      let ctx' := if w then 0 else ctx in
      let unb' := if w then false else unb in
      (* the start of a range (Range arm): a parameter, or a unary operator applied to one, directly in front of
         `..` would lex as one parameter token (`$a..b`): it gets parentheses unless the text already ends in one *)
      let start : list tok :=
        match e with
        | ERng l _ | ERngL l =>
            let ts := fmt l (N.max ctx' (bs_rng F), PUnspec, unb') in
            if ends_close ts then ts else
            match (match l with EAlias _ k => k | _ => l end) with       (* start.kind *)
            | EAtom (AParam _) => TOpen GPipe :: ts ++ [TClose GPipe]
            | EUn u x =>
                if is_param (match x with EAlias _ k => k | _ => x end)
                then TS (sym_un F u) true :: TOpen GPipe :: fmt x (N.max ctx' (bs_un F), PUnspec, unb') ++ [TClose GPipe]
                else ts
            | _ => ts
            end
        | _ => []
        end in
      wrap w
        match e with
        | EAtom a => [TA a]
        | EBin o l r =>
            let c := N.max ctx' (bs_bin F o) in
            fmt l (c, PLeft, unb') ++ TS (sym_bin F o) false :: fmt r (c, PRight, unb')
        (* ExprKind::write resets binary_position for every node that is not Binary (commit a318687) *)
        | EUn u x => TS (sym_un F u) true :: fmt x (N.max ctx' (bs_un F), PUnspec, unb')
        | ERng _ r => start ++ TRg true true :: fmt r (N.max ctx' (bs_rng F), PUnspec, unb')
        | ERngL _ => start ++ [TRg true false]
        | ERngR r => TRg false true :: fmt r (N.max ctx' (bs_rng F), PUnspec, unb')
        | ERng0 => [TRg false false]
        | ECall f args =>
            let c := N.max ctx' (bs_call F) in
            fmt f (N.max (no_alias f ctx') (bs_call F), PUnspec, unb') ++
            (fix go (l : list expr) : list tok :=
               match l with [] => [] | a :: t => fmt a (c, PUnspec, true) ++ go t end) args
        | EGroup k es =>
            TOpen k ::
            (fix go (l : list expr) (i : nat) : list tok :=
               match l with
               | [] => []
               | [a] => fmt a (item_ctx k, PUnspec, false)
               | a :: t => fmt a (item_ctx k, PUnspec, false) ++ sep_of k i :: go t (S i)
               end) es O ++ [TClose k]
        (* Func arm: `func ` params, `k:default ` at context >= default_ctx, `-> `, the body at context >= body_ctx *)
        | EFunc ps ds b =>
            TFunc :: map (fun p => TA (APar p)) ps ++
            (fix go (l : list expr) : list tok :=
               match l with
               | [] => []
               | d :: t =>
                   match d with
                   | ENamed k x => TNamed k :: fmt x (N.max ctx' (default_ctx F), PUnspec, unb')
                   | _ => []
                   end ++ go t
               end) ds ++
            TThin :: fmt b (N.max ctx' (body_ctx F), PUnspec, unb')
        | EAlias _ _ | ENamed _ _ => []
        end
    end.

  Definition fmt_top (e : expr) : list tok := fmt e st0.

End Formatter.

(* ------------------------------------------------------------------ a parameter glued to a following range *)
(* The lexer's parameter token takes letters, digits, `_` and `.`: a parameter token directly in front of a `..` that
   binds to the left would be read as one parameter (`$a..b`).  `glued ts`: some parameter token of ts is directly
   followed by such a range token. *)
Fixpoint glued (ts : list tok) : bool :=
  match ts with
  | [] => false
  | t :: r =>
      (match t, r with
       | TA (AParam _), TRg true _ :: _ => true
       | _, _ => false
       end) || glued r
  end.

(* ------------------------------------------------------------------ compatibility of the formatter's tables with the parser's *)
(* a Binary child with operator o2 stays without parentheses under context strength ctx at position pos *)
Definition unwrapped_at (F : ftab) (ctx : N) (pos : position) (o2 : nat) : bool :=
  negb ((bs_bin F o2 <? ctx) || ((bs_bin F o2 =? ctx) && negb (assoc_matches pos (as_bin F o2)))).

Definition is_some {A} (x : option A) : bool := match x with Some _ => true | None => false end.

(* "whenever the formatter omits parentheses around a child at (parent, side), the parser regroups to the same tree":
   a finite check over the nb binary and nu unary operators *)
Definition compat (F : ftab) (T : ptab) (nb nu : nat) : bool :=
  let B := seq 0 nb in
  let U := seq 0 nu in
  (* the symbol printed for an operator is the one the parser maps back to it *)
  forallb (fun o => match bin_of_sym T (sym_bin F o) with Some o' => Nat.eqb o' o | None => false end) B &&
  forallb (fun u => match un_of_sym T (sym_un F u) with Some u' => Nat.eqb u' u | None => false end) U &&
  (* a prefix operator whose symbol is also infix must be covered by can_bind_left *)
  forallb (fun u => cbl F u || negb (is_some (bin_of_sym T (sym_un F u)))) U &&
  (* (parent o, side, child o2): omitted parentheses regroup to the same tree *)
  forallb (fun o => forallb (fun o2 => implb (unwrapped_at F (bs_bin F o) PLeft o2) (lbp T o <? rbp T o2)%nat) B) B &&
  forallb (fun o => forallb (fun o2 => implb (unwrapped_at F (bs_bin F o) PRight o2) (rbp T o <=? lbp T o2)%nat) B) B &&
  (* the parser's powers are consistent: same level => same associativity *)
  forallb (fun o2 => forallb (fun o' => implb (lbp T o' <? lbp T o2)%nat (lbp T o' <? rbp T o2)%nat) B) B &&
  forallb (fun o => (rbp T o <=? S (lbp T o))%nat) B &&
  (* function calls are always parenthesised as operands; operands of unary operators and range bounds too *)
  forallb (fun o => bs_call F <=? bs_bin F o) B && (bs_call F <=? bs_un F) && (bs_call F <=? bs_rng F) &&
  forallb (fun o => bs_bin F o <? bs_un F) B && (bs_rng F <=? bs_un F) &&
  forallb (fun o => bs_bin F o <=? bs_rng F) B &&
  (* context strength 0 (inside brackets) never forces parentheses *)
  forallb (fun o => 0 <? bs_bin F o) B && (0 <? bs_un F) && (0 <? bs_rng F) && (0 <? bs_call F) && (0 <? bs_other F) &&
  (* an aliased expression is parenthesised as operand of a binary / unary operator, as range bound, callee and
     named-argument value (the parser reads `x = ...` only at the head of a list element or positional argument) ... *)
  forallb (fun o => alias_ctx F <? bs_bin F o) B && (alias_ctx F <? bs_un F) && (alias_ctx F <? bs_rng F) &&
  (alias_ctx F <? noalias_ctx F) &&
  (* ... and stays bare as a positional argument *)
  (bs_call F <=? alias_ctx F) &&
  (* a lambda is not stronger than a call (so it is parenthesised wherever a call is: at equal strength nothing but a
     matching associativity saves the parentheses); it is parenthesised as a case branch and as the body of a lambda
     (the parser reads a func_call there); the default value of a parameter is read as a plain expression: calls,
     lambdas and aliased expressions are parenthesised *)
  (0 <? bs_func F) && (bs_func F <=? bs_call F) && (bs_func F <=? case_ctx F) && (bs_func F <=? body_ctx F) &&
  (bs_call F <=? default_ctx F) && (alias_ctx F <? default_ctx F) &&
  (* an annotation expression is read by `expr()` too *)
  (bs_call F <=? annot_ctx F) && (alias_ctx F <? annot_ctx F).

(* ------------------------------------------------------------------ text *)
Record ttab := {
  sym_text : nat -> str;      (* spelling of operator symbol s *)
  ids : idtab;
}.

Section Render.
  Variable R : ttab.

  Definition sp : N := 32.

  (* display_interpolation: \ -> \\, " -> \", { -> {{, } -> }} *)
  Definition interp_escape (c : N) : str :=
    if c =? c_bslash then [c_bslash; c_bslash]
    else if c =? c_dquote then [c_bslash; c_dquote]
    else if c =? c_lbrace then [c_lbrace; c_lbrace]
    else if c =? c_rbrace then [c_rbrace; c_rbrace]
    else [c].
  (* the identifier and the format specifier stand inside a string literal too (commit 4d5b01d): \ -> \\, " -> \" *)
  Definition in_string (c : N) : str :=
    if c =? c_bslash then [c_bslash; c_bslash]
    else if c =? c_dquote then [c_bslash; c_dquote]
    else [c].
  Definition ipart_text (p : ipart) : str :=
    match p with
    | IStr s => flat_map interp_escape s
    | IExpr path format =>
        c_lbrace :: flat_map in_string (display_ident (ids R) path) ++
        (match format with Some f => 58 :: flat_map in_string f | None => [] end) ++ [c_rbrace]
    end.

  (* what the lexer hands to the interpolation parser: the content of the token after its escapes are undone, i.e. the
     text of the parts with braces doubled, but before `in_string` (backslash and double quote are escaped on top) *)
  Definition brace_escape (c : N) : str :=
    if c =? c_lbrace then [c_lbrace; c_lbrace] else if c =? c_rbrace then [c_rbrace; c_rbrace] else [c].
  Definition ipart_content (p : ipart) : str :=
    match p with
    | IStr s => flat_map brace_escape s
    | IExpr path format =>
        c_lbrace :: display_ident (ids R) path ++ (match format with Some f => 58 :: f | None => [] end) ++ [c_rbrace]
    end.
  Definition interp_content (parts : list ipart) : str := flat_map ipart_content parts.
  Definition interp_text (sql : bool) (parts : list ipart) : str :=
    (if sql then 115 else 102) :: c_dquote :: flat_map ipart_text parts ++ [c_dquote].

  Definition literal_text (l : literal) : str :=
    match l with
    | LNull => w_null
    | LInt z => show_Z z
    | LFloat f => fmt_float f
    | LBool b => if b then w_true else w_false
    | LStr s => fmt_string s
    | LRaw s => fmt_raw s
    | LDate s | LTime s | LTimestamp s => 64 :: s
    | LUnit n u => show_Z n ++ u
    end.

  Definition atom_text (a : atom) : str :=
    match a with
    | AIdent path => display_ident (ids R) path
    | ALit l => literal_text l
    | AParam s => 36 :: s
    | AInterp sql parts => interp_text sql parts
    | AInternal s => [105;110;116;101;114;110;97;108;32] ++ s
    | APar s => write_ident_part (ids R) s
    | APath path => write_ident (ids R) path
    end.

  Definition tok_text (t : tok) : str :=
    match t with
    | TA a => atom_text a
    | TS s _ => sym_text R s
    | TRg _ _ => [c_dot; c_dot]
    | TOpen GPipe => [40] | TOpen GTup => [c_lbrace] | TOpen GArr => [91]
    | TOpen GCase => [99; 97; 115; 101; 32; 91]
    | TClose GPipe => [41] | TClose GTup => [c_rbrace] | TClose GArr | TClose GCase => [93]
    | TComma => [44]
    | TPipe => [124]
    | TArrow => [61; 62]
    | TAlias n => write_ident_part (ids R) n ++ [sp; 61]
    | TNamed n => write_ident_part (ids R) n ++ [58]
    | TFunc => [102; 117; 110; 99]
    | TThin => [45; 62]
    | TNL ind => 10 :: repeat sp (2 * ind)
    | TKw KLet => [108; 101; 116]
    | TKw KModule => [109; 111; 100; 117; 108; 101]
    | TKw KImport => [105; 109; 112; 111; 114; 116]
    | TKw KInto => [105; 110; 116; 111]
    | TAnn => [64]
    | TKw KType => [116; 121; 112; 101]
    | TStar => [42] | TLt => [60] | TGt => [62]
    end.

  (* is a blank written between two adjacent tokens? *)
  Definition ends_operand (t : tok) : bool :=
    match t with TA _ | TClose _ => true | TRg _ br => negb br | _ => false end.
  Definition begins_operand (t : tok) : bool :=
    match t with TA _ | TOpen _ | TS _ true | TAlias _ | TNamed _ | TFunc | TStar => true | TRg bl _ => negb bl | _ => false end.
  Definition space_between (a b : tok) : bool :=
    match a, b with
    | TNL _, _ | _, TNL _ | TAnn, _ => false
    | TLt, _ | _, TGt => false
    | TKw _, _ => true
    | _, TClose _ => false
    | TOpen _, _ => false
    | _, TComma => false
    | TComma, _ => true
    | TPipe, _ | _, TPipe | TArrow, _ | _, TArrow => true
    | TFunc, _ | TThin, _ | _, TThin => true
    | TS _ false, _ | _, TS _ false => true
    | TAlias _, _ => true
    | TNamed _, _ => false
    | TS _ true, _ => false
    | _, _ => ends_operand a && begins_operand b
    end.

  Fixpoint render (ts : list tok) : str :=
    match ts with
    | [] => []
    | [t] => tok_text t
    | a :: ((b :: _) as r) => tok_text a ++ (if space_between a b then [sp] else []) ++ render r
    end.
End Render.

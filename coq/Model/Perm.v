(* What prqlc does with the elements it gets from iterating a HashMap / HashSet (C11).
   Each definition is the small function `f` of one *pattern*; `l` is the list of entries in iteration
   order (an arbitrary permutation chosen by the hash seed).  The sites of the inventory (Gen/GenState.v)
   are mapped to patterns in Model/PermSites.v; the lemmas `Permutation l l' -> f l = f l'` (or the
   refuting witness pairs) are in Proofs/PermProofs.v.  Executable definitions only. *)
From Coq Require Import List NArith Bool Arith.
Import ListNotations.

Section Patterns.
  Variable A : Type.
  Variable leb : A -> A -> bool.

  (* sort, then use in sorted order: `.sorted()`, `.sort()`, `.sorted_by_key(..)`, `sort_by(..)` *)
  Fixpoint insert (x : A) (l : list A) : list A :=
    match l with
    | [] => [x]
    | y :: l' => if leb x y then x :: y :: l' else y :: insert x l'
    end.
  Fixpoint isort (l : list A) : list A :=
    match l with [] => [] | x :: l' => insert x (isort l') end.

  (* `match decls.len() { 0 => a, 1 => b(decls.into_iter().next()), _ => c(sorted names) }` (resolve_ident) *)
  Definition by_len {B} (r0 : B) (r1 : A -> B) (rn : list A -> B) (l : list A) : B :=
    match l with
    | [] => r0
    | [x] => r1 x
    | _ => rn (isort l)
    end.

  (* `.iter().all(p)` / `.any(p)` / `.contains` *)
  Definition all_of (p : A -> bool) (l : list A) : bool := forallb p l.
  Definition any_of (p : A -> bool) (l : list A) : bool := existsb p l.

  (* `.find(p)` *)
  Definition find_first (p : A -> bool) (l : list A) : option A := find p l.

  (* `.into_iter().next()` on the leftovers: first element in iteration order (F10) *)
  Definition head_of (l : list A) : option A := hd_error l.

  (* `for x in map { out += fmt(x) }` / `.keys().map(fmt).join(", ")`: output in iteration order *)
  Definition concat_in_order {B} (fmt : A -> list B) (l : list A) : list B := flat_map fmt l.

  (* `.map(f).try_collect()`: the first failure in iteration order is the one reported *)
  Fixpoint first_error {E} (f : A -> option E) (l : list A) : option E :=
    match l with
    | [] => None
    | x :: l' => match f x with Some e => Some e | None => first_error f l' end
    end.
End Patterns.

(* `.keys().max()` *)
Definition max_of (l : list nat) : nat := fold_right Nat.max 0 l.

(* entries re-collected into a map and then looked up by key: `.collect::<HashMap<_,_>>()` then `[k]` / `.get(k)`;
   later entries overwrite earlier ones with the same key *)
Fixpoint lookup_last {V} (k : nat) (l : list (nat * V)) : option V :=
  match l with
  | [] => None
  | (k', v) :: l' => match lookup_last k l' with Some r => Some r | None => if Nat.eqb k k' then Some v else None end
  end.

(* every entry updated on its own, result is again a map: `values_mut()`, `.into_iter().map(..).collect::<HashMap>()` *)
Definition map_values {V W} (g : V -> W) (l : list (nat * V)) : list (nat * W) := map (fun kv => (fst kv, g (snd kv))) l.

(* find an entry by its value and return that value (compile_relation_instance: the key found is only used
   to read the value that was searched for) *)
Definition find_value (x : nat) (l : list (nat * nat)) : option nat :=
  option_map snd (find (fun kv => Nat.eqb (snd kv) x) l).

(* `.keys().copied().min()` (lib.rs prql_to_tokens: the smallest source id) *)
Fixpoint min_of (l : list nat) : option nat :=
  match l with
  | [] => None
  | x :: l' => match min_of l' with None => Some x | Some m => Some (Nat.min x m) end
  end.

(* `.sorted_by(|a, b| (a.order, a.name).cmp(&(b.order, b.name)))` (resolver/expr.rs construct_tuple_from_module since
   987d30b): entries are (order, name, payload), compared lexicographically by order and then by name; the names are
   the keys of the HashMap, hence pairwise distinct (a name stands for its rank in the string order) *)
Definition order_name_leb {V} (a b : nat * nat * V) : bool :=
  Nat.ltb (fst (fst a)) (fst (fst b))
  || (Nat.eqb (fst (fst a)) (fst (fst b)) && Nat.leb (snd (fst a)) (snd (fst b))).

(* Reference semantics of the PRQL relational core ("documented meaning"): relations are LISTS of
   rows (PRQL relations are arrays), transforms are functions on them, applied in pipeline order.
   Executable; evaluated by `Eval vm_compute` for the end-to-end oracle of C01/C03/C04/C05/C06.
   Edge cases are part of the definitions: `aggregate` yields exactly one row on any input, grouped
   aggregate one row per non-empty group, count counts rows (nulls included), sum [] = 0.
   Definitions only -- no proofs in this file. *)
From Coq Require Import List ZArith QArith NArith Bool.
From PV Require Export Model.Value.
Import ListNotations.
Local Open Scope Z_scope.

Definition name := N.           (* column / relation names are small numbers *)

Inductive agg := ASum | ACount | AMin | AMax | AAvg.
Inductive wfn := WRowNumber | WRank | WLag (k : Z) | WLead (k : Z) | WFirst | WLast | WAgg (a : agg).

Inductive expr :=
| ECol (rel : option name) (n : name)
| ELit (v : val)
| EBin (o : bop) (l r : expr)
| ENeg (e : expr) | ENot (e : expr)
| EIsNull (e : expr) (negated : bool)
| ECase (cs : list (expr * expr)).   (* last-true default is written as condition ELit (VInt 1) *)

(* a row: columns in frame order, each with optional relation qualifier and optional name *)
Definition col := (option name * option name * val)%type.
Definition row := list col.
Definition rel := list row.

Definition lookup (r : row) (q : option name) (n : name) : val :=
  let hits := filter (fun c : col =>
      match c with
      | (cq, Some cn, _) => N.eqb cn n && (match q with None => true | Some q => match cq with Some cq => N.eqb cq q | None => false end end)
      | _ => false
      end) r in
  match rev hits with (_, _, v) :: _ => v | [] => VStr [63%N] end.   (* "?" marks an unresolved name *)

Fixpoint eval (fuel : nat) (r : row) (e : expr) : val :=
  match fuel with
  | O => VNull
  | S f =>
    match e with
    | ECol q n => lookup r q n
    | ELit v => v
    | ENeg e => eval_neg (eval f r e)
    | ENot e => eval_not (eval f r e)
    | EIsNull e neg => eval_isnull (eval f r e) neg
    | ECase cs =>
        (fix go (cs : list (expr * expr)) : val :=
           match cs with
           | [] => VNull
           | (c, v) :: t => match truth (eval f r c) with Some true => eval f r v | _ => go t end
           end) cs
    | EBin o a b => eval_bop o (eval f r a) (eval f r b)
    end
  end.
Definition ev := eval 50.

Definition keys_le (ks : list (bool * expr)) (x y : row) : bool :=
  (fix go (ks : list (bool * expr)) : bool :=
     match ks with
     | [] => true
     | (desc, e) :: t =>
         let a := ev x e in let b := ev y e in
         let le := if desc then key_le b a else key_le a b in
         let ge := if desc then key_le a b else key_le b a in
         if le && ge then go t else le
     end) ks.
Fixpoint insert (le : row -> row -> bool) (x : row) (l : rel) : rel :=
  match l with [] => [x] | y :: t => if le x y then x :: l else y :: insert le x t end.
Definition isort (le : row -> row -> bool) (l : rel) : rel := fold_right (insert le) [] l.
(* stable: fold_right inserts later elements first, and insert puts x before the first y with x <= y *)

(* ---------- aggregates over a list of values (SQL: NULLs skipped, except count which counts rows) ---------- *)
Definition non_null (vs : list val) := filter (fun v => match v with VNull => false | _ => true end) vs.
Definition agg_apply (a : agg) (vs : list val) : val :=
  match a with
  | ACount => VInt (Z.of_nat (length vs))
  | ASum => fold_left (arith Add) (non_null vs) (VInt 0)       (* sum [] = 0 (coalesce) *)
  | AMin => match non_null vs with [] => VNull | v :: t => fold_left (fun m x => if key_le m x then m else x) t v end
  | AMax => match non_null vs with [] => VNull | v :: t => fold_left (fun m x => if key_le x m then m else x) t v end
  | AAvg => match non_null vs with
            | [] => VNull
            | l => match fold_left (arith Add) l (VInt 0) with
                   | VInt s => VRat (Qred (inject_Z s / inject_Z (Z.of_nat (length l))))
                   | VRat s => VRat (Qred (s / inject_Z (Z.of_nat (length l))))
                   | v => v end
            end
  end.

(* ---------- transforms ---------- *)
Inductive frame := FNone | FRows (a b : option Z) | FRange (a b : option Z).
Inductive side := Inner | LeftJ | RightJ | FullJ.

Inductive transform :=
| TSelect (cols : list (option name * expr))
| TDerive (cols : list (option name * expr))
| TFilter (e : expr)
| TSort (keys : list (bool * expr))
| TTake (s e : option Z)
| TAggregate (cols : list (option name * agg * expr))
| TGroupAgg (by_ : list name) (cols : list (option name * agg * expr))
| TGroupTake (by_ : list name) (keys : list (bool * expr)) (s e : option Z)
| TGroupWin (by_ : list name) (keys : list (bool * expr)) (cols : list (option name * wfn * expr))
| TWin (keys : list (bool * expr)) (cols : list (option name * wfn * expr))   (* whole-table window in derive *)
| TJoin (s : side) (alias : name) (ucols : list name) (tbl : rel) (on : expr)
| TAppend (bottom : rel)
| TDistinct
| TWinF (fr : frame) (keys : list (bool * expr)) (cols : list (option name * wfn * expr))
| TGroupWinF (by_ : list name) (fr : frame) (keys : list (bool * expr)) (cols : list (option name * wfn * expr))
| TExclude (cs : list (option name * name))   (* select !{...}: every column except the listed ones *)
(* right / full join: like TJoin, plus the unmatched right rows (left columns NULL) after the left-driven
   rows; lcols = qualifier and name of the left frame's columns (needed when the left input is empty) *)
| TJoinX (s : side) (alias : name) (lcols : list (option name * option name)) (ucols : list name) (tbl : rel) (on : expr).

Definition take_range (s e : option Z) {A} (l : list A) : list A :=
  let off := match s with Some s => Z.to_nat (s - 1) | None => O end in
  let l' := skipn off l in
  match e with Some e => firstn (Z.to_nat (e - Z.of_nat off)) l' | None => l' end.

Definition name_of (e : expr) : option name := match e with ECol _ n => Some n | _ => None end.
Definition mk_col (nm : option name) (e : expr) (v : val) : col :=
  (None, match nm with Some n => Some n | None => name_of e end, v).

(* adding a named column un-names earlier columns with the same name *)
Definition shadow (r : row) (c : col) : row :=
  match c with
  | (_, Some n, _) => map (fun c' : col => match c' with (q, Some n', v) => if N.eqb n n' then (q, None, v) else c' | _ => c' end) r ++ [c]
  | _ => r ++ [c]
  end.

Definition key_of (by_ : list name) (r : row) : list val := map (fun n => lookup r None n) by_.
Fixpoint keys_eqb (a b : list val) : bool :=
  match a, b with [], [] => true | x :: a', y :: b' => val_eqb x y && keys_eqb a' b' | _, _ => false end.

(* groups in order of first occurrence *)
Fixpoint groups (fuel : nat) (by_ : list name) (l : rel) : list (list val * rel) :=
  match fuel with
  | O => []
  | S f =>
    match l with
    | [] => []
    | r :: _ =>
        let k := key_of by_ r in
        let mine := filter (fun x => keys_eqb (key_of by_ x) k) l in
        let rest := filter (fun x => negb (keys_eqb (key_of by_ x) k)) l in
        (k, mine) :: groups f by_ rest
    end
  end.

Definition agg_row (cols : list (option name * agg * expr)) (g : rel) : row :=
  fold_left (fun acc c => match c with (nm, a, e) => shadow acc (None, nm, agg_apply a (map (fun r => ev r e) g)) end) cols [].

Definition by_cols (by_ : list name) (k : list val) : row :=
  map (fun nk : name * val => (None, Some (fst nk), snd nk)) (combine by_ k).

(* window function value for the row at index i of the (sorted) partition p; no explicit frame:
   aggregates see the whole partition; ranking follows the sort keys *)

(* indices of the segment of row i (p sorted); range frames assume one ascending non-null integer key *)
Definition seg (fr : frame) (keys : list (bool * expr)) (p : rel) (i : nat) : list nat :=
  let n := length p in
  match fr with
  | FNone => seq 0 n
  | FRows a b =>
      let lo := match a with Some a => Z.max 0 (Z.of_nat i + a) | None => 0 end in
      let hi := match b with Some b => Z.min (Z.of_nat n - 1) (Z.of_nat i + b) | None => Z.of_nat n - 1 end in
      if hi <? lo then [] else seq (Z.to_nat lo) (Z.to_nat (hi - lo + 1))
  | FRange a b =>
      match keys, nth_error p i with
      | (_, ke) :: _, Some me =>
          match ev me ke with
          | VInt k =>
              filter (fun j => match nth_error p j with
                               | Some r => match ev r ke with
                                           | VInt x => (match a with Some a => k + a <=? x | None => true end)
                                                       && (match b with Some b => x <=? k + b | None => true end)
                                           | _ => false end
                               | None => false end) (seq 0 n)
          | _ => []
          end
      | _, _ => seq 0 n
      end
  end.

Definition win_applyf (fr : frame) (w : wfn) (keys : list (bool * expr)) (e : expr) (p : rel) (i : nat) : val :=
  let vals := map (fun r => ev r e) p in
  let svals := map (fun j => nth j vals VNull) (seg fr keys p i) in
  match w with
  | WAgg ASum => match non_null svals with [] => VNull | l => fold_left (arith Add) l (VInt 0) end  (* window sum is not coalesced *)
  | WAgg a => agg_apply a svals
  | WFirst => nth O svals VNull
  | WLast => nth (pred (length svals)) svals VNull
  | WRowNumber => VInt (Z.of_nat (S i))
  | WRank =>
      match nth_error p i with
      | Some me => VInt (Z.of_nat (S (length (filter (fun r => negb (keys_le keys me r)) p))))
      | None => VNull end
  | WLag k => if (Z.of_nat i - k <? 0) then VNull else nth (Z.to_nat (Z.of_nat i - k)) vals VNull
  | WLead k => nth (Z.to_nat (Z.of_nat i + k)) vals VNull
  end.

Definition win_apply (w : wfn) (keys : list (bool * expr)) (e : expr) (p : rel) (i : nat) : val :=
  let vals := map (fun r => ev r e) p in
  match w with
  | WRowNumber => VInt (Z.of_nat (S i))
  | WRank =>
      match nth_error p i with
      | Some me => VInt (Z.of_nat (S (length (filter (fun r => negb (keys_le keys me r)) p))))
      | None => VNull end
  | WLag k => if (Z.of_nat i - k <? 0) then VNull else nth (Z.to_nat (Z.of_nat i - k)) vals VNull
  | WLead k => nth (Z.to_nat (Z.of_nat i + k)) vals VNull
  | WFirst => nth O vals VNull
  | WLast => nth (pred (length vals)) vals VNull
  | WAgg ASum => match non_null vals with [] => VNull | l => fold_left (arith Add) l (VInt 0) end
  | WAgg a => agg_apply a vals
  end.

Definition win_cols (keys : list (bool * expr)) (cols : list (option name * wfn * expr)) (p : rel) : rel :=
  let ps := match keys with [] => p | _ => isort (keys_le keys) p end in
  map (fun ir : nat * row =>
         fold_left (fun acc c => match c with (nm, w, e) => shadow acc (None, nm, win_apply w keys e ps (fst ir)) end)
                   cols (snd ir))
      (combine (seq 0 (length ps)) ps).

Definition win_colsf (fr : frame) (keys : list (bool * expr)) (cols : list (option name * wfn * expr)) (p : rel) : rel :=
  let ps := match keys with [] => p | _ => isort (keys_le keys) p end in
  map (fun ir : nat * row =>
         fold_left (fun acc c => match c with (nm, w, e) => shadow acc (None, nm, win_applyf fr w keys e ps (fst ir)) end)
                   cols (snd ir))
      (combine (seq 0 (length ps)) ps).

Fixpoint row_eqb (a b : row) : bool :=
  match a, b with
  | [], [] => true
  | (_, _, x) :: a', (_, _, y) :: b' => val_eqb x y && row_eqb a' b'
  | _, _ => false
  end.
Fixpoint dedup (fuel : nat) (l : rel) : rel :=
  match fuel with O => [] | S f =>
    match l with [] => [] | r :: t => r :: dedup f (filter (fun x => negb (row_eqb x r)) t) end end.

Definition requalify (alias : name) (r : row) : row :=
  map (fun c : col => match c with (_, n, v) => (Some alias, n, v) end) r.
Definition null_row (r : row) : row := map (fun c : col => match c with (q, n, _) => (q, n, VNull) end) r.

(* group {by} (...) puts the key columns first, then the remaining columns in their order *)
Definition is_by (by_ : list name) (c : col) : bool :=
  match c with (_, Some n, _) => existsb (N.eqb n) by_ | _ => false end.
Definition by_first (by_ : list name) (r : row) : row :=
  flat_map (fun b => match rev (filter (fun c : col => match c with (_, Some n, _) => N.eqb n b | _ => false end) r) with
                     | c :: _ => [c] | [] => [] end) by_
  ++ filter (fun c => negb (is_by by_ c)) r.

Definition apply (t : transform) (l : rel) : rel :=
  match t with
  | TSelect cols => map (fun r => fold_left (fun acc c => shadow acc (mk_col (fst c) (snd c) (ev r (snd c)))) cols []) l
  | TDerive cols => map (fun r => fold_left (fun acc c => shadow acc (mk_col (fst c) (snd c) (ev acc (snd c)))) cols r) l
  | TFilter e => filter (fun r => is_true (ev r e)) l
  | TSort keys => isort (keys_le keys) l
  | TTake s e => take_range s e l
  | TAggregate cols => [agg_row cols l]
  | TGroupAgg by_ cols => map (fun g => by_cols by_ (fst g) ++ agg_row cols (snd g)) (groups (S (length l)) by_ l)
  | TGroupTake by_ keys s e =>
      flat_map (fun g => map (by_first by_) (take_range s e (match keys with [] => snd g | _ => isort (keys_le keys) (snd g) end)))
               (groups (S (length l)) by_ l)
  | TGroupWin by_ keys cols => flat_map (fun g => map (by_first by_) (win_cols keys cols (snd g))) (groups (S (length l)) by_ l)
  | TWin keys cols => win_cols keys cols l
  | TJoin s alias ucols tbl on =>
      flat_map (fun r =>
        let ms := filter (fun rr => is_true (ev rr on)) (map (fun u => r ++ requalify alias u) tbl) in
        match ms, s with
        | [], LeftJ => [r ++ map (fun n => (Some alias, Some n, VNull)) ucols]
        | _, _ => ms
        end) l
  | TJoinX s alias lcols ucols tbl on =>
      let left_part :=
        flat_map (fun r =>
          let ms := filter (fun rr => is_true (ev rr on)) (map (fun u => r ++ requalify alias u) tbl) in
          match ms, s with
          | [], LeftJ | [], FullJ => [r ++ map (fun n => (Some alias, Some n, VNull)) ucols]
          | _, _ => ms
          end) l in
      let unmatched :=
        match s with
        | RightJ | FullJ => filter (fun u => negb (existsb (fun r => is_true (ev (r ++ requalify alias u) on)) l)) tbl
        | _ => []
        end in
      left_part ++ map (fun u => map (fun qn : option name * option name => (fst qn, snd qn, VNull)) lcols ++ requalify alias u) unmatched
  | TAppend bottom => l ++ bottom
  | TDistinct => dedup (S (length l)) l
  | TWinF fr keys cols => win_colsf fr keys cols l
  | TGroupWinF by_ fr keys cols => flat_map (fun g => map (by_first by_) (win_colsf fr keys cols (snd g))) (groups (S (length l)) by_ l)
  | TExclude cs =>
      map (fun r => filter (fun c : col =>
             negb (existsb (fun qn : option name * name =>
                     match c with
                     | (cq, Some cn, _) =>
                         N.eqb cn (snd qn) &&
                         match fst qn with
                         | None => true
                         | Some q => match cq with Some cq' => N.eqb cq' q | None => false end
                         end
                     | _ => false
                     end) cs)) r) l
  end.

Definition run (base : rel) (ts : list transform) : rel := fold_left (fun l t => apply t l) ts base.
Definition values (l : rel) : list (list val) := map (map (fun c : col => match c with (_, _, v) => v end)) l.
Definition names (l : rel) : list (option name) :=
  match l with r :: _ => map (fun c : col => match c with (_, n, _) => n end) r | [] => [] end.

(* printable form: 0 = NULL; 1 n d = number n/d ; 2 = string *)
Definition show_val (v : val) : list Z :=
  match v with
  | VNull => [0]
  | VInt z => [1; z; 1]
  | VRat q => let r := Qred q in [1; Qnum r; Zpos (Qden r)]
  | VStr _ => [2]
  end.
Definition show (l : rel) : list (list (list Z)) := map (map (fun c : col => match c with (_, _, v) => show_val v end)) l.

(* C05: model of the SELECT-list construction of the SQL back end (sql/gen_expr.rs translate_select_item,
   sql/gen_projection.rs translate_exclude / as_col_names / translate_select_items), on top of
     Model/Wildcards.v  translate_wildcards       (which columns become items, which a star must hide)
     Model/Dedup.v      deduplicate_select_items  (the pass over the finished item list)
     Model/NameGen.v    select_item_alias         (C09: the invented alias `_expr_N`, regenerated until unused / unreserved)
   Every real call of translate_select_items is observed through the cfg(prqlc_verif) hooks `select-item` (bab53a0:
   verif:select_item, one event per non-star column) and `select-items` (7fc85b6: verif:select_items, the inputs of the
   call, the items before and after de-duplication, the generator state) and compared with `select_items` below, field by
   field, on every compile of the C05 streams.

   What is NOT modelled here: the expression of a column (translate_cid; its SHAPE -- compound identifier / identifier /
   anything else -- is an input, read from the select_item event), identifier quoting (translate_ident_part: C09's
   Model/Ident.v; items are compared by the VALUE of their identifiers).
   Definitions only. *)
From Coq Require Import List Bool Arith NArith.
From PV Require Import Lib.ListX Model.Ident Model.NameGen Model.Wildcards Model.Dedup.
Import ListNotations.

(* shape of the translated expression of a column, as far as translate_select_item and deduplicate_select_items look *)
Inductive eshape :=
| ECompound (parts : list str)     (* sql_ast::Expr::CompoundIdentifier *)
| EIdent (s : str)                 (* sql_ast::Expr::Identifier (s-strings) *)
| EOther.                          (* anything else *)

Inductive exkind := XExclude | XExcept.      (* ColumnExclude::Exclude (duckdb, snowflake ..) / ::Except (bigquery ..) *)

Inductive sitem :=
| SUnnamed (c : cid) (e : eshape)                                  (* SelectItem::UnnamedExpr *)
| SAlias (c : cid) (e : eshape) (alias : str)                      (* SelectItem::ExprWithAlias *)
| SStar (c : cid) (qual : list str) (opts : option (exkind * list str)) (hidden : list cid)
                                                                   (* Wildcard / QualifiedWildcard with EXCLUDE / EXCEPT names;
                                                                      hidden = the ids behind those names (ghost: what the
                                                                      emitted star does not show) *)
| SNull.                                                           (* the NULL of a zero-column SELECT *)

Definition star_s : str := [42%N].
Definition unnamed_s : str := map N.of_nat [60; 117; 110; 110; 97; 109; 101; 100; 62]%nat.   (* "<unnamed>" *)
Definition expr_prefix : str := map N.of_nat [95; 101; 120; 112; 114; 95]%nat.               (* "_expr_" *)

Definition last_part (parts : list str) : option str := match rev parts with p :: _ => Some p | [] => None end.

(* `match &expr { CompoundIdentifier(parts) => parts.last(), _ => None }.filter(|n| *n != "*")` *)
Definition inferred (e : eshape) : option str :=
  match e with
  | ECompound parts => match last_part parts with Some p => if leqb p star_s then None else Some p | None => None end
  | _ => None
  end.

Definition ostr_eqb (a b : option str) : bool :=
  match a, b with Some x, Some y => leqb x y | None, None => true | _, _ => false end.

(* column_names : HashMap<CId, String> as an association list (insert replaces) *)
Definition names := list (cid * str).
Fixpoint nget (m : names) (c : cid) : option str :=
  match m with [] => None | (k, v) :: r => if Nat.eqb k c then Some v else nget r c end.
Fixpoint nset (m : names) (c : cid) (v : str) : names :=
  match m with [] => [(c, v)] | (k, w) :: r => if Nat.eqb k c then (k, v) :: r else (k, w) :: nset r c v end.

(* the naming context an item reads and writes: column_names and the counter of the `_expr_` generator *)
Record nctx := mkn { cnames : names; counter : N }.

(* translate_select_item.  `reserved` = AnchorContext::reserved_column_names (6cdd79f), `lower` = str::to_lowercase.
   None = the name generator ran out of fuel (never happens: Proofs). *)
Definition select_item (lower : str -> str) (reserved : list str) (st : nctx) (c : cid) (e : eshape) : option (sitem * nctx) :=
  let expected := nget (cnames st) c in
  if ostr_eqb (inferred e) expected then Some (SUnnamed c e, st)
  else match expected with
       | Some x => Some (SAlias c e x, mkn (nset (cnames st) c x) (counter st))
       | None =>
           match select_item_alias lower expr_prefix reserved (map snd (cnames st)) (counter st) with
           | Some (a, n') => Some (SAlias c e a, mkn (nset (cnames st) c a) n')
           | None => None
           end
       end.

(* the name the SQL engine gives the column an item produces (None = engine-defined: an expression without alias) *)
Definition item_name (it : sitem) : option str :=
  match it with
  | SUnnamed _ e => match e with ECompound parts => last_part parts | EIdent s => Some s | EOther => None end
  | SAlias _ _ a => Some a
  | _ => None
  end.

(* ---- translate_exclude / as_col_names.  An excluded column is (id, name of its declaration when it is
   RelationColumn::Single(Some name)); as_col_names sorts by id and writes "<unnamed>" for everything else. *)
Definition xcol := (cid * option str)%type.

Fixpoint insert_by_id (x : xcol) (l : list xcol) : list xcol :=
  match l with
  | [] => [x]
  | y :: r => if Nat.leb (fst x) (fst y) then x :: l else y :: insert_by_id x r
  end.
Definition sort_by_id (l : list xcol) : list xcol := fold_right insert_by_id [] l.

Definition as_col_names (ex : list xcol) : list str :=
  map (fun x : xcol => match snd x with Some n => n | None => unnamed_s end) (sort_by_id ex).

(* dialect.column_exclude() *)
Definition translate_exclude (supported : option exkind) (ex : list xcol) : option (exkind * list str) :=
  match supported with
  | None => None                              (* only a warning is logged: the star shows the columns (F23) *)
  | Some k => Some (k, as_col_names ex)
  end.

(* ---- translate_select_items *)
Inductive creq :=
| CCol (c : cid) (e : eshape)                 (* not a wildcard: translate_select_item *)
| CStar (c : cid) (table : option str).       (* RelationColumn::Wildcard of an instance named `table` *)

Definition creq_cid (r : creq) : cid := match r with CCol c _ => c | CStar c _ => c end.

(* Excluded = HashMap<CId, HashSet<CId>>, with the declarations of the members resolved *)
Definition excluded := list (cid * list xcol).
Fixpoint xtake (ex : excluded) (c : cid) : option (list xcol) * excluded :=       (* HashMap::remove *)
  match ex with
  | [] => (None, [])
  | (k, v) :: r => if Nat.eqb k c then (Some v, r) else let '(o, r') := xtake r c in (o, (k, v) :: r')
  end.

(* translate_ident(table_name, Some("*")) without its last part *)
Definition star_qualifier (omit_prefix : bool) (table : option str) : list str :=
  if omit_prefix then [] else match table with Some t => [t] | None => [] end.

Fixpoint items_loop (lower : str -> str) (reserved : list str) (supported : option exkind) (omit_prefix : bool)
    (st : nctx) (ex : excluded) (cols : list creq) : option (list sitem * nctx) :=
  match cols with
  | [] => Some ([], st)
  | CCol c e :: r =>
      match select_item lower reserved st c e with
      | None => None
      | Some (it, st1) =>
          match items_loop lower reserved supported omit_prefix st1 ex r with
          | Some (l, st2) => Some (it :: l, st2)
          | None => None
          end
      end
  | CStar c table :: r =>
      let '(o, ex1) := xtake ex c in
      let opts := match o with Some xs => translate_exclude supported xs | None => None end in
      let hidden := match o, supported with Some xs, Some _ => map fst xs | _, _ => [] end in
      match items_loop lower reserved supported omit_prefix st ex1 r with
      | Some (l, st2) => Some (SStar c (star_qualifier omit_prefix table) opts hidden :: l, st2)
      | None => None
      end
  end.

(* what deduplicate_select_items sees of an item (identifiers interned by their position in `tbl`) *)
Definition intern (tbl : list str) (s : str) : nat := match find_index s tbl with Some i => i | None => length tbl end.
Definition to_dedup (tbl : list str) (it : sitem) : Dedup.sitem :=
  match it with
  | SUnnamed _ (ECompound parts) => ICompound (map (intern tbl) parts)
  | SAlias _ _ a => IAlias (intern tbl a)
  | _ => IOther
  end.
Definition item_strs (it : sitem) : list str :=
  match it with SUnnamed _ (ECompound parts) => parts | SAlias _ _ a => [a] | _ => [] end.

Definition dedup_items (items : list sitem) : list sitem :=
  let tbl := flat_map item_strs items in
  select_flags items (dedup_flags [] (map (to_dedup tbl) items)).

(* the whole function: (items before de-duplication, final items, naming context afterwards) *)
Definition select_items (lower : str -> str) (reserved : list str) (supported : option exkind) (omit_prefix zero_ok : bool)
    (st : nctx) (ex : excluded) (cols : list creq) : option (list sitem * list sitem * nctx) :=
  match items_loop lower reserved supported omit_prefix st ex cols with
  | None => None
  | Some (items, st') =>
      let d := dedup_items items in
      let final := match d with [] => if zero_ok then [] else [SNull] | _ => d end in
      Some (items, final, st')
  end.

(* ---- meaning: which column ids the emitted list shows (Wildcards.v's reading of a star: itself plus the known columns
   of its instance, minus the hidden ones) *)
Definition item_shows (orig_of : cid -> option (list cid)) (it : sitem) : list cid :=
  match it with
  | SUnnamed c _ => [c]
  | SAlias c _ _ => [c]
  | SStar c _ _ hidden =>
      match orig_of c with
      | Some orig => c :: filter (fun x => negb (mem x hidden)) (remove c orig)
      | None => [c]
      end
  | SNull => []
  end.
Definition items_show (orig_of : cid -> option (list cid)) (items : list sitem) : list cid := flat_map (item_shows orig_of) items.

(* plain data for the correspondence run *)
Definition show_shape (e : eshape) : N * list str :=
  match e with ECompound parts => (0%N, parts) | EIdent s => (1%N, [s]) | EOther => (2%N, []) end.
Definition show_item (it : sitem) : N * (N * list str) * list str :=
  match it with
  | SUnnamed _ e => (0%N, show_shape e, [])
  | SAlias _ e a => (1%N, show_shape e, [a])
  | SStar _ q None _ => (2%N, (0%N, q), [])
  | SStar _ q (Some (XExclude, ns)) _ => (2%N, (1%N, q), ns)
  | SStar _ q (Some (XExcept, ns)) _ => (2%N, (2%N, q), ns)
  | SNull => (0%N, (2%N, []), [])      (* the hook shows the NULL literal as an unnamed expression that is not an identifier *)
  end.

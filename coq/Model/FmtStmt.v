(* C14 -- the statement layer: codegen/ast.rs `impl WriteSource for Vec<pr::Stmt>` / `pr::Stmt` (annotations, `let`,
   main pipelines and `into`, `import`, `module`), emitting the tokens of Model/FmtPratt.v with line breaks, and a
   predictive model of parser/stmt.rs (`module_contents`, `var_def`, `import_def`, annotations; `pipeline(expr_call())`
   for main pipelines) on those tokens.  Width is unlimited; doc comments are not printed by the formatter and are not
   part of the trees (the property compares trees modulo doc comments); type annotations on `let` (`let x <ty>`) and
   the `prql` header are outside the model; `type n = ty` uses Model/FmtTy.v.  Executable definitions only. *)
From Coq Require Import List NArith Bool Arith.
From PV Require Import Lib.ListX Model.FmtLit Model.FmtPratt Model.Fmt Model.FmtTy.
Import ListNotations.
Local Open Scope N_scope.

(* Every statement carries its annotations.  SMain / SInto hold the value of the VarDef: the pipeline (EGroup GPipe)
   or the lone expression. *)
Inductive stmt :=
| SLet (anns : list expr) (n : str) (v : option expr)
| SMain (anns : list expr) (v : expr)
| SInto (anns : list expr) (v : expr) (n : str)
| SImport (anns : list expr) (al : option str) (path : list str)
| STypeDef (anns : list expr) (n : str) (t : ty)                 (* `type n = ty` *)
| SModule (anns : list expr) (n : str) (body : list stmt).

Definition anns_of (s : stmt) : list expr :=
  match s with SLet a _ _ | SMain a _ | SInto a _ _ | SImport a _ _ | STypeDef a _ _ | SModule a _ _ => a end.

(* ------------------------------------------------------------------ the formatter *)
Section StmtFormatter.
  Variable F : ftab.

  (* `@` expr newline indent, for each annotation *)
  Definition fmt_anns (ind : nat) (anns : list expr) : list tok :=
    flat_map (fun a => TAnn :: fmt F a (annot_ctx F, PUnspec, false) ++ [TNL ind]) anns.

  Fixpoint fmt_lines (es : list expr) : list tok :=
    match es with
    | [] => []
    | [a] => fmt F a st0
    | a :: t => fmt F a st0 ++ TNL O :: fmt_lines t
    end.

  (* VarDefKind::Main / Into: `match &val.kind { Pipeline(p) if val.alias.is_none() => one element per line,
     _ => val.write }` (the guard since commit e3202e5: an aliased pipeline is written as one aliased expression) *)
  Definition fmt_value_lines (v : expr) : list tok :=
    match v with
    | EGroup GPipe es => fmt_lines es
    | _ => fmt F v st0
    end.

  (* one statement, without its final line break *)
  Fixpoint fmt_stmt (ind : nat) (s : stmt) {struct s} : list tok :=
    match s with
    | SLet anns n (Some v) => fmt_anns ind anns ++ TKw KLet :: TAlias n :: fmt F v st0
    | SLet anns n None => fmt_anns ind anns ++ [TKw KLet; TA (APar n)]
    | SMain anns v => fmt_anns ind anns ++ fmt_value_lines v
    | SInto anns v n => fmt_anns ind anns ++ fmt_value_lines v ++ [TNL O; TKw KInto; TA (APar n)]
    | SImport anns al path =>
        fmt_anns ind anns ++ TKw KImport :: match al with Some a => [TAlias a] | None => [] end ++ [TA (APath path)]
    | STypeDef anns n t => fmt_anns ind anns ++ TKw KType :: TAlias n :: fmt_ty t
    | SModule anns n body =>
        fmt_anns ind anns ++ TKw KModule :: TA (APar n) :: TOpen GTup ::
        TNL (match body with [] => ind | _ => S ind end) ::
        (fix go (l : list stmt) : list tok :=
           match l with
           | [] => []
           | [s1] => fmt_stmt (S ind) s1 ++ [TNL ind]
           | s1 :: t => fmt_stmt (S ind) s1 ++ TNL O :: TNL (S ind) :: go t
           end) body ++ [TClose GTup]
    end.

  (* Vec<Stmt>::write: statements separated by an empty line; `after` is the indentation that follows the last line
     break (that of the closing brace of a module; 0 at the top) *)
  Fixpoint fmt_stmts (ind after : nat) (ss : list stmt) : list tok :=
    match ss with
    | [] => []
    | [s] => fmt_stmt ind s ++ [TNL after]
    | s :: t => fmt_stmt ind s ++ TNL O :: TNL ind :: fmt_stmts ind after t
    end.

  Definition fmt_prog (ss : list stmt) : list tok := fmt_stmts O O ss.
End StmtFormatter.

(* ------------------------------------------------------------------ the parser *)
Fixpoint skip_nl (ts : list tok) : list tok := match ts with TNL _ :: r => skip_nl r | _ => ts end.
Definition has_nl (ts : list tok) : bool := match ts with TNL _ :: _ => true | _ => false end.

Definition name_of (t : tok) : option str :=
  match t with TA (APar n) | TA (AIdent [n]) => Some n | _ => None end.
Definition path_of (t : tok) : option (list str) :=
  match t with TA (APath p) | TA (AIdent p) => Some p | _ => None end.

Section StmtParser.
  Variable T : ptab.
  Variable P : parsers.          (* the expression parsers at some fuel *)

  (* what an element of a main pipeline (maybe_aliased(expr_call)) can begin with *)
  Definition starts_elem (t : tok) : bool :=
    match t with
    | TAlias _ | TFunc => true
    | _ => starts_arg T t
    end.

  (* annotation = new_line+ `@` expr(), repeated.  `n` bounds the number of annotations. *)
  Fixpoint p_anns (n : nat) (ts : list tok) : option (list expr * list tok) :=
    match n with
    | O => None
    | S n' =>
        if has_nl ts then
          match skip_nl ts with
          | TAnn :: r =>
              match q_bin P 0 r with
              | Some (a, r1) => match p_anns n' r1 with Some (l, r2) => Some (a :: l, r2) | None => None end
              | None => None
              end
          | _ => Some ([], ts)
          end
        else Some ([], ts)
    end.

  (* pipeline(expr_call()): elements separated by `|` or line breaks; the separator is given back when no element follows *)
  Fixpoint p_lines (n : nat) (ts : list tok) : option (list expr * list tok) :=
    match n with
    | O => None
    | S n' =>
        match p_nested P true ts with
        | Some (e, r) =>
            let next := match r with TPipe :: r' => Some r' | TNL _ :: _ => Some (skip_nl r) | _ => None end in
            match next with
            | Some (t :: r') =>
                if starts_elem t
                then match p_lines n' (t :: r') with Some (es, r2) => Some (e :: es, r2) | None => None end
                else Some ([e], r)
            | _ => Some ([e], r)
            end
        | None => None
        end
    end.

  Definition value_of (es : list expr) : option expr :=
    match es with [] => None | [e] => Some e | _ => Some (EGroup GPipe es) end.

  (* one statement; `body` parses the contents of a module *)
  Definition p_stmt (body : list tok -> option (list stmt * list tok)) (n : nat) (ts : list tok) : option (stmt * list tok) :=
    match p_anns n ts with
    | None => None
    | Some (anns, r0) =>
        match skip_nl r0 with
        | TKw KLet :: TAlias nm :: r =>
            match p_lc P r with Some (v, r1) => Some (SLet anns nm (Some v), r1) | None => None end
        | TKw KLet :: t :: r =>
            match name_of t with Some nm => Some (SLet anns nm None, r) | None => None end
        | TKw KImport :: TAlias a :: t :: r =>
            match path_of t with Some p => Some (SImport anns (Some a) p, r) | None => None end
        | TKw KImport :: t :: r =>
            match path_of t with Some p => Some (SImport anns None p, r) | None => None end
        | TKw KType :: TAlias nm :: r =>
            match p_ty n r with Some (t, r1) => Some (STypeDef anns nm t, r1) | None => None end
        | TKw KModule :: t :: TOpen GTup :: r =>
            match name_of t, body r with
            | Some nm, Some (ss, r1) =>
                match skip_nl r1 with
                | TClose GTup :: r2 => Some (SModule anns nm ss, r2)
                | _ => None
                end
            | _, _ => None
            end
        | t :: r =>
            match p_lines n (t :: r) with
            | Some (es, r1) =>
                match value_of es with
                | None => None
                | Some v =>
                    let after := match r1 with TPipe :: r' => r' | _ => skip_nl r1 end in
                    match after with
                    | TKw KInto :: t2 :: r2 =>
                        match name_of t2 with Some nm => Some (SInto anns v nm, r2) | None => None end
                    | _ => Some (SMain anns v, r1)
                    end
                end
            | None => None
            end
        | [] => None
        end
    end.
End StmtParser.

(* module_contents: statements as long as one begins *)
Fixpoint p_stmts (T : ptab) (P : parsers) (n : nat) (ts : list tok) : option (list stmt * list tok) :=
  match n with
  | O => None
  | S n' =>
      match skip_nl ts with
      | [] | TClose _ :: _ => Some ([], ts)
      | _ =>
          match p_stmt T P (p_stmts T P n') n' ts with
          | Some (s, r) => match p_stmts T P n' r with Some (ss, r') => Some (s :: ss, r') | None => None end
          | None => None
          end
      end
  end.

(* a whole source: the lexer's Start token counts as a line break; line breaks may follow the last statement *)
Definition parse_prog (T : ptab) (fuel : nat) (ts : list tok) : option (list stmt) :=
  match p_stmts T (par T fuel) fuel (TNL O :: ts) with
  | Some (ss, r) => match skip_nl r with [] => Some ss | _ => None end
  | None => None
  end.

(* ------------------------------------------------------------------ well-formed programs, known classes *)
Definition is_pipe (e : expr) : bool := match e with EGroup GPipe _ => true | _ => false end.

(* annotations are plain expressions (`expr()`); the value of `let` is an expr_call (no alias of its own); the value of
   a main pipeline is the pipeline or its lone element (maybe_aliased(expr_call)) *)
Definition wf_anns (anns : list expr) : bool := forallb (fun a => negb (is_named a) && wf a) anns.
Definition wf_value (v : expr) : bool := negb (is_named v) && wf v.

Fixpoint wf_stmt (s : stmt) : bool :=
  wf_anns (anns_of s) &&
  match s with
  | SLet _ _ (Some v) => plain v && wf v
  | SLet _ _ None => true
  | SMain _ v | SInto _ v _ => wf_value v
  | SImport _ _ path => negb (match path with [] => true | _ => false end)
  | STypeDef _ _ t => negb (is_field t) && wf_ty t
  | SModule _ _ body => (fix go (l : list stmt) : bool := match l with [] => true | a :: t => wf_stmt a && go t end) body
  end.

Fixpoint ops_ok_stmt (nb nu : nat) (s : stmt) : bool :=
  forallb (ops_ok nb nu) (anns_of s) &&
  match s with
  | SLet _ _ (Some v) | SMain _ v | SInto _ v _ => ops_ok nb nu v
  | SLet _ _ None | SImport _ _ _ | STypeDef _ _ _ => true
  | SModule _ _ body => (fix go (l : list stmt) : bool := match l with [] => true | a :: t => ops_ok_stmt nb nu a && go t end) body
  end.

(* Known class 1 (finding C14-doc-comment-split): a main pipeline directly followed by a main pipeline / `into` that has
   no annotation.  Such a pair exists in a parsed tree only when a doc comment separates the two (a doc comment is the
   only thing that ends a pipeline without being printed): the formatter drops it and the two pipelines merge. *)
Definition is_main (s : stmt) : bool := match s with SMain _ _ => true | _ => false end.
Definition bare_pipeline (s : stmt) : bool :=
  match s with SMain [] _ | SInto [] _ _ => true | _ => false end.
Fixpoint adjacent_mains (ss : list stmt) : bool :=
  match ss with
  | a :: ((b :: _) as t) => (is_main a && bare_pipeline b) || adjacent_mains t
  | _ => false
  end.

(* (The former second class -- C14-main-pipeline-alias: the value of a main pipeline is a pipeline that carries an alias --
   was repaired by commit e3202e5; `alias_pipeline_witness` in Proofs/FmtInstProofs.v now round-trips.) *)
Fixpoint known_stmt (s : stmt) : bool :=
  match s with
  | SModule _ _ body =>
      adjacent_mains body || (fix go (l : list stmt) : bool := match l with [] => false | a :: t => known_stmt a || go t end) body
  | _ => false
  end.
Definition known_prog (ss : list stmt) : bool := adjacent_mains ss || existsb known_stmt ss.
Definition wf_prog (ss : list stmt) : bool := forallb wf_stmt ss.
Definition ops_ok_prog (nb nu : nat) (ss : list stmt) : bool := forallb (ops_ok_stmt nb nu) ss.

(* C08 -- the reading side for BigQuery: Model/SqlLex.v (shared with C09) extended with BigQuery's string syntax.
   Outside string literals the lexer IS SqlLex's (step std_sql); a quote that SqlLex would take for the start of a
   '...' literal is handled here instead:

     one quote          single-quoted string: backslash escapes (the table of SqlLex.bs_decode);
                        a quote ends it -- unless, with flag dq, it is followed by another quote (one quote of the value)
     two quotes         the empty string
     three quotes       triple-quoted string: ends at the next three consecutive unescaped quotes

   The flag dq ("a doubled quote inside '...' stands for one quote") separates the two descriptions we have of BigQuery:
     dq = true    sqlparser 0.60's tokenizer for BigQueryDialect (tokenize_single_or_triple_quoted_string +
                  tokenize_quoted_string): the executable oracle, compared token by token by vplib/props/c08.py;
     dq = false   BigQuery's documented lexical structure ("Quoted strings ... must be escaped with a backslash";
                  adjacent literals are two literals): not executable here.
   Strings are the only difference modelled; double-quoted strings ("..." is a string, not an identifier, in BigQuery),
   raw / bytes prefixes and # comments are not.  Executable definitions only; proofs in Proofs/SqlLexBqProofs.v. *)
From Coq Require Import List NArith Bool.
From PV Require Import Lib.ListX Model.SqlLex.
Import ListNotations.
Local Open Scope N_scope.

Inductive bqstate :=
| BBase (st : lstate)            (* SqlLex's state; never one of its string states *)
| BOpen1                         (* read one opening quote *)
| BOpen2                         (* read two opening quotes *)
| BS1 (acc : str)                (* inside '...'; acc = value so far, reversed *)
| BS1Q (acc : str)               (* inside '...', just read a quote *)
| BS1B (acc : str)               (* inside '...', just read a backslash *)
| BS3 (nq : nat) (acc : str)     (* inside '''...'''; nq = number of consecutive quotes just read (they are on acc) *)
| BS3B (acc : str).              (* inside '''...''', just read a backslash *)

(* a step of SqlLex outside strings; SqlLex enters LStr [] exactly when it has just read an opening quote *)
Definition base_step (st : lstate) (c : N) : bqstate * list tok :=
  let '(st', out) := step std_sql st c in
  match st' with
  | LStr [] => (BOpen1, out)
  | _ => (BBase st', out)
  end.

Definition s1_step (acc : str) (c : N) : bqstate * list tok :=
  if c =? 39 then (BS1Q acc, [])
  else if c =? 92 then (BS1B acc, [])
  else (BS1 (c :: acc), []).

Definition after_string (t : tok) (c : N) : bqstate * list tok :=
  let '(s', out) := base_step L0 c in (s', t :: out).

Definition bq_step (dq : bool) (s : bqstate) (c : N) : bqstate * list tok :=
  match s with
  | BBase st => base_step st c
  | BOpen1 => if c =? 39 then (BOpen2, []) else s1_step [] c
  | BOpen2 => if c =? 39 then (BS3 0 [], []) else after_string (TString []) c
  | BS1 acc => s1_step acc c
  | BS1Q acc =>
      if c =? 39 then (if dq then (BS1 (39 :: acc), []) else (BOpen1, [TString (rev acc)]))
      else after_string (TString (rev acc)) c
  | BS1B acc => (BS1 (bs_decode bs_sql c ++ acc), [])
  | BS3 nq acc =>
      if c =? 39 then
        match nq with
        | 2%nat => (BBase L0, [TString (rev (tl (tl acc)))])      (* the two quotes before the final one are not content *)
        | _ => (BS3 (S nq) (39 :: acc), [])
        end
      else if c =? 92 then (BS3B acc, [])
      else (BS3 0 (c :: acc), [])
  | BS3B acc => (BS3 0 (bs_decode bs_sql c ++ acc), [])
  end.

Definition bq_finish (s : bqstate) : list tok :=
  match s with
  | BBase st => finish st
  | BOpen2 => [TString []]
  | BS1Q acc => [TString (rev acc)]
  | BOpen1 | BS1 _ | BS1B _ | BS3 _ _ | BS3B _ => [TUnterminated]
  end.

Fixpoint bq_run (dq : bool) (s : bqstate) (x : str) : list tok :=
  match x with
  | [] => bq_finish s
  | c :: r => let '(s', out) := bq_step dq s c in out ++ bq_run dq s' r
  end.

Definition bq_lex (dq : bool) (x : str) : list tok := bq_run dq (BBase L0) x.

Fixpoint bq_emitted (dq : bool) (s : bqstate) (x : str) : list tok :=
  match x with
  | [] => []
  | c :: r => let '(s', out) := bq_step dq s c in out ++ bq_emitted dq s' r
  end.
Fixpoint bq_state_after (dq : bool) (s : bqstate) (x : str) : bqstate :=
  match x with
  | [] => s
  | c :: r => bq_state_after dq (fst (bq_step dq s c)) r
  end.

(* a context "ends between tokens" *)
Definition bq_closed_prefix (dq : bool) (pre : str) : bool :=
  match bq_state_after dq (BBase L0) pre with BBase L0 => true | _ => false end.

Definition bq_lex_view (dq : bool) (x : str) : list (N * str) := map tok_view (bq_lex dq x).

(* C13: where an error inside an s-/f-string really is, against where it is reported.

   The token `f"..."` is lexed by multi_quoted_string (Model/Lexer.v: count_prefix / mq_body / p_escape, owned by C17
   and run against the implementation there): its payload is the UNESCAPED content.  interpolation::parse runs a
   chumsky parser over that content (&str: BYTE offsets of the content) and rebases an error (i_s, i_e) to
     span_base.start + i_s   with   span_base = token span + 2            (expr.rs interpolation(), Model/Span.v interp_rebase)
   i.e. it assumes that content byte k sits at source byte  token start + 2 + k.  In the source, the content starts
   after the prefix character and the n opening quotes, and every escape sequence before the error occupies more
   source bytes than the character it stands for.

   [mq_items] is Lexer.mq_body with, for every content character, the number of source bytes it was read from and
   whether it came from an escape sequence (Proofs/InterpSpanProofs.v: erasing that information gives mq_body
   back, for all inputs).  Executable definitions only. *)
From Coq Require Import List NArith Bool Arith.
From PV Require Import Lib.ListX Model.Checked Model.Lexer Model.Span.
Import ListNotations.

Record item := Item { it_char : N; it_src : nat; it_esc : bool }.

Section Interp.
  Variable T : tables.

  (* content of an odd-quoted string up to the closing run of n quotes (Lexer.mq_body), with provenance.
     An escape sequence is the backslash plus what p_escape consumed: r' is a suffix of r. *)
  Fixpoint mq_items (fuel : nat) (q : chr) (n : nat) (s : str) : option (list item * str) :=
    match fuel with
    | O => None
    | S f =>
        match take_quotes q n s with
        | Some r => Some ([], r)
        | None =>
            match s with
            | [] => None
            | c :: r =>
                if N.eqb c 92%N then
                  let (e, r') := p_escape T r in
                  match mq_items f q n r' with
                  | Some (b, r'') => Some (Item e (1 + (byte_len r - byte_len r')) true :: b, r'')
                  | None => None
                  end
                else
                  match mq_items f q n r with
                  | Some (b, r'') => Some (Item c (Span.utf8_len c) false :: b, r'')
                  | None => None
                  end
            end
        end
    end.

  (* Lexer.p_multi_quoted for one quote character: (number of opening quotes, items) *)
  Definition quoted_items (q : chr) (s : str) : option (nat * list item) :=
    let (n, r) := count_prefix q s in
    match n with
    | O => None
    | _ => if Nat.even n then Some (n, [])
           else match mq_items (S (List.length r)) q n r with Some (b, _) => Some (n, b) | None => None end
    end.

  (* Lexer.p_quoted: double quotes first, then single quotes.  s = the token text after the s/f prefix *)
  Definition interp_items (s : str) : option (nat * list item) :=
    match quoted_items 34%N s with Some x => Some x | None => quoted_items 39%N s end.
End Interp.

Definition erase (items : list item) : str := map it_char items.

(* byte offset, in the unescaped content, of content character k *)
Definition content_bytes (items : list item) (k : nat) : nat := byte_len (erase (firstn k items)).
(* byte offset, in the source text of the string body, of the text content character k was read from *)
Definition source_bytes (items : list item) (k : nat) : nat := fold_right Nat.add 0 (map it_src (firstn k items)).
Definition escapes_before (items : list item) (k : nat) : bool := existsb it_esc (firstn k items).

(* source bytes of the whole content; bytes of the opening and closing quote runs of a string with n quote characters
   (an even run is the empty string: nothing follows it) *)
Definition all_src (items : list item) : nat := source_bytes items (length items).
Definition quote_bytes (n : nat) : nat := if Nat.even n then n else 2 * n.

(* an error over content characters [k1, k2) of a string token at `tok` with n quote characters:
   what the code reports (interp_rebase over content byte offsets) / where that text is in the source *)
Definition interp_reported (tok : span) (items : list item) (k1 k2 : nat) : span :=
  interp_rebase tok (content_bytes items k1) (content_bytes items k2).
Definition interp_true (tok : span) (n : nat) (items : list item) (k1 k2 : nat) : span :=
  interp_actual tok n (source_bytes items k1) (source_bytes items k2).

(* what the tables must satisfy for "an escape sequence is longer than the character it stands for":
   the named escapes stand for ASCII characters and \x takes two hex digits *)
Definition tables_ok (T : tables) : bool :=
  forallb (fun p => N.ltb (snd p) 128%N) (t_escapes T) && Nat.eqb (t_x_hex_len T) 2.

(* ---- for the correspondence run: from the token text and the true source offset of the error, the span the
   code reports.  txt = token text from the s/f prefix on; off_s / off_e = byte offsets of the offending text
   relative to the start of the token; result: reported (start, end) relative to the start of the token *)
Fixpoint index_of_source (items : list item) (target : nat) (k : nat) : option nat :=
  if Nat.eqb target 0 then Some k
  else match items with
       | [] => None
       | it :: rest => if Nat.leb (it_src it) target then index_of_source rest (target - it_src it) (S k) else None
       end.

Definition predict_reported (T : tables) (txt : str) (off_s off_e : nat) : option (nat * nat * (nat * bool)) :=
  match txt with
  | [] => None
  | _ :: body =>
      match interp_items T body with
      | None => None
      | Some (n, items) =>
          match index_of_source items (off_s - (1 + n)) 0, index_of_source items (off_e - (1 + n)) 0 with
          | Some k1, Some k2 =>
              let r := interp_reported (Span 0 0 0) items k1 k2 in
              Some (sp_start r, sp_end r, (n, escapes_before items k2))
          | _, _ => None
          end
      end
  end.

(* byte length of the token according to c13_interp_token_span (txt = token text from the s/f prefix on) *)
Definition token_len (T : tables) (txt : str) : option nat :=
  match txt with
  | [] => None
  | c :: body => match interp_items T body with
                 | Some (n, items) => Some (Span.utf8_len c + quote_bytes n + all_src items)
                 | None => None
                 end
  end.

(* C12: arithmetic on user-supplied integers, written against the checked primitives of Model/Checked.v.
   Mirror of
     prqlc/src/sql/gen_expr.rs   range_of_ranges, try_range_into_int, unpack_as_int_literal
     prqlc/src/utils/mod.rs      OrMap::or_map
     prqlc/src/sql/gen_query.rs  translate_select_pipeline: offset / limit
     prqlc/src/utils/id_gen.rs   IdGenerator::skip / gen, IdLoader (ids of an RQ handed to rq_to_sql)
     prqlc/src/semantic/resolver/static_eval.rs  "std.neg" on an integer literal
     prqlc/src/sql/gen_expr.rs   try_into_window_frame::parse_bound
   "returns Panic" = "the Rust code panics in a build with overflow checks" (what the harness links);
   "returns Fail" = "the Rust code returns Err(_)".  Since commit 18f8c11 the take-range arithmetic is checked
   (overflow -> Err("take range is too large")), since 79f4a51 IdGenerator::skip refuses ids above usize::MAX/2, since
   222f71a the two negations of an integer literal are checked_neg / unsigned_abs: the models below mirror that code.
   Executable definitions only. *)
From Coq Require Import List ZArith Bool.
From PV Require Import Model.Checked.
Import ListNotations.
Local Open Scope Z_scope.

(* a bound of Range<rq::Expr>: an integer literal, or any other expression *)
Inductive bound := BInt (z : Z) | BOther.
Record erange := ERange { e_start : option bound; e_end : option bound }.
Record irange := IRange { r_start : option Z; r_end : option Z }.      (* Range<i64> *)

(* unpack_as_int_literal: Err("expected an integer literal") for non-literals *)
Definition unpack (b : bound) : out Z := match b with BInt z => Ret z | BOther => Fail end.
Definition unpack_opt (b : option bound) : out (option Z) :=
  match b with None => Ret None | Some b => bind (unpack b) (fun z => Ret (Some z)) end.
Definition try_range_into_int (r : erange) : out irange :=
  bind (unpack_opt (e_start r)) (fun s => bind (unpack_opt (e_end r)) (fun e => Ret (IRange s e))).

(* Option::or_map with a closure that may panic *)
Definition or_map (a b : option Z) (f : Z -> Z -> out Z) : out (option Z) :=
  match a, b with
  | Some x, Some y => bind (f x y) (fun z => Ret (Some z))
  | a, None => Ret a
  | None, b => Ret b
  end.

(* fn shift(a, b) = a.checked_add(b).and_then(|x| x.checked_sub(1)).ok_or_else(overflow):
   `a + b - 1`, Err("take range is too large") instead of overflowing (commit 18f8c11) *)
Definition shift (a b : Z) : out Z :=
  match checked_add64 a b with
  | Some x => match checked_sub64 x 1 with Some y => Ret y | None => Fail end
  | None => Fail
  end.

(* one iteration of the loop of range_of_ranges *)
Definition step (current : irange) (range : erange) : out irange :=
  bind (try_range_into_int range) (fun r =>
  (* range.start = match (range.start, current.start) { (Some(a), Some(b)) => Some(shift(a, b)?), (a, None) => a, (None, b) => b } *)
  bind (or_map (r_start r) (r_start current) shift) (fun s =>
  (* range.end = range.end.map(|b| shift(current.start.unwrap_or(1), b)).transpose()? *)
  bind (match r_end r with
        | None => Ret None
        | Some b => bind (shift (match r_start current with Some c => c | None => 1 end) b) (fun u => Ret (Some u))
        end) (fun e =>
  (* range.end = current.end.or_map(range.end, i64::min) *)
  bind (or_map (r_end current) e (fun a b => Ret (min64 a b))) (fun e' =>
  Ret (IRange s e'))))).

Fixpoint fold_ranges (current : irange) (rs : list erange) : out irange :=
  match rs with
  | [] => Ret current
  | r :: t => bind (step current r) (fun c => fold_ranges c t)
  end.

Definition range_of_ranges (rs : list erange) : out irange :=
  bind (fold_ranges (IRange None None) rs) (fun c =>
  match r_start c, r_end c with
  | Some s, Some e => if e <? s then Ret (IRange None (Some 0)) else Ret c
  | _, _ => Ret c
  end).

(* let offset = match take.start { Some(s) => s.checked_sub(1).ok_or_else(too_large)?, None => 0 };
   let limit  = match take.end   { Some(e) => Some(e.checked_sub(offset).ok_or_else(too_large)?), None => None }; *)
Definition limit_offset (t : irange) : out (Z * option Z) :=
  bind (match r_start t with Some s => ok_or (checked_sub64 s 1) | None => Ret 0 end) (fun off =>
  bind (match r_end t with Some e => bind (ok_or (checked_sub64 e off)) (fun l => Ret (Some l)) | None => Ret None end) (fun lim =>
  Ret (off, lim))).

(* what translate_select_pipeline computes for the takes of one SELECT: (OFFSET, LIMIT) *)
Definition take_sql (rs : list erange) : out (Z * option Z) :=
  bind (range_of_ranges rs) limit_offset.

(* ---- meaning on rows (1-based inclusive ranges; what `take` denotes and what LIMIT/OFFSET do) ---- *)
Definition offz (s : option Z) : Z := match s with Some s => s - 1 | None => 0 end.
Definition take_range {A : Type} (r : irange) (l : list A) : list A :=
  let l' := skipn (Z.to_nat (offz (r_start r))) l in
  match r_end r with Some e => firstn (Z.to_nat (e - offz (r_start r))) l' | None => l' end.
Definition apply_limit_offset {A : Type} (ol : Z * option Z) (l : list A) : list A :=
  let l' := skipn (Z.to_nat (fst ol)) l in
  match snd ol with Some n => firstn (Z.to_nat n) l' | None => l' end.

(* the ranges the resolver lets through (lowering.rs validate_take_range): integer literals >= 1 *)
Definition valid (r : irange) : Prop :=
  (match r_start r with Some s => 1 <= s | None => True end) /\
  (match r_end r with Some e => 1 <= e | None => True end).
Definition lit (r : irange) : erange := ERange (option_map BInt (r_start r)) (option_map BInt (r_end r)).
Definition in_i64_range (r : irange) : Prop :=
  (match r_start r with Some s => i64_min <= s <= i64_max | None => True end) /\
  (match r_end r with Some e => i64_min <= e <= i64_max | None => True end).

(* |literal| <= B for every literal bound *)
Definition bounded_b (B : Z) (b : option bound) : Prop :=
  match b with Some (BInt z) => - B <= z <= B | _ => True end.
Definition bounded (B : Z) (r : erange) : Prop := bounded_b B (e_start r) /\ bounded_b B (e_end r).

(* ---- IdGenerator (utils/id_gen.rs) ---- *)
(* Since commit 79f4a51 `skip` is fallible:
     fn skip(&mut self, id: usize) -> Result<()> {
         if id > usize::MAX / 2 { return Err(Error::new_simple(format!("id {id} is too large"))); }
         self.next_id = self.next_id.max(id + 1);  Ok(()) }
   (the `id + 1` is still the unchecked operator: [addus]; the guard is what makes it total) *)
Definition id_limit : Z := usize_max / 2.
Definition id_skip (next id : Z) : out Z :=
  if id >? id_limit then Fail else bind (addus id 1) (fun t => Ret (Z.max next t)).
(* fn gen(&mut self) { let id = self.next_id; self.next_id += 1; id } *)
Definition id_gen (next : Z) : out (Z * Z) := bind (addus next 1) (fun n => Ret (next, n)).
(* IdLoader (fold_cid / fold_table: `self.cid.skip(cid.get())?`): skip over every id that occurs in the query *)
Fixpoint id_load (next : Z) (ids : list Z) : out Z :=
  match ids with [] => Ret next | i :: t => bind (id_skip next i) (fun n => id_load n t) end.
(* k ids generated one after the other (the compilation that follows the load) *)
Fixpoint id_gens (k : nat) (next : Z) : out Z :=
  match k with O => Ret next | S k' => bind (id_gen next) (fun p => id_gens k' (snd p)) end.

(* ---- unary minus on integer literals ---- *)
(* semantic/resolver/static_eval.rs, "std.neg" on Literal::Integer(val) (commit 222f71a):
     if let Some(neg) = val.checked_neg() { return Expr::new(Literal::Integer(neg)); }   -- otherwise left unevaluated
   Ret (Some n): folded to the literal n; Ret None: the operator stays in the tree *)
Definition static_neg (v : Z) : out (option Z) := Ret (checked_neg64 v).
(* sql/gen_expr.rs try_into_window_frame::parse_bound (commit 222f71a):
     let as_int = unpack_as_int_literal(bound)?;
     match as_int { 0 => CurrentRow, 1.. => Following(as_int), _ => Preceding(as_int.unsigned_abs()) } *)
Inductive fbound := CurrentRow | Following (n : Z) | Preceding (n : Z).
Definition parse_bound (b : bound) : out fbound :=
  bind (unpack b) (fun z =>
  Ret (if z =? 0 then CurrentRow else if 1 <=? z then Following z else Preceding (unsigned_abs64 z))).
(* start_bound / end_bound of the frame: a missing bound is UNBOUNDED *)
Definition frame_bounds (r : erange) : out (option fbound * option fbound) :=
  bind (match e_start r with Some b => bind (parse_bound b) (fun x => Ret (Some x)) | None => Ret None end) (fun s =>
  bind (match e_end r with Some b => bind (parse_bound b) (fun x => Ret (Some x)) | None => Ret None end) (fun e =>
  Ret (s, e))).

(* ---- Span arithmetic (span.rs Add<usize>/Sub<usize>) ---- *)
Definition span_add (s e rhs : Z) : out (Z * Z) := bind (addus s rhs) (fun s' => bind (addus e rhs) (fun e' => Ret (s', e'))).
Definition span_sub (s e rhs : Z) : out (Z * Z) := bind (subus s rhs) (fun s' => bind (subus e rhs) (fun e' => Ret (s', e'))).

(* C17: executable view of the inner lexer of s-/f-strings for the correspondence run: the whole source is lexed by the
   lexer model; if it is exactly one Interpolation token, its content goes through Model/LexerInterp.v.
   Result: None = the source is not a single interpolation token (the case is not comparable);
           Some (prefix character, None) = interpolation::parse rejects the content;
           Some (prefix character, Some items) = the items with their extents. *)
From Coq Require Import List NArith Bool.
From PV Require Import Lib.ListX Model.Lexer Model.LexerExec Model.LexerInterp.
Import ListNotations.
Local Open Scope N_scope.

Definition iview (t : itok) : iitem * (N * N) := (ikind t, (istart t, iend t)).
Definition run_interp (T : tables) (s : str) : option (N * option (list (iitem * (N * N)))) :=
  match lex alpha_exec alnum_exec T s with
  | Some [_; t] =>
      match tkind t with
      | KInterp c b => if tstart t =? 0 then Some (c, option_map (map iview) (interp_lex alpha_exec alnum_exec b)) else None
      | _ => None
      end
  | _ => None
  end.

(* C09 -- generated names.  utils/id_gen.rs NameGenerator: gen() = prefix ++ decimal(counter), counter += 1
   (prefixes table_ and _expr_, sql/pq/context.rs).  The places that draw from the two generators, as they are at
   /repo HEAD (every one is pinned by vplib/translate/gen_ident_dialect.py, which also checks that there is no other):

   TABLE names (generator table_name), fix 99a89d3:
     AnchorContext::gen_table_name (context.rs)      loop { name = gen(); if !reserved.contains(name.to_lowercase()) return name }
                                                      = gen_unreserved / gen_table_name below.  `reserved` is the set of the
                                                      LOWER-CASED table names and relation aliases the user wrote anywhere in
                                                      the query (assign_names fills it before anything is generated).
       used directly by gen_query.rs query_to_set_expr (alias of a wrapped sub-query)
     assign_names (pq/postprocess.rs)                CTE names in table-id order:
                                                      while name is none || names.contains(name) { name = gen_table_name() }
     RelVarNameAssigner::fold_rel (postprocess.rs)   FROM aliases of one atomic pipeline: the same loop
                                                      = regen_r / assign_names below.  `names` / `relation_instance_names` are
                                                      compared EXACTLY (spelling); only `reserved` is compared case-insensitively.
   COLUMN names (generator col_name).  The repair of finding F33b (fixes/F33b-*.diff) gives this generator a reserved set
   too -- AnchorContext::gen_col_name over reserved_column_names = the lower-cased names of every column the RQ mentions
   (columns of every table reference, declared columns of every relation; QueryLoader) -- and replaces every col_name.gen()
   below by it.  The model takes the reserved set as a parameter: the source WITHOUT the repair is the instance
   reserved = [] (gen_table_name .. [] = plain NameGenerator::gen); GenIdentDialect.col_names_reserved, regenerated from the
   source on every run, says which one the source is (code_col_reserved).
     AnchorContext::ensure_column_name (context.rs)  an unnamed column gets gen() without a look at the names in use
                                                                                                       = ensure_column_name
     anchor_split (pq/anchor.rs), fix 75c6718        per column at a split: ensure_column_name, then
                                                      while used_new_names.contains(new) { new = gen() }   = split_step / split_names
     translate_select_item (gen_expr.rs), fix 755de8e alias of a column that has no name:
                                                      name = gen(); while column_names.values().any(== name) { name = gen() }
                                                                                                       = select_item_alias
     used_new_names / column_names are compared EXACTLY; only the reserved set is compared case-insensitively.

   `lower` is a parameter: Rust's str::to_lowercase (Unicode).  The correspondence runs and the instances in Props/C09.v
   use lower_ascii; the theorems hold for every `lower` that leaves generated names unchanged.
   Interfaces follow the verification hooks of /repo (44c332e + hooks/namegen-state.diff `verif:namegen {site, old, used,
   new, gen_before, gen_after}`, `verif:namegen-draw`, `verif:namegen-state`, d5c1b7e `verif:pq-names {.., reserved,
   reserved_columns}`, `verif:ensure_column_name{,_result}`, `verif:anchor_split {in, mid}`): one model function per logged
   event, and the list-level functions (assign_names, split_names) per logged loop.
   Executable definitions only; proofs in Proofs/NameGenProofs.v. *)
From Coq Require Import List NArith Bool.
From PV Require Import Lib.ListX Model.SqlLex Model.Literal Model.Ident.
Import ListNotations.
Local Open Scope N_scope.

Definition gen_name (prefix : str) (n : N) : str := prefix ++ digits_of n.

(* NameGenerator::gen: the name and the new counter (never fails; option for uniformity with gen_unreserved) *)
Definition plain_gen (prefix : str) (n : N) : option (str * N) := Some (gen_name prefix n, N.succ n).

(* loop { let name = gen(); if !reserved.contains(&name.to_lowercase()) { return name } } *)
Fixpoint gen_unreserved (fuel : nat) (lower : str -> str) (prefix : str) (reserved : list str) (n : N) : option (str * N) :=
  match fuel with
  | O => None
  | S f =>
      let nm := gen_name prefix n in
      if mem_str (lower nm) reserved then gen_unreserved f lower prefix reserved (N.succ n) else Some (nm, N.succ n)
  end.

Definition gen_table_name (lower : str -> str) (prefix : str) (reserved : list str) (n : N) : option (str * N) :=
  gen_unreserved (S (length reserved)) lower prefix reserved n.

(* what assign_names puts into reserved_table_names: every user table name (last part of the Ident) and alias, lower-cased *)
Definition reserved_of (lower : str -> str) (user_names : list str) : list str := map lower user_names.

(* `while cur.is_none() || used.contains(cur) { cur = Some(g()) }` for a generator g; returns the name and the new counter *)
Fixpoint regen_with (g : N -> option (str * N)) (fuel : nat) (used : list str) (cur : option str) (n : N) : option (str * N) :=
  match cur with
  | Some nm =>
      if mem_str nm used then
        match fuel with
        | O => None
        | S f => match g n with Some (x, n1) => regen_with g f used (Some x) n1 | None => None end
        end
      else Some (nm, n)
  | None =>
      match fuel with
      | O => None
      | S f => match g n with Some (x, n1) => regen_with g f used (Some x) n1 | None => None end
      end
  end.

(* the loop with the generator that skips reserved names (tables: assign_names, RelVarNameAssigner; columns: anchor_split,
   translate_select_item with the reserved column names, [] before the repair of F33b); one `verif:namegen`
   event of site assign_names / relvar is  regen_r (S (S (length used))) lower table_ reserved used old n = Some (new, n') *)
Definition regen_r (fuel : nat) (lower : str -> str) (prefix : str) (reserved used : list str) (cur : option str) (n : N) : option (str * N) :=
  regen_with (gen_table_name lower prefix reserved) fuel used cur n.

(* assign_names over the table declarations in id order (names = the rendered Idents taken so far);
   RelVarNameAssigner over the relation instances of one atomic pipeline (names = relation_instance_names) *)
Fixpoint assign_names (lower : str -> str) (prefix : str) (reserved : list str) (decls : list (option str)) (names : list str) (n : N)
  : option (list str * N) :=
  match decls with
  | [] => Some ([], n)
  | d :: ds =>
      match regen_r (S (S (length names))) lower prefix reserved names d n with
      | None => None
      | Some (nm, n') =>
          match assign_names lower prefix reserved ds (nm :: names) n' with
          | None => None
          | Some (l, n'') => Some (nm :: l, n'')
          end
      end
  end.

Fixpoint somes (l : list (option str)) : list str :=
  match l with [] => [] | Some x :: r => x :: somes r | None :: r => somes r end.

(* ---------------------------------------------------------------- columns *)

(* what ensure_column_name looks at: the declaration of the column ... *)
Inductive cdecl :=
  | DWild                          (* RelationColumn(_, _, Wildcard) *)
  | DSingle (nm : option str)      (* RelationColumn(_, _, Single(nm)) *)
  | DCompute.                      (* Compute(_) *)

(* ... and the name it already has in column_names (`before`).  Returns the function's result and the new counter.
   The generator is gen_col_name = gen_table_name over the reserved COLUMN names (repair of F33b); the code without the
   repair is the instance reserved = [], where gen_table_name is plain NameGenerator::gen (GenIdentDialect.col_names_reserved
   says which of the two the source is). *)
Definition ensure_column_name (lower : str -> str) (prefix : str) (reserved : list str) (d : cdecl) (before : option str) (n : N)
  : option (option str * N) :=
  match d with
  | DWild => Some (None, n)
  | DSingle (Some nm) => Some (Some (match before with Some b => b | None => nm end), n)
  | _ => match before with
         | Some b => Some (Some b, n)
         | None => match gen_table_name lower prefix reserved n with Some (x, n') => Some (Some x, n') | None => None end
         end
  end.

(* anchor_split, one column: `old` is what ensure_column_name returned.  One `verif:namegen` event of site anchor_split is
   split_step lower _expr_ reserved used old n = Some (new, n') *)
Definition split_step (lower : str -> str) (prefix : str) (reserved used : list str) (old : option str) (n : N) : option (option str * N) :=
  match old with
  | None => Some (None, n)
  | Some nm =>
      match regen_r (S (S (length used))) lower prefix reserved used (Some nm) n with
      | Some (x, n') => Some (Some x, n')
      | None => None
      end
  end.

Definition add_used (x : option str) (used : list str) : list str := match x with Some s => s :: used | None => used end.

(* anchor_split over the columns at the split (declaration, name in column_names before the call); one `verif:anchor_split`
   event is  split_names lower _expr_ reserved (combine decls names) [] next_name = Some (new names, next_name after) *)
Fixpoint split_names (lower : str -> str) (prefix : str) (reserved : list str) (cols : list (cdecl * option str)) (used : list str) (n : N)
  : option (list (option str) * N) :=
  match cols with
  | [] => Some ([], n)
  | (d, b) :: cs =>
      match ensure_column_name lower prefix reserved d b n with
      | None => None
      | Some (old, n0) =>
          match split_step lower prefix reserved used old n0 with
          | None => None
          | Some (new, n1) =>
              match split_names lower prefix reserved cs (add_used new used) n1 with
              | Some (l, n') => Some (new :: l, n')
              | None => None
              end
          end
      end
  end.

(* translate_select_item: alias of a column without a name; `used` = column_names.values() *)
Definition select_item_alias (lower : str -> str) (prefix : str) (reserved used : list str) (n : N) : option (str * N) :=
  regen_r (S (S (length used))) lower prefix reserved used None n.

(* the reserved column names the code works with: the lower-cased names of every column the RQ mentions when the repair is
   in the source, nothing otherwise *)
Definition code_col_reserved (repaired : bool) (lower : str -> str) (rq_columns : list str) : list str :=
  if repaired then reserved_of lower rq_columns else [].

(* ---------------------------------------------------------------- which names reach the column-name places
   The anchor context holds column names in column_names (CId -> name) and column_decls (RelationColumn(.., Single name)).
   Names get there in four ways (sql/pq/context.rs, anchor.rs, gen_expr.rs):
     QueryLoader / create_relation_instance / load_names   names of the RQ: columns of a table reference, declared columns of
                                                            a relation (exactly the names QueryLoader reserves, lower-cased)  OpLoad
     ensure_column_name                                     the result of the call                                            OpEnsure
     anchor_split                                           the new names of the split (column_names of the new cids, columns
                                                            of the new relation instance)                                     OpSplit
     translate_select_item                                  the invented alias                                                OpAlias
   `known` is the list of all names the context holds.  An operation mentions only names the context already holds
   (`before`, declared names: op_wf) -- that is what the hook events show of the real compilation. *)
Definition is_gen (p u : str) : bool :=
  match strip_prefix p u with Some ds => leqb u (gen_name p (base_value 10 ds)) | None => false end.

(* a name of the RQ (its lower-cased form is reserved) or a generated name *)
Definition name_class_ok (lower : str -> str) (p : str) (reserved : list str) (u : str) : bool :=
  mem_str (lower u) reserved || is_gen p u.

Definition col_incoming (c : cdecl * option str) : list str :=
  (match snd c with Some b => [b] | None => [] end) ++ (match fst c with DSingle (Some nm) => [nm] | _ => [] end).

(* the hypothesis of the case-insensitive theorem, decidable: evaluated on every real anchor_split call *)
Definition incoming_ok (lower : str -> str) (p : str) (reserved : list str) (cols : list (cdecl * option str)) : bool :=
  forallb (name_class_ok lower p reserved) (flat_map col_incoming cols).

Inductive colop :=
  | OpLoad (names : list str)
  | OpEnsure (d : cdecl) (before : option str)
  | OpSplit (cols : list (cdecl * option str))
  | OpAlias.

Definition op_wf (lower : str -> str) (reserved known : list str) (op : colop) : bool :=
  match op with
  | OpLoad names => forallb (fun u => mem_str (lower u) reserved) names
  | OpEnsure d b => forallb (fun u => mem_str u known) (col_incoming (d, b))
  | OpSplit cols => forallb (fun u => mem_str u known) (flat_map col_incoming cols)
  | OpAlias => true
  end.

(* one operation: the new list of known names, the new counter, and the names of the split if it was one *)
Definition run_op (lower : str -> str) (p : str) (reserved known : list str) (n : N) (op : colop)
  : option (list str * N * list (list (option str))) :=
  if op_wf lower reserved known op then
    match op with
    | OpLoad names => Some (names ++ known, n, [])
    | OpEnsure d b =>
        match ensure_column_name lower p reserved d b n with
        | Some (Some x, n') => Some (x :: known, n', [])
        | Some (None, n') => Some (known, n', [])
        | None => None
        end
    | OpSplit cols =>
        match split_names lower p reserved cols [] n with
        | Some (l, n') => Some (somes l ++ known, n', [l])
        | None => None
        end
    | OpAlias =>
        match select_item_alias lower p reserved known n with
        | Some (x, n') => Some (x :: known, n', [])
        | None => None
        end
    end
  else None.

Fixpoint run_ops (lower : str -> str) (p : str) (reserved known : list str) (n : N) (ops : list colop)
  : option (list str * N * list (list (option str))) :=
  match ops with
  | [] => Some (known, n, [])
  | op :: r =>
      match run_op lower p reserved known n op with
      | None => None
      | Some (known1, n1, s1) =>
          match run_ops lower p reserved known1 n1 r with
          | Some (known2, n2, s2) => Some (known2, n2, s1 ++ s2)
          | None => None
          end
      end
  end.

(* is_ascii for the statement that relates Unicode lower-casing to the ASCII case folding of SQLite *)
Definition ascii_only (s : str) : bool := forallb (fun c => c <? 128) s.

(* C09 -- generated names.  utils/id_gen.rs NameGenerator: gen() = prefix ++ decimal(counter), counter += 1
   (prefixes table_ and _expr_, sql/pq/context.rs).  Three places make generated names collision-free:
     assign_names (sql/pq/postprocess.rs:441)      CTE names:   while name is none or already used: name = gen()
     RelVarNameAssigner::fold_rel (postprocess.rs)  FROM aliases of one SELECT: the same loop
     anchor_split (sql/pq/anchor.rs:243)           column names at a split: the same loop since fix 75c6718
   Executable definitions only; proofs in Proofs/NameGenProofs.v. *)
From Coq Require Import List NArith Bool.
From PV Require Import Lib.ListX Model.SqlLex Model.Literal Model.Ident.
Import ListNotations.
Local Open Scope N_scope.

Definition gen_name (prefix : str) (n : N) : str := prefix ++ digits_of n.

(* `while cur.is_none() || used.contains(cur) { cur = gen() }`; returns the name and the new counter *)
Fixpoint regen (fuel : nat) (prefix : str) (used : list str) (cur : option str) (n : N) : option (str * N) :=
  match cur with
  | Some nm =>
      if mem_str nm used then
        match fuel with O => None | S f => regen f prefix used (Some (gen_name prefix n)) (N.succ n) end
      else Some (nm, n)
  | None =>
      match fuel with O => None | S f => regen f prefix used (Some (gen_name prefix n)) (N.succ n) end
  end.

(* assign_names over the table declarations in id order; RelVarNameAssigner over the relation instances of one query *)
Fixpoint assign_names (prefix : str) (decls : list (option str)) (names : list str) (n : N) : option (list str * N) :=
  match decls with
  | [] => Some ([], n)
  | d :: ds =>
      match regen (S (S (length names))) prefix names d n with
      | None => None
      | Some (nm, n') =>
          match assign_names prefix ds (nm :: names) n' with
          | None => None
          | Some (l, n'') => Some (nm :: l, n'')
          end
      end
  end.

(* anchor_split (as repaired by 75c6718): names of the columns at the split (None = wildcard / unnamed);
   a name already taken at this split is regenerated UNTIL UNUSED, like in the two loops above *)
Fixpoint split_names (prefix : str) (cols : list (option str)) (used : list str) (n : N) : option (list (option str) * N) :=
  match cols with
  | [] => Some ([], n)
  | None :: cs => match split_names prefix cs used n with Some (l, n') => Some (None :: l, n') | None => None end
  | Some nm :: cs =>
      match regen (S (S (length used))) prefix used (Some nm) n with
      | None => None
      | Some (nm', n1) =>
          match split_names prefix cs (nm' :: used) n1 with Some (l, n') => Some (Some nm' :: l, n') | None => None end
      end
  end.

Fixpoint somes (l : list (option str)) : list str :=
  match l with [] => [] | Some x :: r => x :: somes r | None :: r => somes r end.

(* the code before 75c6718: a duplicate was replaced by ONE generated name, itself unchecked (kept to show what the
   repair bought; not what prqlc does now) *)
Fixpoint split_names_once (prefix : str) (cols : list (option str)) (used : list str) (n : N) : list (option str) * N :=
  match cols with
  | [] => ([], n)
  | None :: cs => let '(l, n') := split_names_once prefix cs used n in (None :: l, n')
  | Some nm :: cs =>
      let '(nm', n1) := if mem_str nm used then (gen_name prefix n, N.succ n) else (nm, n) in
      let '(l, n') := split_names_once prefix cs (nm' :: used) n1 in (Some nm' :: l, n')
  end.

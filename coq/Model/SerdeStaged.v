(* The two call chains of lib.rs over abstract stage functions (C15).
   `compile`  = parse ; resolve_and_lower ; sql::compile, then `composed(&sources)` on the error;
   `staged`   = prql_to_pl ; from_pl ; to_pl ; pl_to_rq ; from_rq ; to_rq ; rq_to_sql.
   PL and RQ are generic values of the serde model; serde_json's text layer is the identity on JSON trees
   (trusted: printing and re-parsing a JSON document yields the same tree). *)
From Coq Require Import List NArith.
From PV Require Import Lib.ListX Model.Json Model.Serde.
Import ListNotations.

Section Staged.
  Variables src opts sql err : Type.
  Variable E : env.
  Variables dPL dRQ : desc.

  Inductive res (A : Type) := Ok (a : A) | Err (e : err).
  Arguments Ok {A} a.
  Arguments Err {A} e.

  Definition bind {A B} (r : res A) (f : A -> res B) : res B :=
    match r with Ok a => f a | Err e => Err e end.
  Definition map_err {A} (g : err -> err) (r : res A) : res A :=
    match r with Ok a => Ok a | Err e => Err (g e) end.

  Variable parse : src -> res value.            (* parser::parse(&SourceTree::from(prql)) *)
  Variable resolve : value -> res value.        (* semantic::resolve_and_lower(_, &[], None) *)
  Variable gen : opts -> value -> res sql.      (* sql::compile(_, options) *)
  Variables tagNR tagSQL : err -> err.          (* .map_err(|e| e.with_source(..).into()) *)
  Variable compose : src -> opts -> err -> err. (* ErrorMessages::from(e).composed(&sources) + display stripping *)
  Variable compose1 : src -> err -> err.        (* prql_to_pl_tree: composed(prql) only *)
  Variable json_err : json -> err.              (* convert_json_err *)

  Definition compile (s : src) (o : opts) : res sql :=
    map_err (compose s o)
      (bind (bind (parse s) (fun pl => map_err tagNR (resolve pl))) (fun rq => map_err tagSQL (gen o rq))).

  Definition prql_to_pl (s : src) : res value := map_err (compose1 s) (parse s).
  Definition pl_to_rq (pl : value) : res value := map_err tagNR (resolve pl).
  Definition rq_to_sql (o : opts) (rq : value) : res sql := map_err tagSQL (gen o rq).

  Definition from_json (d : desc) (j : json) : res value :=
    match de E d j with Some v => Ok v | None => Err (json_err j) end.
  Definition to_json (d : desc) (v : value) : res json := Ok (ser E d v).

  Definition staged (s : src) (o : opts) : res sql :=
    bind (prql_to_pl s) (fun pl =>
    bind (to_json dPL pl) (fun j1 =>
    bind (from_json dPL j1) (fun pl2 =>
    bind (pl_to_rq pl2) (fun rq =>
    bind (to_json dRQ rq) (fun j2 =>
    bind (from_json dRQ j2) (fun rq2 =>
    rq_to_sql o rq2)))))).
End Staged.

Arguments Ok {err A} a.
Arguments Err {err A} e.

(* the extracted stage expressions of lib.rs agree pairwise *)
Definition chains_ok (cp cr cg sp sr sg : str) : bool := leqb cp sp && leqb cr sr && leqb cg sg.

(* C12: how many arguments reach `unpack::<N>` (semantic/resolver/transforms.rs resolve_special_func).
   A model of closure application in the resolver, reduced to what decides that number:
     semantic/resolver/expr.rs       fold_expr, FuncCall: fold the callee, apply_args_to_closure, fold_function
     semantic/resolver/functions.rs  fold_function_inner (too many / not enough / evaluate), apply_args_to_closure
                                     (named parameters are pushed in front of the remaining positional ones),
                                     materialize_function (a body that folds to a PRQL-bodied function is wrapped: the
                                     inner closure keeps only the parameters it already has arguments for; since
                                     commit 9639161 a built-in is returned as it is)
     semantic/resolver/transforms.rs resolve_special_func: `let [..] = unpack::<N>(func.args)` =
                                     func_args.try_into().expect("bad special function cast")
   Values other than functions are one constructor (`Val`); bodies do not refer to their parameters (the count of
   arguments does not depend on which expression is passed).  Executable definitions only. *)
From Coq Require Import List NArith Arith Bool.
From PV Require Import Lib.ListX.
Import ListNotations.

Inductive expr :=
| Val                                                   (* a resolved value that is not a function *)
| Fn (named nparams : nat) (args : list expr) (body : fbody)   (* ExprKind::Func: named_params.len(), params.len(), args, body *)
| App (callee : expr) (given : list expr)               (* ExprKind::FuncCall with positional arguments *)
with fbody :=
| Internal (id : str)                                   (* `internal <id>`, id outside std.: resolve_special_func *)
| StdOp                                                 (* `internal std.<op>`: becomes RqOperator { args } whatever their number *)
| Body (e : expr).                                      (* a PRQL body *)

Inductive res :=
| Ok (e : expr)
| TooMany                                               (* Err("Too many arguments to function ..") *)
| NotAFunction                                          (* try_cast(into_func) failed *)
| BadCast (id : str) (got : nat)                        (* PANIC: expect("bad special function cast") *)
| Fuel.

Section Fold.
  Variable arity : str -> option nat.                   (* Some N: the arm of resolve_special_func does unpack::<N>; None: it does not unpack *)

  Section WithRec.
    Variable rec : expr -> res.                         (* fold at the remaining fuel *)

    (* resolve_function_args: the arguments are folded one after the other *)
    Fixpoint fold_list (l : list expr) : list expr + res :=
      match l with
      | [] => inl []
      | x :: t => match rec x with
                  | Ok v => match fold_list t with inl vs => inl (v :: vs) | inr e => inr e end
                  | e => inr e
                  end
      end.

    (* fold_function_inner on a closure with `named` pending named parameters, `np` positional parameters *)
    Definition fold_fn (named np : nat) (args : list expr) (body : fbody) : res :=
      if np <? length args then TooMany
      else if length args <? np then Ok (Fn named np args body)            (* not enough: the closure is a value *)
      else
        (* apply_args_to_closure(closure, [], []): the defaults of the named parameters become arguments *)
        match fold_list (args ++ repeat Val named) with
        | inr e => e
        | inl args' =>
            match body with
            | Internal id => match arity id with
                             | Some n => if length args' =? n then Ok Val else BadCast id (length args')
                             | None => Ok Val
                             end
            | StdOp => Ok Val
            | Body b =>
                (* materialize_function *)
                match rec b with
                | Ok (Fn n' np' a' b') =>
                    match b' with
                    | Internal _ | StdOp =>
                        (* since commit 9639161: `if matches!(inner.body.kind, ExprKind::Internal(_)) { return Func(inner) }`
                           -- a partially applied built-in keeps its parameters (both kinds of `internal` body) *)
                        Ok (Fn n' np' a' b')
                    | Body _ =>
                        (* let (got, missing) = inner.params.split_at(inner.args.len()); inner.params = got;
                           Func { args: [], params: missing, body: Func(inner) } *)
                        Ok (Fn 0 (np' - length a') [] (Body (Fn n' (length a') a' b')))
                    end
                | r => r
                end
            end
        end.
  End WithRec.

  Fixpoint fold (fuel : nat) (e : expr) : res :=
    match fuel with
    | O => Fuel
    | S k =>
        match e with
        | Val => Ok Val
        | Fn named np args body => fold_fn (fold k) named np args body
        | App c given =>
            match fold k c with
            | Ok (Fn named np args body) =>
                (* apply_args_to_closure(func, given, named_args): named first, then the positional arguments *)
                fold_fn (fold k) 0 (np + named) (args ++ repeat Val named ++ given) body
            | Ok _ => NotAFunction
            | r => r
            end
        end
    end.

  (* the terms of a program: every built-in function has the parameter counts of its declaration (named + positional
     = the N of its arm); lambdas (`Body`) are unrestricted *)
  Fixpoint well_declared (e : expr) : bool :=
    match e with
    | Val => true
    | Fn named np args body =>
        forallb well_declared args &&
        match body with
        | Internal id => match arity id with Some n => Nat.eqb (named + np) n | None => true end
        | StdOp => true
        | Body b => well_declared b
        end
    | App c given => well_declared c && forallb well_declared given
    end.
End Fold.

(* ---- the table obligation over Gen/GenUnpack.v ---- *)
Local Open Scope N_scope.
(* every arm that unpacks has a declaration, and every declaration of that internal name has N = named + positional;
   every declaration has an arm *)
Definition unpack_table_ok (arms : list (str * N * N)) (decls : list (str * str * N * N)) : bool :=
  forallb (fun a => match a with (id, n, u) =>
     existsb (fun d => match d with (_, i, _, _) => leqb i id end) decls &&
     forallb (fun d => match d with (_, i, nm, ps) => negb (leqb i id) || N.eqb u 0 || N.eqb (nm + ps) n end) decls end) arms &&
  forallb (fun d => match d with (_, i, _, _) => existsb (fun a => match a with (id, _, _) => leqb id i end) arms end) decls.

Fixpoint arity_of (arms : list (str * N * N)) (id : str) : option nat :=
  match arms with
  | [] => None
  | (i, n, u) :: t => if leqb i id then (if N.eqb u 0 then None else Some (N.to_nat n)) else arity_of t id
  end.

(* the std function a declaration denotes, before any application *)
Definition std_fn (d : str * str * N * N) : expr :=
  match d with (_, i, nm, ps) => Fn (N.to_nat nm) (N.to_nat ps) [] (Internal i) end.

(* Scalar values and operator meanings shared by the reference semantics (C01..C06) and the
   expression theorems (C02).  SQL three-valued logic; exact arithmetic (Z, Q): the properties are
   not about overflow or binary rounding.  Booleans are the integers 1/0 (SQLite's representation).
   This file is a *model of the documented meaning* plus SQLite's scalar conventions; it is validated
   against SQLite by the end-to-end streams (trusted base, DESIGN.md section 7). *)
From Coq Require Import List ZArith QArith NArith Bool.
Import ListNotations.
Local Open Scope Z_scope.

Inductive val := VNull | VInt (z : Z) | VRat (q : Q) | VStr (s : list N).

Inductive bop := Add | Sub | Mul | DivF | DivI | Mod | Eq | Ne | Lt | Le | Gt | Ge | And | Or | Coalesce.
Definition b2v (b : bool) : val := VInt (if b then 1 else 0).
Definition to_q (v : val) : option Q :=
  match v with VInt z => Some (inject_Z z) | VRat q => Some q | _ => None end.
Definition norm_q (q : Q) : val :=
  let r := Qred q in if Pos.eqb (Qden r) 1 then VRat r else VRat r.

Definition truth (v : val) : option bool :=   (* SQL truthiness: NULL unknown, 0 false, else true *)
  match v with
  | VNull => None
  | VInt z => Some (negb (z =? 0))
  | VRat q => Some (negb (Qeq_bool q 0))
  | VStr _ => Some false
  end.

Definition cmp_val (a b : val) : option comparison :=
  match a, b with
  | VNull, _ | _, VNull => None
  | VStr s, VStr t =>
      Some ((fix go (s t : list N) : comparison :=
               match s, t with
               | [], [] => Datatypes.Eq | [], _ => Datatypes.Lt | _, [] => Datatypes.Gt
               | x :: s', y :: t' => match N.compare x y with Datatypes.Eq => go s' t' | c => c end
               end) s t)
  | VStr _, _ => Some Datatypes.Gt      (* SQLite: numbers sort before text *)
  | _, VStr _ => Some Datatypes.Lt
  | _, _ => match to_q a, to_q b with Some x, Some y => Some (Qcompare x y) | _, _ => None end
  end.

Definition arith (o : bop) (a b : val) : val :=
  match a, b with
  | VNull, _ | _, VNull => VNull
  | VInt x, VInt y =>
      match o with
      | Add => VInt (x + y) | Sub => VInt (x - y) | Mul => VInt (x * y)
      | DivF => if y =? 0 then VNull else VRat (Qred (inject_Z x / inject_Z y))
      | DivI => if y =? 0 then VNull else VInt (Z.quot x y)
      | Mod => if y =? 0 then VNull else VInt (Z.rem x y)
      | _ => VNull
      end
  | _, _ =>
      match to_q a, to_q b with
      | Some x, Some y =>
          match o with
          | Add => VRat (Qred (x + y)) | Sub => VRat (Qred (x - y)) | Mul => VRat (Qred (x * y))
          | DivF => if Qeq_bool y 0 then VNull else VRat (Qred (x / y))
          | _ => VNull
          end
      | _, _ => VNull
      end
  end.


(* meaning of a binary operator on two values *)
Definition eval_bop (o : bop) (x y : val) : val :=
  match o with
  | Add | Sub | Mul | DivF | DivI | Mod => arith o x y
  | Coalesce => match x with VNull => y | _ => x end
  | And => match truth x, truth y with
           | Some false, _ | _, Some false => b2v false
           | Some true, Some true => b2v true
           | _, _ => VNull end
  | Or => match truth x, truth y with
          | Some true, _ | _, Some true => b2v true
          | Some false, Some false => b2v false
          | _, _ => VNull end
  | _ =>
      match cmp_val x y with
      | None => VNull
      | Some c =>
          b2v (match o, c with
               | Eq, Datatypes.Eq => true | Ne, Datatypes.Eq => false | Ne, _ => true
               | Lt, Datatypes.Lt => true | Le, Datatypes.Gt => false | Le, _ => true
               | Gt, Datatypes.Gt => true | Ge, Datatypes.Lt => false | Ge, _ => true
               | _, _ => false end)
      end
  end.

Definition eval_neg (x : val) : val := arith Sub (VInt 0) x.
Definition eval_not (x : val) : val := match truth x with Some b => b2v (negb b) | None => VNull end.
Definition eval_isnull (x : val) (negated : bool) : val := match x with VNull => b2v (negb negated) | _ => b2v negated end.
Definition is_true (v : val) := match truth v with Some true => true | _ => false end.

(* total order used by ORDER BY on SQLite: NULL first, then numbers, then text *)
Definition key_le (a b : val) : bool :=
  match a, b with
  | VNull, _ => true
  | _, VNull => false
  | _, _ => match cmp_val a b with Some Datatypes.Gt => false | _ => true end
  end.

Definition val_eqb (a b : val) : bool :=
  match a, b with
  | VNull, VNull => true
  | VNull, _ | _, VNull => false
  | _, _ => match cmp_val a b with Some Datatypes.Eq => true | _ => false end
  end.

(* C07, token level -- "the emitted text is a SINGLE statement": no statement separator [;] and no comment
   opener [--] / [/*] arises in the code part of the rendered text (quoted literals are abstracted to a
   placeholder character by the caller; what is inside them is C08's subject).

   The renderer glues pieces without separating space in exactly two ways: an operator template of
   std.sql.prql is instantiated (text chunks and holes alternate; a hole is filled with the rendering of an
   operand, possibly wrapped in parentheses), and atoms (identifiers, numbers, placeholders) are emitted.
   A string is [endsafe] when it contains no opener and does not END in a character that can start one
   ([-] or [/]): concatenations of endsafe strings are endsafe, whatever their first characters are.
   So the finite side condition is: every text chunk of every template is endsafe.
   Executable definitions only; no proofs here. *)
From Coq Require Import List NArith Bool.
From PV Require Import Lib.ListX.
Import ListNotations.
Local Open Scope N_scope.

Definition c_semi : N := 59.   (* ; *)
Definition c_minus : N := 45.  (* - *)
Definition c_slash : N := 47.  (* / *)
Definition c_star : N := 42.   (* * *)

Definition bad_pair (a b : N) : bool :=
  (N.eqb a c_minus && N.eqb b c_minus) || (N.eqb a c_slash && N.eqb b c_star).

Fixpoint no_opener (s : str) : bool :=
  match s with
  | [] => true
  | c :: r => negb (N.eqb c c_semi)
              && match r with d :: _ => negb (bad_pair c d) | [] => true end
              && no_opener r
  end.

Fixpoint lastc (s : str) : option N :=
  match s with [] => None | [c] => Some c | _ :: r => lastc r end.

Definition end_ok (s : str) : bool :=
  match lastc s with Some c => negb (N.eqb c c_minus || N.eqb c c_slash) | None => true end.
Definition endsafe (s : str) : bool := no_opener s && end_ok s.

(* a template: Some text = literal chunk, None = hole *)
Definition tmpl := list (option str).
Fixpoint inst (t : tmpl) (fills : list str) : str :=
  match t with
  | [] => []
  | Some s :: r => s ++ inst r fills
  | None :: r => match fills with a :: fills' => a ++ inst r fills' | [] => inst r [] end
  end.

Definition tmpl_safe (t : tmpl) : bool :=
  forallb (fun c => match c with Some s => endsafe s | None => true end) t.
Definition tmpls_safe (T : list tmpl) : bool := forallb tmpl_safe T.

(* the known class F3: a text chunk ending in [-] (the `neg` template [-{l}]) *)
Definition ends_in_minus (s : str) : bool := match lastc s with Some c => N.eqb c c_minus | None => false end.
Definition known_f3 (t : tmpl) : bool :=
  existsb (fun c => match c with Some s => ends_in_minus s | None => false end) t.

(* everything the renderer can produce from atoms, parentheses and the templates T *)
Inductive Out (T : list tmpl) : str -> Prop :=
| O_atom s : endsafe s = true -> Out T s
| O_paren s : Out T s -> Out T (40 :: s ++ [41])
| O_inst t fills : In t T -> Outs T fills -> Out T (inst t fills)
with Outs (T : list tmpl) : list str -> Prop :=
| Os_nil : Outs T []
| Os_cons s l : Out T s -> Outs T l -> Outs T (s :: l).

Scheme Out_mut := Induction for Out Sort Prop
with Outs_mut := Induction for Outs Sort Prop.

(* shapes of sqlparser's Display that prqlc relies on for the expressions it builds as AST nodes rather than text
   (binary operators are spaced; function calls, CASE, IS NULL, BETWEEN, CAST, OVER): hand-written, validated by the
   token stream of the harness (no glued pair outside these shapes) *)
Definition sp (s : list N) : option str := Some s.
Definition builtin_tmpls : list tmpl :=
  [ [None; sp [32;43;32]; None]            (* l + r *)
  ; [None; sp [32;45;32]; None]            (* l - r *)
  ; [None; sp [32;42;32]; None]            (* l * r *)
  ; [None; sp [32;47;32]; None]            (* l / r *)
  ; [None; sp [32;61;32]; None]            (* l = r *)
  ; [None; sp [32;60;62;32]; None]         (* l <> r *)
  ; [None; sp [32;60;32]; None]; [None; sp [32;62;32]; None]; [None; sp [32;60;61;32]; None]; [None; sp [32;62;61;32]; None]
  ; [None; sp [32;65;78;68;32]; None]      (* l AND r *)
  ; [None; sp [32;79;82;32]; None]         (* l OR r *)
  ; [None; sp [32;124;124;32]; None]       (* l || r *)
  ; [None; sp [32;73;83;32;78;85;76;76]]   (* x IS NULL *)
  ; [None; sp [32;73;83;32;78;79;84;32;78;85;76;76]]
  ; [None; sp [32;66;69;84;87;69;69;78;32]; None; sp [32;65;78;68;32]; None]
  ; [None; sp [40]; None; sp [41]]         (* f(x) *)
  ; [None; sp [40]; None; sp [44;32]; None; sp [41]]
  ; [None; sp [32;79;86;69;82;32;40]; None; sp [41]]  (* x OVER (w) *)
  ; [None; sp [32;65;83;32]; None]         (* x AS y *)
  ; [None; sp [44;32]; None]               (* a, b *)
  ; [None; sp [32]; None]                  (* a b *)
  ].

(* templates of a generated std_ops table (null bodies contribute nothing) *)
Definition tmpls_of (ops : list (list N * list N * bool * list (option (list N)))) : list tmpl :=
  map (fun o => snd o) (filter (fun o => negb (snd (fst o))) ops).

(* ---- the renderer with the guard of fixes/C07-N11 (translate_operator, operators.rs): an operand whose text starts with
   [-] is parenthesised when the text rendered so far ends in [-].  [inst_g acc t fills] = the whole text, [acc] = what has
   been rendered of this template so far.  A missing operand is rendered as [?] (does not happen). *)
Definition starts_minus (s : str) : bool := match s with c :: _ => N.eqb c c_minus | [] => false end.
Definition ends_in_slash (s : str) : bool := match lastc s with Some c => N.eqb c c_slash | None => false end.
Definition guard (acc fill : str) : str :=
  if ends_in_minus acc && starts_minus fill then 40 :: fill ++ [41] else fill.
Fixpoint inst_g (acc : str) (t : tmpl) (fills : list str) : str :=
  match t with
  | [] => acc
  | Some s :: r => inst_g (acc ++ s) r fills
  | None :: r => match fills with
                 | a :: fills' => inst_g (acc ++ guard acc a) r fills'
                 | [] => inst_g (acc ++ guard acc [63]) r []
                 end
  end.
(* side condition on the templates under the guard: a text chunk may END in [-] provided a hole follows it directly *)
Fixpoint tmpl_safe_g (t : tmpl) : bool :=
  match t with
  | [] => true
  | Some s :: r => no_opener s && negb (ends_in_slash s)
                   && (negb (ends_in_minus s) || match r with None :: _ => true | _ => false end) && tmpl_safe_g r
  | None :: r => tmpl_safe_g r
  end.
Definition tmpls_safe_g (T : list tmpl) : bool := forallb tmpl_safe_g T.

Inductive Outg (T : list tmpl) : str -> Prop :=
| Og_atom s : endsafe s = true -> s <> [] -> Outg T s
| Og_paren s : Outg T s -> Outg T (40 :: s ++ [41])
| Og_inst t fills : In t T -> Outsg T fills -> inst_g [] t fills <> [] -> Outg T (inst_g [] t fills)   (* no operator renders as the empty text *)
with Outsg (T : list tmpl) : list str -> Prop :=
| Osg_nil : Outsg T []
| Osg_cons s l : Outg T s -> Outsg T l -> Outsg T (s :: l).
Scheme Outg_mut := Induction for Outg Sort Prop
with Outsg_mut := Induction for Outsg Sort Prop.

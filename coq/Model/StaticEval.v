(* RQ-level scalar expressions and the passes between the surface AST and SQL emission:
   expand   -- semantic/ast_expand.rs: operators become std function calls (tables: Gen/GenExpand.v)
   seval    -- semantic/resolver/static_eval.rs (static_eval_rq_operator, static_eval_case) applied
               bottom-up as the resolver does, plus the `in` desugaring of resolver/transforms.rs
   normalize-- sql/pq/preprocess.rs Normalizer (null to the right of std.eq)
   Definitions only.  The three Rust functions are tied textually by vplib/translate/gen_expand.py. *)
From Coq Require Import List NArith ZArith Bool.
From PV Require Import Lib.ListX Model.PrqlExpr Gen.GenPratt Gen.GenExpand.
Import ListNotations.

Inductive rexpr :=
| RCol (i : nat)
| RLit (l : lit)
| ROp (name : str) (args : list rexpr)
| RCase (cs : list (rexpr * rexpr)).

Local Open Scope N_scope.
(* operator names as they are spelled in static_eval.rs / gen_expr.rs / transforms.rs *)
Definition n_not : str := [115;116;100;46;110;111;116].
Definition n_neg : str := [115;116;100;46;110;101;103].
Definition n_eq : str := [115;116;100;46;101;113].
Definition n_ne : str := [115;116;100;46;110;101].
Definition n_and : str := [115;116;100;46;97;110;100].
Definition n_or : str := [115;116;100;46;111;114].
Definition n_coalesce : str := [115;116;100;46;99;111;97;108;101;115;99;101].
Definition n_gte : str := [115;116;100;46;103;116;101].
Definition n_lte : str := [115;116;100;46;108;116;101].
Definition n_in : str := [115;116;100;46;105;110].              (* model-internal: `in` before desugaring *)
Definition n_and_in : str := [115;116;100;46;97;110;100;35;105;110]. (* std.and#in: the `and` built by `in`; its two
   comparisons share one (cloned, same-span) left operand, which is what try_into_between's `a_l == b_l` tests
   (rq::Expr equality includes the span, so a user-written `x >= a && x <= b` never qualifies) *)
Definition n_eqself : str := [115;116;100;46;101;113;115;101;108;102]. (* model-internal, outside the value model *)
Local Close Scope N_scope.

(* the names static_eval matches on are the names ast_expand produces *)
Definition names_agree : bool :=
  leqb (expand_binop B_Eq) n_eq && leqb (expand_binop B_Ne) n_ne && leqb (expand_binop B_And) n_and &&
  leqb (expand_binop B_Or) n_or && leqb (expand_binop B_Coalesce) n_coalesce &&
  leqb (expand_binop B_Gte) n_gte && leqb (expand_binop B_Lte) n_lte &&
  match expand_unop U_Neg, expand_unop U_Not with UCall a, UCall b => leqb a n_neg && leqb b n_not | _, _ => false end.

(* ---- ast_expand ---- *)
Fixpoint expand (e : pexpr) : rexpr :=
  match e with
  | PCol i => RCol i
  | PLit l => RLit l
  | PBinE o l r =>
      let l' := expand l in let r' := expand r in
      ROp (expand_binop o) (if expand_swaps o then [r'; l'] else [l'; r'])
  | PUnE u x =>
      match expand_unop u with
      | UCall n => ROp n [expand x]
      | UErase => expand x
      | UEqSelf => ROp n_eqself [expand x]
      end
  | PCase cs => RCase (map (fun cv => (expand (fst cv), expand (snd cv))) cs)
  | PIn x lo hi =>
      (* expands_range: open bounds become the literal null *)
      let bound (b : option pexpr) := match b with Some b => expand b | None => RLit LNull end in
      ROp n_in [expand x; bound lo; bound hi]
  end.

(* ---- literals ---- *)
Definition lit_same_kind (a b : lit) : bool :=
  match a, b with
  | LNull, LNull | LInt _, LInt _ | LFloat _ _, LFloat _ _ | LBool _, LBool _ | LStr _, LStr _ => true
  | LTemporal k _, LTemporal k' _ => N.eqb k k'      (* `left.as_ref() == right.as_ref()`: the same variant *)
  | _, _ => false
  end.
Definition pow2 (k : N) : Z := Z.pow 2 (Z.of_N k).
Definition lit_eqb (a b : lit) : bool :=
  match a, b with
  | LNull, LNull => true
  | LInt x, LInt y => Z.eqb x y
  | LFloat x kx, LFloat y ky => Z.eqb (x * pow2 ky) (y * pow2 kx)
  | LBool x, LBool y => Bool.eqb x y
  | LStr x, LStr y => leqb x y
  | LTemporal k x, LTemporal k' y => N.eqb k k' && leqb x y     (* derived PartialEq: the spelling *)
  | _, _ => false
  end.
Definition is_null (e : rexpr) := match e with RLit LNull => true | _ => false end.
Definition is_true (e : rexpr) := match e with RLit (LBool true) => true | _ => false end.

(* ---- static_eval_rq_operator: one node whose children are already folded ---- *)
Definition i64_min : Z := (- 9223372036854775808)%Z.   (* Literal::Integer is an i64 *)
Definition static_eval_op (n : str) (args : list rexpr) : rexpr :=
  let keep := ROp n args in
  if leqb n n_not then match args with [RLit (LBool b)] => RLit (LBool (negb b)) | _ => keep end
  else if leqb n n_neg then
    match args with
    | [RLit (LInt v)] =>
        (* /repo 222f71a: `val.checked_neg()`; i64::MIN has no negation, the call is left unevaluated *)
        if Z.eqb v i64_min then keep else RLit (LInt (- v))
    | [RLit (LFloat v k)] => RLit (LFloat (- v) k)
    | _ => keep
    end
  else if leqb n n_eq then
    match args with
    | [RLit l; RLit r] =>
        (* /repo 1aeb8d9: `&& !is_temporal(left)` -- two date/time literals are never compared at compile time
           (their PartialEq compares spellings, not instants) *)
        if lit_same_kind l r && negb (is_temporal_lit l) then RLit (LBool (lit_eqb l r)) else keep
    | _ => keep
    end
  else if leqb n n_ne then
    match args with
    | [RLit l; RLit r] => if lit_same_kind l r && negb (is_temporal_lit l) then RLit (LBool (negb (lit_eqb l r))) else keep
    | _ => keep
    end
  else if leqb n n_and then
    match args with [RLit (LBool a); RLit (LBool b)] => RLit (LBool (a && b)) | _ => keep end
  else if leqb n n_or then
    match args with [RLit (LBool a); RLit (LBool b)] => RLit (LBool (a || b)) | _ => keep end
  else if leqb n n_coalesce then
    match args with [RLit LNull; x] => x | _ => keep end
  else keep.

(* ---- static_eval_case ---- *)
Fixpoint case_filter (cs : list (rexpr * rexpr)) : list (rexpr * rexpr) :=
  match cs with
  | [] => []
  | (RLit (LBool true), v) :: _ => [(RLit (LBool true), v)]
  | (RLit (LBool false), _) :: t => case_filter t
  | cv :: t => cv :: case_filter t
  end.
Definition static_eval_case (cs : list (rexpr * rexpr)) : rexpr :=
  match case_filter cs with
  | [] => RLit LNull
  | [(RLit (LBool true), v)] => v
  | res => RCase res
  end.

(* ---- `in` (resolver/transforms.rs): restrict_null_literal, gte/lte, maybe_binop and; the created
   calls are resolved again, hence folded ---- *)
Definition seval_in (args : list rexpr) : rexpr :=
  match args with
  | [v; lo; hi] =>
      let s := if is_null lo then None else Some (static_eval_op n_gte [v; lo]) in
      let t := if is_null hi then None else Some (static_eval_op n_lte [v; hi]) in
      match s, t with
      | Some a, Some b => ROp n_and_in [a; b]   (* std.gte / std.lte never fold, so neither does this and *)
      | Some a, None => a
      | None, Some b => b
      | None, None => RLit (LBool true)
      end
  | _ => ROp n_in args
  end.

(* ---- the resolver's bottom-up pass ---- *)
Fixpoint seval (r : rexpr) : rexpr :=
  match r with
  | ROp n args =>
      let args' := map seval args in
      if leqb n n_in then seval_in args' else static_eval_op n args'
  | RCase cs => static_eval_case (map (fun cv => (seval (fst cv), seval (snd cv))) cs)
  | _ => r
  end.

Definition resolve (e : pexpr) : rexpr := seval (expand e).

(* ---- preprocess::normalize ---- *)
Fixpoint normalize (e : rexpr) : rexpr :=
  match e with
  | ROp n args =>
      let args' := map normalize args in
      if leqb n n_eq then
        match args' with
        | [RLit LNull; r] => ROp n [r; RLit LNull]
        | _ => ROp n args'
        end
      else ROp n args'
  | RCase cs => RCase (map (fun cv => (normalize (fst cv), normalize (snd cv))) cs)
  | _ => e
  end.

Fixpoint rexpr_eqb (a b : rexpr) : bool :=
  match a, b with
  | RCol x, RCol y => Nat.eqb x y
  | RLit x, RLit y => lit_same_kind x y && lit_eqb x y
  | ROp o xs, ROp p ys =>
      leqb o p &&
      (fix go (xs ys : list rexpr) : bool :=
         match xs, ys with
         | [], [] => true
         | x :: xs', y :: ys' => rexpr_eqb x y && go xs' ys'
         | _, _ => false
         end) xs ys
  | RCase xs, RCase ys =>
      (fix go (xs ys : list (rexpr * rexpr)) : bool :=
         match xs, ys with
         | [], [] => true
         | (c, v) :: xs', (c', v') :: ys' => rexpr_eqb c c' && rexpr_eqb v v' && go xs' ys'
         | _, _ => false
         end) xs ys
  | _, _ => false
  end.

Fixpoint rsize (r : rexpr) : nat :=
  match r with
  | ROp _ args => S (fold_right (fun a n => rsize a + n)%nat O args)
  | RCase cs => S (fold_right (fun cv n => rsize (fst cv) + rsize (snd cv) + n)%nat O cs)
  | _ => 1%nat
  end.

(* C08 -- interval literals  <integer><unit>  (2days, 3weeks, 10minutes).
   Reading: prqlc-parser lexer value_and_unit (parse_integer, one of the unit names, end_expr;
            n = digits.parse::<i64>().unwrap_or(1)).
   Writing: prqlc sql/gen_expr.rs translate_literal, arm Literal::ValueAndUnit: the unit selects a sqlparser
            DateTimeField, the dialect handler's interval_quoting_style selects one of three shapes, sqlparser's
            Display of ast::Interval prints  INTERVAL <value> [<FIELD>].
   The unit names, the unit -> field table and the per-dialect styles are parameters, instantiated with
   Gen/GenLiteral.v (regenerated from the source).  Executable definitions only; proofs in Proofs/IntervalProofs.v. *)
From Coq Require Import List NArith ZArith Bool.
From PV Require Import Lib.ListX Model.Escape Model.SqlLex.
Import ListNotations.
Local Open Scope N_scope.

Inductive istyle :=
| INoQuotes                (* INTERVAL 3 WEEK    -- the default *)
| IValueAndUnitQuoted      (* INTERVAL '3 WEEK'  -- postgres, glaredb, snowflake; redshift for weeks *)
| IValueQuoted.            (* INTERVAL '3' MONTH -- redshift *)

Definition s_INTERVAL : str := [73; 78; 84; 69; 82; 86; 65; 76].

(* digits: the decimal text of vau.n ({} of an i64: Model/Literal.v emit_int); field: Display of the DateTimeField *)
Definition emit_interval (st : istyle) (digits field : str) : str :=
  match st with
  | INoQuotes => s_INTERVAL ++ [32] ++ digits ++ [32] ++ field
  | IValueAndUnitQuoted => s_INTERVAL ++ [32] ++ emit_string (digits ++ [32] ++ field)
  | IValueQuoted => s_INTERVAL ++ [32] ++ emit_string digits ++ [32] ++ field
  end.

Fixpoint lookup_str {A} (k : str) (t : list (str * A)) : option A :=
  match t with [] => None | (k', v) :: r => if leqb k k' then Some v else lookup_str k r end.

(* translate_literal on ValueAndUnit {n, unit}; None = Err("Unsupported interval unit") *)
Definition interval_text (fields : list (str * (str * bool))) (styles : istyle * istyle) (digits unit : str) : option str :=
  match lookup_str unit fields with
  | Some (field, week) => Some (emit_interval (if week then fst styles else snd styles) digits field)
  | None => None
  end.

(* ... and, since fix 19e2c2a, None = Err("interval literals are not supported for dialect ..") when the handler's
   has_interval_literal() is false (sqlite, mssql) *)
Definition interval_text_for (supported : bool) fields styles (digits unit : str) : option str :=
  match lookup_str unit fields with
  | Some _ => if supported then interval_text fields styles digits unit else None
  | None => None
  end.

(* which unit name the text starts with (no name is a prefix of another: checked by the translator) *)
Fixpoint match_unit (units : list str) (s : str) : option (str * str) :=
  match units with
  | [] => None
  | u :: r => match strip_prefix u s with Some rest => Some (u, rest) | None => match_unit r s end
  end.

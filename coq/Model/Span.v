(* C13: spans, offsets and locations.  Mirror of
     prqlc-parser/src/lexer/mod.rs      convert_lexer_error   (byte span -> char span)
     prqlc-parser/src/parser/mod.rs     parse_lr_to_pr: map_span (token indices -> byte offsets of token spans)
     prqlc-parser/src/parser/expr.rs    interpolation(): interpolation::parse(string, span + 2)
     prqlc-parser/src/parser/interpolation.rs  span_base.start + e.span().start
     prqlc/src/error_message.rs         composed / compose_location (byte span -> character span once: d3106b1; ariadne::Source
                                        counts characters; a span whose source is not in the tree is removed: 7cb9d46)
     prqlc/src/lib.rs                   SourceTree::single / new / From<S>, prql_to_tokens (errors composed: d650e1d)
     prqlc/src/parser.rs                parse_source, lexer_errors_to_byte_spans (lexer errors: id of the file, re-based to bytes)
     prqlc/src/semantic/resolver/functions.rs  fold_function (error of a std body moved to the call site: 7cb9d46)
     ariadne-0.5.1/src/source.rs        Source::from, get_offset_line
     prqlc-parser/src/error.rs          Display for Reason
   Sources are lists of code points; offsets are nat.  Executable definitions only. *)
From Coq Require Import List NArith ZArith Bool Arith.
From PV Require Import Lib.ListX Model.Checked.
Import ListNotations.

Definition source := list N.

(* ---------------------------------------------------------------- UTF-8 ---- *)
Definition utf8_len (c : N) : nat :=
  if N.ltb c 128 then 1 else if N.ltb c 2048 then 2 else if N.ltb c 65536 then 3 else 4.

Fixpoint byte_len (s : source) : nat :=
  match s with [] => 0 | c :: t => utf8_len c + byte_len t end.

(* byte offset at which character number k starts (k <= length s) *)
Definition byte_of_char (s : source) (k : nat) : nat := byte_len (firstn k s).

(* `source[..b].chars().count()`: str slicing panics when b is inside a code point or past the end *)
Fixpoint char_of_byte (s : source) (b : nat) {struct s} : out nat :=
  match s with
  | [] => if Nat.eqb b 0 then Ret 0 else Panic
  | c :: t =>
      if Nat.eqb b 0 then Ret 0
      else if Nat.leb (utf8_len c) b
           then bind (char_of_byte t (b - utf8_len c)) (fun k => Ret (S k))
           else Panic
  end.

Definition is_ascii (c : N) : bool := N.ltb c 128.

(* ---------------------------------------------------------------- spans ---- *)
Record span := Span { sp_start : nat; sp_end : nat; sp_src : nat }.

(* convert_lexer_error: chumsky's Simple error carries a BYTE span (bs, be) of the &str input.
   Result: the character span, and the `found` text (chars().skip(cs).take(ce - cs)).
   `ce - cs` is a usize subtraction. *)
Definition convert_lexer_error (s : source) (bs be : nat) (sid : nat) : out (span * source) :=
  bind (char_of_byte s bs) (fun cs =>
  bind (char_of_byte s be) (fun ce =>
  if Nat.ltb ce cs then Panic
  else Ret (Span cs ce sid, firstn (ce - cs) (skipn cs s)))).

(* parse_lr_to_pr's map_span: chumsky hands a range of TOKEN indices (i, j); token spans are the
   lexer's BYTE ranges.  start = tokens.get(i).start or 0; end = tokens.get(j.saturating_sub(1)).end or start *)
Definition map_span (toks : list (nat * nat)) (i j : nat) (sid : nat) : span :=
  let st := match nth_error toks i with Some t => fst t | None => 0 end in
  let en := match nth_error toks (j - 1) with Some t => snd t | None => st end in
  Span st en sid.

(* interpolation(): the error offsets (is, ie) inside the string CONTENT are rebased by
   `span + 2` (Add<usize> for Span shifts start and end) and then span_base.start + offset *)
Definition interp_rebase (tok : span) (i_s i_e : nat) : span :=
  Span (sp_start tok + 2 + i_s) (sp_start tok + 2 + i_e) (sp_src tok).
(* where the content really starts for a token `f` + q quote characters + content *)
Definition interp_actual (tok : span) (q : nat) (i_s i_e : nat) : span :=
  Span (sp_start tok + 1 + q + i_s) (sp_start tok + 1 + q + i_e) (sp_src tok).

(* ---------------------------------------------------------------- ariadne::Source ---- *)
(* SEPARATORS = CR LF VT FF NEL LS PS *)
Definition is_sep (c : N) : bool :=
  N.eqb c 13 || N.eqb c 10 || N.eqb c 11 || N.eqb c 12 || N.eqb c 133 || N.eqb c 8232 || N.eqb c 8233.

(* Source::from: split_inclusive(SEPARATORS), CR LF merged into one terminator.
   line_lens s cur = character lengths of the lines of s, given that cur characters of the
   first line were already seen.  A text that ends with a terminator has no trailing empty line. *)
Fixpoint line_lens (s : source) (cur : nat) {struct s} : list nat :=
  match s with
  | [] => if Nat.eqb cur 0 then [] else [cur]
  | c :: t =>
      if is_sep c then
        if N.eqb c 13 then
          match t with
          | d :: t' => if N.eqb d 10 then (cur + 2) :: line_lens t' 0 else (cur + 1) :: line_lens t 0
          | [] => (cur + 1) :: line_lens t 0
          end
        else (cur + 1) :: line_lens t 0
      else line_lens t (S cur)
  end.

(* the empty input is one empty line *)
Definition lines (s : source) : list nat :=
  match s with [] => [0] | _ => line_lens s 0 end.

(* get_offset_line's search: the last line whose first offset is <= off
   (binary_search_by_key on strictly increasing line offsets, Err(i) -> i-1).  Returns (line index, column). *)
Fixpoint locate (lens : list nat) (off idx : nat) {struct lens} : nat * nat :=
  match lens with
  | [] => (idx, off)
  | n :: rest =>
      match rest with
      | [] => (idx, off)
      | _ :: _ => if Nat.ltb off n then (idx, off) else locate rest (off - n) (S idx)
      end
  end.

Definition get_offset_line (s : source) (off : nat) : option (nat * nat) :=
  if Nat.leb off (length s) then Some (locate (lines s) off 0) else None.

Definition location := ((nat * nat) * (nat * nat))%type.

(* ErrorMessage::compose_location *)
Definition compose_location (s : source) (sp : span) : option location :=
  match get_offset_line s (sp_start sp) with
  | Some a => match get_offset_line s (sp_end sp) with Some b => Some (a, b) | None => None end
  | None => None
  end.

(* `composed` first turns the span -- byte offsets, like the spans of tokens and of the AST -- into character offsets
   (d3106b1), totally (0301a92): `text.char_indices().take_while(|(index, _)| *index < byte).count()` = the number of
   characters that START before the byte offset; an offset inside a character counts as the end of that character, one
   past the text as the end of the text *)
Fixpoint chars_before (s : source) (b : nat) {struct s} : nat :=
  match s with
  | [] => 0
  | c :: t => if Nat.eqb b 0 then 0 else S (chars_before t (b - utf8_len c))
  end.
Definition span_to_chars (s : source) (sp : span) : span :=
  Span (chars_before s (sp_start sp)) (chars_before s (sp_end sp)) (sp_src sp).

(* one iteration of ErrorMessages::composed, as (span', location) of the message afterwards (for a message that has
   no location yet: one that has is skipped, so a second `composed` does not convert again):
     no span                      -> message left alone;
     source id not in the tree    -> `e.span = None; continue` (the span cannot be interpreted by the caller);
     otherwise span := span_to_chars, location := compose_location, and `assert!(e.location.is_some(), ..)` (which cannot
     fire any more: the converted offsets are at most the character length); then compose_display builds an ariadne
     Label over span.start..span.end, which asserts start <= end.
   (`cache.fetch` cannot fail for a tree built by SourceTree::single/new: every path of source_ids is a key of sources.) *)
Definition composed_one (tree : list (nat * source)) (sp : option span) : out (option span * option location) :=
  match sp with
  | None => Ret (None, None)
  | Some sp =>
      match find (fun p => Nat.eqb (fst p) (sp_src sp)) tree with
      | None => Ret (None, None)
      | Some (_, s) =>
          let sp' := span_to_chars s sp in
          match compose_location s sp' with
          | Some l =>
              (* compose_display: ariadne-0.5.1 Label::new asserts `span.start() <= span.end()` ("Label start is after its end") *)
              if Nat.ltb (sp_end sp') (sp_start sp') then Panic else Ret (Some sp', Some l)
          | None => Panic
          end
      end
  end.

(* SourceTree::new: ids are index+1 (distinct paths assumed: `sources` is keyed by path) *)
Fixpoint number_from (k : nat) (srcs : list source) : list (nat * source) :=
  match srcs with [] => [] | s :: t => (k, s) :: number_from (S k) t end.
Definition source_tree (srcs : list source) : list (nat * source) := number_from 1 srcs.
(* SourceTree::single / From<S>: the one file has id 1 *)
Definition source_tree_single (s : source) : list (nat * source) := [(1, s)].
(* prql_to_tokens: `sources.source_ids.keys().copied().min().unwrap_or(1)` *)
Definition min_source_id (tree : list (nat * source)) : nat :=
  match map fst tree with [] => 1 | k :: ks => fold_left Nat.min ks k end.

(* ---- SourceTree as it is: two HashMaps.  SourceTree::new inserts, for the file at index i with path p and content c,
   sources[p] := c and source_ids[(i + 1) as u16] := p: a later file with the same path replaces the content, and the id
   wraps at 65536 (a later file can take the id of an earlier one).  `composed` resolves a span's source id through
   source_ids and then sources.  Paths are abstract keys (N). *)
Definition u16 (z : N) : N := N.modulo z 65536.
Fixpoint tree_entries (k : N) (files : list (N * source)) : list (N * N) :=     (* (id, path), insertion order *)
  match files with
  | [] => []
  | (p, _) :: t => (u16 (k + 1), p) :: tree_entries (k + 1) t
  end.
(* HashMap::insert in sequence, then get: the LAST entry with that key *)
Fixpoint last_assoc {A : Type} (key : N) (l : list (N * A)) : option A :=
  match l with
  | [] => None
  | (k, v) :: t => match last_assoc key t with
                   | Some x => Some x
                   | None => if N.eqb k key then Some v else None
                   end
  end.
Definition tree_path (files : list (N * source)) (id : N) : option N := last_assoc id (tree_entries 0 files).
Definition tree_content (files : list (N * source)) (p : N) : option source := last_assoc p files.
Definition tree_source (files : list (N * source)) (id : N) : option source :=
  match tree_path files id with Some p => tree_content files p | None => None end.
(* the same as an association list for composed_one (every entry already resolved, so the first match is the answer) *)
Definition tree_of_files (files : list (N * source)) : list (nat * source) :=
  flat_map (fun e => match tree_source files (fst e) with Some s => [(N.to_nat (fst e), s)] | None => [] end)
           (tree_entries 0 files).

(* parser.rs lexer_errors_to_byte_spans: the lexer reports character offsets; every span that reaches `composed` counts
   bytes.  `source.is_ascii()` -> unchanged; else `char_indices().nth(n).map_or(source.len(), ..)` = byte_of_char *)
Definition lexer_error_to_byte_span (s : source) (sp : span) : span :=
  if forallb is_ascii s then sp
  else Span (byte_of_char s (sp_start sp)) (byte_of_char s (sp_end sp)) (sp_src sp).

(* a lexer error as the caller sees it: convert_lexer_error with the id of the file (character span), re-based to bytes
   (parse_source / prql_to_tokens), then `composed` against a tree in which that id names the file.
   Result: (span', location, found). *)
Definition lexer_error_reported (tree : list (nat * source)) (s : source) (bs be sid : nat)
  : out (option span * option location * source) :=
  bind (convert_lexer_error s bs be sid) (fun p =>
  bind (composed_one tree (Some (lexer_error_to_byte_span s (fst p)))) (fun r => Ret (r, snd p))).

Definition prql_to_tokens_error (s : source) (bs be : nat) : out (option span * option location * source) :=
  let tree := source_tree_single s in
  lexer_error_reported tree s bs be (min_source_id tree).

(* Resolver::fold_function: an error of the inner fold whose span is in std.prql (source id 0) is given the span of
   the call when that is in the user's source (`e.with_span(span)` overwrites) *)
Definition std_source_id : nat := 0.
Definition respan_moves (err_span call_span : option span) : bool :=
  let in_std := match err_span with Some s => Nat.eqb (sp_src s) std_source_id | None => false end in
  let call_in_user_source := match call_span with Some s => negb (Nat.eqb (sp_src s) std_source_id) | None => false end in
  in_std && call_in_user_source.
Definition respan_std (err_span call_span : option span) : option span :=
  if respan_moves err_span call_span then call_span else err_span.

(* the position of a character offset, as a specification: offset of the line start + column *)
Fixpoint line_start (lens : list nat) (l : nat) : nat :=
  match l, lens with
  | 0, _ => 0
  | S l', n :: rest => n + line_start rest l'
  | S _, [] => 0
  end.

(* ---- what a consumer sees for a parser error over tokens i..j of the file with id 1 ---- *)
Definition parser_error_reported (s : source) (toks : list (nat * nat)) (i j : nat) : out (option span * option location) :=
  composed_one [(1, s)] (Some (map_span toks i j 1)).

(* all characters before character offset k are ASCII *)
Definition ascii_before (s : source) (k : nat) : bool := forallb is_ascii (firstn k s).
(* all characters that start before BYTE offset b are ASCII *)
Fixpoint ascii_before_byte (s : source) (b : nat) {struct s} : bool :=
  match s with
  | [] => true
  | c :: t => if Nat.eqb b 0 then true else is_ascii c && ascii_before_byte t (b - 1)
  end.

(* ---------------------------------------------------------------- Reason ---- *)
Local Open Scope N_scope.
Inductive reason :=
| RSimple (text : str)
| RExpected (who : option str) (expected found : str)
| RUnexpected (found : str)
| RNotFound (name namespace : str)
| RBug (issue : option str) (details : option str)     (* issue number already rendered in decimal *)
| RInternal (message : str).

(* Display for Reason *)
Definition reason_display (r : reason) : str :=
  match r with
  | RSimple t => t
  | RExpected who e f =>
      (match who with Some w => w ++ [32] | None => [] end)
      ++ [101;120;112;101;99;116;101;100;32] ++ e ++ [44;32;98;117;116;32;102;111;117;110;100;32] ++ f
  | RUnexpected f => [117;110;101;120;112;101;99;116;101;100;32] ++ f
  | RNotFound n ns => ns ++ [32;96] ++ n ++ [96;32;110;111;116;32;102;111;117;110;100]
  | RBug issue details =>
      [105;110;116;101;114;110;97;108;32;99;111;109;112;105;108;101;114;32;101;114;114;111;114]
      ++ (match details with Some d => [59;32] ++ d | None => [] end)
      ++ (match issue with
          | Some n => [59;32;116;114;97;99;107;101;100;32;97;116;32;104;116;116;112;115;58;47;47;103;105;116;104;117;98;46;99;111;109;47;80;82;81;76;47;112;114;113;108;47;105;115;115;117;101;115;47] ++ n
          | None => [] end)
  | RInternal m => [105;110;116;101;114;110;97;108;32;101;114;114;111;114;58;32] ++ m
  end.

(* Theta-1, generic layer (definitions only; proofs are in Proofs/PrattProofs.v and Proofs/PrattNorm.v).
   One precedence-climbing parser (binary infix operators with (prec, assoc), prefix operators with
   their own binding power, parentheses, atoms, call forms with comma-separated arguments) and one
   printer over *decorated* trees: every child edge carries the number of parenthesis layers the
   printer puts around that child.  A parenthesisation policy is any way of choosing these numbers.
   Nothing here mentions PRQL or SQL: instances are Model/PrqlExpr.v (PRQL source grammar),
   Model/SqlPrint.v (SQL emission vs engine grammar) and, later, the formatter (C14). *)
From Coq Require Import List Arith Bool.
Import ListNotations.

Section Pratt.
Variable op uop atom fn : Type.
Variable prec : op -> nat.          (* binding power of a binary operator *)
Variable rassoc : op -> bool.       (* true = right associative *)
Variable uprec : uop -> nat.        (* binding power of a prefix operator (its operand is parsed at this power) *)
Variable INF : nat.                 (* strength of atoms and closed forms; above every operator *)

Inductive tok := TA (a : atom) | TO (o : op) | TU (u : uop) | TF (f : fn) | TL | TR | TC.

Inductive expr :=
| Atom (a : atom)
| Bin (o : op) (l r : expr)
| Un (u : uop) (x : expr)
| Call (f : fn) (args : list expr).

(* decorated tree: wl / wr / w / the nat paired with a call argument = number of parenthesis layers *)
Inductive dexpr :=
| DAtom (a : atom)
| DBin (o : op) (wl : nat) (l : dexpr) (wr : nat) (r : dexpr)
| DUn (u : uop) (w : nat) (x : dexpr)
| DCall (f : fn) (args : list (nat * dexpr)).

Fixpoint erase (d : dexpr) : expr :=
  match d with
  | DAtom a => Atom a
  | DBin o _ l _ r => Bin o (erase l) (erase r)
  | DUn u _ x => Un u (erase x)
  | DCall f args => Call f (map (fun p => erase (snd p)) args)
  end.

Definition strength (e : expr) : nat :=
  match e with Atom _ | Call _ _ => INF | Bin o _ _ => prec o | Un u _ => uprec u end.
Definition dstrength (d : dexpr) : nat :=
  match d with DAtom _ | DCall _ _ => INF | DBin o _ _ _ _ => prec o | DUn u _ _ => uprec u end.
Definition lreq o := if rassoc o then S (prec o) else prec o.
Definition rreq o := if rassoc o then prec o else S (prec o).

Fixpoint wrap (n : nat) (ts : list tok) : list tok :=
  match n with O => ts | S k => TL :: wrap k ts ++ [TR] end.

Fixpoint dprint (d : dexpr) : list tok :=
  match d with
  | DAtom a => [TA a]
  | DBin o wl l wr r => wrap wl (dprint l) ++ TO o :: wrap wr (dprint r)
  | DUn u w x => TU u :: wrap w (dprint x)
  | DCall f args =>
      TF f :: TL ::
      (fix pargs (l : list (nat * dexpr)) : list tok :=
         match l with
         | [] => [TR]
         | [(n, a)] => wrap n (dprint a) ++ [TR]
         | (n, a) :: t => wrap n (dprint a) ++ TC :: pargs t
         end) args
  end.

Definition dpargs := fix pargs (l : list (nat * dexpr)) : list tok :=
  match l with
  | [] => [TR]
  | [(n, a)] => wrap n (dprint a) ++ [TR]
  | (n, a) :: t => wrap n (dprint a) ++ TC :: pargs t
  end.

(* the table is respected: an edge without parentheses has a child strong enough for its position *)
Fixpoint dok (d : dexpr) : bool :=
  match d with
  | DAtom _ => true
  | DBin o wl l wr r =>
      dok l && dok r &&
      (negb (Nat.eqb wl 0) || (lreq o <=? dstrength l)) &&
      (negb (Nat.eqb wr 0) || (rreq o <=? dstrength r))
  | DUn u w x => dok x && (negb (Nat.eqb w 0) || (uprec u <=? dstrength x))
  | DCall _ args => forallb (fun p => dok (snd p)) args
  end.

(* weaker: a left-associative parent may carry an unparenthesised right child of EQUAL strength
   (the "Associativity::Both" printers); the parser then rotates -- see dnorm *)
Fixpoint dok_both (d : dexpr) : bool :=
  match d with
  | DAtom _ => true
  | DBin o wl l wr r =>
      dok_both l && dok_both r &&
      (negb (Nat.eqb wl 0) || (lreq o <=? dstrength l)) &&
      (negb (Nat.eqb wr 0) || (prec o <=? dstrength r))
  | DUn u w x => dok_both x && (negb (Nat.eqb w 0) || (uprec u <=? dstrength x))
  | DCall _ args => forallb (fun p => dok_both (snd p)) args
  end.

(* parser: precedence climbing with fuel; argument lists are comma-separated full expressions *)
Fixpoint parse (fuel : nat) (minp : nat) (ts : list tok) : option (expr * list tok) :=
  match fuel with
  | 0 => None
  | S f =>
    match ts with
    | TA a :: r => loop f minp (Atom a) r
    | TL :: r =>
        match parse f 0 r with
        | Some (e, TR :: r') => loop f minp e r'
        | _ => None
        end
    | TU u :: r =>
        match parse f (uprec u) r with
        | Some (x, r') => loop f minp (Un u x) r'
        | None => None
        end
    | TF fn_ :: TL :: TR :: r => loop f minp (Call fn_ []) r
    | TF fn_ :: TL :: r =>
        match pargs_parse f r with
        | Some (args, r') => loop f minp (Call fn_ args) r'
        | None => None
        end
    | _ => None
    end
  end
with loop (fuel : nat) (minp : nat) (lhs : expr) (ts : list tok) {struct fuel}
  : option (expr * list tok) :=
  match fuel with
  | 0 => None
  | S f =>
    match ts with
    | TO o :: r =>
        if minp <=? prec o then
          match parse f (rreq o) r with
          | Some (rhs, r') => loop f minp (Bin o lhs rhs) r'
          | None => None
          end
        else Some (lhs, ts)
    | _ => Some (lhs, ts)
    end
  end
with pargs_parse (fuel : nat) (ts : list tok) {struct fuel} : option (list expr * list tok) :=
  match fuel with
  | 0 => None
  | S f =>
    match parse f 0 ts with
    | Some (a, TC :: r) =>
        match pargs_parse f r with
        | Some (rest, r') => Some (a :: rest, r')
        | None => None
        end
    | Some (a, TR :: r) => Some ([a], r)
    | _ => None
    end
  end.

(* ---- policies that look at the child's top operator only (what real printers do) ---- *)
Inductive head := HAtom | HBin (o : op) | HUn (u : uop) | HCall.
Definition head_of (e : expr) : head :=
  match e with Atom _ => HAtom | Bin o _ _ => HBin o | Un u _ => HUn u | Call _ _ => HCall end.
Definition hstrength (h : head) : nat :=
  match h with HAtom | HCall => INF | HBin o => prec o | HUn u => uprec u end.

Record policy := { pwrapL : op -> head -> bool; pwrapR : op -> head -> bool; pwrapU : uop -> head -> bool }.
Definition b2n (b : bool) : nat := if b then 1 else 0.

Fixpoint decorate (P : policy) (e : expr) : dexpr :=
  match e with
  | Atom a => DAtom a
  | Bin o l r => DBin o (b2n (pwrapL P o (head_of l))) (decorate P l) (b2n (pwrapR P o (head_of r))) (decorate P r)
  | Un u x => DUn u (b2n (pwrapU P u (head_of x))) (decorate P x)
  | Call f args => DCall f (map (fun a => (0, decorate P a)) args)
  end.
Definition print (P : policy) (e : expr) : list tok := dprint (decorate P e).

(* the decidable side condition: finite, over the listed operators *)
Definition heads (ops : list op) (uops : list uop) : list head :=
  HAtom :: HCall :: map HBin ops ++ map HUn uops.
Definition table_ok (ops : list op) (uops : list uop) : bool :=
  forallb (fun o => (S (prec o) <? INF) &&
                    forallb (fun o2 => negb (prec o =? prec o2) || Bool.eqb (rassoc o) (rassoc o2)) ops) ops &&
  forallb (fun u => (uprec u <? INF) && forallb (fun o => negb (uprec u =? prec o)) ops) uops.
Definition policy_ok (ops : list op) (uops : list uop) (P : policy) : bool :=
  forallb (fun h =>
    forallb (fun o => (pwrapL P o h || (lreq o <=? hstrength h)) &&
                      (pwrapR P o h || (rreq o <=? hstrength h))) ops &&
    forallb (fun u => pwrapU P u h || (uprec u <=? hstrength h)) uops) (heads ops uops).
Definition compat (ops : list op) (uops : list uop) (P : policy) : bool :=
  table_ok ops uops && policy_ok ops uops P.

(* the canonical (minimal) policy of a table *)
Definition canon_policy : policy :=
  {| pwrapL := fun o h => hstrength h <? lreq o;
     pwrapR := fun o h => hstrength h <? rreq o;
     pwrapU := fun u h => hstrength h <? uprec u |}.

(* ---- the "Both" layer: rotation performed by a left-associative parser ---- *)
Fixpoint dattach (o : op) (wl : nat) (l r : dexpr) : dexpr :=
  match r with
  | DBin o2 wl2 a wr2 b =>
      if prec o2 =? prec o then
        DBin o2 0 (match wl2 with O => dattach o wl l a | S _ => DBin o wl l wl2 a end) wr2 b
      else DBin o wl l 0 r
  | _ => DBin o wl l 0 r
  end.

Fixpoint dnorm (d : dexpr) : dexpr :=
  match d with
  | DAtom a => DAtom a
  | DBin o wl l wr r =>
      let l' := dnorm l in let r' := dnorm r in
      if (wr =? 0) && (dstrength r' =? prec o) && negb (rassoc o) then dattach o wl l' r' else DBin o wl l' wr r'
  | DUn u w x => DUn u w (dnorm x)
  | DCall f args => DCall f (map (fun p => (fst p, dnorm (snd p))) args)
  end.

(* which (parent, child) operator pairs are rotated, i.e. which algebraic laws normalisation uses *)
Fixpoint spine_pairs (o : op) (r : dexpr) : list (op * op) :=
  match r with
  | DBin o2 wl2 a _ _ =>
      if prec o2 =? prec o then (o, o2) :: (match wl2 with O => spine_pairs o a | S _ => [] end) else []
  | _ => []
  end.
Fixpoint rot_pairs (d : dexpr) : list (op * op) :=
  match d with
  | DAtom _ => []
  | DBin o wl l wr r =>
      rot_pairs l ++ rot_pairs r ++
      (if (wr =? 0) && (dstrength (dnorm r) =? prec o) && negb (rassoc o) then spine_pairs o (dnorm r) else [])
  | DUn _ _ x => rot_pairs x
  | DCall _ args => flat_map (fun p => rot_pairs (snd p)) args
  end.

End Pratt.

(* values of trees, for any interpretation of the operators *)
Section Eval.
Variable op uop atom fn V : Type.
Variable ev : op -> V -> V -> V.
Variable evu : uop -> V -> V.
Variable eva : atom -> V.
Variable evf : fn -> list V -> V.
Fixpoint eval (e : expr op uop atom fn) : V :=
  match e with
  | Atom _ _ _ _ a => eva a
  | Bin _ _ _ _ o l r => ev o (eval l) (eval r)
  | Un _ _ _ _ u x => evu u (eval x)
  | Call _ _ _ _ f args => evf f (map eval args)
  end.
End Eval.

Arguments TA {op uop atom fn}. Arguments TO {op uop atom fn}. Arguments TU {op uop atom fn}.
Arguments TF {op uop atom fn}. Arguments TL {op uop atom fn}. Arguments TR {op uop atom fn}.
Arguments TC {op uop atom fn}.
Arguments Atom {op uop atom fn}. Arguments Bin {op uop atom fn}. Arguments Un {op uop atom fn}.
Arguments Call {op uop atom fn}.
Arguments DAtom {op uop atom fn}. Arguments DBin {op uop atom fn}. Arguments DUn {op uop atom fn}.
Arguments DCall {op uop atom fn}.
Arguments erase {op uop atom fn}. Arguments wrap {op uop atom fn}.
Arguments HAtom {op uop}. Arguments HBin {op uop}. Arguments HUn {op uop}. Arguments HCall {op uop}.
Arguments head_of {op uop atom fn}.
Arguments Build_policy {op uop}. Arguments pwrapL {op uop}. Arguments pwrapR {op uop}. Arguments pwrapU {op uop}.

(* C14 -- the tables of Gen/GenCodegen.v (regenerated from /repo on every run) packaged as the parameters of
   Model/Fmt.v (formatter), Model/FmtPratt.v (parser) and the renderer. *)
From Coq Require Import List NArith Bool Arith.
From PV Require Import Lib.ListX Model.FmtLit Model.FmtPratt Model.Fmt Model.FmtTy Model.FmtStmt Gen.GenCodegen.
Import ListNotations.
Local Open Scope N_scope.

Definition nbin : nat := length GenCodegen.bin_names.
Definition nun : nat := length GenCodegen.un_names.

(* symbol table: the distinct operator spellings; a symbol is its index *)
Fixpoint add_new (l : list str) (acc : list str) : list str :=
  match l with
  | [] => acc
  | s :: t => add_new t (if existsb (leqb s) acc then acc else acc ++ [s])
  end.
Definition symtab : list str := add_new (GenCodegen.bin_text ++ GenCodegen.un_text ++ map fst GenCodegen.par_bin ++ map fst GenCodegen.par_un) [].
Definition sym_index (s : str) : nat := match find_index s symtab with Some i => i | None => length symtab end.

Definition pos_of (n : N) : position := if n =? 1 then PLeft else if n =? 2 then PRight else PUnspec.

Definition F_prql : ftab := {|
  bs_bin := fun o => nth o GenCodegen.fmt_bin_strength GenCodegen.fmt_other_strength;
  as_bin := fun o => pos_of (nth o GenCodegen.fmt_bin_assoc 0);
  bs_un := GenCodegen.fmt_unary_strength;
  bs_rng := GenCodegen.fmt_range_strength;
  bs_call := GenCodegen.fmt_call_strength;
  bs_func := GenCodegen.fmt_func_strength;
  bs_other := GenCodegen.fmt_other_strength;
  cbl := fun u => nth u GenCodegen.fmt_can_bind_left false;
  sym_bin := fun o => sym_index (nth o GenCodegen.bin_text []);
  sym_un := fun u => sym_index (nth u GenCodegen.un_text []);
  annot_ctx := GenCodegen.fmt_annotation_ctx;
  alias_ctx := GenCodegen.fmt_alias_ctx;
  noalias_ctx := GenCodegen.fmt_noalias_ctx;
  case_ctx := GenCodegen.fmt_case_ctx;
  default_ctx := GenCodegen.fmt_lambda_default_ctx;
  body_ctx := GenCodegen.fmt_lambda_body_ctx;
|}.

Fixpoint lookup_sym (s : str) (l : list (str * nat)) : option nat :=
  match l with
  | [] => None
  | (t, o) :: r => if leqb s t then Some o else lookup_sym s r
  end.

Definition level (o : nat) : nat := N.to_nat (nth o GenCodegen.par_level 0).
Definition rassoc (o : nat) : bool := nth o GenCodegen.par_rassoc false.

Definition P_prql : ptab := {|
  lbp := fun o => (2 * level o + (if rassoc o then 1 else 0))%nat;
  rbp := fun o => (2 * level o + (if rassoc o then 0 else 1))%nat;
  bin_of_sym := fun s => match nth_error symtab s with Some t => lookup_sym t GenCodegen.par_bin | None => None end;
  un_of_sym := fun s => match nth_error symtab s with Some t => lookup_sym t GenCodegen.par_un | None => None end;
|}.

Definition I_prql : idtab := {|
  it_fmt_keywords := GenCodegen.fmt_keywords;
  it_fmt_start := GenCodegen.fmt_ident_start;
  it_fmt_rest := GenCodegen.fmt_ident_rest;
  it_disp_start := GenCodegen.disp_ident_start;
  it_disp_rest := GenCodegen.disp_ident_rest;
  it_disp_reserved := GenCodegen.disp_reserved;
  it_lex_keywords := GenCodegen.lex_keywords;
|}.

Definition R_prql : ttab := {| sym_text := fun s => nth s symtab []; ids := I_prql |}.

Definition fmt_text (e : expr) : str := render R_prql (fmt_top F_prql e).
Definition fmt_toks (e : expr) : list tok := fmt_top F_prql e.
Definition parse_prql (fuel : nat) (ts : list tok) : option expr := parse P_prql fuel ts.

(* an annotation expression (`@expr`, Stmt::write) is written at context strength >= fmt_annotation_ctx, position
   Unspecified, nothing unbound; the parser reads it with `expr()` *)
Definition fmt_annotation_toks (e : expr) : list tok := fmt F_prql e (annot_ctx F_prql, PUnspec, false).
Definition parse_expr_prql (fuel : nat) (ts : list tok) : option expr := parse_expr P_prql fuel ts.

(* whole programs *)
Definition fmt_prog_toks (ss : list stmt) : list tok := fmt_prog F_prql ss.
Definition fmt_prog_text (ss : list stmt) : str := render R_prql (fmt_prog F_prql ss).
Definition parse_prog_prql (fuel : nat) (ts : list tok) : option (list stmt) := parse_prog P_prql fuel ts.

(* type expressions *)
Definition fmt_ty_text (t : ty) : str := render R_prql (fmt_ty t).

(* C14 -- printing of literals and identifiers by the formatter, and the small lexers they must round-trip through.
     printers:  lexer/lr.rs  `impl Display for Literal`, quote_string, escape_all_except_quotes (= char::escape_default
                except for the two quote characters);  codegen/ast.rs write_ident_part;  parser/pr/ident.rs
                display_ident_part;  codegen/ast.rs display_interpolation
     lexers:    lexer/mod.rs multi_quoted_string + parse_escape_sequence (strings), number() (ints / floats),
                ident_part + keyword + boolean/null with end_expr (words)
   Strings are lists of code points.  Executable definitions only. *)
From Coq Require Import List NArith ZArith Bool Arith.
From PV Require Import Lib.ListX.
Import ListNotations.
Local Open Scope N_scope.

(* ------------------------------------------------------------------ characters *)
Definition c_dquote : N := 34.
Definition c_squote : N := 39.
Definition c_bslash : N := 92.
Definition c_backtick : N := 96.
Definition c_dot : N := 46.
Definition c_lbrace : N := 123.
Definition c_rbrace : N := 125.
Definition c_u : N := 117.
Definition c_zero : N := 48.
Definition c_minus : N := 45.
Definition c_underscore : N := 95.

Definition in_range (c lo hi : N) : bool := (lo <=? c) && (c <=? hi).
Definition in_ranges (rs : list (N * N)) (c : N) : bool := existsb (fun r => in_range c (fst r) (snd r)) rs.
Definition is_digit (c : N) : bool := in_range c 48 57.
Definition is_quote (c : N) : bool := (c =? c_dquote) || (c =? c_squote).

(* ------------------------------------------------------------------ numbers -> text *)
(* decimal digits of n, most significant first; `fuel` >= number of digits (size in bits is enough) *)
Fixpoint digits_fuel (fuel : nat) (n : N) (acc : str) : str :=
  match fuel with
  | O => acc
  | S f => let acc' := (c_zero + n mod 10) :: acc in
           if n / 10 =? 0 then acc' else digits_fuel f (n / 10) acc'
  end.
Definition show_N (n : N) : str := digits_fuel (S (N.size_nat n)) n [].
Definition show_Z (z : Z) : str :=
  match z with
  | Z0 => show_N 0
  | Zpos p => show_N (Npos p)
  | Zneg p => c_minus :: show_N (Npos p)
  end.

Definition hex_digit (d : N) : N := if d <? 10 then c_zero + d else 87 + d.  (* 'a' = 97 *)
Fixpoint hex_fuel (fuel : nat) (n : N) (acc : str) : str :=
  match fuel with
  | O => acc
  | S f => let acc' := hex_digit (n mod 16) :: acc in
           if n / 16 =? 0 then acc' else hex_fuel f (n / 16) acc'
  end.
Definition show_hex (n : N) : str := hex_fuel (S (N.size_nat n)) n [].

(* ------------------------------------------------------------------ strings *)
(* char::escape_default *)
Definition escape_default (c : N) : str :=
  if c =? 9 then [c_bslash; 116]            (* \t *)
  else if c =? 13 then [c_bslash; 114]      (* \r *)
  else if c =? 10 then [c_bslash; 110]      (* \n *)
  else if c =? c_bslash then [c_bslash; c_bslash]
  else if c =? c_squote then [c_bslash; c_squote]
  else if c =? c_dquote then [c_bslash; c_dquote]
  else if in_range c 32 126 then [c]
  else c_bslash :: c_u :: c_lbrace :: show_hex c ++ [c_rbrace].

Definition escape_char (c : N) : str := if is_quote c then [c] else escape_default c.
Definition escape_all_except_quotes (s : str) : str := flat_map escape_char s.

Definition contains (c : N) (s : str) : bool := existsb (N.eqb c) s.
Definition starts_with (c : N) (s : str) : bool := match s with x :: _ => x =? c | [] => false end.
Definition ends_with (c : N) (s : str) : bool := match rev s with x :: _ => x =? c | [] => false end.

(* longest run of q in s *)
Fixpoint max_run_aux (q : N) (s : str) (cur best : nat) : nat :=
  match s with
  | [] => Nat.max cur best
  | c :: t => if c =? q then max_run_aux q t (S cur) best else max_run_aux q t O (Nat.max cur best)
  end.
Definition max_run (q : N) (s : str) : nat := max_run_aux q s O O.
Definition next_odd (n : nat) : nat := (Nat.div2 (S n)) * 2 + 1.   (* n.div_ceil(2) * 2 + 1 *)

(* `s.replace` of every double quote by backslash double-quote *)
Definition escape_dquotes (s : str) : str := flat_map (fun c => if c =? c_dquote then [c_bslash; c_dquote] else [c]) s.

Definition quote_string (s : str) : str :=
  if negb (contains c_dquote s) then c_dquote :: s ++ [c_dquote]
  else if negb (contains c_squote s) then c_squote :: s ++ [c_squote]
  else
    let q := if starts_with c_dquote s || ends_with c_dquote s then c_squote else c_dquote in
    if starts_with q s || ends_with q s then
      (* no odd run of either quote can delimit this content: the double quotes are escaped instead *)
      c_dquote :: escape_dquotes s ++ [c_dquote]
    else
      let d := repeat q (next_odd (max_run q s)) in
      d ++ s ++ d.

Definition fmt_string (s : str) : str := quote_string (escape_all_except_quotes s).

(* both quotes occur and the quote that would be chosen as delimiter starts or ends the content
   (before commit 5e36fe1 this was a defect class; now it selects the escaping branch) *)
Definition quote_edge (s : str) : bool :=
  contains c_dquote s && contains c_squote s &&
  (let q := if starts_with c_dquote s || ends_with c_dquote s then c_squote else c_dquote in
   starts_with q s || ends_with q s).

(* ---- the string lexer: multi_quoted_string(quote, escaping = true) *)
Definition is_hex (c : N) : bool := is_digit c || in_range c 97 102 || in_range c 65 70.
Definition hex_val (c : N) : N := if is_digit c then c - 48 else if in_range c 97 102 then c - 87 else c - 55.

(* \u{...}: up to 6 hex digits, then an optional `}` *)
Fixpoint lex_u_digits (fuel : nat) (s : str) (acc : N) (n : nat) : N * str :=
  match fuel with
  | O => (acc, s)
  | S f =>
    match s with
    | c :: t =>
        if c =? c_rbrace then (acc, t)
        else if is_hex c && (n <? 6)%nat then lex_u_digits f t (acc * 16 + hex_val c) (S n)
        else (acc, s)
    | [] => (acc, s)
    end
  end.

(* parse_escape_sequence, called after a backslash; returns the character and the rest.
   char::from_u32 failures (surrogates, > 0x10FFFF) give U+FFFD *)
Definition valid_scalar (n : N) : bool := (n <? 55296) || ((57343 <? n) && (n <? 1114112)).
Definition lex_escape (q : N) (s : str) : N * str :=
  match s with
  | [] => (c_bslash, [])
  | c :: t =>
      if c =? c_bslash then (c_bslash, t)
      else if c =? 47 then (47, t)
      else if c =? 98 then (8, t)
      else if c =? 102 then (12, t)
      else if c =? 110 then (10, t)
      else if c =? 114 then (13, t)
      else if c =? 116 then (9, t)
      else if (c =? c_u) && starts_with c_lbrace t then
        let '(v, r) := lex_u_digits 8 (tl t) 0 O in
        ((if valid_scalar v then v else 65533), r)
      else if c =? 120 then
        match t with
        | h1 :: h2 :: r => if is_hex h1 && is_hex h2 then (hex_val h1 * 16 + hex_val h2, r)
                           else if is_hex h1 then (c, h2 :: r)   (* one digit consumed, not two: keeps the x *)
                           else (c, t)
        | _ => (c, t)
        end
      else (c, t)
  end.

Fixpoint count_prefix (q : N) (s : str) : nat :=
  match s with c :: t => if c =? q then S (count_prefix q t) else O | [] => O end.

(* content loop: at each position first try to match the closing delimiter of n quotes *)
Fixpoint lex_content (fuel : nat) (q : N) (n : nat) (s : str) (acc : str) : option (str * str) :=
  match fuel with
  | O => None
  | S f =>
    if (n <=? count_prefix q s)%nat then Some (rev acc, skipn n s)
    else match s with
         | [] => None
         | c :: t =>
             if c =? c_bslash then let '(ch, r) := lex_escape q t in lex_content f q n r (ch :: acc)
             else lex_content f q n t (c :: acc)
         end
  end.

Definition lex_quoted (q : N) (s : str) : option (str * str) :=
  let n := count_prefix q s in
  if (n =? 0)%nat then None
  else if Nat.even n then Some ([], skipn n s)
  else lex_content (S (length s)) q n (skipn n s) [].

(* quoted_string: double quotes first, then single *)
Definition lex_string (s : str) : option (str * str) :=
  match lex_quoted c_dquote s with
  | Some r => Some r
  | None => lex_quoted c_squote s
  end.

(* raw strings: r then a quote, content without quotes / newlines, then a quote *)
Definition raw_ok (c : N) : bool := negb (is_quote c) && negb (c =? 10) && negb (c =? 13).
Fixpoint take_while (p : N -> bool) (s : str) : str * str :=
  match s with
  | c :: t => if p c then let '(a, b) := take_while p t in (c :: a, b) else ([], s)
  | [] => ([], [])
  end.
Definition lex_raw (s : str) : option (str * str) :=
  match s with
  | r :: q :: t =>
      if (r =? 114) && is_quote q then
        let '(body, rest) := take_while raw_ok t in
        match rest with
        | q2 :: rest' => if is_quote q2 then Some (body, rest') else None
        | [] => None
        end
      else None
  | _ => None
  end.
Definition fmt_raw (s : str) : str := 114 :: quote_string s.

(* ------------------------------------------------------------------ floats *)
(* A float value is modelled by its shortest round-tripping decimal: m * 10^e with m not divisible by 10
   (Rust's Display prints exactly those digits, positionally, never with an exponent), or an infinity. *)
Inductive flt := FFin (m : N) (e : Z) | FInf | FNan.

Definition zeros (n : nat) : str := repeat c_zero n.
Definition fmt_float (f : flt) : str :=
  match f with
  | FInf => [105; 110; 102]          (* inf *)
  | FNan => [78; 97; 78]             (* NaN *)
  | FFin m e =>
      let ds := show_N m in
      match e with
      | Z0 => ds
      | Zpos p => ds ++ zeros (Pos.to_nat p)
      | Zneg p =>
          let k := Pos.to_nat p in
          let n := length ds in
          if (k <? n)%nat then firstn (n - k) ds ++ c_dot :: skipn (n - k) ds
          else c_zero :: c_dot :: zeros (k - n) ++ ds
      end
  end.

(* ---- the number lexer: integer part, optional `.` digits, optional exponent; underscores dropped;
        the text is parsed as i64 first, then as f64 *)
Inductive numlit := NInt (z : N) | NFloat (f : flt).

Definition is_digit_or_us (c : N) : bool := is_digit c || (c =? c_underscore).
Fixpoint digits_val (s : str) (acc : N) : N :=
  match s with
  | c :: t => if is_digit c then digits_val t (acc * 10 + (c - 48)) else digits_val t acc   (* underscores skipped *)
  | [] => acc
  end.
Definition count_digits (s : str) : nat := length (filter is_digit s).

(* strip trailing zeros of a mantissa, adjusting the exponent: the canonical (m, e) of a decimal *)
Fixpoint norm_dec (fuel : nat) (m : N) (e : Z) : flt :=
  match fuel with
  | O => FFin m e
  | S f => if m =? 0 then FFin 0 0
           else if m mod 10 =? 0 then norm_dec f (m / 10) (e + 1)%Z else FFin m e
  end.

Definition i64_max : N := 9223372036854775807.

(* parse_integer: a non-zero digit followed by digits/underscores, or a single 0 *)
Definition lex_int_part (s : str) : option (str * str) :=
  match s with
  | c :: t =>
      if is_digit c && negb (c =? c_zero) then let '(a, b) := take_while is_digit_or_us t in Some (c :: a, b)
      else if c =? c_zero then Some ([c], t)
      else None
  | [] => None
  end.
Definition lex_frac (s : str) : str * str :=
  match s with
  | d :: c :: t => if (d =? c_dot) && is_digit c then let '(a, b) := take_while is_digit_or_us t in (c :: a, b) else ([], s)
  | _ => ([], s)
  end.
Definition lex_exp (s : str) : option (bool * str) * str :=
  match s with
  | e :: t =>
      if (e =? 101) || (e =? 69) then
        let '(neg, t1) := match t with sg :: t' => if sg =? c_minus then (true, t') else if sg =? 43 then (false, t') else (false, t) | [] => (false, t) end in
        let '(ds, r) := take_while is_digit t1 in
        match ds with [] => (None, s) | _ => (Some (neg, ds), r) end
      else (None, s)
  | [] => (None, s)
  end.

(* Overflow to infinity (text above f64::MAX) is not modelled in this lexer: a finite f64 never prints such a text.
   `FInf` exists as a value because the lexer produces it from sources like 1e400. *)
Definition lex_number (s : str) : option (numlit * str) :=
  match lex_int_part s with
  | None => None
  | Some (ip, r1) =>
      let '(fp, r2) := lex_frac r1 in
      let '(ex, r3) := lex_exp r2 in
      let iv := digits_val ip 0 in
      match fp, ex with
      | [], None => if iv <=? i64_max then Some (NInt iv, r3)
                    else Some (NFloat (norm_dec (S (count_digits ip)) iv 0), r3)
      | _, _ =>
          let m := digits_val (ip ++ fp) 0 in
          let e0 := (- Z.of_nat (count_digits fp))%Z in
          let e := match ex with
                   | None => e0
                   | Some (neg, ds) => let x := Z.of_N (digits_val ds 0) in if neg then (e0 - x)%Z else (e0 + x)%Z
                   end in
          Some (NFloat (norm_dec (S (count_digits (ip ++ fp))) m e), r3)
      end
  end.

(* the value is integral and fits i64: Display prints it with integer syntax *)
Definition float_prints_as_int (f : flt) : bool :=
  match f with
  | FFin m e => (0 <=? e)%Z && (m * 10 ^ Z.to_N e <=? i64_max)
  | _ => false
  end.
Definition float_known (f : flt) : bool :=
  match f with FFin _ _ => float_prints_as_int f | _ => true end.
(* well-formed finite float of the model: canonical decimal (no trailing zero in the mantissa; zero is (0, 0)) *)
Definition flt_wf (f : flt) : bool :=
  match f with
  | FFin m e => if m =? 0 then (e =? 0)%Z else negb (m mod 10 =? 0)
  | _ => true
  end.

(* ------------------------------------------------------------------ identifiers *)
Record idtab := {
  it_fmt_keywords : list str;          (* codegen/ast.rs keywords() *)
  it_fmt_start : list (N * N);         (* valid_prql_ident classes *)
  it_fmt_rest : list (N * N);
  it_disp_start : list (N * N);        (* display_ident_part classes *)
  it_disp_rest : list (N * N);
  it_disp_reserved : list str;         (* display_ident_part RESERVED *)
  it_lex_keywords : list str;          (* lexer keyword() *)
}.

Definition bt (s : str) : str := c_backtick :: s ++ [c_backtick].

(* since commit 328740d the regex has no wildcard alternative: a name spelled `*` keeps its backticks *)
Definition valid_prql_ident (T : idtab) (s : str) : bool :=
  match s with
  | c :: t => in_ranges (it_fmt_start T) c && forallb (in_ranges (it_fmt_rest T)) t
  | [] => false
  end.
Definition write_ident_part (T : idtab) (s : str) : str :=
  if valid_prql_ident T s && negb (existsb (leqb s) (it_fmt_keywords T)) then s else bt s.

Definition display_ident_part (T : idtab) (s : str) : str :=
  match s with
  | [] => bt s
  | c :: t => if in_ranges (it_disp_start T) c && forallb (in_ranges (it_disp_rest T)) t
                 && negb (existsb (leqb s) (it_disp_reserved T)) then s else bt s
  end.

Fixpoint join_dot (parts : list str) : str :=
  match parts with
  | [] => []
  | [p] => p
  | p :: t => p ++ c_dot :: join_dot t
  end.
Definition display_ident (T : idtab) (path : list str) : str := join_dot (map (display_ident_part T) path).
Definition write_ident (T : idtab) (path : list str) : str := join_dot (map (write_ident_part T) path).

(* ---- the word lexer: what one printed identifier part lexes back to.
   Order in lexer token(): ... literal() (boolean, null with end_expr) , keyword() (with end_expr), ident_part().
   Unicode classes are parameters (Rust char::is_alphabetic / is_alphanumeric). *)
Inductive word := WIdent (s : str) | WKeyword (s : str) | WBool (b : bool) | WNull.

Section Words.
  Variable is_alpha is_alnum : N -> bool.

  (* end_expr: end of input, one of , ) ] } tab space > , a newline, or `..` *)
  Definition end_expr (s : str) : bool :=
    match s with
    | [] => true
    | c :: t => (c =? 44) || (c =? 41) || (c =? 93) || (c =? 125) || (c =? 9) || (c =? 32) || (c =? 62) || (c =? 10) || (c =? 13)
                || ((c =? c_dot) && starts_with c_dot t)
    end.

  Definition w_true : str := [116; 114; 117; 101].
  Definition w_false : str := [102; 97; 108; 115; 101].
  Definition w_null : str := [110; 117; 108; 108].

  Definition lex_plain (s : str) : option (str * str) :=
    match s with
    | c :: t => if is_alpha c || (c =? c_underscore)
                then let '(a, b) := take_while (fun x => is_alnum x || (x =? c_underscore)) t in Some (c :: a, b)
                else None
    | [] => None
    end.
  Definition lex_backtick (s : str) : option (str * str) :=
    match s with
    | c :: t => if c =? c_backtick then
                  let '(a, b) := take_while (fun x => negb (x =? c_backtick)) t in
                  match b with _ :: r => Some (a, r) | [] => None end
                else None
    | [] => None
    end.

  Fixpoint first_prefix (ws : list str) (s : str) : option (str * str) :=
    match ws with
    | [] => None
    | w :: t => match strip_prefix w s with
                | Some r => if end_expr r then Some (w, r) else first_prefix t s
                | None => first_prefix t s
                end
    end.

  Definition try_word (w s : str) : option str :=
    match strip_prefix w s with
    | Some r => if end_expr r then Some r else None
    | None => None
    end.

  Definition lex_word (T : idtab) (s : str) : option (word * str) :=
    match try_word w_true s with Some r => Some (WBool true, r) | None =>
    match try_word w_false s with Some r => Some (WBool false, r) | None =>
    match try_word w_null s with Some r => Some (WNull, r) | None =>
    match first_prefix (it_lex_keywords T) s with Some (w, r) => Some (WKeyword w, r) | None =>
    match lex_plain s with Some (a, r) => Some (WIdent a, r) | None =>
    match lex_backtick s with Some (a, r) => Some (WIdent a, r) | None => None
    end end end end end end.
End Words.

(* C05: model of sql/gen_projection.rs deduplicate_select_items.  Identifiers are interned as numbers.
   Inputs/outputs of every real call are observed through the cfg(prqlc_verif) hook and compared with
   this model on every run.  Definitions only. *)
From Coq Require Import List Bool Arith.
Import ListNotations.

Inductive sitem :=
| ICompound (ids : list nat)     (* UnnamedExpr(CompoundIdentifier [a; b; ..]) *)
| IAlias (a : nat)               (* ExprWithAlias { alias } *)
| IOther.                        (* anything else: always retained *)

Definition dmem (x : nat) (s : list nat) : bool := existsb (Nat.eqb x) s.

(* `idents.iter().any(|ident| seen.insert(ident))`: walks the parts until the first NEW one, which it inserts *)
Fixpoint insert_until_new (seen : list nat) (ids : list nat) : list nat * bool :=
  match ids with
  | [] => (seen, false)
  | i :: r => if dmem i seen then insert_until_new seen r else (i :: seen, true)
  end.

Fixpoint dedup (seen : list nat) (items : list sitem) : list sitem :=
  match items with
  | [] => []
  | ICompound ids :: r =>
      let '(seen', keep) := insert_until_new seen ids in
      if keep then ICompound ids :: dedup seen' r else dedup seen' r
  | IAlias a :: r =>
      if dmem a seen then dedup seen r else IAlias a :: dedup (a :: seen) r
  | IOther :: r => IOther :: dedup seen r
  end.

(* every identifier part / alias occurring in a list of items *)
Definition parts (it : sitem) : list nat := match it with ICompound ids => ids | IAlias a => [a] | IOther => [] end.
Definition all_parts (items : list sitem) : list nat := flat_map parts items.

(* an item brings something new relative to a set of names *)
Definition fresh_wrt (s : list nat) (it : sitem) : bool :=
  match it with
  | ICompound ids => existsb (fun i => negb (dmem i s)) ids
  | IAlias a => negb (dmem a s)
  | IOther => true
  end.

Fixpoint all_fresh (s : list nat) (items : list sitem) : bool :=
  match items with
  | [] => true
  | it :: r => fresh_wrt s it && all_fresh (parts it ++ s) r
  end.

(* the same walk, returning which items are kept (so that a caller can apply the decision to its own, richer items) *)
Fixpoint dedup_flags (seen : list nat) (items : list sitem) : list bool :=
  match items with
  | [] => []
  | ICompound ids :: r => let '(seen', keep) := insert_until_new seen ids in keep :: dedup_flags seen' r
  | IAlias a :: r => if dmem a seen then false :: dedup_flags seen r else true :: dedup_flags (a :: seen) r
  | IOther :: r => true :: dedup_flags seen r
  end.

Fixpoint select_flags {A} (l : list A) (fl : list bool) : list A :=
  match l, fl with x :: l', b :: f' => if b then x :: select_flags l' f' else select_flags l' f' | _, _ => [] end.

(* C08 -- float literals: the decimal value of the spelling -> the text translate_literal emits -> the decimal value
   the database reads.
   translate_literal prints Literal::Float(f) with format!("{f:?}") (Rust core::fmt::float, float_to_general_debug):
     the SHORTEST decimal digit string that reads back as f, laid out
       d.ddde<x>      when f != 0 and (|f| < 1e-4 or |f| >= 1e16)      (no '+', no padding;  1e16, 2.5e-7)
       ddd.ddd        otherwise, with at least one digit after the point  (1000.0, 0.0001, 1.5)
     (an infinite f -- a spelling such as 1e400 -- printed the word  inf  until fix 1ae3488 made it a compile error: F14).
   What is modelled here is the layout, as a function of the DECIMAL value  m * 10^e  of the literal's spelling
   (Model/Literal.v lex_number: NDec m e), taking the shortest digit string to be the digits of m without its trailing
   zeros.  That is what Rust prints whenever those digits are at most 15 (every decimal of <= 15 significant digits is
   the shortest representation of its own nearest binary64, in the normal range): the class `in_class`, on which the
   model is compared with the implementation by vplib/props/c08.py (stream float-text).  Binary rounding itself is
   not modelled; it happens after the database has read the text, identically on both sides.
   Executable definitions only; proofs in Proofs/FloatFmtProofs.v. *)
From Coq Require Import List NArith ZArith Bool.
From PV Require Import Lib.ListX Model.SqlLex Model.Literal.
Import ListNotations.
Local Open Scope N_scope.

(* ------------------------------------------------------------------ decimal values, normalised *)
(* (m, e) stands for m * 10^e; normal form: m = 0 /\ e = 0, or m not divisible by 10 *)
Fixpoint strip10 (fuel : nat) (m : N) (e : Z) : N * Z :=
  match fuel with
  | O => (m, e)
  | S f => if m =? 0 then (0, 0%Z)
           else if m mod 10 =? 0 then strip10 f (m / 10) (e + 1)%Z else (m, e)
  end.
Definition norm_dec (m : N) (e : Z) : N * Z := strip10 (S (N.to_nat (N.log2 m))) m e.

(* ------------------------------------------------------------------ writing: Rust's {:?} layout *)
Definition zeros (k : nat) : str := repeat 48 k.

(* m not divisible by 10, m <> 0 *)
Definition emit_float_norm (m : N) (e : Z) : str :=
  let D := digits_of m in
  let n := length D in
  let x := (e + Z.of_nat n - 1)%Z in                       (* scientific exponent: value = d.ddd * 10^x *)
  if (x <? -4)%Z || (16 <=? x)%Z then
    match D with
    | d0 :: r => d0 :: match r with [] => [] | _ => 46 :: r end ++ 101 :: emit_int x
    | [] => []
    end
  else if (0 <=? e)%Z then D ++ zeros (Z.to_nat e) ++ [46; 48]
  else
    let k := Z.to_nat (- e) in                            (* digits after the point *)
    if (k <? n)%nat then firstn (n - k) D ++ 46 :: skipn (n - k) D
    else 48 :: 46 :: zeros (k - n) ++ D.

Definition emit_float (m : N) (e : Z) : str :=
  if m =? 0 then [48; 46; 48] else let '(m', e') := norm_dec m e in emit_float_norm m' e'.

(* the spelling's value rounds to infinity in binary64: >= 2^1024 - 2^970 (half an ulp above f64::MAX) *)
Definition F64_OVERFLOW : N := 2 ^ 1024 - 2 ^ 970.
Definition overflows_exact (m : N) (e : Z) : bool :=
  match e with
  | Zneg p => F64_OVERFLOW * 10 ^ (Npos p) <=? m
  | _ => F64_OVERFLOW <=? m * 10 ^ (Z.to_N e)
  end.
(* the bound has 309 digits: decided by the number of digits of the value wherever that is enough (1e999999 is not
   expanded), exactly otherwise *)
Definition overflows (m : N) (e : Z) : bool :=
  if m =? 0 then false else
  let top := (Z.of_nat (length (digits_of m)) + e)%Z in     (* 10^(top-1) <= m * 10^e < 10^top *)
  if (310 <? top)%Z then true else if (top <? 309)%Z then false else overflows_exact m e.
Definition s_inf : str := [105; 110; 102].      (* what {:?} prints for an infinite float -- emitted before fix 1ae3488 (finding F14) *)
(* what translate_literal emits for the float literal whose spelling denotes m * 10^e; None: the compile error
   "float literal is out of range" (since fix 1ae3488 a value that rounds to infinity is rejected) *)
Definition emit_float_rust (m : N) (e : Z) : option str := if overflows m e then None else Some (emit_float m e).

(* the class on which "shortest digits = the spelling's digits" holds: at most 15 significant digits, normal range *)
Definition in_class (m : N) (e : Z) : bool :=
  (m =? 0) ||
  let '(m', e') := norm_dec m e in
  let n := length (digits_of m') in
  let x := (e' + Z.of_nat n - 1)%Z in
  (n <=? 15)%nat && (-300 <=? x)%Z && (x <=? 300)%Z.

(* ------------------------------------------------------------------ reading: the decimal value of a SQL number text *)
(* digits [ . digits ] [ (e|E) [+|-] digits ]  -- SQLite's, and every SQL dialect's, decimal literal *)
Definition sql_frac (r1 : str) : str * str :=
  match r1 with
  | c :: r => if c =? 46 then span_p is_digit r else ([], r1)
  | [] => ([], r1)
  end.
Definition sql_exp (r2 : str) : option Z * str :=
  match r2 with
  | c :: r =>
      if (c =? 101) || (c =? 69) then
        let '(neg, r') := match r with
                          | s :: q => if s =? 45 then (true, q) else if s =? 43 then (false, q) else (false, r)
                          | [] => (false, r) end in
        let '(ds, r'') := span_p is_digit r' in
        match ds with
        | [] => (None, r2)
        | _ => (Some (let v := Z.of_N (base_value 10 ds) in if neg then Z.opp v else v), r'')
        end
      else (None, r2)
  | [] => (None, r2)
  end.
Definition sql_number_value (t : str) : option (N * Z) :=
  let '(ip, r1) := span_p is_digit t in
  match ip with
  | [] => None
  | _ =>
      let '(fp, r2) := sql_frac r1 in
      let '(ex, r3) := sql_exp r2 in
      match r3 with
      | [] => let x := match ex with Some v => v | None => 0%Z end in
              Some (norm_dec (base_value 10 (ip ++ fp)) (x - Z.of_nat (length fp))%Z)
      | _ => None
      end
  end.

(* plain-data view for the correspondence harness *)
Definition emit_float_view (m : N) (sg : bool) (mag : N) : bool * option str :=
  let e := if sg then Z.opp (Z.of_N mag) else Z.of_N mag in (in_class m e, emit_float_rust m e).

(* the lexer's post-pass (lex_source / lex_source_recovery, fix d8fda67): a number literal whose binary64 value is not
   finite is a lexer error "number literal is out of range" *)
Definition lex_literal_checked units tbl rows (s : str) : option (lit * str) :=
  match lex_literal_u units tbl rows s with
  | Some (LFloat m e, r) => if overflows m e then None else Some (LFloat m e, r)
  | x => x
  end.
Definition lex_literal_checked_view units tbl rows (s : str) : option (N * str * (N * N) * str) :=
  match lex_literal_checked units tbl rows s with Some (l, r) => Some (lit_view l, r) | None => None end.

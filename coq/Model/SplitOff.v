(* C01 -- split_off_back (prqlc/src/sql/pq/anchor.rs): the loop that walks an RQ-level pipeline from the back and cuts off the
   longest suffix that fits into ONE SELECT, with everything it consults:
     is_split_required            -- NOT modelled here: the function translated from the source (Gen/GenSplit.v) is a parameter
     get_requirements             -- which columns a transform needs, at most how complex, and whether they must be SELECTed
     infer_complexity(_expr), can_materialize   -- the complexity lattice Plain < NonGroup < Windowed < Aggregation
     the bookkeeping of `inputs_required`, `inputs_avail`, `selected`, `missing`, and the Select lists of both halves.
   Inputs are exactly what the hook `verif:split_off_back` logs (commit 3aa4f6d): per transform its kind, whether it is a
   Super(..) transform, the column ids it mentions, and expression trees reduced to column references and the node kinds that
   decide infer_complexity_expr.  Column ids are nat.  Executable definitions only. *)
From Coq Require Import List Bool Arith.
From PV Require Import Model.SplitBase.
Import ListNotations.

(* ---- expressions as the hook logs them (children in the order of RqFold::fold_expr_kind) ---- *)
Inductive ex :=
| XCol (c : nat)
| XLeaf                      (* literal, param *)
| XCase (l : list ex) | XOp (l : list ex) | XArr (l : list ex) | XSStr (l : list ex).

Fixpoint ex_cids (e : ex) : list nat :=
  match e with
  | XCol c => [c]
  | XLeaf => []
  | XCase l | XOp l | XArr l | XSStr l => flat_map ex_cids l
  end.

Inductive cx := Plain | NonGroup | Windowed | Aggregation.
Definition cx_rank (c : cx) : nat := match c with Plain => 0 | NonGroup => 1 | Windowed => 2 | Aggregation => 3 end.
Definition cx_le (a b : cx) : bool := Nat.leb (cx_rank a) (cx_rank b).
Definition cx_max (a b : cx) : cx := if cx_le a b then b else a.
Definition cx_min (a b : cx) : cx := if cx_le a b then a else b.

(* infer_complexity_expr *)
Fixpoint cx_expr (e : ex) : cx :=
  match e with
  | XCase _ => NonGroup
  | XOp l | XArr l => fold_right (fun x acc => cx_max (cx_expr x) acc) Plain l
  | XCol _ | XLeaf | XSStr _ => Plain
  end.

Record window := mkWin { w_partition : list nat; w_sort : list nat }.
Record compute := mkCompute { c_id : nat; c_agg : bool; c_expr : ex; c_window : option window }.
(* infer_complexity *)
Definition cx_compute (c : compute) : cx :=
  match c_window c with Some _ => Windowed | None => if c_agg c then Aggregation else cx_expr (c_expr c) end.

(* ---- SqlTransform as the loop sees it ---- *)
Inductive tr :=
| TFrom (cols : list nat)
| TJoin (cols : list nat) (filter : ex)
| TCompute (c : compute)
| TAggregate (partition cids : list nat) (decls : list (option compute))   (* decls: what column_decls holds for each cid *)
| TFilter (e : ex)
| TSort (super : bool) (cids : list nat)
| TTake (range : list ex) (partition sort : list nat)
| TSelect (cids : list nat)
| TDistinct | TDistinctOn (cids : list nat)
| TUnion | TExcept | TIntersect | TLoop.

Definition kind_of (t : tr) : kind :=
  match t with
  | TFrom _ => KFrom | TJoin _ _ => KJoin
  | TCompute c => if c_agg c then KComputeAgg else KCompute
  | TAggregate _ _ _ => KAggregate | TFilter _ => KFilter | TSort _ _ => KSort
  | TTake _ _ [] => KTake | TTake _ _ (_ :: _) => KTakeSorted
  | TSelect _ => KSelect | TDistinct => KDistinct | TDistinctOn _ => KDistinctOn
  | TUnion => KUnion | TExcept => KExcept | TIntersect => KIntersect | TLoop => KLoop
  end.

(* ---- Requirements ---- *)
Record req := mkReq { r_col : nat; r_max : cx; r_sel : bool }.
Definition from_cids (cs : list nat) : list req := map (fun c => mkReq c Plain false) cs.
Definition allow_up_to (m : cx) (rs : list req) : list req := map (fun r => mkReq (r_col r) m (r_sel r)) rs.
Definition should_select (b : bool) (rs : list req) : list req := map (fun r => mkReq (r_col r) (r_max r) b) rs.
Definition is_required (rs : list req) (c : nat) : bool := existsb (fun r => Nat.eqb (r_col r) c) rs.

(* get_requirements(transform, following, previous_requirements) *)
Definition get_requirements (t : tr) (following : list nm) (prev : list req) : list req :=
  match t with
  | TAggregate partition _ _ => from_cids partition
  | TCompute c =>
      if is_required prev (c_id c) then
        let rs := allow_up_to (match cx_compute c with Plain => Aggregation | _ => Plain end) (from_cids (ex_cids (c_expr c))) in
        match c_window c with
        | Some w => rs ++ from_cids (w_partition w ++ w_sort w)
        | None => rs
        end
      else []
  | TFilter e => allow_up_to (if mem NAggregate following then Plain else Aggregation) (from_cids (ex_cids e))
  | TSort true cids => if mem NAggregate following then [] else should_select true (allow_up_to Aggregation (from_cids cids))
  | TSort false cids => if mem NAggregate following then [] else from_cids cids
  | TDistinctOn partition => allow_up_to Aggregation (from_cids partition)
  | TTake range _ sort => from_cids (flat_map ex_cids range) ++ should_select true (allow_up_to Aggregation (from_cids sort))
  | TJoin _ filter => from_cids (ex_cids filter)
  | _ => []
  end.

(* can_materialize: (complexity <= min of the max_complexities asked of this column, that min) *)
Definition can_materialize (c : compute) (rs : list req) : bool * cx :=
  let required := fold_left (fun acc r => if Nat.eqb (r_col r) (c_id c) then cx_min acc (r_max r) else acc) rs Aggregation in
  (cx_le (cx_compute c) required, required).

Fixpoint nodup_nat (l : list nat) (seen : list nat) : list nat :=
  match l with
  | [] => []
  | x :: r => if existsb (Nat.eqb x) seen then nodup_nat r seen else x :: nodup_nat r (x :: seen)
  end.

Record state := mkState { s_following : list nm; s_required : list req; s_avail : list nat; s_curr_rev : list tr }.

Inductive stop := StopTable | StopCompute | StopAggregate.    (* why the walk stopped in front of a transform *)

Section Loop.
  Variable split : kind -> list nm -> bool.
  Variable records : kind -> bool.

  (* one iteration on the transform popped from the back: the new state, and -- if the transform stays in the remaining pipeline --
     why.  A transform that the TABLE stops leaves the state untouched; one stopped because a Compute cannot be materialized
     here has already been recorded in `following` and its requirements appended (the code breaks out of the loop after that) *)
  Definition step (s : state) (t : tr) : state * option stop :=
    let k := kind_of t in
    if split k (s_following s) then (s, Some StopTable) else
    let following := if records k then as_name k :: s_following s else s_following s in
    let required := get_requirements t following (s_required s) in
    let reqs := s_required s ++ required in
    let push := match t with TSelect _ => s_curr_rev s | _ => s_curr_rev s ++ [t] end in
    match t with
    | TCompute c =>
        let '(ok, mx) := can_materialize c reqs in
        if ok then (mkState following (reqs ++ should_select false (allow_up_to mx required)) (c_id c :: s_avail s) push, None)
        else (mkState following reqs (s_avail s) (s_curr_rev s), Some StopCompute)
    | TAggregate _ _ decls =>
        if forallb (fun d => match d with Some c => fst (can_materialize c reqs) | None => true end) decls
        then (mkState following reqs (s_avail s) push, None)
        else (mkState following reqs (s_avail s) (s_curr_rev s), Some StopAggregate)
    | TFrom cols | TJoin cols _ => (mkState following reqs (rev cols ++ s_avail s) push, None)
    | _ => (mkState following reqs (s_avail s) push, None)
    end.

  (* the walk over the reversed pipeline; returns the final state, the remaining pipeline (in pipeline order) and the reason *)
  Fixpoint walk (s : state) (rev_pipeline : list tr) : state * list tr * option stop :=
    match rev_pipeline with
    | [] => (s, [], None)
    | t :: rest =>
        match step s t with
        | (s', None) => walk s' rest
        | (s', Some why) => (s', rev rev_pipeline, Some why)
        end
    end.

  Record result := mkResult {
    res_remaining_len : option nat;       (* None: the whole pipeline fitted *)
    res_missing : list nat;               (* Select appended to the remaining pipeline *)
    res_atomic : list tr;                 (* the atomic pipeline, in order, with its Select *)
    res_select : list nat;                (* that Select *)
    res_why : option stop }.

  Definition split_off_back (pipeline : list tr) (output : list nat) : result :=
    let s0 := mkState [] (should_select true (allow_up_to Aggregation (from_cids output))) [] [] in
    let '(s, remaining, why) := walk s0 (rev pipeline) in
    let selected := map r_col (filter r_sel (s_required s)) in
    let required := nodup_nat (map r_col (s_required s)) [] in
    let missing := filter (fun c => negb (existsb (Nat.eqb c) (s_avail s))) required in
    let out := fold_left (fun o c => if existsb (Nat.eqb c) o then o else o ++ [c]) selected output in
    let atomic := rev (s_curr_rev s ++ [TSelect out]) in
    mkResult (match remaining with [] => None | _ => Some (S (length remaining)) end) missing atomic out why.
End Loop.

(* C14 -- expression trees, tokens, and a predictive model of the PRQL expression parser (parser/expr.rs):
       term  ->  unary(term)  ->  range(unary)  ->  pratt(binary levels)  ->  func_call  ->  nested (alias)
   Own copy of the generic precedence-climbing development (a shared Model/Pratt.v is being built for C02
   concurrently; unification later).  The operator tables are parameters (`ptab`), instantiated from
   Gen/GenCodegen.v.  Executable definitions only. *)
From Coq Require Import List NArith Bool Arith.
From PV Require Import Lib.ListX Model.FmtLit.
Import ListNotations.

(* ------------------------------------------------------------------ atoms (opaque to the expression layer) *)
Inductive literal :=
| LNull | LInt (z : Z) | LFloat (f : flt) | LBool (b : bool) | LStr (s : str) | LRaw (s : str)
| LDate (s : str) | LTime (s : str) | LTimestamp (s : str) | LUnit (n : Z) (u : str).

(* an interpolated expression is an identifier path with an optional format specifier: {a.b:>10} *)
Inductive ipart := IStr (s : str) | IExpr (path : list str) (format : option str).

Inductive atom :=
| AIdent (path : list str)
| ALit (l : literal)
| AParam (s : str)
| AInterp (sql : bool) (parts : list ipart)     (* s"..." (true) / f"..." (false) *)
| AInternal (s : str)
| APar (s : str)                                 (* the name of a lambda parameter / declared name (a token, never an expression) *)
| APath (path : list str).                       (* the path of an import (written by Ident::write) *)

(* ------------------------------------------------------------------ expressions *)
Inductive gkind := GPipe | GTup | GArr | GCase.

(* Binary / unary operators are indices into the tables (declaration order of pr::BinOp / pr::UnOp).
   EGroup GCase holds the branches flattened: [c1; v1; c2; v2; ...].
   EAlias / ENamed model `alias = e` (an Expr with its alias field set) and a named argument `n:e`.
   EFunc ps ds b is the lambda `func p1 p2 k1:d1 k2:d2 -> b`: positional parameter names, then the parameters with a
   default value as `ENamed k d` (pr::Func keeps the two groups apart); types are outside the model. *)
Inductive expr :=
| EAtom (a : atom)
| EBin (o : nat) (l r : expr)
| EUn (u : nat) (x : expr)
| ERng (l r : expr) | ERngL (l : expr) | ERngR (r : expr) | ERng0
| ECall (f : expr) (args : list expr)
| EGroup (k : gkind) (es : list expr)
| EAlias (n : str) (e : expr)
| ENamed (n : str) (e : expr)
| EFunc (ps : list str) (ds : list expr) (b : expr).

(* statement keywords *)
Inductive kw := KLet | KModule | KImport | KInto | KType.

(* ------------------------------------------------------------------ tokens *)
(* TS s un : operator symbol s (an index into the symbol table); `un` records that the printer emitted it in
   prefix position (only used for spacing when rendering; the parser ignores it -- `-` is one token).
   TRg bl br : `..` with an operand glued on the left / right.
   TOpen GCase stands for `case [`.  TAlias n = `n =`, TNamed n = `n:`.  TFunc = `func`, TThin = `->`. *)
Inductive tok :=
| TA (a : atom)
| TS (s : nat) (un : bool)
| TRg (bl br : bool)
| TOpen (k : gkind) | TClose (k : gkind)
| TComma | TPipe | TArrow
| TAlias (n : str) | TNamed (n : str)
| TFunc | TThin
(* statement level: a line break followed by `ind` units of indentation; a statement keyword; the `@` of an annotation *)
| TNL (ind : nat) | TKw (k : kw) | TAnn
(* type expressions: `*` (a tuple field of any type), `<` and `>` around a type annotation *)
| TStar | TLt | TGt.

Definition gkind_eqb (a b : gkind) : bool :=
  match a, b with GPipe, GPipe | GTup, GTup | GArr, GArr | GCase, GCase => true | _, _ => false end.

(* ------------------------------------------------------------------ parser tables *)
Record ptab := {
  lbp : nat -> nat;                 (* chumsky pratt: left power  = 2*level (+1 if right associative) *)
  rbp : nat -> nat;                 (*                right power = 2*level (+1 if left associative)  *)
  bin_of_sym : nat -> option nat;   (* operator_pow/mul/add/compare/coalesce/and/or *)
  un_of_sym : nat -> option nat;    (* operator_unary *)
}.

Definition res (A : Type) := option (A * list tok).

Record parsers := {
  q_term : list tok -> res expr;
  q_bin : nat -> list tok -> res expr;
  q_loop : nat -> expr -> list tok -> res expr;
  q_call : list tok -> res expr;
  q_args : list tok -> res (list expr);
  q_items : gkind -> list tok -> res (list expr);
  q_params : list tok -> res (list str * list expr);
  q_lam : list tok -> res expr;
}.

Definition fail_all : parsers := {|
  q_term := fun _ => None; q_bin := fun _ _ => None; q_loop := fun _ _ _ => None;
  q_call := fun _ => None; q_args := fun _ => None; q_items := fun _ _ => None;
  q_params := fun _ => None; q_lam := fun _ => None |}.

Definition is_named (e : expr) : bool := match e with ENamed _ _ => true | _ => false end.
(* `expr.kind`: the node without its alias.  func_call with no arguments returns `name.kind` re-wrapped, so the alias
   of a parenthesised `(x = a)` is lost there; maybe_aliased: `alias.or(expr.alias)`, the outer alias wins *)
Definition unalias (e : expr) : expr := match e with EAlias _ x => x | _ => e end.
(* func_call: named arguments go to a map, positional ones keep their order *)
Definition named_first (args : list expr) : list expr :=
  filter is_named args ++ filter (fun a => negb (is_named a)) args.

Section Parser.
  Variable T : ptab.

  (* unary(term) = term | op term   (one operator, applied to a term) *)
  Definition p_unary (P : parsers) (ts : list tok) : res expr :=
    match ts with
    | TS s _ :: r =>
        match un_of_sym T s with
        | Some u => match q_term P r with Some (x, r') => Some (EUn u x, r') | None => None end
        | None => None
        end
    | _ => q_term P ts
    end.

  (* range(unary): x..y | x.. | x | ..y | ..   keyed on the bind flags of the `..` token *)
  Definition p_range (P : parsers) (ts : list tok) : res expr :=
    match ts with
    | TRg _ true :: r => match p_unary P r with Some (y, r') => Some (ERngR y, r') | None => None end
    | TRg _ false :: r => Some (ERng0, r)
    | _ =>
        match p_unary P ts with
        | Some (x, r) =>
            match r with
            | TRg true true :: r1 => match p_unary P r1 with Some (y, r2) => Some (ERng x y, r2) | None => None end
            | TRg true false :: r1 => Some (ERngL x, r1)
            | _ => Some (x, r)
            end
        | None => None
        end
    end.

  (* what may begin a positional argument (anything an `expr` can start with) *)
  Definition starts_arg (t : tok) : bool :=
    match t with
    | TA _ | TOpen _ | TRg _ _ => true
    | TS s _ => match un_of_sym T s with Some _ => true | None => false end
    | _ => false
    end.

  (* nested_expr = lambda_func | func_call   (the formatter always writes the keyword `func`) *)
  Definition p_lc (P : parsers) (ts : list tok) : res expr :=
    match ts with
    | TFunc :: r => q_lam P r
    | _ => q_call P ts
    end.

  Definition p_nested (P : parsers) (alias_ok : bool) (ts : list tok) : res expr :=
    match ts with
    | TAlias n :: r =>
        if alias_ok then match p_lc P r with Some (e, r') => Some (EAlias n e, r') | None => None end
        else None
    | _ => p_lc P ts
    end.

  (* one element of a pipeline / tuple / array / case list *)
  Definition p_item (P : parsers) (k : gkind) (ts : list tok) : res (list expr) :=
    match k with
    | GPipe | GTup => match p_nested P true ts with Some (e, r) => Some ([e], r) | None => None end
    | GArr => match p_nested P false ts with Some (e, r) => Some ([e], r) | None => None end
    | GCase =>
        match q_call P ts with
        | Some (c, TArrow :: r) => match q_call P r with Some (v, r') => Some ([c; v], r') | None => None end
        | _ => None
        end
    end.

  Definition is_sep (k : gkind) (t : tok) : bool :=
    match k, t with
    | GPipe, TPipe => true
    | GTup, TComma | GArr, TComma | GCase, TComma => true
    | _, _ => false
    end.

  Definition step (P : parsers) : parsers := {|
    q_term := fun ts =>
      match ts with
      | TA a :: r => Some (EAtom a, r)
      | TOpen k :: r =>
          match q_items P k r with
          | Some (es, r') =>
              match k, es with
              | GPipe, [e] => Some (e, r')           (* (x): a pipeline of one is the expression itself *)
              | _, _ => Some (EGroup k es, r')
              end
          | None => None
          end
      | _ => None
      end;
    q_bin := fun minp ts =>
      match p_range P ts with
      | Some (l, r) => q_loop P minp l r
      | None => None
      end;
    q_loop := fun minp lhs ts =>
      match ts with
      | TS s _ :: r =>
          match bin_of_sym T s with
          | Some o =>
              if minp <=? lbp T o then
                match q_bin P (rbp T o) r with
                | Some (rhs, r') => q_loop P minp (EBin o lhs rhs) r'
                | None => None
                end
              else Some (lhs, ts)
          | None => Some (lhs, ts)
          end
      | _ => Some (lhs, ts)
      end;
    q_call := fun ts =>
      match q_bin P 0 ts with
      | Some (f, r) =>
          match q_args P r with
          | Some ([], r') => Some (unalias f, r')
          | Some (args, r') => Some (ECall f (named_first args), r')
          | None => None
          end
      | None => None
      end;
    q_args := fun ts =>
      match ts with
      | TNamed n :: r =>
          match q_bin P 0 r with
          | Some (e, r1) => match q_args P r1 with Some (rest, r2) => Some (ENamed n e :: rest, r2) | None => None end
          | None => None
          end
      | TAlias n :: r =>
          match q_bin P 0 r with
          | Some (e, r1) => match q_args P r1 with Some (rest, r2) => Some (EAlias n (unalias e) :: rest, r2) | None => None end
          | None => None
          end
      | t :: _ =>
          if starts_arg t then
            match q_bin P 0 ts with
            | Some (e, r1) => match q_args P r1 with Some (rest, r2) => Some (e :: rest, r2) | None => None end
            | None => None
            end
          else Some ([], ts)
      | [] => Some ([], [])
      end;
    (* lambda_func: param = ident_part (`:` expr)?, repeated; then `->` and func_call as the body.  A parameter name
       is the token of a one-part identifier (APar when it comes from the formatter model). *)
    q_params := fun ts =>
      match ts with
      | TA (APar p) :: r | TA (AIdent [p]) :: r =>
          match q_params P r with Some ((ps, ds), r') => Some ((p :: ps, ds), r') | None => None end
      | TNamed k :: r =>
          match q_bin P 0 r with
          | Some (d, r1) => match q_params P r1 with Some ((ps, ds), r2) => Some ((ps, ENamed k d :: ds), r2) | None => None end
          | None => None
          end
      | _ => Some (([], []), ts)
      end;
    q_lam := fun ts =>
      match q_params P ts with
      | Some ((ps, ds), TThin :: r) =>
          match q_call P r with Some (b, r') => Some (EFunc ps ds b, r') | None => None end
      | _ => None
      end;
    q_items := fun k ts =>
      match ts with
      | TClose k' :: r =>
          (* empty list, or the closer after a trailing separator; `()` and `(a | )` are not pipelines *)
          if gkind_eqb k k' && negb (gkind_eqb k GPipe) then Some ([], r) else None
      | _ =>
          match p_item P k ts with
          | Some (es1, r1) =>
              match r1 with
              | TClose k' :: r2 => if gkind_eqb k k' then Some (es1, r2) else None
              | t :: r2 =>
                  if is_sep k t then
                    match q_items P k r2 with Some (es2, r3) => Some (es1 ++ es2, r3) | None => None end
                  else None
              | [] => None
              end
          | None => None
          end
      end |}.

  Fixpoint par (fuel : nat) : parsers :=
    match fuel with
    | O => fail_all
    | S f => step (par f)
    end.

  (* the entry used by the theorems: one tuple item / pipeline element (`alias = func_call` or func_call),
     consuming the whole input *)
  Definition parse (fuel : nat) (ts : list tok) : option expr :=
    match p_nested (par fuel) true ts with
    | Some (e, []) => Some e
    | _ => None
    end.

  (* the parser `expr()` on its own: an annotation expression (`@expr`, parser/stmt.rs), consuming the whole input *)
  Definition parse_expr (fuel : nat) (ts : list tok) : option expr :=
    match q_bin (par fuel) 0 ts with
    | Some (e, []) => Some e
    | _ => None
    end.
End Parser.

(* ------------------------------------------------------------------ well-formed trees *)
(* Shapes the parser can produce (and the printer is meant for).  An alias is a field of every pr::Expr: it survives
   on tuple items, pipeline elements and positional arguments (written bare) and -- inside parentheses -- on operands
   of binary and unary operators, range bounds, callees and named-argument values (`a + (x = b)`, `(x = f) a`,
   `f n:(x = a) b`: positions repaired by commits 95d15ad and 2a611aa).  func_call drops the alias of an expression
   that is not a call, so array items and case branches never carry one.  Named arguments only in argument lists and
   before the positional ones; calls have an argument; parenthesised pipelines have two or more elements; case lists
   are pairs.  A lambda may stand anywhere an expression may (the formatter parenthesises it everywhere but at the head
   of a list element); its default values are operands, its body is a call or any other plain expression. *)
Definition is_alias (e : expr) : bool := match e with EAlias _ _ => true | _ => false end.
Definition plain (e : expr) : bool := negb (is_alias e) && negb (is_named e).
Definition operand (e : expr) : bool := negb (is_named e).

Fixpoint named_prefix (l : list expr) : bool :=
  match l with
  | [] => true
  | a :: t => if is_named a then named_prefix t else forallb (fun x => negb (is_named x)) t
  end.

Fixpoint wf (e : expr) : bool :=
  match e with
  | EAtom _ | ERng0 => true
  | EBin _ l r => operand l && operand r && wf l && wf r
  | EUn _ x => operand x && wf x
  | ERng l r => operand l && operand r && wf l && wf r
  | ERngL l => operand l && wf l
  | ERngR r => operand r && wf r
  | ECall f args =>
      operand f && wf f && negb (match args with [] => true | _ => false end) && named_prefix args &&
      (fix go (l : list expr) : bool := match l with [] => true | a :: t => wf a && go t end) args
  | EGroup k es =>
      (match k with
       | GPipe => (2 <=? length es) && forallb (fun x => negb (is_named x)) es
       | GTup => forallb (fun x => negb (is_named x)) es
       | GArr => forallb plain es
       | GCase => Nat.even (length es) && forallb plain es
       end) &&
      (fix go (l : list expr) : bool := match l with [] => true | a :: t => wf a && go t end) es
  | EAlias _ x => plain x && wf x
  | ENamed _ x => operand x && wf x
  | EFunc _ ds b =>
      (* parameters with a default are `k:d`; the body is a func_call: no alias of its own *)
      forallb is_named ds && plain b && wf b &&
      (fix go (l : list expr) : bool := match l with [] => true | a :: t => wf a && go t end) ds
  end.

(* every operator index of the tree is one of the nb binary / nu unary operators of the tables *)
Fixpoint ops_ok (nb nu : nat) (e : expr) : bool :=
  match e with
  | EAtom _ | ERng0 => true
  | EBin o l r => (o <? nb) && ops_ok nb nu l && ops_ok nb nu r
  | EUn u x => (u <? nu) && ops_ok nb nu x
  | ERng l r => ops_ok nb nu l && ops_ok nb nu r
  | ERngL l => ops_ok nb nu l
  | ERngR r => ops_ok nb nu r
  | ECall f args => ops_ok nb nu f && (fix go (l : list expr) : bool := match l with [] => true | a :: t => ops_ok nb nu a && go t end) args
  | EGroup _ es => (fix go (l : list expr) : bool := match l with [] => true | a :: t => ops_ok nb nu a && go t end) es
  | EAlias _ x | ENamed _ x => ops_ok nb nu x
  | EFunc _ ds b => ops_ok nb nu b && (fix go (l : list expr) : bool := match l with [] => true | a :: t => ops_ok nb nu a && go t end) ds
  end.

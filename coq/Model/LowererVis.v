(* C16, clause 2 (visibility) as an invariant of the Lowerer machine.

   The machine of Model/Lowerer.v lets an operation mention every id that is in node_mapping (that is all lowering.rs
   itself enforces: lookup_cid / declare_as_column read node_mapping, which is global to the query).  Which of those ids an
   expression may mention at a given point is decided earlier, by the resolver's scoping.  Here that scoping is made a
   property of OPERATIONS: [fvis] is the set of ids visible in the pipeline under construction -- computed from the frames
   of the machine with the very function Model/RqWf.v uses for the finished pipeline ([tvis] = snd of transform_diags) --
   and [vstep] is [step] restricted to operations whose emitted transform only uses ids of that set:
        ODeclare (new Compute)   expr and window ids          within fvis
        OPush                    the transform's ids          within fvis
        OInstance / OEndInline   a Join's filter              within fvis ++ the columns of the joined instance
        OEndTable / OEndInline   the closing Select           within fvis of the pipeline being closed
        OBegin / OInstance       an s-string / built-in leaf  mentions no column id (rq_wf checks relation arguments
                                                              against the empty set)
   A loop body starts from what is visible at the Loop (FLoop frames inherit [fvis] of the frame below).
   Proofs/LowererVisProofs.v: every run of [vstep] from [init] that finishes, finishes in an RQ with rq_wf = true
   (ALL five clauses, for all operation sequences); [vstep] refines [step].
   The check replays every trace with [vstep] as well ([replay_strict_ok]): the first operation it refuses is the operation at
   which the resolver handed the Lowerer an id that is out of scope (findings F1, F6, F7), and a program whose trace replays
   strictly has a well-formed RQ by the theorem, not by inspection of the RQ.  Executable definitions only. *)
From Coq Require Import List NArith Bool.
From PV Require Import Lib.ListX Model.Rq Model.RqWf Model.Lowerer Model.RqEq Model.LowererTrace.
Import ListNotations.
Local Open Scope N_scope.

Definition subsetb (cs vis : list cid) : bool := forallb (fun c => memN c vis) cs.

(* the visible set after a transform: RqWf's own definition (its second component does not depend on the parameters) *)
Definition tvis (vis : list cid) (t : transform) : list cid := snd (transform_diags [] [] 0 [] vis t).

Fixpoint pvis (vis : list cid) (p : list transform) : list cid :=
  match p with [] => vis | a :: p' => pvis (tvis vis a) p' end.

(* every id the transform uses is visible in front of it (for a Join: in front of it or a column of the joined instance;
   for a Loop: the body, starting from what is visible at the Loop) *)
Fixpoint tvok (vis : list cid) (t : transform) : bool :=
  match t with
  | TLoop p => (fix go (v : list cid) (l : list transform) : bool :=
                  match l with [] => true | a :: l' => tvok v a && go (tvis v a) l' end) vis p
  | TJoin _ r f => subsetb (expr_cids f) (vis ++ tref_cids r)
  | _ => subsetb (transform_uses t) vis
  end.

Fixpoint pvok (vis : list cid) (p : list transform) : bool :=
  match p with [] => true | a :: p' => tvok vis a && pvok (tvis vis a) p' end.

(* what is visible in the pipeline under construction *)
Fixpoint fvis (fs : list (fkind * list transform)) : list cid :=
  match fs with
  | [] => []
  | (FLoop, p) :: rest => pvis (fvis rest) p
  | (_, p) :: _ => pvis [] p
  end.

Definition nilb {A} (l : list A) : bool := match l with [] => true | _ => false end.

Definition src_closed (x : src) : bool :=
  match x with SNewLeaf l _ => nilb (leaf_cids l) | SExisting _ => true end.

Definition top_ok (vis : list cid) (s' : lstate) : bool :=
  match top_last s' with Some t => tvok vis t | None => false end.

Definition vguard (s : lstate) (o : op) (s' : lstate) : bool :=
  match o with
  | ODeclExtern _ _ | OBeginLoop | OEndLoop => true
  | OBegin _ _ _ x => src_closed x
  | OInstance _ _ x _ => src_closed x && top_ok (fvis (frames s)) s'
  | ODeclare _ _ _ _ _ => if N.eqb (next_cid s') (next_cid s) then true else top_ok (fvis (frames s)) s'
  | OPush t => tvok (fvis (frames s)) t
  | OEndTable _ frame => subsetb (map snd frame) (fvis (frames s))
  | OEndInline _ frame _ => subsetb (map snd frame) (fvis (frames s)) && top_ok (fvis (tl (frames s))) s'
  end.

Definition vstep (s : lstate) (o : op) : option lstate :=
  match step s o with
  | Some s' => if vguard s o s' then Some s' else None
  | None => None
  end.

Fixpoint vrun (s : lstate) (ops : list op) : option lstate :=
  match ops with
  | [] => Some s
  | o :: ops' => match vstep s o with Some s' => vrun s' ops' | None => None end
  end.

(* ---- what the invariant talks about ---- *)

Definition relation_vok (r : relation) : bool :=
  match r_kind r with
  | KPipeline p => pvok [] p
  | KSString items => nilb (exprs_cids items)
  | KBuiltIn _ args => nilb (exprs_cids args)
  | _ => true
  end.

(* ---- the replay of a trace under the strict machine ---- *)

Fixpoint run_obs_strict (s : lstate) (l : list (op * list obs)) (k : nat) : lstate + nat :=
  match l with
  | [] => inl s
  | (o, bs) :: l' =>
      match vstep s o with
      | Some s' => if forallb (check_obs s s' o) bs then run_obs_strict s' l' (S k) else inr k
      | None => inr k
      end
  end.

Definition replay_strict_ok (l : list (op * list obs)) (q : rq) : bool :=
  match run_obs_strict init l 0 with
  | inl s => match finish s with Some q' => rq_eqb q' q | None => false end
  | inr _ => false
  end.

(* 0 = replays strictly; k + 1 = operation k is the first one the strict machine refuses (or that disagrees) *)
Definition replay_strict_verdict (l : list (op * list obs)) (q : rq) : N :=
  match run_obs_strict init l 0 with
  | inl s => match finish s with
             | Some q' => if rq_eqb q' q then 0 else N.of_nat (length l) + 1
             | None => N.of_nat (length l) + 1
             end
  | inr k => N.of_nat k + 1
  end.

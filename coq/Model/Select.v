(* C18: dialect selection.  Mirror of
     lib.rs            impl FromStr for Target
     sql/mod.rs        compile  (options.target passed on unchanged)
     sql/pq/gen_query.rs compile_query (option, then header `target`, then default)
   generic in the dialect table, which is regenerated from the source (Gen/GenDialect.v). *)
From Coq Require Import List NArith Bool.
From PV Require Import Lib.ListX.
Import ListNotations.
Local Open Scope N_scope.

Section Select.
  Variable names : list str.       (* strum names of the Dialect variants, in declaration order *)
  Variable default : nat.          (* index of the #[default] variant *)
  Variable prefix any : str.       (* "sql." and "any" *)

  Definition dialect := nat.       (* index into names *)

  Inductive target := TSql (d : option dialect).

  (* Dialect::from_str (strum EnumString, exact match) *)
  Definition dialect_from_str (s : str) : option dialect := find_index s names.

  (* Target::from_str; None = Err(NotFound) *)
  Definition target_from_str (s : str) : option target :=
    match strip_prefix prefix s with
    | Some d =>
        if leqb d any then Some (TSql None)
        else match dialect_from_str d with
             | Some i => Some (TSql (Some i))
             | None => None
             end
    | None => None
    end.

  Inductive res (A : Type) := Ok (a : A) | Err.
  Arguments Ok {A} a.
  Arguments Err {A}.

  (* compile_query's choice: opt = options.target's dialect, hdr = query.def.other["target"] *)
  Definition select_dialect (opt : option dialect) (hdr : option str) : res dialect :=
    match opt with
    | Some d => Ok d
    | None =>
        match hdr with
        | None => Ok default
        | Some s =>
            match target_from_str s with
            | None => Err
            | Some (TSql None) => Ok default
            | Some (TSql (Some d)) => Ok d
            end
        end
    end.

  Definition target_name (d : dialect) : str := prefix ++ nth d names [].

  (* The back end as a function of the chosen dialect and the RQ (abstract: modelled elsewhere). *)
  Variable rq sql : Type.
  Variable gen : dialect -> rq -> res sql.

  Definition compile_with (opt : option dialect) (hdr : option str) (q : rq) : res sql :=
    match select_dialect opt hdr with
    | Ok d => gen d q
    | Err => Err
    end.

  (* decidable side conditions on the table *)
  Definition table_ok : bool :=
    nodupb names && negb (existsb (leqb any) names) && Nat.ltb default (length names).
End Select.

Arguments Ok {A} a.
Arguments Err {A}.

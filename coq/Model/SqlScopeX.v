(* C07 -- second layer of the scope checker: binding rules beyond "the name resolves".

   [x_query XP P te sc q] traverses the query exactly like [o_query] of Model/SqlScope.v (same environments, same FROM
   frames, same alias lists per clause) and emits one further obligation
     * per column reference: the reference is not AMBIGUOUS -- a bare column is exposed by at most one column of the
       nearest FROM frame that exposes it (where the clause admits select-list / output names and the column is one: at
       most one output column has the name), a qualified
       column [q.c] names at most one column of the relation known as [q].  Relations keep their duplicate output names
       ([out_items] does), so this is also "a sub-query / CTE with two output columns of one name is not referenced by
       that name from outside";
     * per window function with a frame clause: the frame is one the SQL grammar and its static rules admit
       ([frame_valid]: no UNBOUNDED FOLLOWING start / UNBOUNDED PRECEDING end, the end not before the start kind,
       an offset bound under RANGE only with exactly one ORDER BY key);
     * per column reference (and wildcard) of the select list, the HAVING clause and the ORDER BY of an AGGREGATE SELECT
       (GROUP BY present, or an aggregate call in the select list / HAVING) that is not inside an aggregate call: the
       column is a grouping column ([XGrouped]); a dialect profile may admit bare columns (SQLite).
   Aggregate functions are recognised by name: the converter (vplib/sqlast.py) interns the aggregate function names of
   the engines in the reserved id range [agg_lo, agg_hi].  Over-approximations (the checker accepts more): a column counts
   as grouped when it occurs anywhere inside a GROUP BY key; correlated references inside expression sub-queries are not
   subject to the grouping rule; an open relation (columns unknown) never makes a reference ambiguous.
   Executable definitions only; no proofs here. *)
From Coq Require Import List NArith Bool Arith.
From PV Require Import Model.SqlAst Model.SqlScope.
Import ListNotations.
Local Open Scope N_scope.

Record xprof := mkXProf { bare_agg : bool (* ungrouped bare columns next to aggregates are accepted (SQLite) *) }.
Definition xstrict := mkXProf false.

(* ---------------------------------------------------------------- aggregates, free columns, grouping keys *)
Definition agg_lo : N := 2.
Definition agg_hi : N := 40.
Definition is_agg (f : name) : bool := N.leb agg_lo f && N.leb f agg_hi.

Definition cref : Type := (option name * name).

(* an aggregate call somewhere in the expression (not inside sub-queries, not a window function's own call) *)
Fixpoint ha_expr (e : expr) {struct e} : bool :=
  match e with
  | EApp f a => is_agg f || ha_exprs a
  | EWin _ a p o _ => ha_exprs a || ha_exprs p || ha_exprs o
  | _ => false
  end
with ha_exprs (x : exprs) {struct x} : bool :=
  match x with ENil => false | ECons e r => ha_expr e || ha_exprs r end.
Fixpoint ha_items (i : items) : bool :=
  match i with INil => false | IExpr e _ r => ha_expr e || ha_items r | IWild _ _ _ r => ha_items r end.

(* column references outside aggregate calls *)
Fixpoint fc_expr (e : expr) {struct e} : list cref :=
  match e with
  | ECol q c => [(q, c)]
  | EApp f a => if is_agg f then [] else fc_exprs a
  | EWin _ a p o _ => fc_exprs a ++ fc_exprs p ++ fc_exprs o
  | _ => []
  end
with fc_exprs (x : exprs) {struct x} : list cref :=
  match x with ENil => [] | ECons e r => fc_expr e ++ fc_exprs r end.

(* all column references / stars of the GROUP BY keys *)
Fixpoint kc_expr (e : expr) {struct e} : list cref :=
  match e with
  | ECol q c => [(q, c)]
  | EApp _ a => kc_exprs a
  | EWin _ a p o _ => kc_exprs a ++ kc_exprs p ++ kc_exprs o
  | _ => []
  end
with kc_exprs (x : exprs) {struct x} : list cref :=
  match x with ENil => [] | ECons e r => kc_expr e ++ kc_exprs r end.
Fixpoint ks_exprs (x : exprs) : list (option name) :=
  match x with ENil => [] | ECons (EStar q) r => q :: ks_exprs r | ECons _ r => ks_exprs r end.

Definition oname_eqb (a b : option name) : bool :=
  match a, b with Some x, Some y => N.eqb x y | _, _ => true end.      (* a missing qualifier matches any *)
Definition key_match (kc : list cref) (ks : list (option name)) (q : option name) (c : name) : bool :=
  existsb (fun k => N.eqb (snd k) c && oname_eqb (fst k) q) kc || existsb (fun s => oname_eqb s q) ks.
Definition star_match (ks : list (option name)) (q : name) : bool :=
  existsb (fun s => match s with None => true | Some s' => N.eqb q 0 || N.eqb s' q end) ks.

Definition x_is_enil (x : exprs) : bool := match x with ENil => true | _ => false end.
Definition agg_select (proj : items) (g h : exprs) : bool := negb (x_is_enil g) || ha_items proj || ha_exprs h.

(* ---------------------------------------------------------------- ambiguity *)
Fixpoint count_name (c : name) (l : list name) : nat :=
  match l with [] => O | x :: r => (if N.eqb x c then 1 else 0)%nat + count_name c r end.
Definition frame_count (fr : frame) (c : name) : nat :=
  fold_right (fun it n => (count_name c (rcols (snd it)) + n)%nat) O fr.
(* the nearest frame that exposes [c] decides *)
Fixpoint bare_count (sc : scope) (c : name) : nat :=
  match sc with
  | [] => O
  | fr :: sc' => if frame_exposes fr c then frame_count fr c else bare_count sc' c
  end.
Fixpoint qual_count (sc : scope) (q c : name) : nat :=
  match sc with
  | [] => O
  | fr :: sc' => match find_alias fr q with Some r => count_name c (rcols r) | None => qual_count sc' q c end
  end.

(* ---------------------------------------------------------------- window frames *)
Definition bound_has_offset (b : wbound) : bool :=
  match b with WPrec (Some _) => true | WFol (Some _) => true | _ => false end.
Definition frame_valid (units : N) (s : wbound) (e : option wbound) (nord : nat) : bool :=
  let e' := match e with Some b => b | None => WCur end in
  negb (match s with WFol None => true | _ => false end)                 (* start: not UNBOUNDED FOLLOWING *)
  && negb (match e' with WPrec None => true | _ => false end)            (* end: not UNBOUNDED PRECEDING *)
  && match s, e' with
     | WCur, WPrec _ => false                                            (* end before start *)
     | WFol _, WPrec _ => false
     | WFol _, WCur => false
     | _, _ => true
     end
  && (negb (N.eqb units 2 && (bound_has_offset s || bound_has_offset e')) || Nat.eqb nord 1).
Fixpoint exprs_length (x : exprs) : nat := match x with ENil => O | ECons _ r => S (exprs_length r) end.

(* ---------------------------------------------------------------- obligations *)
Inductive xobl :=
| XAmbBare (sc : scope) (al : list name) (cl : clause) (c : name)
| XAmbQual (sc : scope) (cl : clause) (q c : name)
| XWFrame (units : N) (s : wbound) (e : option wbound) (nord : nat)
| XGrouped (kc : list cref) (ks : list (option name)) (outs : list name) (cl : clause) (q : option name) (c : name)
| XGroupedWild (ks : list (option name)) (q : name).

(* the select list of an aggregate SELECT: every column outside an aggregate call, every wildcard *)
Fixpoint x_gitems (kc : list cref) (ks : list (option name)) (i : items) {struct i} : list xobl :=
  match i with
  | INil => []
  | IExpr e _ r => map (fun qc => XGrouped kc ks [] CProj (fst qc) (snd qc)) (fc_expr e) ++ x_gitems kc ks r
  | IWild q _ _ r => XGroupedWild ks q :: x_gitems kc ks r
  end.

Section XObls.
  Variable XP : xprof.
  Variable P : prof.

  Fixpoint x_expr (te : tenv) (sc : scope) (al : list name) (cl : clause) (e : expr) {struct e} : list xobl :=
    match e with
    | ECol None c => [XAmbBare sc al cl c]
    | ECol (Some q) c => [XAmbQual sc cl q c]
    | ELit => []
    | EStar _ => []
    | EApp _ a => x_exprs te sc al cl a
    | EWin _ a p o fr =>
        x_exprs te sc al cl a ++ x_exprs te sc al cl p ++ x_exprs te sc al cl o
        ++ match fr with WNone => [] | WFrame u s e => [XWFrame u s e (exprs_length o)] end
    | ESub q => x_query (hide_self te) sc q
    end
  with x_exprs (te : tenv) (sc : scope) (al : list name) (cl : clause) (x : exprs) {struct x} : list xobl :=
    match x with
    | ENil => []
    | ECons e r => x_expr te sc al cl e ++ x_exprs te sc al cl r
    end
  with x_query (te : tenv) (sc : scope) (q : query) {struct q} : list xobl :=
    match q with
    | Query rc cs body ord _ =>
        x_ctes te rc cs
        ++ x_setexpr (env_ctes te cs) sc body
        ++ x_okeys (env_ctes te cs) (order_scope (env_ctes te cs) sc body) (rcols (out_setexpr (env_ctes te cs) body)) ord
        ++ match body with
           | SSelect _ _ proj _ _ g h =>
               if agg_select proj g h
               then map (fun qc => XGrouped (kc_exprs g) (ks_exprs g) (rcols (out_setexpr (env_ctes te cs) body)) COrder (fst qc) (snd qc)) (fc_exprs ord)
               else []
           | _ => []
           end
    end
  with x_okeys (te : tenv) (sc : scope) (outs : list name) (x : exprs) {struct x} : list xobl :=
    match x with
    | ENil => []
    | ECons e r =>
        match e with
        | ECol None c => [XAmbBare sc outs COrder c]
        | _ => x_expr te sc (when (al_order_nested P) outs) COrder e
        end ++ x_okeys te sc outs r
    end
  with x_ctes (te : tenv) (rc : bool) (cs : ctes) {struct cs} : list xobl :=
    match cs with
    | CNil => []
    | CCons n q r =>
        x_query (if recv P rc then (n, out_query te q, SelfVis) :: te else te) [] q
        ++ x_ctes ((n, out_query te q, Normal) :: te) rc r
    end
  with x_setexpr (te : tenv) (sc : scope) (s : setexpr) {struct s} : list xobl :=
    match s with
    | SSelect _ don proj from w g h =>
        x_from te (from_frame te from :: sc) from
        ++ x_items te (from_frame te from :: sc) proj
        ++ x_exprs te (from_frame te from :: sc) [] CDistinctOn don
        ++ x_exprs te (from_frame te from :: sc) (when (al_where P) (item_aliases proj)) CWhere w
        ++ x_exprs te (from_frame te from :: sc) (when (al_group P) (item_aliases proj)) CGroup g
        ++ x_exprs te (from_frame te from :: sc) (when (al_having P) (item_aliases proj)) CHaving h
        ++ (if agg_select proj g h
            then x_gitems (kc_exprs g) (ks_exprs g) proj
                 ++ map (fun qc => XGrouped (kc_exprs g) (ks_exprs g) (when (al_having P) (item_aliases proj)) CHaving (fst qc) (snd qc)) (fc_exprs h)
            else [])
    | SSetOp _ _ l r => x_setexpr te sc l ++ x_setexpr te sc r
    | SQuery q => x_query te sc q
    end
  with x_items (te : tenv) (sc : scope) (i : items) {struct i} : list xobl :=
    match i with
    | INil => []
    | IExpr e _ r => x_expr te sc [] CProj e ++ x_items te sc r
    | IWild _ _ _ r => x_items te sc r
    end
  with x_from (te : tenv) (sc : scope) (f : trefs) {struct f} : list xobl :=
    match f with
    | TNil => []
    | TTable _ _ _ on r => x_exprs te sc [] COn on ++ x_from te sc r
    | TDerived _ q _ on r => x_query (hide_self te) [] q ++ x_exprs te sc [] COn on ++ x_from te sc r
    end.

  Definition xobl_ok (o : xobl) : bool :=
    match o with
    | XAmbBare sc al _ c => Nat.leb (if mem c al then count_name c al else bare_count sc c) 1
    | XAmbQual sc _ q c => Nat.leb (qual_count sc q c) 1
    | XWFrame u s e n => frame_valid u s e n
    | XGrouped kc ks outs _ q c =>
        bare_agg XP || key_match kc ks q c || (match q with None => mem c outs | Some _ => false end)
    | XGroupedWild ks q => bare_agg XP || star_match ks q
    end.

  Definition xobligations (te : tenv) (q : query) : list xobl := x_query te [] q.
  Definition xfailing (te : tenv) (q : query) : list xobl := filter (fun o => negb (xobl_ok o)) (xobligations te q).
End XObls.

(* ---------------------------------------------------------------- verdict, diagnostics *)
Inductive xdiag :=
| DAmbBare (cl : clause) (c : name) | DAmbQual (cl : clause) (q c : name)
| DFrameInvalid (units : N) (why : N)
| DUngrouped (cl : clause) (q : option name) (c : name) | DUngroupedWild (q : name).

(* which rule a frame breaks: 1 start UNBOUNDED FOLLOWING, 2 end UNBOUNDED PRECEDING, 3 end before start, 4 RANGE offset needs one ORDER BY key *)
Definition frame_why (units : N) (s : wbound) (e : option wbound) (nord : nat) : N :=
  let e' := match e with Some b => b | None => WCur end in
  if match s with WFol None => true | _ => false end then 1
  else if match e' with WPrec None => true | _ => false end then 2
  else if negb (match s, e' with WCur, WPrec _ => false | WFol _, WPrec _ => false | WFol _, WCur => false | _, _ => true end) then 3
  else 4.

Definition xdiag_of (o : xobl) : xdiag :=
  match o with
  | XAmbBare _ _ cl c => DAmbBare cl c
  | XAmbQual _ cl q c => DAmbQual cl q c
  | XWFrame u s e n => DFrameInvalid u (frame_why u s e n)
  | XGrouped _ _ _ cl q c => DUngrouped cl q c
  | XGroupedWild _ q => DUngroupedWild q
  end.

Definition well_formed_x (XP : xprof) (P : prof) (te : tenv) (q : query) : bool :=
  match xfailing XP P te q with [] => true | _ => false end.

Definition oname_code (q : option name) : N := match q with Some n => n | None => 0 end.
Definition xdiag_code (d : xdiag) : N * N * N * N :=
  match d with
  | DAmbBare cl c => (21, clause_code cl, c, 0)
  | DAmbQual cl q c => (22, clause_code cl, q, c)
  | DFrameInvalid u w => (23, u, w, 0)
  | DUngrouped cl q c => (24, clause_code cl, oname_code q, c)
  | DUngroupedWild q => (25, q, 0, 0)
  end.
Definition xdiag_codes (XP : xprof) (P : prof) (te : tenv) (q : query) : list (N * N * N * N) :=
  map (fun o => xdiag_code (xdiag_of o)) (xfailing XP P te q).

(* ---------------------------------------------------------------- the sites of the syntax tree the layer has to visit *)
Inductive xsite := XSCol (q : option name) (c : name) | XSFrame (u : N) (s : wbound) (e : option wbound) (nord : nat).

Fixpoint xr_expr (e : expr) {struct e} : list xsite :=
  match e with
  | ECol q c => [XSCol q c]
  | ELit => []
  | EStar _ => []
  | EApp _ a => xr_exprs a
  | EWin _ a p o fr => xr_exprs a ++ xr_exprs p ++ xr_exprs o
                       ++ match fr with WNone => [] | WFrame u s e => [XSFrame u s e (exprs_length o)] end
  | ESub q => xr_query q
  end
with xr_exprs (x : exprs) {struct x} : list xsite :=
  match x with ENil => [] | ECons e r => xr_expr e ++ xr_exprs r end
with xr_query (q : query) {struct q} : list xsite :=
  match q with Query _ cs body ord _ => xr_ctes cs ++ xr_setexpr body ++ xr_exprs ord end
with xr_ctes (cs : ctes) {struct cs} : list xsite :=
  match cs with CNil => [] | CCons _ q r => xr_query q ++ xr_ctes r end
with xr_setexpr (s : setexpr) {struct s} : list xsite :=
  match s with
  | SSelect _ don proj from w g h => xr_from from ++ xr_items proj ++ xr_exprs don ++ xr_exprs w ++ xr_exprs g ++ xr_exprs h
  | SSetOp _ _ l r => xr_setexpr l ++ xr_setexpr r
  | SQuery q => xr_query q
  end
with xr_items (i : items) {struct i} : list xsite :=
  match i with INil => [] | IExpr e _ r => xr_expr e ++ xr_items r | IWild _ _ _ r => xr_items r end
with xr_from (f : trefs) {struct f} : list xsite :=
  match f with
  | TNil => []
  | TTable _ _ _ on r => xr_exprs on ++ xr_from r
  | TDerived _ q _ on r => xr_query q ++ xr_exprs on ++ xr_from r
  end.

Definition site_of_xobl (o : xobl) : option xsite :=
  match o with
  | XAmbBare _ _ _ c => Some (XSCol None c)
  | XAmbQual _ _ q c => Some (XSCol (Some q) c)
  | XWFrame u s e n => Some (XSFrame u s e n)
  | _ => None
  end.

(* The process-global state prqlc has (inventory: Gen/GenState.v) as a small state machine, and
   `compile` as a sequence of atomic steps on it (C11).

   Globals:  CURRENT_LOG : RwLock<Option<DebugLog>>   (debug/log.rs)  -- entries, suppress_count, poisoning
             OnceLock cells: STD (sql/operators.rs), COMPILER_VERSION (lib.rs), EMPTY / REDSHIFT / SQL_KEYWORDS
             (sql/keywords.rs), KEYWORDS / VALID_PRQL_IDENT (codegen/ast.rs), VALID_IDENT (utils/mod.rs)
             env var PRQL_VERSION_OVERRIDE, read on every call of compiler_version()

   A thread executes a list of steps; what it *reads* from the globals is recorded, and the result of a
   compilation is a function of its input and of these reads only (everything else is thread-local:
   Rust's ownership rules, no `unsafe`, no other statics -- checked by the inventory obligation).
   Executable definitions only; theorems are in Proofs/GlobalsProofs.v. *)
From Coq Require Import List NArith Bool Arith.
Import ListNotations.

Inductive cell := CStd | CVersion | CKwEmpty | CKwRedshift | CKwSql | CFmtKeywords | CRegexPrqlIdent | CRegexIdent.

Definition cell_eqb (a b : cell) : bool :=
  match a, b with
  | CStd, CStd | CVersion, CVersion | CKwEmpty, CKwEmpty | CKwRedshift, CKwRedshift | CKwSql, CKwSql
  | CFmtKeywords, CFmtKeywords | CRegexPrqlIdent, CRegexPrqlIdent | CRegexIdent, CRegexIdent => true
  | _, _ => false
  end.

Inductive step :=
| SLogEntry (e : N)      (* debug::log_entry / log_stage: takes the write lock; appends when a log is active and not suppressed *)
| SLogEnabled            (* debug::log_is_enabled (MessageLogger): takes the read lock; the answer only gates further log entries *)
| SSuppressInc           (* LogSuppressLock::new *)
| SSuppressDec           (* Drop for LogSuppressLock *)
| SGetOrInit (c : cell)  (* OnceLock::get_or_init *)
| SReadEnv               (* std::env::var("PRQL_VERSION_OVERRIDE") *)
| SGenName               (* NameGenerator::gen / IdGenerator::gen (utils/id_gen.rs) on a generator OWNED by the call: the
                            generators live in the call's AnchorContext / Lowerer / Resolver, no static holds one (inventory:
                            no static, atomic or thread_local row); what is read is the call's own counter *)
| SLogEntryPanics        (* debug::log_entry whose `entry` closure PANICS.  log_entry calls the closure while it holds the write lock
                            (inventory rows `..:log_entry(closure)..` list what each of the ten closures does; MessageLogger's runs
                            format!() over the caller's arguments): a panic there poisons the lock.  The closure is only called when
                            a log is active and not suppressed. *)
| SLogStart              (* debug::log_start  -- API call, never issued by compile *)
| SLogFinish.            (* debug::log_finish -- API call, never issued by compile *)

Definition compile_step (s : step) : bool :=
  match s with SLogStart | SLogFinish => false | _ => true end.

(* the standing assumption about the entry closures: they do not panic *)
Definition closure_safe (s : step) : bool :=
  match s with SLogEntryPanics => false | _ => true end.

Record gstate := mkG {
  g_log : option (list N * nat);      (* entries, suppress_count *)
  g_poisoned : bool;                  (* a thread panicked while holding the RwLock *)
  g_cells : list (cell * N) }.        (* initialised OnceLocks and their values *)

Definition g_init : gstate := mkG None false [].

Inductive outcome := ONone | ORead (v : N) | OPanic.

Fixpoint cell_get (c : cell) (l : list (cell * N)) : option N :=
  match l with
  | [] => None
  | (c', v) :: l' => if cell_eqb c c' then Some v else cell_get c l'
  end.

Section Machine.
  Variable cell_init : cell -> N.   (* what the initialiser closure computes: a constant of the build *)
  Variable env : N.                 (* value of the environment variable during the run *)

  (* one atomic step of a thread that currently holds `held` suppress locks *)
  Definition gstep (g : gstate) (held : nat) (s : step) : gstate * outcome * nat :=
    match s with
    | SGetOrInit c =>
        match cell_get c (g_cells g) with
        | Some v => (g, ORead v, held)
        | None => (mkG (g_log g) (g_poisoned g) ((c, cell_init c) :: g_cells g), ORead (cell_init c), held)
        end
    | SReadEnv => (g, ORead env, held)
    | SGenName => (g, ONone, held)                 (* touches no global; the name is produced in [tstep] from the call's counter *)
    | SLogStart =>
        (* `CURRENT_LOG.write().unwrap_or_else(|e| e.into_inner())`, then the slot is overwritten: a log left over
           from a compilation that panicked is discarded; works on a poisoned lock too (the poison flag stays) *)
        (mkG (Some ([], O)) (g_poisoned g) (g_cells g), ONone, held)
    | _ =>
        if g_poisoned g then (g, OPanic, held)      (* .write().unwrap() / .read().unwrap() on a poisoned lock *)
        else
          match s with
          | SLogEntry e =>
              match g_log g with
              | Some (es, O) => (mkG (Some (es ++ [e], O)) false (g_cells g), ONone, held)
              | _ => (g, ONone, held)
              end
          | SLogEntryPanics =>
              match g_log g with
              | Some (es, O) => (mkG (Some (es, O)) true (g_cells g), OPanic, held)    (* unwinds through the write guard: poisoned *)
              | _ => (g, ONone, held)                                                  (* the closure is not called *)
              end
          | SLogEnabled => (g, ONone, held)
          | SSuppressInc =>
              match g_log g with
              | Some (es, n) => (mkG (Some (es, S n)) false (g_cells g), ONone, S held)
              | None => (g, ONone, held)
              end
          | SSuppressDec =>
              match held with
              | O => (g, ONone, held)                 (* no lock object was created: nothing to drop *)
              | S h =>
                  match g_log g with
                  (* `suppress_count = suppress_count.saturating_sub(1)` (repair 2f50a3c): when the log was restarted
                     by another thread since this lock was taken the count is already 0 and stays 0; before the
                     repair `suppress_count -= 1` underflowed under the write lock and poisoned it (F10j) *)
                  | Some (es, n) => (mkG (Some (es, Nat.pred n)) false (g_cells g), ONone, h)
                  | None => (g, ONone, h)
                  end
              end
          | SLogFinish => (mkG None false (g_cells g), ONone, held)
          | _ => (g, ONone, held)
          end
    end.

  (* t_gen: the call's name counter (`table_N`, `_expr_N`): created with the call, 0 at its start *)
  Record thread := mkT { t_todo : list step; t_reads : list N; t_held : nat; t_gen : nat; t_panicked : bool }.

  Definition spawn (prog : list step) : thread := mkT prog [] O O false.

  Definition tstep (g : gstate) (t : thread) : gstate * thread :=
    if t_panicked t then (g, t)
    else match t_todo t with
         | [] => (g, t)
         | SGenName :: rest => (g, mkT rest (t_reads t ++ [N.of_nat (t_gen t)]) (t_held t) (S (t_gen t)) false)
         | s :: rest =>
             match gstep g (t_held t) s with
             | (g', ONone, h) => (g', mkT rest (t_reads t) h (t_gen t) false)
             | (g', ORead v, h) => (g', mkT rest (t_reads t ++ [v]) h (t_gen t) false)
             | (g', OPanic, h) => (g', mkT [] (t_reads t) h (t_gen t) true)
             end
         end.

  Fixpoint upd (ts : list thread) (i : nat) (t : thread) : list thread :=
    match ts, i with
    | [], _ => []
    | _ :: ts', O => t :: ts'
    | x :: ts', S i' => x :: upd ts' i' t
    end.

  (* a schedule is a list of thread indices *)
  Fixpoint run (g : gstate) (ts : list thread) (sched : list nat) : gstate * list thread :=
    match sched with
    | [] => (g, ts)
    | i :: sched' =>
        match nth_error ts i with
        | Some t => let '(g', t') := tstep g t in run g' (upd ts i t') sched'
        | None => run g ts sched'
        end
    end.

  (* what a program reads when nothing interferes: the constants, and its own generated names 0, 1, 2, ... *)
  Fixpoint expected_reads_from (k : nat) (prog : list step) : list N :=
    match prog with
    | [] => []
    | SGetOrInit c :: p => cell_init c :: expected_reads_from k p
    | SReadEnv :: p => env :: expected_reads_from k p
    | SGenName :: p => N.of_nat k :: expected_reads_from (S k) p
    | _ :: p => expected_reads_from k p
    end.
  Definition expected_reads (prog : list step) : list N := expected_reads_from O prog.

  Definition finished (t : thread) : bool := match t_todo t with [] => negb (t_panicked t) | _ => false end.
End Machine.

(* C16, an addition to the five clauses (reported by C12 as N18): an Aggregate whose `partition` lists one of its own
   aggregated columns (`compute`).  Every id of such an RQ can be defined and visible -- rq_wf accepts it -- yet the SQL back
   end recurses without bound on it (GROUP BY an aggregate of the same SELECT).  The resolver never emits this shape; an RQ that
   arrives through JSON (the staged API) can have it.  [agg_overlaps q] lists the offending ids; [rq_agg_ok q] = none.
   Kept apart from rq_wf, whose clauses are the property's; the check evaluates both on every emitted RQ.
   Executable definitions only. *)
From Coq Require Import List NArith Bool.
From PV Require Import Lib.ListX Model.Rq.
Import ListNotations.
Local Open Scope N_scope.

Fixpoint transform_agg_overlaps (t : transform) : list cid :=
  match t with
  | TAggregate p c => filter (fun x => memN x c) p
  | TLoop p => (fix go (l : list transform) : list cid :=
                  match l with [] => [] | a :: l' => transform_agg_overlaps a ++ go l' end) p
  | _ => []
  end.

Definition relation_agg_overlaps (r : relation) : list cid :=
  match r_kind r with KPipeline p => flat_map transform_agg_overlaps p | _ => [] end.

Definition agg_overlaps (q : rq) : list cid :=
  flat_map (fun t => relation_agg_overlaps (t_relation t)) (q_tables q) ++ relation_agg_overlaps (q_relation q).

Definition rq_agg_ok (q : rq) : bool := match agg_overlaps q with [] => true | _ => false end.

(* C07 -- name resolution of the SQL the compiler emits: an executable scope checker.

   [o_query P te sc q] enumerates, by one structural traversal, every *obligation* of a query: each table
   reference with the relation environment visible at that point, each column reference with the FROM
   frames (innermost first) and select-list aliases visible in its clause, and the structural side
   conditions (aliases of FROM items unique, projection non-empty, set-operation arities, WITH names
   unique, wildcards).  [obl_ok] decides one obligation; [well_scoped] = all obligations hold, with the
   first failing one as the diagnostic.  Proofs/SqlScopeProofs.v shows that the enumeration misses no
   reference of the syntax tree, that CTE references point backwards, and monotonicity.

   Scoping rules (SQL, per clause):
   * a table reference resolves to a relation of the environment: base tables of the schema, CTEs defined
     EARLIER in an enclosing WITH list, or the CTE itself under WITH RECURSIVE -- but then only in the FROM
     list of a top-level operand, not inside a derived table or an expression sub-query ([SelfHid]);
   * a qualified column [q.c] needs a FROM item known as [q] in the nearest enclosing SELECT that has one,
     and that relation must expose [c] (a relation is "open" when its columns are unknown);
   * a bare column needs a FROM item exposing it, or a select-list alias where the clause admits one:
     ORDER BY keys always (as a whole key; inside an expression only with [al_order_nested]); WHERE /
     GROUP BY / HAVING only under the dialect profile (SQLite);
   * ORDER BY of a set operation sees output column names only;
   * derived tables are not lateral: they do not see the enclosing FROM frames; expression sub-queries do.
   Deliberate over-approximation: an ON condition sees every item of its FROM list (also later ones).
   Executable definitions only; no proofs here. *)
From Coq Require Import List NArith Bool Arith.
From PV Require Import Model.SqlAst.
Import ListNotations.
Local Open Scope N_scope.

(* ---------------------------------------------------------------- relations and environments *)
Record rel := mkRel { rcols : list name; ropen : bool }.
Definition open_rel := mkRel [] true.

Inductive vis := Normal | SelfVis | SelfHid.
Definition tentry : Type := (name * rel * vis).
Definition tenv := list tentry.
Definition te_name (e : tentry) : name := fst (fst e).

Fixpoint lookup (te : tenv) (n : name) : option (rel * vis) :=
  match te with
  | [] => None
  | (m, r, v) :: te' => if N.eqb m n then Some (r, v) else lookup te' n
  end.

Definition hide1 (e : tentry) : tentry :=
  match e with (m, r, SelfVis) => (m, r, SelfHid) | x => x end.
Definition hide_self (te : tenv) : tenv := map hide1 te.

Definition tab_rel (te : tenv) (n : name) : rel :=
  if N.eqb n 0 then open_rel else match lookup te n with Some (r, _) => r | None => open_rel end.
Definition tab_ok (te : tenv) (n : name) : bool :=
  N.eqb n 0 || match lookup te n with Some (_, SelfHid) => false | Some _ => true | None => false end.

Definition fitem : Type := (name * rel).
Definition frame := list fitem.
Definition scope := list frame.

Definition exposes (r : rel) (c : name) : bool := ropen r || mem c (rcols r).
Fixpoint find_alias (fr : frame) (q : name) : option rel :=
  match fr with [] => None | (a, r) :: fr' => if N.eqb a q then Some r else find_alias fr' q end.
Fixpoint res_qual (sc : scope) (q c : name) : bool :=
  match sc with
  | [] => false
  | fr :: sc' => match find_alias fr q with Some r => exposes r c | None => res_qual sc' q c end
  end.
Fixpoint has_alias (sc : scope) (q : name) : bool :=
  match sc with
  | [] => false
  | fr :: sc' => match find_alias fr q with Some _ => true | None => has_alias sc' q end
  end.
Definition frame_exposes (fr : frame) (c : name) : bool := existsb (fun it => exposes (snd it) c) fr.
Definition res_bare (sc : scope) (c : name) : bool := existsb (fun fr => frame_exposes fr c) sc.

(* ---------------------------------------------------------------- output columns *)
Definition frame_all (fr : frame) : rel :=
  mkRel (flat_map (fun it => rcols (snd it)) fr) (existsb (fun it => ropen (snd it)) fr).
Definition remove_names (ex l : list name) : list name := filter (fun c => negb (mem c ex)) l.

Definition item_name (e : expr) (a : name) : name :=
  if N.eqb a 0 then match e with ECol _ c => c | _ => 0 end else a.

Fixpoint out_items (fr : frame) (i : items) : rel :=
  match i with
  | INil => mkRel [] false
  | IExpr e a r => let rr := out_items fr r in mkRel (item_name e a :: rcols rr) (ropen rr)
  | IWild q _ ex r =>
      let w := if N.eqb q 0 then frame_all fr else match find_alias fr q with Some x => x | None => open_rel end in
      let rr := out_items fr r in
      mkRel (remove_names ex (rcols w) ++ rcols rr) (ropen w || ropen rr)
  end.

Fixpoint out_query (te : tenv) (q : query) {struct q} : rel :=
  match q with Query _ cs body _ _ => out_setexpr (env_ctes te cs) body end
with env_ctes (te : tenv) (cs : ctes) {struct cs} : tenv :=
  match cs with
  | CNil => te
  | CCons n q r => env_ctes ((n, out_query te q, Normal) :: te) r
  end
with out_setexpr (te : tenv) (s : setexpr) {struct s} : rel :=
  match s with
  | SSelect _ _ proj from _ _ _ => out_items (from_frame te from) proj
  | SSetOp _ _ l _ => out_setexpr te l
  | SQuery q => out_query te q
  end
with from_frame (te : tenv) (f : trefs) {struct f} : frame :=
  match f with
  | TNil => []
  | TTable _ n a _ r => (a, tab_rel te n) :: from_frame te r
  | TDerived _ q a _ r => (a, out_query (hide_self te) q) :: from_frame te r
  end.

Definition order_scope (te : tenv) (sc : scope) (body : setexpr) : scope :=
  match body with SSelect _ _ _ from _ _ _ => from_frame te from :: sc | _ => sc end.

(* ---------------------------------------------------------------- obligations *)
Inductive clause := CProj | CWhere | CGroup | CHaving | COrder | COn | CDistinctOn.

Inductive obl :=
| OTab (te : tenv) (n : name)
| OBare (sc : scope) (al : list name) (cl : clause) (c : name)
| OQual (sc : scope) (cl : clause) (q c : name)
| OStarQ (sc : scope) (cl : clause) (q : name)
| OFrame (fr : frame)
| OProj (n : nat)
| OArity (a b : rel)
| OWildFrom (fr : frame)
| OWildQ (fr : frame) (q : name)
| OExcl (fr : frame) (q c : name)
| OCteName (seen : list name) (n : name).

(* what a dialect admits beyond the standard rules *)
Record prof := mkProf { al_where : bool; al_group : bool; al_having : bool; al_order_nested : bool; zero_cols : bool;
                        implicit_rec : bool (* T-SQL: a CTE may refer to itself without the RECURSIVE keyword *) }.
Definition strict := mkProf false false false false false false.

Section Obls.
  Variable P : prof.
  Definition when (b : bool) (l : list name) : list name := if b then l else [].
  (* is the CTE visible inside its own body: WITH RECURSIVE, or a dialect where recursion is implicit *)
  Definition recv (rc : bool) : bool := rc || implicit_rec P.

  Fixpoint item_aliases (i : items) : list name :=
    match i with
    | INil => []
    | IExpr _ a r => if N.eqb a 0 then item_aliases r else a :: item_aliases r
    | IWild _ _ _ r => item_aliases r
    end.

  Fixpoint o_expr (te : tenv) (sc : scope) (al : list name) (cl : clause) (e : expr) {struct e} : list obl :=
    match e with
    | ECol None c => [OBare sc al cl c]
    | ECol (Some q) c => [OQual sc cl q c]
    | ELit => []
    | EStar None => []
    | EStar (Some q) => [OStarQ sc cl q]
    | EApp _ a => o_exprs te sc al cl a
    | EWin _ a p o _ => o_exprs te sc al cl a ++ o_exprs te sc al cl p ++ o_exprs te sc al cl o
    | ESub q => o_query (hide_self te) sc q
    end
  with o_exprs (te : tenv) (sc : scope) (al : list name) (cl : clause) (x : exprs) {struct x} : list obl :=
    match x with
    | ENil => []
    | ECons e r => o_expr te sc al cl e ++ o_exprs te sc al cl r
    end
  with o_query (te : tenv) (sc : scope) (q : query) {struct q} : list obl :=
    match q with
    | Query rc cs body ord _ =>
        o_ctes te rc [] cs
        ++ o_setexpr (env_ctes te cs) sc body
        ++ o_okeys (env_ctes te cs) (order_scope (env_ctes te cs) sc body) (rcols (out_setexpr (env_ctes te cs) body)) ord
    end
  with o_okeys (te : tenv) (sc : scope) (outs : list name) (x : exprs) {struct x} : list obl :=
    match x with
    | ENil => []
    | ECons e r =>
        match e with
        | ECol None c => [OBare sc outs COrder c]
        | _ => o_expr te sc (when (al_order_nested P) outs) COrder e
        end ++ o_okeys te sc outs r
    end
  with o_ctes (te : tenv) (rc : bool) (seen : list name) (cs : ctes) {struct cs} : list obl :=
    match cs with
    | CNil => []
    | CCons n q r =>
        OCteName seen n
        :: o_query (if recv rc then (n, out_query te q, SelfVis) :: te else te) [] q
        ++ o_ctes ((n, out_query te q, Normal) :: te) rc (n :: seen) r
    end
  with o_setexpr (te : tenv) (sc : scope) (s : setexpr) {struct s} : list obl :=
    match s with
    | SSelect _ don proj from w g h =>
        OFrame (from_frame te from) :: OProj (items_len proj)
        :: o_from te (from_frame te from :: sc) from
        ++ o_items te (from_frame te from :: sc) (from_frame te from) proj
        ++ o_exprs te (from_frame te from :: sc) [] CDistinctOn don
        ++ o_exprs te (from_frame te from :: sc) (when (al_where P) (item_aliases proj)) CWhere w
        ++ o_exprs te (from_frame te from :: sc) (when (al_group P) (item_aliases proj)) CGroup g
        ++ o_exprs te (from_frame te from :: sc) (when (al_having P) (item_aliases proj)) CHaving h
    | SSetOp _ _ l r =>
        o_setexpr te sc l ++ o_setexpr te sc r ++ [OArity (out_setexpr te l) (out_setexpr te r)]
    | SQuery q => o_query te sc q
    end
  with o_items (te : tenv) (sc : scope) (fr : frame) (i : items) {struct i} : list obl :=
    match i with
    | INil => []
    | IExpr e _ r => o_expr te sc [] CProj e ++ o_items te sc fr r
    | IWild q _ ex r =>
        (if N.eqb q 0 then OWildFrom fr else OWildQ fr q) :: map (OExcl fr q) ex ++ o_items te sc fr r
    end
  with o_from (te : tenv) (sc : scope) (f : trefs) {struct f} : list obl :=
    match f with
    | TNil => []
    | TTable _ n _ on r => OTab te n :: o_exprs te sc [] COn on ++ o_from te sc r
    | TDerived _ q _ on r => o_query (hide_self te) [] q ++ o_exprs te sc [] COn on ++ o_from te sc r
    end.

  Fixpoint nodupb (l : list name) : bool :=
    match l with [] => true | x :: r => negb (mem x r) && nodupb r end.
  Definition frame_aliases (fr : frame) : list name := filter (fun a => negb (N.eqb a 0)) (map fst fr).

  Definition obl_ok (o : obl) : bool :=
    match o with
    | OTab te n => tab_ok te n
    | OBare sc al _ c => mem c al || res_bare sc c
    | OQual sc _ q c => res_qual sc q c
    | OStarQ sc _ q => has_alias sc q
    | OFrame fr => nodupb (frame_aliases fr)
    | OProj n => zero_cols P || negb (Nat.eqb n 0)
    | OArity a b => ropen a || ropen b || Nat.eqb (length (rcols a)) (length (rcols b))
    | OWildFrom fr => match fr with [] => false | _ => true end
    | OWildQ fr q => match find_alias fr q with Some _ => true | None => false end
    | OExcl fr q c => if N.eqb q 0 then frame_exposes fr c
                      else match find_alias fr q with Some r => exposes r c | None => false end
    | OCteName seen n => negb (mem n seen)
    end.

  Definition obligations (te : tenv) (q : query) : list obl := o_query te [] q.
  Definition failing (te : tenv) (q : query) : list obl := filter (fun o => negb (obl_ok o)) (obligations te q).
End Obls.

(* ---------------------------------------------------------------- verdict and printable diagnostics *)
Inductive diag :=
| DTable (n : name) | DSelfRef (n : name)
| DBare (cl : clause) (c : name) | DQual (cl : clause) (q c : name) | DStar (cl : clause) (q : name)
| DDupAlias (n : name) | DEmptyProj | DArity (a b : N) | DWildNoFrom | DWildQual (q : name) | DExcl (q c : name)
| DDupCte (n : name).

Fixpoint first_dup (l : list name) : name :=
  match l with [] => 0 | x :: r => if mem x r then x else first_dup r end.

Definition diag_of (o : obl) : diag :=
  match o with
  | OTab te n => match lookup te n with Some (_, SelfHid) => DSelfRef n | _ => DTable n end
  | OBare _ _ cl c => DBare cl c
  | OQual _ cl q c => DQual cl q c
  | OStarQ _ cl q => DStar cl q
  | OFrame fr => DDupAlias (first_dup (frame_aliases fr))
  | OProj _ => DEmptyProj
  | OArity a b => DArity (N.of_nat (length (rcols a))) (N.of_nat (length (rcols b)))
  | OWildFrom _ => DWildNoFrom
  | OWildQ _ q => DWildQual q
  | OExcl _ q c => DExcl q c
  | OCteName _ n => DDupCte n
  end.

Inductive verdict := OK | Bad (d : diag).
Definition well_scoped (P : prof) (te : tenv) (q : query) : verdict :=
  match failing P te q with [] => OK | o :: _ => Bad (diag_of o) end.

Definition clause_code (c : clause) : N :=
  match c with CProj => 1 | CWhere => 2 | CGroup => 3 | CHaving => 4 | COrder => 5 | COn => 6 | CDistinctOn => 7 end.
Definition diag_code (d : diag) : N * N * N * N :=
  match d with
  | DTable n => (1, n, 0, 0) | DSelfRef n => (2, n, 0, 0)
  | DBare cl c => (3, clause_code cl, c, 0) | DQual cl q c => (4, clause_code cl, q, c) | DStar cl q => (5, clause_code cl, q, 0)
  | DDupAlias n => (6, n, 0, 0) | DEmptyProj => (7, 0, 0, 0) | DArity a b => (8, a, b, 0) | DWildNoFrom => (9, 0, 0, 0)
  | DWildQual q => (10, q, 0, 0) | DExcl q c => (11, q, c, 0) | DDupCte n => (12, n, 0, 0)
  end.
(* what the harness reads: every failing obligation, in traversal order; [] = OK *)
Definition diag_codes (P : prof) (te : tenv) (q : query) : list (N * N * N * N) :=
  map (fun o => diag_code (diag_of o)) (failing P te q).

Definition base_table (n : name) (cols : list name) (opn : bool) : tentry := (n, mkRel cols opn, Normal).

(* ---------------------------------------------------------------- the references of the syntax tree *)
(* SSel / SProj mark one SELECT and the length of its projection *)
Inductive sref := SCol (q : option name) (c : name) | STab (n : name) | SStar (q : name) | SSel | SProj (n : nat).

Fixpoint r_expr (e : expr) {struct e} : list sref :=
  match e with
  | ECol q c => [SCol q c]
  | ELit => []
  | EStar None => []
  | EStar (Some q) => [SStar q]
  | EApp _ a => r_exprs a
  | EWin _ a p o _ => r_exprs a ++ r_exprs p ++ r_exprs o
  | ESub q => r_query q
  end
with r_exprs (x : exprs) {struct x} : list sref :=
  match x with ENil => [] | ECons e r => r_expr e ++ r_exprs r end
with r_query (q : query) {struct q} : list sref :=
  match q with Query _ cs body ord _ => r_ctes cs ++ r_setexpr body ++ r_exprs ord end
with r_ctes (cs : ctes) {struct cs} : list sref :=
  match cs with CNil => [] | CCons _ q r => r_query q ++ r_ctes r end
with r_setexpr (s : setexpr) {struct s} : list sref :=
  match s with
  | SSelect _ don proj from w g h =>
      SSel :: SProj (items_len proj) :: r_from from ++ r_items proj ++ r_exprs don ++ r_exprs w ++ r_exprs g ++ r_exprs h
  | SSetOp _ _ l r => r_setexpr l ++ r_setexpr r
  | SQuery q => r_query q
  end
with r_items (i : items) {struct i} : list sref :=
  match i with
  | INil => []
  | IExpr e _ r => r_expr e ++ r_items r
  | IWild q _ _ r => (if N.eqb q 0 then [] else [SStar q]) ++ r_items r
  end
with r_from (f : trefs) {struct f} : list sref :=
  match f with
  | TNil => []
  | TTable _ n _ on r => STab n :: r_exprs on ++ r_from r
  | TDerived _ q _ on r => r_query q ++ r_exprs on ++ r_from r
  end.

Definition ref_of_obl (o : obl) : option sref :=
  match o with
  | OTab _ n => Some (STab n)
  | OBare _ _ _ c => Some (SCol None c)
  | OQual _ _ q c => Some (SCol (Some q) c)
  | OStarQ _ _ q => Some (SStar q)
  | OWildQ _ q => Some (SStar q)
  | OFrame _ => Some SSel
  | OProj n => Some (SProj n)
  | _ => None
  end.
Fixpoint omap {A B} (f : A -> option B) (l : list A) : list B :=
  match l with [] => [] | x :: r => match f x with Some y => y :: omap f r | None => omap f r end end.

(* tables named directly in the FROM lists of a query's operands (not inside derived tables; a query with
   its own WITH list may shadow names and contributes nothing) *)
Fixpoint dt_from (f : trefs) {struct f} : list name :=
  match f with
  | TNil => []
  | TTable _ n _ _ r => n :: dt_from r
  | TDerived _ _ _ _ r => dt_from r
  end.
Fixpoint dt_setexpr (s : setexpr) {struct s} : list name :=
  match s with
  | SSelect _ _ _ f _ _ _ => dt_from f
  | SSetOp _ _ l r => dt_setexpr l ++ dt_setexpr r
  | SQuery q => dt_query q
  end
with dt_query (q : query) {struct q} : list name :=
  match q with Query _ cs body _ _ => match cs with CNil => dt_setexpr body | CCons _ _ _ => [] end end.

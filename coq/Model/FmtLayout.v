(* C12 (finding C12-H2, fixed by c8b3817): the LAYOUT protocol of the formatter at a limited line width, for the
   sub-language  e ::= identifier | { e, .. } | e + e  inside `let v = e`:
     codegen/ast.rs  <pr::Expr as WriteSource>::write (needs_parenthesis; the parenthesis protocol: first on the current
                     line with no_line_break set, then -- unless no_line_break -- break_line_within_parenthesis),
                     <pr::ExprKind as WriteSource>::write (Ident, Tuple, Binary), write_within, binding_strength /
                     associativity of `+`, Stmt::write (VarDef Let), Vec<Stmt>::write
     codegen/mod.rs  WriteSource::write_between, write_or_expand, SeparatedExprs::write / write_inline (single_line),
                     WriteOpt::consume / consume_width / reset_line / write_indent      (width arithmetic: Model/WidthArith.v)
   Every function returns (the text | None, the number of invocations of <pr::Expr as WriteSource>::write it caused) --
   the number the hook `verif:fmt-calls` reports.  Identifiers are runs of `a`.  Executable definitions only. *)
From Coq Require Import List ZArith NArith Bool Arith.
From PV Require Import Lib.ListX Model.Checked Model.WidthArith.
Import ListNotations.

Inductive node := Id (w : nat) | Tup (cs : nodes) | Bin (l r : node)
with nodes := NNil | NCons (c : node) (t : nodes).

Definition text := list N.
Definition ch_a : N := 97%N.  Definition ch_sp : N := 32%N.  Definition ch_nl : N := 10%N.
Definition t_lparen : text := [40%N].  Definition t_rparen : text := [41%N].
Definition t_lbrace : text := [123%N]. Definition t_rbrace : text := [125%N].
Definition t_comma : text := [44%N].   Definition t_plus : text := [43%N].
Definition t_let : text := [108; 101; 116; 32; 118; 32; 61; 32]%N.        (* "let v = " *)

Inductive position := PUnspec | PLeft | PRight.
(* the fields of WriteOpt the sub-language reads (unbound_expr stays false here) *)
Record lopt := LOpt { lw : wopt; ctx : nat; pos : position; sl : bool; nlb : bool }.
Definition with_w (o : lopt) (w : wopt) : lopt := LOpt w (ctx o) (pos o) (sl o) (nlb o).

(* ---- results with a call count ---- *)
Definition res (A : Type) := (option A * nat)%type.
Definition ret {A} (a : A) : res A := (Some a, 0).
Definition fail {A} : res A := (None, 0).
Definition bind {A B} (x : res A) (f : A -> res B) : res B :=
  match x with
  | (Some a, c) => match f a with (r, c') => (r, c + c') end
  | (None, c) => (None, c)
  end.
Definition ofopt {A} (o : option A) : res A := (o, 0).
Definition tick {A} (x : res A) : res A := match x with (r, c) => (r, S c) end.

(* ---- WriteOpt::consume: the width of a text is what follows its last newline (the newline included) ---- *)
Fixpoint tail_width (s : text) (cur : nat) (seen : bool) : nat :=
  match s with
  | [] => cur
  | c :: t => if N.eqb c ch_nl then tail_width t 1 true else tail_width t (S cur) seen
  end.
Definition has_nl (s : text) : bool := existsb (N.eqb ch_nl) s.
Definition consume (o : lopt) (s : text) : option lopt :=
  option_map (with_w o) (consume_width (lw o) (Z.of_nat (tail_width s 0 false))).
Definition consume_len (o : lopt) (n : nat) : option lopt :=
  option_map (with_w o) (consume_width (lw o) (Z.of_nat n)).
Definition reset (o : lopt) : option lopt :=
  match reset_line (lw o) with Ret (Some w) => Some (with_w o w) | _ => None end.
Definition indent_text (o : lopt) : text := repeat ch_sp (Z.to_nat (tab_len * indent (lw o))).

(* ---- needs_parenthesis (unbound_expr = false), binding_strength, associativity ---- *)
Definition strength (e : node) : nat := match e with Bin _ _ => 17 | _ => 100 end.
Definition needs_paren (e : node) (o : lopt) : bool :=
  if strength e <? ctx o then true
  else if ctx o <? strength e then false
  else match pos o, e with PLeft, Bin _ _ => false | _, _ => true end.

(* WriteSource::write_between(prefix, suffix) around an inner writer *)
Definition between (pre suf : text) (o : lopt) (inner : lopt -> res text) : res text :=
  bind (ofopt (consume o pre)) (fun o1 =>
  let o2 := LOpt (lw o1) 0 (pos o1) (sl o1) (nlb o1) in
  bind (inner o2) (fun s =>
  bind (ofopt (consume o2 s)) (fun o3 =>
  bind (ofopt (consume o3 suf)) (fun _ =>
  ret (pre ++ s ++ suf))))).

Fixpoint join (sep : text) (l : list text) : text :=
  match l with [] => [] | [x] => x | x :: t => x ++ sep ++ join sep t end.

(* the parenthesis protocol of <pr::Expr as WriteSource>::write around the kind writer wk of the node *)
Definition protocol (e : node) (o : lopt) (wk : lopt -> res text) : res text :=
  tick (
    if needs_paren e o then
      (* first on the current line; nested parenthesised expressions may not break the line themselves *)
      match between t_lparen t_rparen (LOpt (lw o) (ctx o) (pos o) (sl o) true) wk with
      | (Some s, c) => (Some s, c)
      | (None, c) =>
          if nlb o then (None, c)
          else
            (* break_line_within_parenthesis *)
            let o1 := with_w o (indent_in (lw o)) in
            match bind (ofopt (reset o1)) (fun o2 => wk o2) with
            | (Some s, c') => (Some (t_lparen ++ [ch_nl] ++ indent_text o1 ++ s ++ [ch_nl] ++ indent_text o ++ t_rparen), c + c')
            | (None, c') => (None, c + c')
            end
      end
    else wk o).

(* <pr::ExprKind as WriteSource>::write, Binary arm, over the writers of the two operands *)
Definition wk_bin (wl wr : lopt -> res text) (o : lopt) : res text :=
  let up := fun (o : lopt) (p : position) => LOpt (lw o) (Nat.max (ctx o) 17) p (sl o) (nlb o) in
  bind (wl (up o PLeft)) (fun left =>
  bind (ofopt (consume o left)) (fun o1 =>
  bind (ofopt (consume o1 [ch_sp])) (fun o2 =>
  bind (ofopt (consume o2 t_plus)) (fun o3 =>
  bind (ofopt (consume o3 [ch_sp])) (fun o4 =>
  bind (wr (up o4 PRight)) (fun right =>
  ret (left ++ [ch_sp] ++ t_plus ++ [ch_sp] ++ right))))))).

(* Tuple arm: SeparatedExprs { ", ", "," }.write_between("{", "}") over the inline writer and the one-per-line writer *)
Definition wk_tup (inl : lopt -> list text -> res text) (lines : lopt -> res text) (o : lopt) : res text :=
  let o := LOpt (lw o) (ctx o) PUnspec (sl o) (nlb o) in
  between t_lbrace t_rbrace o (fun o' =>
    (* SeparatedExprs::write *)
    match inl (LOpt (lw o') (ctx o') (pos o') true (nlb o')) [] with
    | (Some s, c) => (Some s, c)
    | (None, c) =>
        if sl o' then (None, c)
        else match lines (with_w o' (indent_in (lw o'))) with
             | (Some s, c') => (Some (s ++ [ch_nl] ++ indent_text o'), c + c')
             | (None, c') => (None, c + c')
             end
    end).

Fixpoint we (e : node) (o : lopt) {struct e} : res text :=
  match e with
  | Id w => protocol e o (fun _ => ret (repeat ch_a w))
  | Tup cs => protocol e o (wk_tup (winl cs) (wlines cs))
  | Bin l r => protocol e o (wk_bin (we l) (we r))
  end
(* SeparatedExprs::write_inline: every item on this line (single_line is already set in o) *)
with winl (cs : nodes) (o : lopt) (acc : list text) {struct cs} : res text :=
  match cs with
  | NNil =>
      bind (ofopt (consume_len o (2 * (length acc - 1)))) (fun _ => ret (join (t_comma ++ [ch_sp]) acc))
  | NCons c t =>
      bind (we c o) (fun s =>
      if has_nl s then fail
      else bind (ofopt (consume_len o (length s))) (fun o' => winl t o' (acc ++ [s])))
  end
(* SeparatedExprs::write, one item per line (the indent is already increased in o) *)
with wlines (cs : nodes) (o : lopt) {struct cs} : res text :=
  match cs with
  | NNil => ret []
  | NCons c t =>
      bind (ofopt (reset o)) (fun o1 =>
      bind (ofopt (checked_sub16 (rem_width (lw o1)) 1)) (fun _ =>
      bind (we c o1) (fun s =>
      bind (wlines t o1) (fun rest =>
      ret ([ch_nl] ++ indent_text o1 ++ s ++ t_comma ++ rest)))))
  end.

(* Stmt::write for `let v = e` *)
Definition stmt_write (e : node) (o : lopt) : res text :=
  bind (ofopt (consume o t_let)) (fun o1 =>
  bind (we e o1) (fun s => ret (t_let ++ s ++ [ch_nl]))).

(* write_or_expand around it (fuel = calls of Stmt::write; the counts of the failed attempts add up) *)
Fixpoint stmt_expand (fuel : nat) (e : node) (o : lopt) : res text :=
  match fuel with
  | O => fail
  | S f =>
      match stmt_write e o with
      | (Some s, c) => (Some s, c)
      | (None, c) =>
          match widen (lw o) with
          | Ret w => match stmt_expand f e (with_w o w) with (r, c') => (r, c + c') end
          | _ => (None, c)
          end
      end
  end.

(* pl_to_prql of the one-statement document: Vec<Stmt>::write with WriteOpt::default() *)
Definition default_lopt : lopt := LOpt default_opt 0 PUnspec false false.
Definition format_let (e : node) : res text :=
  bind (ofopt (reset default_lopt)) (fun o => stmt_expand 28 e o).

(* ---- sizes ---- *)
Fixpoint size (e : node) : nat :=
  match e with Id _ => 1 | Tup cs => S (sizes cs) | Bin l r => S (size l + size r) end
with sizes (cs : nodes) : nat :=
  match cs with NNil => 0 | NCons c t => size c + sizes t end.

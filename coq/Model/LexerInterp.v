(* C17: the INNER structure of s-/f-strings -- executable model of prqlc-parser/src/parser/interpolation.rs
   (interpolated_parser, interpolate_ident_part; chumsky 0.12), the second lexer that runs over the (unescaped) content of an
   Interpolation token.  Definitions only.

     expr   := '{' ident_part ('.' ident_part)* (':' [^}]* )? '}'      -> Expr { ident path, span of the path, format }
     string := ( "{{" -> '{' | "}}" -> '}' | [^{}] )+                     -> String
     items  := (expr | string)* end

   - ident_part is the lexer's own ident_part (Model/Lexer.v [p_ident_part]: plain | `backticks`; the Rust code repeats it).
   - `separated_by(just('.'))` without trailing separator: a '.' that is not followed by an ident part is not consumed.
   - Spans are UTF-8 byte offsets into the content (chumsky SimpleSpan over &str); the parser later adds
     `span_base.start` (expr.rs: token span + 2; that rebasing is C13's subject, Model/InterpSpan.v).
   - In addition to what the Rust code returns, every item carries its own extent [istart, iend) in the content, so that
     tiling and re-lexing can be stated exactly as for tokens. *)
From Coq Require Import List NArith Bool.
From PV Require Import Lib.ListX Model.Lexer.
Import ListNotations.
Local Open Scope N_scope.

Inductive iitem :=
| IString (s : str)                                              (* InterpolateItem::String *)
| IExpr (path : list str) (pstart pend : N) (fmt : option str).  (* InterpolateItem::Expr { expr: Ident(path) @ pstart..pend, format } *)

Record itok := { ikind : iitem; istart : N; iend : N }.

Definition not_rbrace (c : chr) : bool := negb (c =? 125).
Definition is_brace (c : chr) : bool := (c =? 123) || (c =? 125).

(* string: the longest run of "{{", "}}" and non-brace characters; (unescaped text, rest) *)
Fixpoint p_ichunk (s : str) : str * str :=
  match s with
  | [] => ([], [])
  | c :: r =>
      if is_brace c then
        match r with
        | c2 :: r2 => if c2 =? c then let (t, r') := p_ichunk r2 in (c :: t, r') else ([], s)
        | [] => ([], s)
        end
      else let (t, r') := p_ichunk r in (c :: t, r')
  end.

Section Interp.
  Variable is_alpha : chr -> bool.
  Variable is_alnum : chr -> bool.
  Notation ident_part := (p_ident_part is_alpha is_alnum).

  (* further parts of the path: '.' ident_part, repeated *)
  Fixpoint p_path_rest (fuel : nat) (s : str) : list str * str :=
    match fuel with
    | O => ([], s)
    | S f =>
        match eat 46 s with
        | Some r =>
            match ident_part r with
            | Some (i, r') => let (l, r'') := p_path_rest f r' in (i :: l, r'')
            | None => ([], s)
            end
        | None => ([], s)
        end
    end.
  Definition p_path (s : str) : option (list str * str) :=
    match ident_part s with
    | Some (i, r) => let (l, r') := p_path_rest (List.length r) r in Some (i :: l, r')
    | None => None
    end.

  (* the optional format: ':' followed by any characters but '}' *)
  Definition p_fmt (s : str) : option str * str :=
    match eat 58 s with
    | Some r => let (f, r') := span_while not_rbrace r in (Some f, r')
    | None => (None, s)
    end.

  (* expr, at byte offset [pos] of the content *)
  Definition p_iexpr (pos : N) (s : str) : option (iitem * str) :=
    match eat 123 s with
    | Some r =>
        match p_path r with
        | Some (path, r1) =>
            let (fmt, r2) := p_fmt r1 in
            match eat 125 r2 with
            | Some r3 => Some (IExpr path (pos + 1) (pos + 1 + (blen r - blen r1)) fmt, r3)
            | None => None
            end
        | None => None
        end
    | None => None
    end.

  (* expr.or(string): one item *)
  Definition p_iitem (pos : N) (s : str) : option (iitem * str) :=
    match p_iexpr pos s with
    | Some x => Some x
    | None => match p_ichunk s with
              | ([], _) => None
              | (t, r) => Some (IString t, r)
              end
    end.

  (* expr.or(string).repeated() then end() *)
  Fixpoint interp_loop (fuel : nat) (pos : N) (s : str) : option (list itok) :=
    match fuel with
    | O => None
    | S f =>
        match s with
        | [] => Some []
        | _ =>
            match p_iitem pos s with
            | Some (it, r) =>
                let e := pos + (blen s - blen r) in
                match interp_loop f e r with
                | Some l => Some ({| ikind := it; istart := pos; iend := e |} :: l)
                | None => None
                end
            | None => None
            end
        end
    end.

  (* interpolation::parse on the content of an Interpolation token; None = Err(errors) *)
  Definition interp_lex (s : str) : option (list itok) := interp_loop (S (List.length s)) 0 s.
End Interp.

(* an item seen from its own start *)
Definition shift_item (d : N) (it : iitem) : iitem :=
  match it with
  | IExpr p a b f => IExpr p (a - d) (b - d) f
  | IString s => IString s
  end.

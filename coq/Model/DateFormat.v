(* PRQL date formats (date.to_text "<strftime format>" col): chrono's strftime items, translated item by item into the
   dialect's own format language (sql/dialect.rs translate_prql_date_format / translate_chrono_item; the tables and the
   treatment of literal chunks are regenerated: Gen/GenDateFormat.v).
   parse_fmt is a hand model of chrono 0.4 `StrftimeItems` for the specifiers the dialect tables know (TRUSTED: chrono is
   an external crate; validated by the `datefmt` correspondence stream): `%X` / `%-X` specifiers, `%%`, maximal runs of
   white space (Item::Space) and maximal runs of other characters (Item::Literal).  Definitions only. *)
From Coq Require Import List NArith Bool.
From PV Require Import Lib.ListX Gen.GenDateFormat.
Import ListNotations.
Local Open Scope N_scope.

Inductive ditem := DKey (k : str) | DLit (s : str) | DSpace (s : str) | DBad.

(* specifier character -> chrono item (padding Zero); `%-X` turns the padding of a NUMERIC item into None *)
Definition spec_table : list (N * str) :=
  [
    (89, [78;117;109;101;114;105;99;58;89;101;97;114;58;90;101;114;111]) (* %Y -> Numeric:Year:Zero *);
    (121, [78;117;109;101;114;105;99;58;89;101;97;114;77;111;100;49;48;48;58;90;101;114;111]) (* %y -> Numeric:YearMod100:Zero *);
    (109, [78;117;109;101;114;105;99;58;77;111;110;116;104;58;90;101;114;111]) (* %m -> Numeric:Month:Zero *);
    (100, [78;117;109;101;114;105;99;58;68;97;121;58;90;101;114;111]) (* %d -> Numeric:Day:Zero *);
    (72, [78;117;109;101;114;105;99;58;72;111;117;114;58;90;101;114;111]) (* %H -> Numeric:Hour:Zero *);
    (73, [78;117;109;101;114;105;99;58;72;111;117;114;49;50;58;90;101;114;111]) (* %I -> Numeric:Hour12:Zero *);
    (77, [78;117;109;101;114;105;99;58;77;105;110;117;116;101;58;90;101;114;111]) (* %M -> Numeric:Minute:Zero *);
    (83, [78;117;109;101;114;105;99;58;83;101;99;111;110;100;58;90;101;114;111]) (* %S -> Numeric:Second:Zero *);
    (102, [78;117;109;101;114;105;99;58;78;97;110;111;115;101;99;111;110;100;58;90;101;114;111]) (* %f -> Numeric:Nanosecond:Zero *);
    (98, [70;105;120;101;100;58;83;104;111;114;116;77;111;110;116;104;78;97;109;101]) (* %b -> Fixed:ShortMonthName *);
    (66, [70;105;120;101;100;58;76;111;110;103;77;111;110;116;104;78;97;109;101]) (* %B -> Fixed:LongMonthName *);
    (97, [70;105;120;101;100;58;83;104;111;114;116;87;101;101;107;100;97;121;78;97;109;101]) (* %a -> Fixed:ShortWeekdayName *);
    (65, [70;105;120;101;100;58;76;111;110;103;87;101;101;107;100;97;121;78;97;109;101]) (* %A -> Fixed:LongWeekdayName *);
    (112, [70;105;120;101;100;58;85;112;112;101;114;65;109;80;109]) (* %p -> Fixed:UpperAmPm *);
    (43, [70;105;120;101;100;58;82;70;67;51;51;51;57]) (* %+ -> Fixed:RFC3339 *) ].
Definition k_numeric : str := [78;117;109;101;114;105;99;58].   (* "Numeric:" *)
Definition k_none : str := [58;78;111;110;101].      (* ":None" *)
Fixpoint drop_last5 (s : str) : str :=
  match s with
  | [] => []
  | c :: t => if Nat.leb (length t) 4 then [] else c :: drop_last5 t
  end.
Definition spec_item (dash : bool) (c : N) : ditem :=
  if c =? 37 then (if dash then DBad else DLit [37])
  else match find (fun p => fst p =? c) spec_table with
       | None => DBad                     (* a specifier outside the modelled set: the model has no opinion *)
       | Some (_, k) =>
           if dash then
             match strip_prefix k_numeric k with
             | Some _ => DKey (drop_last5 k ++ k_none)
             | None => DBad               (* `%-b` ...: chrono yields Item::Error *)
             end
           else DKey k
       end.

Definition is_ws (c : N) : bool := (c =? 32) || ((9 <=? c) && (c <=? 13)).
Fixpoint span (p : N -> bool) (s : str) : str * str :=
  match s with
  | [] => ([], [])
  | c :: t => if p c then let (a, b) := span p t in (c :: a, b) else ([], s)
  end.
Fixpoint parse_fmt (fuel : nat) (s : str) : list ditem :=
  match fuel with
  | O => []
  | S f =>
      match s with
      | [] => []
      | c :: t =>
          if c =? 37 then
            match t with
            | [] => [DBad]
            | x :: t' =>
                if x =? 45 then match t' with [] => [DBad] | y :: t'' => spec_item true y :: parse_fmt f t'' end
                else spec_item false x :: parse_fmt f t'
            end
          else if is_ws c then let (a, b) := span is_ws s in DSpace a :: parse_fmt f b
          else let (a, b) := span (fun x => negb (is_ws x) && negb (x =? 37)) s in DLit a :: parse_fmt f b
      end
  end.

(* ---- the treatments of a literal chunk (dialect.rs, Item::Literal arms) ---- *)
Definition is_alnum (c : N) : bool := ((48 <=? c) && (c <=? 57)) || ((65 <=? c) && (c <=? 90)) || ((97 <=? c) && (c <=? 122)).
Definition lit_chunk (variant : N) (s : str) : str :=
  if variant =? 0 then      (* postgres, redshift *)
    if existsb is_alnum s then 34 :: s ++ [34]
    else flat_map (fun c => if c =? 39 then [39; 39] else if c =? 34 then [92; 34] else [c]) s
  else if variant =? 1 then (* mssql *)
    if existsb is_alnum s then 34 :: s ++ [34]
    else flat_map (fun c => if c =? 34 then [92; 34] else if c =? 39 then [34; 39; 34] else if c =? 37 then [92; 37] else [c]) s
  else if variant =? 2 then (* mysql, duckdb *)
    flat_map (fun c => if c =? 39 then [39; 39] else if c =? 37 then [37; 37] else [c]) s
  else if variant =? 3 then (* clickhouse *)
    if existsb is_alnum s then 39 :: s ++ [39]
    else flat_map (fun c => if c =? 39 then [92; 39; 92; 39] else [c]) s
  (* the same three after fixes/C02-N10: a quote is no longer escaped for SQL here (translate_literal does it, once) *)
  else if variant =? 4 then
    if existsb is_alnum s then 34 :: s ++ [34]
    else flat_map (fun c => if c =? 34 then [92; 34] else [c]) s
  else if variant =? 5 then
    flat_map (fun c => if c =? 37 then [37; 37] else [c]) s
  else
    if existsb is_alnum s then 39 :: s ++ [39]
    else flat_map (fun c => if c =? 39 then [39; 39] else [c]) s.

Definition item_text (tbl : list (str * str)) (variant : N) (it : ditem) : option str :=
  match it with
  | DKey k => option_map snd (find (fun p => leqb (fst p) k) tbl)
  | DLit s => Some (lit_chunk variant s)
  | DSpace s => Some s
  | DBad => None
  end.

Fixpoint map_opt_s (f : ditem -> option str) (l : list ditem) : option (list str) :=
  match l with
  | [] => Some []
  | x :: t => match f x, map_opt_s f t with Some y, Some ys => Some (y :: ys) | _, _ => None end
  end.

(* translate_prql_date_format: every item, in order, joined; None = a compile error (or a specifier outside the model) *)
Definition date_items (f : str) : list ditem := parse_fmt (S (length f)) f.
Definition date_fmt (dialect : str) (f : str) : option str :=
  match find (fun r => leqb (fst (fst r)) dialect) date_tables with
  | None => None
  | Some (_, tbl, variant) => option_map (@concat N) (map_opt_s (item_text tbl variant) (date_items f))
  end.

(* all dialects that translate at all translate the same items *)
Definition same_keys (a b : list (str * str)) : bool :=
  forallb (fun p => existsb (fun q => leqb (fst p) (fst q)) b) a && forallb (fun q => existsb (fun p => leqb (fst p) (fst q)) a) b.
Definition date_tables_same_domain : bool :=
  match date_tables with
  | [] => false
  | (_, t0, _) :: rest => forallb (fun r => same_keys t0 (snd (fst r))) rest
  end.
(* every specifier of the hand-written chrono table is an item the dialect tables translate, and every item of the
   tables is reachable: from a specifier, or (Pad::None) from its `%-X` form *)
Definition spec_table_covers : bool :=
  match date_tables with
  | [] => false
  | (_, t0, _) :: _ =>
      forallb (fun s => existsb (fun p => leqb (fst p) (snd s)) t0) spec_table &&
      forallb (fun p => existsb (fun s => leqb (snd s) (fst p) || leqb (drop_last5 (snd s) ++ k_none) (fst p)) spec_table) t0
  end.

(* C02-N10: does this dialect escape a quote of a literal chunk for SQL although translate_literal escapes the whole
   format again?  (variants 0, 2, 3) *)
Definition quote_escaped_twice (variant : N) : bool := (variant =? 0) || (variant =? 2) || (variant =? 3).

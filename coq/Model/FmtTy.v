(* C14 -- type expressions: codegen/types.rs (`impl WriteSource for pr::Ty / pr::TyKind / pr::TyTupleField`) emitting
   the tokens of Model/FmtPratt.v, and a predictive model of parser/types.rs `type_expr` on those tokens.
   Executable definitions only. *)
From Coq Require Import List NArith Bool Arith.
From PV Require Import Lib.ListX Model.FmtLit Model.FmtPratt.
Import ListNotations.
Local Open Scope N_scope.

(* pr::TyKind (the `name` of a pr::Ty is set by the resolver only: parsed types have none).  The fields of a tuple type
   (pr::TyTupleField) are constructors of the same type, allowed in tuples only (wf_ty):
     TyField n t = Single(n, Some t)   TyStar n = Single(n, None)   TyWild0 = Wildcard(None)   TyWild t = Wildcard(Some t) *)
Inductive ty :=
| TyPrim (name : str)                 (* int float bool text date time timestamp *)
| TyIdent (path : list str)
| TyFunc0                             (* Function(None): `func` *)
| TyFunc (ps : list ty) (r : ty)      (* func p.. -> r *)
| TyTuple (fs : list ty)
| TyArr0                              (* Array(None): `[]` *)
| TyArr (e : ty)
| TyField (n : option str) (t : ty)
| TyStar (n : option str)
| TyWild0
| TyWild (t : ty).

Definition prim_names : list str :=
  [[105;110;116]; [102;108;111;97;116]; [98;111;111;108]; [116;101;120;116]; [100;97;116;101]; [116;105;109;101];
   [116;105;109;101;115;116;97;109;112]].
Definition is_prim (n : str) : bool := existsb (leqb n) prim_names.

(* ------------------------------------------------------------------ the printer *)
Fixpoint fmt_ty (t : ty) : list tok :=
  match t with
  | TyPrim n => [TA (APath [n])]
  | TyIdent path => [TA (APath path)]
  | TyFunc0 => [TFunc]
  | TyFunc ps r => TFunc :: flat_map fmt_ty ps ++ TThin :: fmt_ty r
  | TyTuple fs =>
      TOpen GTup ::
      (fix go (l : list ty) : list tok :=
         match l with
         | [] => []
         | [a] => fmt_ty a
         | a :: t => fmt_ty a ++ TComma :: go t
         end) fs ++ [TClose GTup]
  | TyArr0 => [TOpen GArr; TClose GArr]
  | TyArr e => TOpen GArr :: fmt_ty e ++ [TClose GArr]
  | TyField (Some n) t => TAlias n :: fmt_ty t
  | TyField None t => fmt_ty t
  | TyStar (Some n) => [TAlias n; TStar]
  | TyStar None => [TStar]
  | TyWild0 => [TRg false false]
  | TyWild t => TRg false true :: fmt_ty t
  end.

(* ------------------------------------------------------------------ the parser *)
Definition starts_ty (t : tok) : bool :=
  match t with
  | TFunc | TOpen GTup | TOpen GArr | TA (APath _) | TA (AIdent _) => true
  | _ => false
  end.

Definition ty_of_path (p : list str) : ty :=
  match p with
  | [n] => if is_prim n then TyPrim n else TyIdent p
  | _ => TyIdent p
  end.

Section Loops.
  Variable P : list tok -> option (ty * list tok).      (* the type parser at a smaller fuel *)

  (* the parameters of a function type: types as long as one begins *)
  Fixpoint params_loop (n : nat) (ts : list tok) : option (list ty * list tok) :=
    match n with
    | O => None
    | S n' =>
        match ts with
        | t :: _ =>
            if starts_ty t then
              match P ts with
              | Some (a, r1) => match params_loop n' r1 with Some (l, r2) => Some (a :: l, r2) | None => None end
              | None => None
              end
            else Some ([], ts)
        | [] => Some ([], ts)
        end
    end.

  (* one field of a tuple type *)
  Definition p_field (ts : list tok) : option (ty * list tok) :=
    match ts with
    | TRg _ false :: r => Some (TyWild0, r)
    | TRg _ true :: r =>
        match r with
        | t :: _ => if starts_ty t then match P r with Some (a, r1) => Some (TyWild a, r1) | None => None end
                    else Some (TyWild0, r)
        | [] => Some (TyWild0, r)
        end
    | TAlias n :: TStar :: r => Some (TyStar (Some n), r)
    | TAlias n :: r => match P r with Some (a, r1) => Some (TyField (Some n) a, r1) | None => None end
    | TStar :: r => Some (TyStar None, r)
    | _ => match P ts with Some (a, r1) => Some (TyField None a, r1) | None => None end
    end.

  (* the fields of a tuple type, separated by commas (a trailing one allowed), up to `}` *)
  Fixpoint fields_loop (n : nat) (ts : list tok) : option (list ty * list tok) :=
    match n with
    | O => None
    | S n' =>
        match ts with
        | TClose GTup :: r => Some ([], r)
        | _ =>
            match p_field ts with
            | Some (a, TComma :: r1) => match fields_loop n' r1 with Some (l, r2) => Some (a :: l, r2) | None => None end
            | Some (a, TClose GTup :: r1) => Some ([a], r1)
            | _ => None
            end
        end
    end.
End Loops.

Fixpoint p_ty (f : nat) (ts : list tok) {struct f} : option (ty * list tok) :=
  match f with
  | O => None
  | S f' =>
      match ts with
      | [] => None
      | t :: r =>
          match t with
          | TA a => match a with APath p | AIdent p => Some (ty_of_path p, r) | _ => None end
          | TFunc =>
              (* func (type* `->` type)?  -- the optional part is entered when a type or `->` follows *)
              match r with
              | t2 :: _ =>
                  if starts_ty t2 || match t2 with TThin => true | _ => false end then
                    match params_loop (p_ty f') f' r with
                    | Some (ps, r1) =>
                        match r1 with
                        | TThin :: r2 => match p_ty f' r2 with Some (rt, r3) => Some (TyFunc ps rt, r3) | None => None end
                        | _ => None
                        end
                    | None => None
                    end
                  else Some (TyFunc0, r)
              | [] => Some (TyFunc0, r)
              end
          | TOpen k =>
              match k with
              | GArr =>
                  match r with
                  | TClose GArr :: r1 => Some (TyArr0, r1)
                  | _ => match p_ty f' r with
                         | Some (e, r1) => match r1 with TClose GArr :: r2 => Some (TyArr e, r2) | _ => None end
                         | None => None
                         end
                  end
              | GTup =>
                  match fields_loop (p_ty f') f' r with
                  | Some (fs, r1) => Some (TyTuple fs, r1)
                  | None => None
                  end
              | _ => None
              end
          | _ => None
          end
      end
  end.

Definition parse_ty (fuel : nat) (ts : list tok) : option ty :=
  match p_ty fuel ts with Some (t, []) => Some t | _ => None end.

(* ------------------------------------------------------------------ well-formed types *)
Definition is_field (t : ty) : bool := match t with TyField _ _ | TyStar _ | TyWild0 | TyWild _ => true | _ => false end.
Definition is_wild (t : ty) : bool := match t with TyWild0 | TyWild _ => true | _ => false end.

(* the text of the type ends in a bare `func`: whatever follows must not look like the rest of a function type *)
Fixpoint ends_func (t : ty) : bool :=
  match t with
  | TyFunc0 => true
  | TyFunc _ r => ends_func r
  | TyField _ x | TyWild x => ends_func x
  | _ => false
  end.

(* "unpacking must come after all other fields" *)
Fixpoint wild_last (fs : list ty) : bool :=
  match fs with
  | [] | [_] => true
  | a :: t => negb (is_wild a) && wild_last t
  end.

(* Shapes the parser can produce: primitive names are the seven primitives, identifiers are no lone primitive name and
   non-empty; fields only in tuples, wildcards last; a parameter of a function type does not end in a bare `func`
   (`func func int -> bool` is read as one function type inside a bare one, and rejected). *)
Fixpoint wf_ty (t : ty) : bool :=
  match t with
  | TyPrim n => is_prim n
  | TyIdent p => negb (match p with [] => true | [n] => is_prim n | _ => false end)
  | TyFunc0 | TyArr0 | TyWild0 | TyStar _ => true
  | TyFunc ps r =>
      negb (is_field r) && wf_ty r &&
      (fix go (l : list ty) : bool := match l with [] => true | a :: t => negb (is_field a) && negb (ends_func a) && wf_ty a && go t end) ps
  | TyTuple fs =>
      wild_last fs &&
      (fix go (l : list ty) : bool := match l with [] => true | a :: t => is_field a && wf_ty a && go t end) fs
  | TyArr e => negb (is_field e) && wf_ty e
  | TyField _ x | TyWild x => negb (is_field x) && wf_ty x
  end.

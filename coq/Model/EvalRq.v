(* The documented meaning of an RQ-level expression (operators as std function calls): the same
   semantics as Model/EvalDoc.v, one level down, so that ast_expand and static_eval can each be
   shown to preserve it.  Definitions only. *)
From Coq Require Import List NArith ZArith QArith Bool.
From PV Require Import Lib.ListX Model.Value Model.PrqlExpr Model.StaticEval Model.EvalDoc Gen.GenPratt Gen.GenExpand.
Import ListNotations.

Definition binop_of_name (n : str) : option binop := find (fun o => leqb (expand_binop o) n) binops_all.

(* SPECIFICATION of the std library: std.math.pow takes the EXPONENT first (std.prql: `let pow = exponent column`),
   every other binary operator function takes its operands in reading order.  Tied to std.sql.prql by
   Props/C02.v std_pow_exponent_first; that ast_expand swaps exactly there is part of expand_sound. *)
Definition rq_reversed (o : binop) : bool := match o with B_Pow => true | _ => false end.

Fixpoint eval_r (env : list val) (r : rexpr) : option val :=
  match r with
  | RCol i => Some (nth i env VNull)
  | RLit l => lit_eval l
  | RCase cs =>
      (fix go (cs : list (rexpr * rexpr)) : option val :=
         match cs with
         | [] => Some VNull
         | (c, v) :: t =>
             match eval_r env c with
             | Some cv => if Value.is_true cv then eval_r env v else go t
             | None => None
             end
         end) cs
  | ROp n args =>
      if leqb n n_neg then match args with [x] => option_map eval_neg (eval_r env x) | _ => None end
      else if leqb n n_not then match args with [x] => option_map eval_not (eval_r env x) | _ => None end
      else if leqb n n_in then
        match args with
        | [x; lo; hi] =>
            if is_null lo && is_null hi then Some (b2v true) else
            match eval_r env x with
            | None => None
            | Some v =>
                let side (b : rexpr) (o : bop) : option (option val) :=
                  if is_null b then Some None
                  else match eval_r env b with Some bv => Some (Some (eval_bop o v bv)) | None => None end in
                match side lo Ge, side hi Le with
                | Some (Some a), Some (Some b) => Some (and3 a b)
                | Some (Some a), Some None => Some a
                | Some None, Some (Some b) => Some b
                | Some None, Some None => Some (b2v true)
                | _, _ => None
                end
            end
        | _ => None
        end
      else if leqb n n_and_in then
        match args with
        | [a; b] => match eval_r env a, eval_r env b with Some x, Some y => Some (and3 x y) | _, _ => None end
        | _ => None
        end
      else
        match binop_of_name n, args with
        | Some o, [a; b] =>
            let bin (l r : rexpr) : option val :=
              match is_eq_op o, is_null l || is_null r with
              | Some negated, true =>
                  option_map (fun v => eval_isnull v negated) (if is_null l then eval_r env r else eval_r env l)
              | _, _ => match eval_r env l, eval_r env r with
                        | Some x, Some y => eval_binop o x y
                        | _, _ => None
                        end
              end in
            if rq_reversed o then bin b a else bin a b
        | _, _ => None
        end
  end.

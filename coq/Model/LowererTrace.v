(* C16: replaying the op trace of semantic/lowering.rs against the Lowerer machine (Model/Lowerer.v).

   Hook `lowerer-op-trace` (/repo 120eb8c, cfg prqlc_verif) logs one event per operation on the Lowerer's identifier
   state.  vplib/props/c16_trace.py groups the events of one compilation into operations of the machine -- the grouping is
   purely syntactic, event kinds to constructor, see the table in the header of Model/Lowerer.v -- and attaches to every
   operation what the CODE observed while performing it ([obs]): the transform it pushed, the id it handed back, the table
   id it declared, the redirect map it applied.  [run_obs] performs the operations with [step] and, after each one, checks
   that the machine's state shows exactly the observed values; [replay_ok ops q] additionally demands that the finished
   run is the RQ [q] the implementation returned.  Everything is decided inside Coq; the check evaluates
   [replay_ok <ops of the trace> <RQ JSON as a term>] by vm_compute for every generated program.
   Proofs/LowererTraceProofs.v: replay_ok ops q = true -> run init (map fst ops) = Some s /\ finish s = Some q, hence every
   theorem about runs of the machine holds of that RQ.  Executable definitions only. *)
From Coq Require Import List NArith Bool.
From PV Require Import Lib.ListX Model.Rq Model.RqWf Model.Lowerer Model.RqEq.
Import ListNotations.
Local Open Scope N_scope.

Inductive obs :=
| BTop (t : transform)                 (* `push` / `declare how=new`: the transform now last in self.pipeline *)
| BCid (node : N) (c : cid)            (* `declare how=cached|alias`: node_mapping[node] = Compute(c) *)
| BTable (t : tid)                     (* `extern` / `table` / `leaf` / `inline_table`: the decl pushed last has this id *)
| BReserved (t : tid)                  (* `reserve`: the id set aside for the table the sub-pipeline becomes *)
| BInput (node : N) (cols : list (relcol * cid))   (* `instance`: the columns of the TableRef created for PL node `node` *)
| BRedirect (pairs : list (cid * cid)) (* `redirect`: the HashMap applied by redirect_mappings, as sorted pairs *)
| BDepth (n : N)                       (* number of suspended pipelines + 1 (relation_begin nesting) *)
| BFrame (f : list (relcol * cid))     (* `relation_end`: the columns and the closing Select push_select returned *)
| BLookup (post : bool) (node : N) (name : option str) (res : option cid)
                                       (* `lookup_in` [`lookup_out`] (hooks/lookup-cid.diff): one call of Lowerer::lookup_cid and its result
                                          (None = an error); post = the read happened after the operation's instance / redirect
                                          (a join filter), so it sees node_mapping as the operation leaves it *)
| BLookupAll (post : bool) (node : N) (cids : list cid)
| BSelectedAll (within except out : list cid).
                                       (* `selected_all` (hooks/selected-all.diff): find_selected_all with an `except` *)
                                       (* `lookup_all`: declare_as_columns on a reference to a whole input *)

(* Lowerer::lookup_cid on node_mapping *)
Definition lookup_cid_m (m : list (N * target)) (id : N) (name : option str) : option cid :=
  match lookup_node m id with
  | Some (MCompute c) => Some c
  | Some (MInput cols) =>
      match name with
      | Some v => option_map snd (find (fun rc => relcol_eqb (fst rc) (RSingle (Some v))) cols)
      | None => None
      end
  | None => None
  end.

(* find_selected_all: `selected.retain(|t| !except.contains(t))` *)
Definition retain_m (within except : list cid) : list cid := filter (fun c => negb (memN c except)) within.

Fixpoint last_opt {A} (l : list A) : option A :=
  match l with [] => None | [x] => Some x | _ :: l' => last_opt l' end.

Definition top_last (s : lstate) : option transform :=
  match frames s with (_, p) :: _ => last_opt p | [] => None end.

Definition transform_tref (t : transform) : option table_ref :=
  match t with TFrom r | TAppend r => Some r | TJoin _ r _ => Some r | _ => None end.

(* HashMap<CId, CId> collected from a list of pairs: the last pair per key *)
Fixpoint hm_pairs (l : list (cid * cid)) : list (cid * cid) :=
  match l with
  | [] => []
  | x :: l' => if existsb (fun y => N.eqb (fst x) (fst y)) l' then hm_pairs l' else x :: hm_pairs l'
  end.

Definition pair_mem (x : cid * cid) (l : list (cid * cid)) : bool :=
  existsb (fun y => N.eqb (fst x) (fst y) && N.eqb (snd x) (snd y)) l.

Definition same_pairs (a b : list (cid * cid)) : bool :=
  Nat.eqb (length a) (length b) && forallb (fun x => pair_mem x b) a && forallb (fun x => pair_mem x a) b.

(* the frame of an operation that closes a relation *)
Definition op_frame (o : op) : list (relcol * cid) :=
  match o with OEndTable _ f => f | OEndInline _ f _ => f | _ => [] end.

Definition check_obs (s s' : lstate) (o : op) (b : obs) : bool :=
  match b with
  | BTop t => match top_last s' with Some t' => transform_eqb t' t | None => false end
  | BCid node c => match lookup_node (mapping s') node with Some (MCompute c') => N.eqb c c' | _ => false end
  | BTable t => match last_opt (tables s') with Some d => N.eqb (t_id d) t | None => false end
  | BReserved t => match frames s' with (FInline t', _) :: _ => N.eqb t t' | _ => false end
  | BInput node cols =>
      (* the TableRef is in the transform pushed last; node_mapping[node] holds its columns as a HashMap *)
      match top_last s', lookup_node (mapping s') node with
      | Some tr, Some (MInput m) =>
          match transform_tref tr with
          | Some r => list_eqb (pair_eqb rc_eqb N.eqb) (tr_columns r) cols
                      && list_eqb (pair_eqb rc_eqb N.eqb) m (hm_collect cols)
          | None => false
          end
      | _, _ => false
      end
  | BRedirect pairs =>
      match top_last s' with
      | Some tr => match transform_tref tr with
                   | Some r => same_pairs (hm_pairs (combine (map snd (op_frame o)) (tref_cids r))) pairs
                   | None => false
                   end
      | None => false
      end
  | BDepth n => N.eqb (N.of_nat (length (frames s'))) n
  | BFrame f => list_eqb (pair_eqb rc_eqb N.eqb) (op_frame o) f
  | BLookup post node name res => option_eqb N.eqb (lookup_cid_m (mapping (if post then s' else s)) node name) res
  | BLookupAll post node cids =>
      match lookup_node (mapping (if post then s' else s)) node with
      | Some (MInput ic) => cids_eqb (map snd ic) cids
      | _ => false
      end
  | BSelectedAll within except out => cids_eqb (retain_m within except) out
  end.

(* inl = final state; inr k = operation number k (from 0) is not a step of the machine, or the state after it does not
   show what the code observed *)
Fixpoint run_obs (s : lstate) (l : list (op * list obs)) (k : nat) : lstate + nat :=
  match l with
  | [] => inl s
  | (o, bs) :: l' =>
      match step s o with
      | Some s' => if forallb (check_obs s s' o) bs then run_obs s' l' (S k) else inr k
      | None => inr k
      end
  end.

Definition replay_ok (l : list (op * list obs)) (q : rq) : bool :=
  match run_obs init l 0 with
  | inl s => match finish s with Some q' => rq_eqb q' q | None => false end
  | inr _ => false
  end.

(* for diagnosis: 0 = agrees; k + 1 = operation k fails; length + 1 = all operations agree but the finished RQ differs *)
Definition replay_verdict (l : list (op * list obs)) (q : rq) : N :=
  match run_obs init l 0 with
  | inl s => match finish s with
             | Some q' => if rq_eqb q' q then 0 else N.of_nat (length l) + 1
             | None => N.of_nat (length l) + 1
             end
  | inr k => N.of_nat k + 1
  end.

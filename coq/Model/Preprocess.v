(* C01 -- the recognisers of sql/pq/preprocess.rs that replace transforms by SQL set operations / DISTINCT:
     distinct   : Take with a partition   -> Distinct | Sort + DistinctOn | ROW_NUMBER filter
     intersect  : Join(Inner)             -> Intersect { distinct }
     except     : Join(Left) + Filter     -> Except { distinct }
   The decision of each, as a function of exactly what the code reads: the join / filter condition trees (reduced to what
   collect_equals / only_equals / col_refs / all_null look at), `determine_select_columns` of the prefixes (taken from the hook:
   that function lives in context.rs), the columns of the bottom relation, the columns used behind, the neighbours, and the
   dialect switches.  What the rewrites MEAN is Proofs/SetRewrites.v.  Executable definitions only. *)
From Coq Require Import List Bool Arith.
Import ListNotations.

Inductive pe := PCol (c : nat) | PNull | PEq (a b : pe) | PAnd (a b : pe) | POth.

Definition memn (c : nat) (l : list nat) : bool := existsb (Nat.eqb c) l.

(* collect_equals: `(a == b) and ((c == d) and (e == f))` -> ([a, c, e], [b, d, f]); anything else contributes nothing *)
Fixpoint collect_equals (e : pe) : list pe * list pe :=
  match e with
  | PEq a b => ([a], [b])
  | PAnd x y => let '(l1, r1) := collect_equals x in let '(l2, r2) := collect_equals y in (l1 ++ l2, r1 ++ r2)
  | _ => ([], [])
  end.
Fixpoint only_equals (e : pe) : bool :=
  match e with PEq _ _ => true | PAnd x y => only_equals x && only_equals y | _ => false end.
Definition col_refs (l : list pe) : list nat := flat_map (fun e => match e with PCol c => [c] | _ => [] end) l.
Definition all_in (cids : list nat) (exprs : list pe) : bool := forallb (fun c => memn c (col_refs exprs)) cids.
Definition all_null (exprs : list pe) : bool := forallb (fun e => match e with PNull => true | _ => false end) exprs.

Definition pair_in (p : nat * nat) (l : list (nat * nat)) : bool := existsb (fun q => Nat.eqb (fst p) (fst q) && Nat.eqb (snd p) (snd q)) l.
Definition is_exact_pairing (top bottom : list nat) (cond : pe) : bool :=
  only_equals cond && Nat.eqb (length top) (length bottom) &&
  let '(ls, rs) := collect_equals cond in
  let n := length ls in
  Nat.eqb (length (col_refs ls)) n && Nat.eqb (length (col_refs rs)) n &&
  let pairs := combine (col_refs ls) (col_refs rs) in
  let expected := combine top bottom in
  forallb (fun p => pair_in p expected) pairs && forallb (fun p => pair_in p pairs) expected.

Inductive verdict := No | Yes (distinct : bool) | Err.

(* intersect_inner, at a Join { side: Inner, filter: cond, with } *)
Definition intersect_decision (top bottom output used_behind : list nat) (cond : pe)
                              (distinct_before distinct_after intersect_all wildcard : bool) : verdict :=
  let '(ls, rs) := collect_equals cond in
  if negb (all_in top ls && all_in bottom rs) then No else
  if negb (is_exact_pairing top bottom cond) then No else
  if existsb (fun c => memn c output) bottom then No else
  if existsb (fun c => memn c used_behind) bottom then No else
  if forallb (fun c => negb (memn c output)) top then No else
  let distinct := distinct_before || distinct_after in
  if negb distinct && negb intersect_all then (if wildcard then Err else No) else Yes distinct.

(* except_inner, at Join { side: Left, filter: cond, with } followed by Super(Filter(filter)) *)
Definition except_decision (top bottom output used_behind : list nat) (cond filter : pe)
                           (distinct_before except_all wildcard : bool) : verdict :=
  let '(jl, jr) := collect_equals cond in
  if negb (all_in top jl) || negb (all_in bottom jr) then No else
  if negb (is_exact_pairing top bottom cond) then No else
  let '(fl, fr) := collect_equals filter in
  if negb (all_in bottom fl && all_null fr) then No else
  let tested := col_refs fl in
  if negb (only_equals filter) || negb (Nat.eqb (length tested) (length fl)) || negb (forallb (fun c => memn c bottom) tested) then No else
  if existsb (fun c => memn c output) bottom then No else
  if existsb (fun c => memn c used_behind) bottom then No else
  if negb distinct_before && negb except_all then (if wildcard then Err else No) else Yes distinct_before.

(* distinct_inner, at Super(Take { range, partition, sort }) with a non-empty partition *)
Inductive dchoice := DDistinct | DDistinctOn | DRowNumber.
Definition same_elements (a b : list nat) : bool := forallb (fun c => memn c b) a && forallb (fun c => memn c a) b.
(* only_these_used(behind, partition): everything the transforms behind use is a partition column or defined behind *)
Definition only_these_used (used_behind defined_behind allowed : list nat) : bool :=
  forallb (fun c => memn c allowed || memn c defined_behind) used_behind.
Definition distinct_decision (first_only sort_empty : bool) (columns_in_frame partition used_behind defined_behind : list nat)
                             (supports_distinct_on : bool) : dchoice :=
  let matching := same_elements columns_in_frame partition && only_these_used used_behind defined_behind partition in
  if first_only && sort_empty && matching then DDistinct
  else if supports_distinct_on && first_only then DDistinctOn
  else DRowNumber.

(* C05: model of sql/gen_projection.rs translate_wildcards (RQ wildcards -> SQL stars with
   exclusions) and the meaning of its result.  Inputs/outputs of every real call are observed through
   the cfg(prqlc_verif) hook and compared with this model on every run.  Definitions only. *)
From Coq Require Import List Bool Arith.
Import ListNotations.

Definition cid := nat.
(* a requested column: its id, and for a wildcard the known column ids of its relation instance
   (original_cids; contains the wildcard's own id) *)
Definition col := (cid * option (list cid))%type.

Definition mem (x : cid) (s : list cid) : bool := existsb (Nat.eqb x) s.
Definition remove (x : cid) (s : list cid) : list cid := filter (fun y => negb (Nat.eqb x y)) s.

Record wst := mk { star : option (cid * list cid); excluded : list (cid * list cid); output : list cid (* reversed *) }.
Definition w0 := mk None [] [].

(* fn exclude: close the current star; remember what it must not show (if anything) *)
Definition exclude (st : wst) : wst :=
  match star st with
  | None => st
  | Some (c, s) => mk None (match s with [] => excluded st | _ => (c, s) :: excluded st end) (output st)
  end.

(* while let Some(prev) = output.pop() { if !in_star.remove(&prev) { output.push(prev); break } } *)
Fixpoint pop_included (out_rev : list cid) (s : list cid) : list cid * list cid :=
  match out_rev with
  | [] => ([], s)
  | prev :: r => if mem prev s then pop_included r (remove prev s) else (out_rev, s)
  end.

Definition step (st : wst) (c : col) : wst :=
  let '(id, decl) := c in
  let '(in_star, star') :=
    match star st with
    | Some (sc, s) => if mem id s then (true, Some (sc, remove id s)) else (false, star st)
    | None => (false, None)
    end in
  if in_star then mk star' (excluded st) (output st)
  else match decl with
       | Some orig =>
           let st1 := exclude (mk star' (excluded st) (output st)) in
           let s := remove id orig in
           let '(out', s') := pop_included (output st1) s in
           mk (Some (id, s')) (excluded st1) (id :: out')
       | None => mk star' (excluded st) (id :: output st)
       end.

Definition translate_wildcards (cols : list col) : list cid * list (cid * list cid) :=
  let st := exclude (fold_left step cols w0) in
  (rev (output st), excluded st).

(* ---- meaning of the result: which columns the emitted select list shows.
   A star shows its own id (standing for the columns the compiler does not know) and every known
   column of its instance, minus the exclusion list when the dialect has EXCLUDE/EXCEPT. *)
Fixpoint lookup_ex (ex : list (cid * list cid)) (c : cid) : list cid :=
  match ex with
  | [] => []
  | (k, s) :: r => if Nat.eqb k c then s else lookup_ex r c
  end.

Definition shows (orig_of : cid -> option (list cid)) (supports_exclude : bool) (ex : list (cid * list cid)) (c : cid) : list cid :=
  match orig_of c with
  | None => [c]
  | Some orig =>
      c :: filter (fun x => negb (if supports_exclude then mem x (lookup_ex ex c) else false)) (remove c orig)
  end.

Definition denote (orig_of : cid -> option (list cid)) (supports_exclude : bool) (r : list cid * list (cid * list cid)) : list cid :=
  flat_map (shows orig_of supports_exclude (snd r)) (fst r).

(* C04 -- which window a column definition is handed when it is lowered to RQ (semantic/lowering.rs):
   the Lowerer's `window` field -- None at first; for every transform call: the partition columns and the sort keys of
   the call are lowered, THEN `self.window = Some(window of the call)`, then the transform's own columns, and
   `self.window = None` at the end; Aggregate and Take take the field away before they lower theirs -- and
   declare_as_column's choice `if needs_window { self.window.clone() } else { None }`.
   Windows are opaque tokens.  Executable definitions only. *)
From Coq Require Import List NArith Bool.
Import ListNotations.

(* the operations the hook `verif:lowerer_op` logs, in order *)
Inductive lop :=
| LSet (w : N)                                  (* self.window = Some(window) *)
| LTake                                         (* self.window.take() *)
| LReset                                        (* self.window = None *)
| LDeclare (needs : bool) (got : option N).     (* declare_as_column built a new Compute: needs_window, Compute.window *)

Definition on_eqb (a b : option N) : bool :=
  match a, b with None, None => true | Some x, Some y => N.eqb x y | _, _ => false end.

(* declare_as_column *)
Definition hand_window (cur : option N) (needs : bool) : option N := if needs then cur else None.

(* replay of a trace: does every declared column carry what declare_as_column gives it from the field as the earlier
   operations left it?  (the field is None when the Lowerer is created) *)
Fixpoint lreplay (cur : option N) (ops : list lop) : bool :=
  match ops with
  | [] => true
  | LSet w :: r => lreplay (Some w) r
  | LTake :: r => lreplay None r
  | LReset :: r => lreplay None r
  | LDeclare n g :: r => on_eqb g (hand_window cur n) && lreplay cur r
  end.

(* ---- lower_pipeline, one transform call ---- *)
Inductive tbody :=
| BColumns (cols : list bool)      (* derive / select / filter / sort / join ..: the columns it declares (needs_window of each) *)
| BAggregate (cols : list bool)    (* aggregate: the field is taken first *)
| BTake.                           (* take: the field is taken *)
Record tcall := mk_tcall {
  tc_keys : list bool;             (* the partition columns and sort keys of the call that become new columns *)
  tc_win : N;                      (* the window built from the call's frame, partition and sort *)
  tc_body : tbody }.

Definition declares (cur : option N) (cols : list bool) : list lop := map (fun n => LDeclare n (hand_window cur n)) cols.

Definition ops_of_call (c : tcall) : list lop :=
  declares None (tc_keys c)                                     (* lowered while the field is still None *)
  ++ [LSet (tc_win c)]
  ++ (match tc_body c with
      | BColumns cols => declares (Some (tc_win c)) cols
      | BAggregate cols => LTake :: declares None cols
      | BTake => [LTake]
      end)
  ++ [LReset].
Definition ops_of_pipeline (p : list tcall) : list lop := flat_map ops_of_call p.

(* the windows the columns of one call end up with: (needs_window, Compute.window) of keys and of body columns *)
Definition key_windows (c : tcall) : list (bool * option N) := map (fun n => (n, hand_window None n)) (tc_keys c).
Definition body_windows (c : tcall) : list (bool * option N) :=
  match tc_body c with
  | BColumns cols => map (fun n => (n, hand_window (Some (tc_win c)) n)) cols
  | BAggregate cols => map (fun n => (n, hand_window None n)) cols
  | BTake => []
  end.

(* plain data in: 0 w = set, 1 = take, 2 = reset, 3 needs got = declare (got: [] or [w]) *)
Definition lop_of (d : N * N * bool * list N) : lop :=
  match d with (k, w, n, g) =>
    if N.eqb k 0 then LSet w else if N.eqb k 1 then LTake else if N.eqb k 2 then LReset
    else LDeclare n (match g with x :: _ => Some x | [] => None end)
  end.

(* JSON value trees as serde_json sees them, plus the small text codecs used by the
   hand-written serde impls of prqlc (decimal numbers inside Span strings).
   Executable definitions only; lemmas are in Proofs/SerdeProofs.v. *)
From Coq Require Import List NArith ZArith Bool.
From PV Require Import Lib.ListX.
Import ListNotations.
Local Open Scope N_scope.

(* A binary64 as far as JSON is concerned: either finite -- identified with its shortest round-trip
   decimal text, which is what serde_json prints and parses back (trusted: ryu + serde_json's
   number parser) -- or non-finite (inf / NaN), which serde_json prints as `null`. *)
Inductive fl := FFin (repr : str) | FNonFinite.

Inductive jnum := NInt (z : Z) | NFloat (repr : str).

Inductive json :=
| JNull
| JBool (b : bool)
| JNum (n : jnum)
| JStr (s : str)
| JArr (l : list json)
| JObj (l : list (str * json)).

(* weight: every node counts one; used as the fuel of the deserialiser *)
Fixpoint jw (j : json) : nat :=
  match j with
  | JArr l => S ((fix sum (l : list json) : nat := match l with [] => O | x :: l' => (jw x + sum l')%nat end) l)
  | JObj l => S ((fix sum (l : list (str * json)) : nat := match l with [] => O | (_, x) :: l' => (jw x + sum l')%nat end) l)
  | _ => 1%nat
  end.

Fixpoint assoc {A : Type} (k : str) (l : list (str * A)) : option A :=
  match l with
  | [] => None
  | (k', x) :: l' => if leqb k k' then Some x else assoc k l'
  end.

Definition keys {A : Type} (l : list (str * A)) : list str := map fst l.

Definition mem (k : str) (l : list str) : bool := existsb (leqb k) l.

Definition jnum_eqb (a b : jnum) : bool :=
  match a, b with
  | NInt x, NInt y => Z.eqb x y
  | NFloat x, NFloat y => leqb x y
  | _, _ => false
  end.

Fixpoint json_eqb (a b : json) {struct a} : bool :=
  match a, b with
  | JNull, JNull => true
  | JBool x, JBool y => Bool.eqb x y
  | JNum x, JNum y => jnum_eqb x y
  | JStr x, JStr y => leqb x y
  | JArr l, JArr m =>
      (fix go (l m : list json) {struct l} : bool :=
         match l, m with
         | [], [] => true
         | x :: l', y :: m' => json_eqb x y && go l' m'
         | _, _ => false
         end) l m
  | JObj l, JObj m =>
      (fix go (l m : list (str * json)) {struct l} : bool :=
         match l, m with
         | [], [] => true
         | (k, x) :: l', (k', y) :: m' => leqb k k' && json_eqb x y && go l' m'
         | _, _ => false
         end) l m
  | _, _ => false
  end.

(* ---- decimal text of a natural number (Rust `{}` of an unsigned integer) and `str::parse::<uN>` ---- *)

(* least significant digit first *)
Fixpoint lsd (fuel : nat) (n : N) : list N :=
  match fuel with
  | O => []
  | S f => if n <? 10 then [48 + n] else (48 + n mod 10) :: lsd f (n / 10)
  end.

Definition print_dec (n : N) : str := rev (lsd (S (N.size_nat n)) n).

Definition is_digit (c : N) : bool := (48 <=? c) && (c <=? 57).

(* value of a least-significant-first digit list; None when a non-digit occurs *)
Fixpoint val_lsd (l : list N) : option N :=
  match l with
  | [] => Some 0
  | c :: l' => if is_digit c then match val_lsd l' with Some v => Some ((c - 48) + 10 * v) | None => None end else None
  end.

(* Rust's `s.parse::<uN>()` with `bound` = 2^N: optional leading '+', at least one digit, no overflow *)
Definition parse_dec (bound : N) (s : str) : option N :=
  let body := match s with c :: s' => if c =? 43 then s' else s | [] => s end in
  match body with
  | [] => None
  | _ => match val_lsd (rev body) with
         | Some v => if v <? bound then Some v else None
         | None => None
         end
  end.

(* Rust's `str::split_once(c)` *)
Fixpoint split_once (c : N) (s : str) : option (str * str) :=
  match s with
  | [] => None
  | x :: s' => if x =? c then Some ([], s')
               else match split_once c s' with Some (a, b) => Some (x :: a, b) | None => None end
  end.

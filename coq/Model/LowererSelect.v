(* C16: Lowerer::push_select and lookup_cid (semantic/lowering.rs) -- the closing Select of a relation computed from its
   lineage -- on top of the Lowerer machine (Model/Lowerer.v).

   push_select(lineage, transforms):   for every column of the lineage
        Single {name, target_id, target_name}  ->  (RelationColumn::Single(name.name), lookup_cid(target_id, target_name))
        All {input_id, except}                 ->  lineage.find_input(input_id) must exist; node_mapping[input.id] must be an
                                                   Input; its columns, without the named ones in `except`, in instance order
   lookup_cid(id, name):  node_mapping[id] = Compute(c) -> c
                          node_mapping[id] = Input(cols) -> name must be given and be a key of cols (HashMap lookup)
                          otherwise an error (3870 / "cannot refer to column .. by name" / "unnamed columns")
   Any error makes the whole call fail ([None]).
   With it the frame of OEndTable / OEndInline is no longer a parameter taken from the trace: the operations [LEndTable] /
   [LEndInline] carry the LINEAGE (hook event `push_select`, hooks/push-select.diff) and the machine computes the frame
   ([elaborate]).  Proofs/LowererSelectProofs.v: the computed frame only names ids of node_mapping (the guard of the two
   operations is a theorem, not a side condition), and every [lstep] is a [step], so all invariants carry over.
   Executable definitions only. *)
From Coq Require Import List NArith Bool.
From PV Require Import Lib.ListX Model.Rq Model.RqWf Model.Lowerer Model.RqEq Model.LowererTrace Model.LowererVis.
Import ListNotations.
Local Open Scope N_scope.

Inductive lcol :=
| LSingle (name : option str) (target : N) (tname : option str)   (* name = last component of the lineage column's Ident *)
| LAll (input : N) (except : list str).

Definition all_cols (cols : list (relcol * cid)) (except : list str) : list (relcol * cid) :=
  filter (fun rc => match fst rc with
                    | RSingle (Some n) => negb (existsb (leqb n) except)
                    | _ => true
                    end) cols.

Fixpoint push_select_m (m : list (N * target)) (inputs : list N) (cols : list lcol) : option (list (relcol * cid)) :=
  match cols with
  | [] => Some []
  | LSingle name tgt tname :: rest =>
      match lookup_cid_m m tgt tname with
      | Some c => option_map (cons (RSingle name, c)) (push_select_m m inputs rest)
      | None => None
      end
  | LAll input except :: rest =>
      if memN input inputs then
        match lookup_node m input with
        | Some (MInput ic) => option_map (app (all_cols ic except)) (push_select_m m inputs rest)
        | _ => None
        end
      else None
  end.

(* operations whose frame is computed *)
Inductive lop :=
| LOp (o : op)
| LEndTable (name : option str) (inputs : list N) (cols : list lcol)
| LEndInline (node : N) (inputs : list N) (cols : list lcol) (u : use).

Definition elaborate (s : lstate) (o : lop) : option op :=
  match o with
  | LOp o => Some o
  | LEndTable n i c => option_map (OEndTable n) (push_select_m (mapping s) i c)
  | LEndInline nd i c u => option_map (fun f => OEndInline nd f u) (push_select_m (mapping s) i c)
  end.

Definition lstep (s : lstate) (o : lop) : option lstate :=
  match elaborate s o with Some o' => step s o' | None => None end.

Fixpoint lrun (s : lstate) (ops : list lop) : option lstate :=
  match ops with
  | [] => Some s
  | o :: ops' => match lstep s o with Some s' => lrun s' ops' | None => None end
  end.

(* ---- replay of a trace whose closing Selects are computed by the machine ---- *)

(* strict = also demand that every operation is a step of the strict machine (Model/LowererVis.v) *)
Fixpoint run_obs_l (strict : bool) (s : lstate) (l : list (lop * list obs)) (k : nat) : lstate + nat :=
  match l with
  | [] => inl s
  | (lo, bs) :: l' =>
      match elaborate s lo with
      | Some o =>
          match (if strict then vstep s o else step s o) with
          | Some s' => if forallb (check_obs s s' o) bs then run_obs_l strict s' l' (S k) else inr k
          | None => inr k
          end
      | None => inr k
      end
  end.

Definition replay_l_verdict (strict : bool) (l : list (lop * list obs)) (q : rq) : N :=
  match run_obs_l strict init l 0 with
  | inl s => match finish s with
             | Some q' => if rq_eqb q' q then 0 else N.of_nat (length l) + 1
             | None => N.of_nat (length l) + 1
             end
  | inr k => N.of_nat k + 1
  end.

Definition replay_l_ok (strict : bool) (l : list (lop * list obs)) (q : rq) : bool :=
  N.eqb (replay_l_verdict strict l q) 0.

(* a compilation that ended in an error: the operations performed up to the error must be a run of the machine
   (0 = they are; k + 1 = operation k is not); if the error was raised by push_select itself -- the trace ends with its
   input -- the model must fail on that input too *)
Definition replay_prefix_verdict (l : list (lop * list obs)) (pending : option lop) : N :=
  match run_obs_l false init l 0 with
  | inl s => match pending with
             | Some lo => match elaborate s lo with Some _ => N.of_nat (length l) + 1 | None => 0 end
             | None => 0
             end
  | inr k => N.of_nat k + 1
  end.

(* where an out-of-scope id enters: the first read of lookup_cid, or the first declare answered from node_mapping, (operation
   number, node, name) whose result is not in the visible set of the pipeline under construction at that moment *)
(* where an out-of-scope id lives: 0 = in a relation that is already closed (a table of table_buffer: an id of a sub-pipeline
   that its closing Select did not export, so that no redirect replaced it -- the shape of finding F7; or of another let-table);
   1 = in the pipeline under construction (an earlier Select / Aggregate of it dropped the id: F1, F9);
   2 = in an enclosing pipeline that is suspended (an id of the outer pipeline used inside a sub-pipeline) *)
Definition id_home (s : lstate) (c : cid) : N :=
  if memN c (Tdefs (tables s)) then 0
  else match frames s with
       | (_, p) :: _ => if memN c (pipeline_defs p) then 1 else 2
       | [] => 2
       end.

Definition read_scope (s s' : lstate) (b : obs) : option (N * (option str * N)) :=
  match b with
  | BLookup post node name (Some c) =>
      let st := if post then s' else s in
      if memN c (fvis (frames st)) then None else Some (node, (name, id_home st c))
  | BCid node c =>
      (* a declare answered from node_mapping (`cached`) or aliased to a column: the id it hands back; a new Compute
         (next_cid moved) is in scope by construction *)
      if N.eqb (next_cid s') (next_cid s) then (if memN c (fvis (frames s)) then None else Some (node, (None, id_home s c))) else None
  | _ => None
  end.

Fixpoint first_some {A B} (f : A -> option B) (l : list A) : option B :=
  match l with [] => None | x :: l' => match f x with Some y => Some y | None => first_some f l' end end.

Fixpoint first_out_of_scope_read (s : lstate) (l : list (lop * list obs)) (k : N) : option (N * (N * (option str * N))) :=
  match l with
  | [] => None
  | (lo, bs) :: l' =>
      match elaborate s lo with
      | Some o => match step s o with
                  | Some s' => match first_some (read_scope s s') bs with
                               | Some r => Some (k, r)
                               | None =>
                                   (* the closing Select: push_select reads node_mapping directly for `All` columns *)
                                   if subsetb (map snd (op_frame o)) (fvis (frames s))
                                   then first_out_of_scope_read s' l' (k + 1)
                                   else Some (k, (0, (None, 3)))
                               end
                  | None => None
                  end
      | None => None
      end
  end.

(* Vocabulary of the split decision (sql/pq/anchor.rs is_split_required) and the SPECIFICATION it is
   judged against: SQL's logical clause order inside one SELECT.  The decision function itself is
   not here: it is translated from the Rust source into Gen/GenSplit.v on every run. *)
From Coq Require Import List Bool Arith.
Import ListNotations.

(* kinds of PQ transforms that exist when a pipeline is split (Super(..) wrappers and PQ-level ones).
   KTakeSorted = a Take whose embedded `sort` is not empty (the flattener hands every take the order in effect);
   KTake = a Take without one.  Both are recorded as "Take". *)
Inductive kind := KFrom | KJoin | KFilter | KAggregate | KCompute | KComputeAgg | KSort | KTake | KTakeSorted | KSelect | KLoop
                | KDistinct | KDistinctOn | KUnion | KExcept | KIntersect.

(* names recorded in the `following` set (SqlTransform::as_str) *)
Inductive nm := NFrom | NJoin | NCompute | NFilter | NAggregate | NSort | NTake | NDistinct | NDistinctOn
              | NUnion | NExcept | NIntersect | NLoop | NSelect | NAppend.

Definition nm_eqb (a b : nm) : bool :=
  match a, b with
  | NFrom, NFrom | NJoin, NJoin | NCompute, NCompute | NFilter, NFilter | NAggregate, NAggregate | NSort, NSort
  | NTake, NTake | NDistinct, NDistinct | NDistinctOn, NDistinctOn | NUnion, NUnion | NExcept, NExcept
  | NIntersect, NIntersect | NLoop, NLoop | NSelect, NSelect | NAppend, NAppend => true
  | _, _ => false
  end.

Definition mem (x : nm) (f : list nm) : bool := existsb (nm_eqb x) f.
Definition contains_any (f : list nm) (els : list nm) : bool := existsb (fun e => mem e f) els.
Definition is_empty (f : list nm) : bool := match f with [] => true | _ => false end.

Definition as_name (k : kind) : nm :=
  match k with
  | KFrom => NFrom | KJoin => NJoin | KFilter => NFilter | KAggregate => NAggregate | KCompute => NCompute
  | KComputeAgg => NCompute | KSort => NSort | KTake => NTake | KTakeSorted => NTake | KSelect => NSelect | KLoop => NLoop
  | KDistinct => NDistinct | KDistinctOn => NDistinctOn | KUnion => NUnion | KExcept => NExcept | KIntersect => NIntersect
  end.

Definition all_kinds : list kind :=
  [KFrom; KJoin; KFilter; KAggregate; KCompute; KComputeAgg; KSort; KTake; KTakeSorted; KSelect; KLoop; KDistinct; KDistinctOn; KUnion; KExcept; KIntersect].
Definition all_names : list nm :=
  [NFrom; NJoin; NCompute; NFilter; NAggregate; NSort; NTake; NDistinct; NDistinctOn; NUnion; NExcept; NIntersect; NLoop; NSelect].

(* ---- specification: where in SQL's logical evaluation order a transform of that name can sit.
   FROM 1, JOIN 2, WHERE 3, GROUP BY/aggregate 4, HAVING 5, window functions 6 (plain computes are
   inlined, so they can sit anywhere from 3 to 6), DISTINCT 7, ORDER BY 8 (sorts are hoisted: only the
   last one counts, its position is irrelevant, hence lo 0), LIMIT/OFFSET 9, set operations 10 (their
   operand is a complete, wrapped SELECT), recursive CTE 11.  Select is a projection list: anywhere. *)
Definition lo (n : nm) : nat :=
  match n with
  | NFrom => 1 | NJoin => 2 | NFilter => 3 | NAggregate => 4 | NCompute => 3 | NDistinct => 7 | NDistinctOn => 7
  | NSort => 0 | NTake => 9 | NUnion | NExcept | NIntersect | NAppend => 10 | NLoop => 11 | NSelect => 0
  end.
Definition hi (n : nm) : nat :=
  match n with
  | NFrom => 1 | NJoin => 2 | NFilter => 5 | NAggregate => 4 | NCompute => 6 | NDistinct => 7 | NDistinctOn => 7
  | NSort => 8 | NTake => 9 | NUnion | NExcept | NIntersect | NAppend => 10 | NLoop => 11 | NSelect => 11
  end.
(* clauses that can hold several transforms of the pipeline (joins, conjunctions of filters, several
   computes, composed takes, chained set operations) *)
Definition multi (n : nm) : bool :=
  match n with
  | NJoin | NFilter | NCompute | NSort | NTake | NUnion | NExcept | NIntersect | NAppend | NSelect => true
  | NFrom | NAggregate | NDistinct | NDistinctOn | NLoop => false
  end.

(* may a transform of kind x be evaluated before a transform named y inside ONE SELECT, the SELECT
   still meaning "x then y"? *)
Definition may_precede (x : kind) (y : nm) : bool :=
  match x with
  | KComputeAgg => true       (* has no position of its own: evaluated inside the Aggregate that follows *)
  | _ =>
    let a := as_name x in
    Nat.ltb (lo a) (hi y)
    || (Nat.eqb (lo a) (hi y) && multi a && multi y)
    || (nm_eqb a NDistinct && nm_eqb y NDistinct)      (* DISTINCT is idempotent *)
  end.

Fixpoint subsets (l : list nm) : list (list nm) :=
  match l with
  | [] => [[]]
  | x :: r => let s := subsets r in s ++ map (cons x) s
  end.

Definition pair_eqb (p q : kind * nm) : bool :=
  nm_eqb (snd p) (snd q) &&
  match fst p, fst q with
  | KFrom, KFrom | KJoin, KJoin | KFilter, KFilter | KAggregate, KAggregate | KCompute, KCompute | KComputeAgg, KComputeAgg
  | KSort, KSort | KTake, KTake | KTakeSorted, KTakeSorted | KSelect, KSelect | KLoop, KLoop | KDistinct, KDistinct | KDistinctOn, KDistinctOn
  | KUnion, KUnion | KExcept, KExcept | KIntersect, KIntersect => true
  | _, _ => false
  end.

(* every (kind, following-name) pair the decision function lets into one SELECT against the spec,
   over ALL following-sets (exhaustive, so a non-monotone rewrite of the function is covered too) *)
Definition bad_pairs (split : kind -> list nm -> bool) : list (kind * nm) :=
  let all := flat_map (fun k => flat_map (fun f =>
                 if split k f then [] else
                   flat_map (fun y => if may_precede k y then [] else [(k, y)]) f) (subsets all_names)) all_kinds in
  fold_right (fun p acc => if existsb (pair_eqb p) acc then acc else p :: acc) [] all.

Definition pairs_subset (a b : list (kind * nm)) : bool := forallb (fun p => existsb (pair_eqb p) b) a.

(* simulation of split_off_back's kind-level loop: walk the pipeline from the back, stop at the first
   transform that must split; returns (remaining prefix, atomic suffix) *)
Fixpoint split_back (split : kind -> list nm -> bool) (records : kind -> bool) (rev_pipeline : list kind) (f : list nm) (acc : list kind)
  : list kind * list kind :=
  match rev_pipeline with
  | [] => ([], acc)
  | k :: rest =>
      if split k f then (rev rev_pipeline, acc)
      else split_back split records rest (if records k then as_name k :: f else f) (k :: acc)
  end.

(* a segment is clause-ordered when every earlier transform may precede every later one *)
Fixpoint clause_ordered (seg : list kind) : bool :=
  match seg with
  | [] => true
  | x :: rest => forallb (fun y => may_precede x (as_name y) || match y with KComputeAgg => true | _ => false end) rest && clause_ordered rest
  end.

(* C16: where the column ids of an emitted expression come from -- lower_expr's Ident arm and its relatives, as far as the
   trace shows them -- and why that makes the strict machine's guard a consequence of facts about READS.

   semantic/lowering.rs puts a ColumnRef / a column id into a transform only from these sources ("entries"):
     lower_expr, Ident arm           ColumnRef(lookup_cid(target_id, name))                       event lookup_in/lookup_out
     find_except_ids                 lookup_cid(id, name)                                         event lookup_in/lookup_out
     declare_as_columns, whole input all columns of node_mapping[input] in instance order         event lookup_all
     declare_as_column               the id it returns: cached | alias | new Compute              event declare
     push_select                     the closing Select (Model/LowererSelect.v push_select_m)     computed by the model
   [estep] replays one operation of a trace like run_obs_l and, next to the machine's state, keeps for every open frame the
   WINDOW of entries seen since the last transform other than a Compute was pushed onto that frame (a Compute pushed in
   between belongs to a nested declare_as_column of the same statement).  It demands
     scope        every entry is in [fvis] -- the visible set of the pipeline under construction -- at the moment it is read
                  (a join filter's reads: after the joined instance exists)
     containment  the ids an emitted transform uses are entries of the current window ("ColumnRefs within entries")
     closing      the closing Select computed by push_select_m is within [fvis]; leaves mention no id
   Proofs/LowererEntriesProofs.v: an operation that passes [estep] is a step of the STRICT machine (inside a window the visible
   set only grows, so an id that was in scope when it was read is in scope when it is used), hence a trace that passes [erun] ends in an
   RQ with rq_wf = true.  What is left per program are facts about single reads.  Executable definitions only. *)
From Coq Require Import List NArith Bool.
From PV Require Import Lib.ListX Model.Rq Model.RqWf Model.Lowerer Model.RqEq Model.LowererTrace Model.LowererVis Model.LowererSelect.
Import ListNotations.
Local Open Scope N_scope.

Definition estack := list (list cid).

(* the entries an observation reports, with the phase (false = before the operation's instance, true = behind it) *)
Definition obs_entries (post : bool) (b : obs) : list cid :=
  match b with
  | BLookup p _ _ (Some c) => if Bool.eqb p post then [c] else []
  | BLookupAll p _ cids => if Bool.eqb p post then cids else []
  | _ => []
  end.

Definition entries_of (post : bool) (bs : list obs) : list cid := flat_map (obs_entries post) bs.

Definition add_top (cs : list cid) (es : estack) : estack :=
  match es with e :: r => (e ++ cs) :: r | [] => [] end.
Definition reset_top (es : estack) : estack :=
  match es with _ :: r => [] :: r | [] => [] end.
Definition top_of (es : estack) : list cid := match es with e :: _ => e | [] => [] end.

Definition estep (st : lstate * estack) (x : lop * list obs) : option (lstate * estack) :=
  let (s, es) := st in
  let (lo, bs) := x in
  match elaborate s lo with
  | None => None
  | Some o =>
    match step s o with
    | None => None
    | Some s' =>
      let pre := entries_of false bs in
      let post := entries_of true bs in
      let vis := fvis (frames s) in
      let vis' := fvis (frames s') in
      match o with
      | ODeclExtern _ _ => Some (s', es)
      | OBegin _ _ _ x => if src_closed x then Some (s', [] :: es) else None
      | OBeginLoop => Some (s', [] :: es)
      | OInstance _ _ x u =>
          if src_closed x && subsetb post vis' then
            let e := top_of es ++ post in
            match u with
            | UJoin _ f => if subsetb (expr_cids f) e then Some (s', reset_top es) else None
            | _ => Some (s', reset_top es)
            end
          else None
      | ODeclare node e w _ _ =>
          if subsetb pre vis then
            let es1 := add_top pre es in
            if N.eqb (next_cid s') (next_cid s) then
              (* answered from node_mapping (cached) or aliased to a column: the id handed back is an entry -- when it is in
                 scope; an id that is out of scope is not recorded, so a transform that uses it fails containment (the
                 Flattener's carried sort is declared in front of every transform, also of those that have no sort) *)
              match lookup_node (mapping s') node with
              | Some (MCompute c) => Some (s', if memN c vis then add_top [c] es1 else es1)
              | _ => None
              end
            else
              if subsetb (expr_cids e ++ window_cids w) (top_of es1) then Some (s', add_top [next_cid s] es1) else None
          else None
      | OPush t =>
          if subsetb pre vis && subsetb (transform_uses t) (top_of es ++ pre) then Some (s', reset_top es) else None
      | OEndTable _ frame => if subsetb (map snd frame) vis then Some (s', tl es) else None
      | OEndInline _ frame u =>
          if subsetb (map snd frame) vis && subsetb post vis' then
            let es1 := tl es in
            let e := top_of es1 ++ post in
            match u with
            | UJoin _ f => if subsetb (expr_cids f) e then Some (s', reset_top es1) else None
            | _ => Some (s', reset_top es1)
            end
          else None
      | OEndLoop => Some (s', reset_top (tl es))
      end
    end
  end.

(* inl = final state; inr k = operation k is refused: not a step, an observation differs, an entry out of scope, or an id
   that is not an entry *)
Fixpoint erun (st : lstate * estack) (l : list (lop * list obs)) (k : nat) : (lstate * estack) + nat :=
  match l with
  | [] => inl st
  | x :: l' =>
      match estep st x with
      | Some st' =>
          match elaborate (fst st) (fst x) with
          | Some o => if forallb (check_obs (fst st) (fst st') o) (snd x) then erun st' l' (S k) else inr k
          | None => inr k
          end
      | None => inr k
      end
  end.

Definition entries_verdict (l : list (lop * list obs)) (q : rq) : N :=
  match erun (init, []) l 0 with
  | inl st => match finish (fst st) with
              | Some q' => if rq_eqb q' q then 0 else N.of_nat (length l) + 1
              | None => N.of_nat (length l) + 1
              end
  | inr k => N.of_nat k + 1
  end.

Definition entries_ok (l : list (lop * list obs)) (q : rq) : bool := N.eqb (entries_verdict l q) 0.

(* ---- lower_sorts / the ids of Sort, Take.sort, Window.sort and Aggregate.compute ----
   lower_sorts(by) is `by.map(|s| (s.direction, declare_as_column(s.column)))`; declare_as_columns(assigns, true) of an
   aggregate likewise hands back one id per assignment.  So the id list of
       Sort            is exactly the ids the last |by| declares handed back, in order            (suffix of the declare window)
       Aggregate       compute = the ids of the last |compute| declares, in order                 (suffix)
       Take / Window   sort = the ids of the declares of the transform's prologue (the sort the Flattener carries), which
                       follow the partition's declares and precede those of the transform itself  (contiguous infix)
   [dwindow] = per open frame, the ids declare_as_column handed back since the last transform other than a Compute was
   pushed, in order.  [sorts_verdict] replays a trace and checks the three shapes (0 = all hold; k + 1 = operation k). *)
Definition dstack := list (list cid).

Fixpoint is_prefix (a l : list cid) : bool :=
  match a, l with
  | [], _ => true
  | x :: a', y :: l' => N.eqb x y && is_prefix a' l'
  | _ :: _, [] => false
  end.

Fixpoint is_infix (a l : list cid) : bool :=
  is_prefix a l || match l with [] => false | _ :: l' => is_infix a l' end.

Definition is_suffix (a l : list cid) : bool := is_prefix (rev a) (rev l).

(* lower_sorts on the results of its declares *)
Definition lower_sorts_m (dirs : list dir) (results : list cid) : sorts := combine dirs results.

Definition sorts_check (top : list cid) (t : transform) : bool :=
  match t with
  | TSort srt => is_suffix (sorts_cids srt) top
  | TAggregate _ c => is_suffix c top
  | TTake _ _ srt => is_infix (sorts_cids srt) top
  | TCompute _ _ (Some w) _ => is_infix (sorts_cids (w_sort w)) top
  | _ => true
  end.

Definition dstep (s s' : lstate) (o : op) (ds : dstack) : option dstack :=
  match o with
  | ODeclExtern _ _ => Some ds
  | OBegin _ _ _ _ | OBeginLoop => Some ([] :: ds)
  | ODeclare node e w agg _ =>
      match lookup_node (mapping s') node with
      | Some (MCompute c) =>
          if N.eqb (next_cid s') (next_cid s) then Some (add_top [c] ds)
          else if sorts_check (top_of ds) (TCompute c e w agg) then Some (add_top [c] ds) else None
      | _ => None
      end
  | OPush t => if sorts_check (top_of ds) t then Some (reset_top ds) else None
  | OInstance _ _ _ _ => Some (reset_top ds)
  | OEndTable _ _ => Some (tl ds)
  | OEndInline _ _ _ | OEndLoop => Some (reset_top (tl ds))
  end.

Fixpoint srun (s : lstate) (ds : dstack) (l : list (lop * list obs)) (k : N) : N :=
  match l with
  | [] => 0
  | (lo, _) :: l' =>
      match elaborate s lo with
      | Some o => match step s o with
                  | Some s' => match dstep s s' o ds with
                               | Some ds' => srun s' ds' l' (k + 1)
                               | None => k + 1
                               end
                  | None => k + 1
                  end
      | None => k + 1
      end
  end.

Definition sorts_verdict (l : list (lop * list obs)) : N := srun init [] l 0.

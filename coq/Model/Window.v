(* C04 -- extension of the reference semantics Model/Rel.v for window functions.
   Rel.v (owned by C01) has the window functions of `wfn` and the frames `FNone | FRows | FRange`;
   this file adds what C04's quantifier needs on top of it, without touching Rel.v:
     - `rank_dense` (DENSE_RANK),
     - transforms whose window columns range over the extended function type (`xtransform`),
   and the pieces the C04 theorems speak about (partition/strip helpers).
   Executable definitions only -- no proofs in this file. *)
From Coq Require Import List ZArith QArith NArith Bool.
From PV Require Export Model.Rel.
Import ListNotations.
Local Open Scope Z_scope.

(* the 12 window-capable std functions of the property: sum min max average count (WAgg), lag lead
   first last rank row_number (Rel.wfn) and rank_dense *)
Inductive wfnx := WB (w : wfn) | WRankDense.

(* number of distinct sort-key classes strictly before `me` in the sorted partition p *)
Fixpoint dense_before (keys : list (bool * expr)) (me : row) (prev : option row) (p : rel) : nat :=
  match p with
  | [] => O
  | r :: t =>
      if negb (keys_le keys me r)            (* r is strictly before me *)
      then ((match prev with
             | Some q => if keys_le keys r q then O else 1%nat     (* same class as the previous row? *)
             | None => 1%nat end) + dense_before keys me (Some r) t)%nat
      else O                                   (* p is sorted: nothing further is before me *)
  end.

(* ---- range frames beyond Rel.v's domain (one ascending integer key) ----
   SPECIFICATION (the book only shows one ascending key; this is its reading "a range of VALUES relative to the current
   row's value, along the sort order", the same way `rows` counts positions along the sort order):
     bound 0        = up to / from the PEERS of the current row -- the rows equal to it under ALL sort keys; defined for
                      any number of keys, descending keys, NULL keys, and for no sort at all (every row is a peer);
     bound n <> 0   = key values up to |n| further along the order: needs exactly ONE key with integer values; along a
                      DESCENDING key "further" means smaller (range:-1..0 = values k+1 down to k);
     open bound     = the edge of the partition.
   Outside that domain (an offset with several keys or none) a range frame has no meaning: the segment is empty. *)
Definition off_from (keys : list (bool * expr)) (me r : row) (a : Z) : bool :=
  if a =? 0 then keys_le keys me r
  else match keys with
       | [(desc, ke)] => match ev me ke, ev r ke with
                         | VInt k, VInt x => if desc then x <=? k - a else k + a <=? x
                         | _, _ => false
                         end
       | _ => false
       end.
Definition off_to (keys : list (bool * expr)) (me r : row) (b : Z) : bool :=
  if b =? 0 then keys_le keys r me
  else match keys with
       | [(desc, ke)] => match ev me ke, ev r ke with
                         | VInt k, VInt x => if desc then k - b <=? x else x <=? k + b
                         | _, _ => false
                         end
       | _ => false
       end.
Definition range_segx (a b : option Z) (keys : list (bool * expr)) (p : rel) (i : nat) : list nat :=
  match nth_error p i with
  | Some me => filter (fun j => match nth_error p j with
                                | Some r => (match a with Some a => off_from keys me r a | None => true end)
                                            && (match b with Some b => off_to keys me r b | None => true end)
                                | None => false end) (seq 0 (length p))
  | None => []
  end.
Definition segx (fr : frame) (keys : list (bool * expr)) (p : rel) (i : nat) : list nat :=
  match fr with FRange a b => range_segx a b keys p i | _ => seg fr keys p i end.

(* Rel.v's win_applyf with the segment taken from segx (the frame-sensitive functions only; on Rel.v's domain the two
   agree: Proofs/WindowProofs.v segx_agrees) *)
Definition win_applyfx (fr : frame) (w : wfn) (keys : list (bool * expr)) (e : expr) (p : rel) (i : nat) : val :=
  let vals := map (fun r => ev r e) p in
  let svals := map (fun j => nth j vals VNull) (segx fr keys p i) in
  match w with
  | WAgg ASum => match non_null svals with [] => VNull | l => fold_left (arith Add) l (VInt 0) end
  | WAgg a => agg_apply a svals
  | WFirst => nth O svals VNull
  | WLast => nth (pred (length svals)) svals VNull
  | _ => win_applyf fr w keys e p i
  end.

Definition win_applyx (fr : frame) (w : wfnx) (keys : list (bool * expr)) (e : expr) (p : rel) (i : nat) : val :=
  match w with
  | WB w => win_applyf fr w keys e p i
  | WRankDense =>
      match nth_error p i with
      | Some me => VInt (Z.of_nat (S (dense_before keys me None p)))
      | None => VNull end
  end.

Definition win_colsx (fr : frame) (keys : list (bool * expr)) (cols : list (option name * wfnx * expr)) (p : rel) : rel :=
  let ps := match keys with [] => p | _ => isort (keys_le keys) p end in
  map (fun ir : nat * row =>
         fold_left (fun acc c => match c with (nm, w, e) => shadow acc (None, nm, win_applyx fr w keys e ps (fst ir)) end)
                   cols (snd ir))
      (combine (seq 0 (length ps)) ps).

(* window columns under a range frame read the generalised way (segx): descending / several / no sort keys *)
Definition win_applyxr (a b : option Z) (w : wfnx) (keys : list (bool * expr)) (e : expr) (p : rel) (i : nat) : val :=
  match w with
  | WB w => win_applyfx (FRange a b) w keys e p i
  | WRankDense => win_applyx (FRange a b) WRankDense keys e p i
  end.
Definition win_colsr (a b : option Z) (keys : list (bool * expr)) (cols : list (option name * wfnx * expr)) (p : rel) : rel :=
  let ps := match keys with [] => p | _ => isort (keys_le keys) p end in
  map (fun ir : nat * row =>
         fold_left (fun acc c => match c with (nm, w, e) => shadow acc (None, nm, win_applyxr a b w keys e ps (fst ir)) end)
                   cols (snd ir))
      (combine (seq 0 (length ps)) ps).

Inductive xtransform :=
| XT (t : transform)
| XWinF (fr : frame) (keys : list (bool * expr)) (cols : list (option name * wfnx * expr))
| XGroupWinF (by_ : list name) (fr : frame) (keys : list (bool * expr)) (cols : list (option name * wfnx * expr))
| XWinR (a b : option Z) (keys : list (bool * expr)) (cols : list (option name * wfnx * expr))
| XGroupWinR (by_ : list name) (a b : option Z) (keys : list (bool * expr)) (cols : list (option name * wfnx * expr)).

Definition applyx (t : xtransform) (l : rel) : rel :=
  match t with
  | XT t => apply t l
  | XWinF fr keys cols => win_colsx fr keys cols l
  | XGroupWinF by_ fr keys cols =>
      flat_map (fun g => map (by_first by_) (win_colsx fr keys cols (snd g))) (groups (S (length l)) by_ l)
  | XWinR a b keys cols => win_colsr a b keys cols l
  | XGroupWinR by_ a b keys cols =>
      flat_map (fun g => map (by_first by_) (win_colsr a b keys cols (snd g))) (groups (S (length l)) by_ l)
  end.

Definition runx (base : rel) (ts : list xtransform) : rel := fold_left (fun l t => applyx t l) ts base.

(* ---- helpers the C04 statements use ---- *)
Definition vals (r : row) : list val := map (fun c : col => match c with (_, _, v) => v end) r.
(* a row without its last k columns (the k window columns a window transform appended) *)
Definition strip (k : nat) (r : row) : row := firstn (length r - k) r.
Definition col_name (c : col) : option name := match c with (_, n, _) => n end.
Definition wcol_name {F} (c : option name * F * expr) : option name :=
  match c with (Some n, _, _) => Some n | (None, _, e) => None end.

(* per-group `sort | take n` written with row_number: number the rows of each sorted group, keep
   those numbered <= n (what sql/pq/preprocess.rs create_filter_by_row_number emits) *)
Definition number_rows (ps : rel) : list (nat * row) := combine (seq 0 (length ps)) ps.
Definition take_by_row_number (n : Z) (ps : rel) : rel :=
  map snd (filter (fun ir : nat * row => Z.of_nat (S (fst ir)) <=? n) (number_rows ps)).

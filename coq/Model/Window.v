(* C04 -- extension of the reference semantics Model/Rel.v for window functions.
   Rel.v (owned by C01) has the window functions of `wfn` and the frames `FNone | FRows | FRange`;
   this file adds what C04's quantifier needs on top of it, without touching Rel.v:
     - `rank_dense` (DENSE_RANK),
     - transforms whose window columns range over the extended function type (`xtransform`),
   and the pieces the C04 theorems speak about (partition/strip helpers).
   Executable definitions only -- no proofs in this file. *)
From Coq Require Import List ZArith QArith NArith Bool.
From PV Require Export Model.Rel.
Import ListNotations.
Local Open Scope Z_scope.

(* the 12 window-capable std functions of the property: sum min max average count (WAgg), lag lead
   first last rank row_number (Rel.wfn) and rank_dense *)
Inductive wfnx := WB (w : wfn) | WRankDense.

(* number of distinct sort-key classes strictly before `me` in the sorted partition p *)
Fixpoint dense_before (keys : list (bool * expr)) (me : row) (prev : option row) (p : rel) : nat :=
  match p with
  | [] => O
  | r :: t =>
      if negb (keys_le keys me r)            (* r is strictly before me *)
      then ((match prev with
             | Some q => if keys_le keys r q then O else 1%nat     (* same class as the previous row? *)
             | None => 1%nat end) + dense_before keys me (Some r) t)%nat
      else O                                   (* p is sorted: nothing further is before me *)
  end.

Definition win_applyx (fr : frame) (w : wfnx) (keys : list (bool * expr)) (e : expr) (p : rel) (i : nat) : val :=
  match w with
  | WB w => win_applyf fr w keys e p i
  | WRankDense =>
      match nth_error p i with
      | Some me => VInt (Z.of_nat (S (dense_before keys me None p)))
      | None => VNull end
  end.

Definition win_colsx (fr : frame) (keys : list (bool * expr)) (cols : list (option name * wfnx * expr)) (p : rel) : rel :=
  let ps := match keys with [] => p | _ => isort (keys_le keys) p end in
  map (fun ir : nat * row =>
         fold_left (fun acc c => match c with (nm, w, e) => shadow acc (None, nm, win_applyx fr w keys e ps (fst ir)) end)
                   cols (snd ir))
      (combine (seq 0 (length ps)) ps).

Inductive xtransform :=
| XT (t : transform)
| XWinF (fr : frame) (keys : list (bool * expr)) (cols : list (option name * wfnx * expr))
| XGroupWinF (by_ : list name) (fr : frame) (keys : list (bool * expr)) (cols : list (option name * wfnx * expr)).

Definition applyx (t : xtransform) (l : rel) : rel :=
  match t with
  | XT t => apply t l
  | XWinF fr keys cols => win_colsx fr keys cols l
  | XGroupWinF by_ fr keys cols =>
      flat_map (fun g => map (by_first by_) (win_colsx fr keys cols (snd g))) (groups (S (length l)) by_ l)
  end.

Definition runx (base : rel) (ts : list xtransform) : rel := fold_left (fun l t => applyx t l) ts base.

(* ---- helpers the C04 statements use ---- *)
Definition vals (r : row) : list val := map (fun c : col => match c with (_, _, v) => v end) r.
(* a row without its last k columns (the k window columns a window transform appended) *)
Definition strip (k : nat) (r : row) : row := firstn (length r - k) r.
Definition col_name (c : col) : option name := match c with (_, n, _) => n end.
Definition wcol_name {F} (c : option name * F * expr) : option name :=
  match c with (Some n, _, _) => Some n | (None, _, e) => None end.

(* per-group `sort | take n` written with row_number: number the rows of each sorted group, keep
   those numbered <= n (what sql/pq/preprocess.rs create_filter_by_row_number emits) *)
Definition number_rows (ps : rel) : list (nat * row) := combine (seq 0 (length ps)) ps.
Definition take_by_row_number (n : Z) (ps : rel) : rel :=
  map snd (filter (fun ir : nat * row => Z.of_nat (S (fst ir)) <=? n) (number_rows ps)).

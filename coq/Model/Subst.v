(* User functions over the expression language of Model/Rel.v (C06).
   A parameter is an UNQUALIFIED name: inside a function body `ECol None p` is parameter p when p is
   bound, exactly as PRQL resolves names (parameters shadow columns; `t.p` is never a parameter).
   - evalT      : the evaluator of Rel.v without fuel (structural); Proofs/SubstProofs.v: it agrees with
                  Rel.eval whenever the fuel covers the depth of the expression;
   - subst      : simultaneous substitution of parameters by argument expressions (beta-reduction as
                  resolver/functions.rs materialises a closure: env_of_closure + fold of the body);
   - bind       : the semantic side -- the row extended by one unqualified column per parameter;
   - func/call  : positional parameters, named parameters with defaults, piped argument.  `bindings`
                  mirrors apply_args_to_closure: named parameters first (passed value or default, both
                  resolved in the CALLER's scope), then positional arguments in order; too few / too many
                  positional arguments or an unknown named argument give None (partial application and
                  errors are not part of this model);
   - pipe       : `x | f a` is `f a x` (ast_expand.rs desugar_pipeline + FuncCall::new_simple: the piped
                  value becomes the last positional argument).
   Definitions only. *)
From Coq Require Import List ZArith QArith NArith Bool.
From PV Require Import Model.Rel.
Import ListNotations.

Fixpoint depth (e : expr) : nat :=
  match e with
  | ECol _ _ => 1
  | ELit _ => 1
  | EBin _ a b => S (Nat.max (depth a) (depth b))
  | ENeg a => S (depth a)
  | ENot a => S (depth a)
  | EIsNull a _ => S (depth a)
  | ECase cs => S ((fix go (cs : list (expr * expr)) : nat :=
                      match cs with [] => O | (c, v) :: t => Nat.max (Nat.max (depth c) (depth v)) (go t) end) cs)
  end.

Fixpoint evalT (r : row) (e : expr) : val :=
  match e with
  | ECol q n => lookup r q n
  | ELit v => v
  | ENeg a => eval_neg (evalT r a)
  | ENot a => eval_not (evalT r a)
  | EIsNull a neg => eval_isnull (evalT r a) neg
  | ECase cs =>
      (fix go (cs : list (expr * expr)) : val :=
         match cs with
         | [] => VNull
         | (c, v) :: t => match truth (evalT r c) with Some true => evalT r v | _ => go t end
         end) cs
  | EBin o a b => eval_bop o (evalT r a) (evalT r b)
  end.

(* the last binding of a name wins, on the syntactic and on the semantic side alike *)
Definition assoc_last {A : Type} (n : name) (s : list (name * A)) : option A :=
  match find (fun b : name * A => N.eqb (fst b) n) (rev s) with Some b => Some (snd b) | None => None end.

Definition binding := list (name * expr).

Fixpoint subst (s : binding) (e : expr) : expr :=
  match e with
  | ECol None n => match assoc_last n s with Some a => a | None => e end
  | ECol (Some _) _ => e
  | ELit _ => e
  | ENeg a => ENeg (subst s a)
  | ENot a => ENot (subst s a)
  | EIsNull a neg => EIsNull (subst s a) neg
  | ECase cs =>
      ECase ((fix go (cs : list (expr * expr)) : list (expr * expr) :=
                match cs with [] => [] | (c, v) :: t => (subst s c, subst s v) :: go t end) cs)
  | EBin o a b => EBin o (subst s a) (subst s b)
  end.

Definition bind (r : row) (vs : list (name * val)) : row :=
  r ++ map (fun b : name * val => (None, Some (fst b), snd b)) vs.
Definition eval_binding (r : row) (s : binding) : list (name * val) :=
  map (fun b : name * expr => (fst b, evalT r (snd b))) s.

(* does the unqualified name n occur in e *)
Fixpoint occurs (n : name) (e : expr) : bool :=
  match e with
  | ECol None m => N.eqb m n
  | ECol (Some _) _ => false
  | ELit _ => false
  | ENeg a => occurs n a
  | ENot a => occurs n a
  | EIsNull a _ => occurs n a
  | ECase cs => (fix go (cs : list (expr * expr)) : bool :=
                   match cs with [] => false | (c, v) :: t => occurs n c || occurs n v || go t end) cs
  | EBin _ a b => occurs n a || occurs n b
  end.

(* ---- user functions ---- *)
Record func := { f_params : list (name * option expr);     (* declaration order; Some d: named parameter with default d *)
                 f_body : expr }.
Record call := { c_named : list (name * expr); c_pos : list expr }.

Definition positional (f : func) : list name :=
  flat_map (fun p : name * option expr => match snd p with None => [fst p] | Some _ => [] end) (f_params f).
Definition named (f : func) : list (name * expr) :=
  flat_map (fun p : name * option expr => match snd p with Some d => [(fst p, d)] | None => [] end) (f_params f).

Definition bindings (f : func) (c : call) : option binding :=
  if Nat.eqb (length (c_pos c)) (length (positional f))
     && forallb (fun na : name * expr => existsb (N.eqb (fst na)) (map fst (named f))) (c_named c)
  then Some (map (fun nd : name * expr => (fst nd, match assoc_last (fst nd) (c_named c) with Some a => a | None => snd nd end)) (named f)
             ++ combine (positional f) (c_pos c))
  else None.

Definition beta (f : func) (c : call) : option expr :=
  match bindings f c with Some s => Some (subst s (f_body f)) | None => None end.

(* x | f named.. a..   ==   f named.. a.. x *)
Definition pipe (x : expr) (c : call) : call := {| c_named := c_named c; c_pos := c_pos c ++ [x] |}.

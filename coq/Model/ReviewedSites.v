(* C12: the panic-capable sites that /repo gained since the inventory baseline was last recorded, each restated
   with the guard that surrounds it (Model/Checked.v primitives), so that "this unwrap / index cannot fire" is a
   lemma about the restated guard (Proofs/ReviewedSitesProofs.v) and the restated text is pinned by
   Gen/GenSites.v.  One definition per site; the file grows with every re-baselining.
   Executable definitions only.

   semantic/resolver/names.rs  resolve_ident (commits d92afac, rewritten by 7f02b48): names are tried relative to the
     current module, then its parent, ...:
                          let path = self.current_module_path.clone();
                          for n in (1..=path.len()).rev() {                      -- table references
                              let rel = ident.clone().prepend(path[..n].to_vec());
                              let decls = self.root_mod.module.lookup(&rel);
                              if decls.len() == 1 { found = ..; break; } }
                          let mut res = self.resolve_ident_core(&ident.clone().prepend(path.clone()), None);
                          for n in (0..path.len()).rev() {                       -- every other name
                              if res.is_ok() { break; }
                              res = self.resolve_ident_core(&ident.clone().prepend(path[..n].to_vec()), None); }
     (7f02b48 removed the two `pop_front().1.unwrap()` of the earlier shape; the sites are now the slices `path[..n]`)
   sql/pq/preprocess.rs  only_equals (commit e9c9719):  `.. if name == "std.and" && args.len() == 2 =>
                              only_equals(&args[0]) && only_equals(&args[1])`
   sql/pq/preprocess.rs  distinct (bc8ad7d): `for (position, transform) in pipeline.clone().into_iter().enumerate()
                              { .. &pipeline[position + 1..] .. }`
   sql/pq/preprocess.rs  used_behind (21d8d82): `let mut res = vec![HashSet::new(); pipeline.len()];
                              for (position, t) in pipeline.iter().enumerate().rev() { res[position] = ..; }`
                         except / intersect: `used_behind[position]` with position from enumerate() over the same pipeline
   semantic/lowering.rs  lookup_cid (7911778): `name` was built as RelationColumn::Single(Some(..)) six lines above
                              `name.as_single().unwrap()` *)
From Coq Require Import List Arith Bool.
From PV Require Import Model.Checked.
Import ListNotations.

(* ---- Ident = path ++ [name]; prepend (prqlc-parser/src/parser/pr/ident.rs) ---- *)
Record ident (A : Type) := Ident { path : list A; name : A }.
Arguments Ident {A} path name.
Arguments path {A} i.
Arguments name {A} i.
Definition prepend {A : Type} (i : ident A) (parts : list A) : ident A := Ident (parts ++ path i) (name i).

(* the first loop of resolve_ident (table references): `found` = "lookup(&rel) has exactly one declaration";
   n runs from path.len() down to 1 *)
Fixpoint rel_lookup {A : Type} (found : ident A -> bool) (mpath : list A) (n : nat) (i : ident A) : out (option (ident A)) :=
  match n with
  | O => Ret None
  | S n' => bind (slice_to mpath n) (fun p =>
            let rel := prepend i p in
            if found rel then Ret (Some rel) else rel_lookup found mpath n' i)
  end.
Definition resolve_relative {A : Type} (found : ident A -> bool) (module_path : list A) (i : ident A) : out (option (ident A)) :=
  rel_lookup found module_path (length module_path) i.

(* the second loop (every other name): `ok` = "resolve_ident_core succeeds"; the full path first, then n from
   path.len() - 1 down to 0; the answer is the last identifier tried and whether it resolved *)
Fixpoint core_walk {A : Type} (ok : ident A -> bool) (mpath : list A) (n : nat) (i : ident A) (res : ident A * bool) : out (ident A * bool) :=
  match n with
  | O => Ret res
  | S n' => if snd res then Ret res
            else bind (slice_to mpath n') (fun p => let rel := prepend i p in core_walk ok mpath n' i (rel, ok rel))
  end.
Definition resolve_core_relative {A : Type} (ok : ident A -> bool) (module_path : list A) (i : ident A) : out (ident A * bool) :=
  let full := prepend i module_path in
  core_walk ok module_path (length module_path) i (full, ok full).

(* ---- only_equals: args[0], args[1] under args.len() == 2 ---- *)
Definition two_args {A : Type} (args : list A) : out (A * A) :=
  if Nat.eqb (length args) 2 then bind (index args 0) (fun a => bind (index args 1) (fun b => Ret (a, b))) else Fail.

(* ---- &pipeline[position + 1..] for a position produced by enumerate() over the same pipeline ---- *)
Definition slice_from {A : Type} (l : list A) (a : nat) : out (list A) := slice l a (length l).
Definition rest_behind {A : Type} (pipeline : list A) (position : nat) : out (list A) := slice_from pipeline (position + 1).

(* ---- res[position] / used_behind[position]: a table with one entry per transform, indexed by enumerate() ---- *)
Definition table_at {A B : Type} (pipeline : list A) (table : list B) (position : nat) : out B := index table position.

(* ---- RelationColumn::as_single on a value built as Single(..) ---- *)
Inductive relcol (A : Type) := Single (n : option A) | Wildcard.
Arguments Single {A} n.
Arguments Wildcard {A}.
Definition as_single {A : Type} (c : relcol A) : option (option A) := match c with Single n => Some n | Wildcard => None end.
Definition lookup_cid_name {A : Type} (v : A) : out (option A) := unwrap (as_single (Single (Some v))).
